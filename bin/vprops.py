"""Per-property configuration of bin/vcheck."""

# Axioms that may appear under Print Assumptions: all declared by Coq's standard library and reached
# through Flocq / Reals only.  Files that do not import Flocq must be closed under the global context.
ALLOWED_AXIOMS = {
    "ClassicalDedekindReals.sig_forall_dec",
    "ClassicalDedekindReals.sig_not_dec",
    "FunctionalExtensionality.functional_extensionality_dep",
    "Classical_Prop.classic",
}
GEN_TARGETS = []

BASE_TRUST = [
    "Coq 8.16.1 kernel + vm_compute (no native_compute)",
    "hand-written Gallina model, tied to /repo by differential execution (harness ddsx, checked+release builds)",
    "extraction (ExtrOcamlBasic only; N/Z/positive inductive) + OCaml 4.13.1 line driver for bulk cases; every disagreement and a sample are re-evaluated in-kernel",
    "rustc 1.95 semantics; usize = 64 bit",
]

PROPS = {
    "C20": {
        "gen": False,
        "kernel_sample": 400,
        "rule": "boundary grid (12 colours x 20 widths x 20 heights x lengths {0,1,exact-1,exact,exact+1,4096,2^32+5,2^33+4096} x ~20 pitches incl. "
                "bpr-1/bpr/bpr+1, largest fitting pitch +-1, pitches whose product with h-1 wraps 2^64) for both view types and both constructors, "
                "plus seeded random small geometries with crops (inside / touching / one past / u32-overflowing / empty); distinct = distinct case lines; read_cube_map into padded views and into crops of larger views equals the contiguous read, nothing outside changes",
        "trusted_base": BASE_TRUST,
        "assumptions": ["slices are at most isize::MAX bytes long (Rust guarantee)", "ColorFormat::bytes_per_pixel in 1..=16 (observed for all 12 formats each run)"],
    },
    "C02": {
        "gen": False,
        "kernel_sample": 300,
        "rule": "seeded generator over the property's boundary set: width/height/depth from {0..17} u {2^k-1,2^k,2^k+1 : k<32} u random, mip counts {1..40} u {254,255,256,2^32-1,...}, "
                "36 PixelInfo shapes (fixed 1..16 B, BC/ASTC block sizes 4x4..12x12, 2x1, 8x1, 15x15x255 B, bi-planar 2x2/4x1/2x1 and degenerate), DX9/DX10, "
                "{texture, 1D, array n in boundary set, cube, cube array, invalid cube, each of the 64 DX9 face sets, volume, random flag mixes}; "
                "observables: error kind or total, kind, sizes, and (offset,len) of sampled surfaces via both iteration and indexed access; "
                "an implementation-only tiling oracle walks the complete enumeration of small layouts; distinct = distinct case lines",
        "trusted_base": BASE_TRUST,
        "assumptions": ["header fields are u32 (NonZeroU32 mip count), as the Rust types guarantee"],
    },
    "C08": {
        "gen": False,
        "kernel_sample": 300,
        "rule": "exhaustive operation sequences of depth 4 (quick) / 6 (thorough) over the 7 operation kinds on 22 layouts (texture 1/3/full/over-full mips, "
                "array 0/3/2, cube, cube+mips, cube array, 8 partial cubes, 3 volumes, 1D) with one format per family rotating, plus seeded random sequences "
                "of depth 5..40 incl. wrong-size and out-of-bounds variants on all 5 formats, plus skip/rewind-only sequences on layouts above i64::MAX bytes; "
                "after every call: verdict, next surface size/len/is-mipmap, reader position, and for cube reads which cells were written with which array element; distinct = distinct case lines; non-square cube faces; cube reads into views with padded rows",
        "trusted_base": BASE_TRUST + ["the decode call itself is abstracted to 'consumes exactly the surface length' (that is C06's theorem and check)"],
        "assumptions": ["mip count is NonZeroU32 (>= 1)", "reader is an in-memory cursor: seeks fail only for amounts above i64::MAX or negative positions"],
    },
    "C06": {
        "kernel_sample": 300,
        "rule": "73 formats x seeded surfaces 1..70 (all residues of the block sizes) x full / rect (incl. empty, out-of-bounds) x 12 colours x memory limits "
                "{default, 0, 1, 1 KiB, 64 KiB, each allocation boundary -1/+0, need+1} x reader behaviours {whole, 1-byte, random short, Interrupted} x "
                "{complete data, truncated at a random offset, hard error at byte k, trailing data} x start offsets, plus for small surfaces a fault / EOF at every byte offset; "
                "observed: verdict, reader position, coalesced reader effects (skip/read amounts), heap requests >= 128 B; distinct = distinct case lines",
        "trusted_base": BASE_TRUST + ["std::io::Read::read_exact / io::copy / Seek contracts; the test reader allows seeking past the end like io::Cursor and File"],
        "assumptions": ["pixel values are outside this layer (C03-C05)", "allocation requests below 128 bytes (error values) are ignored in the comparison but bounded by an implementation-only oracle"],
    },
    "C07": {
        "kernel_sample": 300,
        "rule": "73 formats x {4096x4096, 65536x1, 1x65536, 65537x3, 3x65537, 16385x2, 70000x2, ... and seeded sizes 1..70} x full / rect x 12 colours x every memory limit in "
                "{default, 0, 1, 1 KiB, 64 KiB, each allocation boundary -1/+0, need+1}; observed: verdict, ordered heap request sizes >= 128 B of a counting global allocator, reader effects; "
                "implementation-only oracle: peak live bytes <= limit + 4 KiB and < 4 KiB of small unbudgeted requests; distinct = distinct case lines",
        "trusted_base": BASE_TRUST + ["allocator rounding / capacity growth is the runtime's; try_reserve_exact requests exactly the length"],
        "assumptions": ["big surfaces are decoded from an empty source: every allocation happens before the first read (C06_allocs_first), so the requests are still observed"],
    },
    "C11": {
        "kernel_sample": 300,
        "rule": "exhaustive call sequences of depth 4 (quick; thorough: 6) over {write right size, write wrong size, write already cancelled, toggle mipmap generation, finish} "
                "on 14 layouts (texture 1/3/full mips, arrays 0/3/2, cube +- mips, partial cube, volumes 1/3 mips, DX9 volume, 1D) x 6 formats (fixed 1/4/8 B, BC1, YUY2, NV12 with its 2x2 size multiple), "
                "both initial generate settings, plus seeded random sequences of depth 3..40; after every call: verdict, bytes in the writer, next surface size/len/is-mipmap; "
                "finished files are re-opened with Decoder (implementation-only oracle); distinct = distinct case lines",
        "trusted_base": BASE_TRUST + ["the encode call is abstracted to 'refused before the first byte (cancelled / invalid size) or writes exactly the layout length' - checked on the implementation after every call"],
        "assumptions": ["cancellation arriving during a write and writer I/O errors are outside the property (documented as leaving the writer inconsistent)"],
    },
    "C10": {
        "kernel_sample": 200,
        "rule": "14 layouts x 6 formats x seeded sizes 1..70 (all residues of the block sizes; odd sizes for NV12 in a quarter of the cases) x mip counts {1, 1..4, full chain} x volume depths 1..5 "
                "x generate on/off with toggles x parallel on/off x random call sequences ending in finish; byte count after every call vs the model; every finished file is re-opened: "
                "length = header + data length, same header, format and layout, every surface decodes, last surface ends at EOF; distinct = distinct case lines; every encodable format x all 12 input colour formats at widths 342.., 1025, 1366..; tag 54 shares the sub-sampled chunk events with C12",
        "trusted_base": BASE_TRUST + ["re-reading equality of header/format/layout and decodability of every surface are implementation-only oracles of this check (header model: C09; pixel content: C03-C05, C12)"],
        "assumptions": ["12 input colour formats x quality x dithering x metric are exercised by C12/C13/C15, not here: this check feeds RGBA_U8 at quality Fast"],
    },
    "C14": {
        "kernel_sample": 300,
        "rule": "SplitView geometry: 59 encodable formats (12 BC formats weighted 16x) x 4 qualities x 4 dithering modes x seeded sizes around the fragment thresholds 64..4096 px "
                "(just above/below, widths wider than a fragment, heights not multiples of the split height, tall 1..9-px-wide images, powers of two); observed: fragment count, single(), first row and height of sampled fragments; "
                "implementation-only oracles: all fragments consecutive, non-empty, covering the image; bytes of parallel encoding under rayon pools of 1,2,3,4,7,16 threads with hook-imposed completion orders "
                "(natural, reversed, random delays, odd/even) == sequential bytes == concatenation of the encoded fragments; distinct = distinct case lines",
        "trusted_base": BASE_TRUST + ["preferred fragment size per (format, quality) is observed through SplitView on a 1 x (2^22+8) image and regenerated every run (gen/GenFormats.v frag_table)",
                                      "rayon indexed collect preserves order; worker threads share no hidden state - exercised, not proved"],
        "assumptions": ["the picked encoder of a splittable format is local to groups of split-height rows: BC block rows (4) and dithering-free uncompressed rows (1) - exercised by the byte comparison, not proved"],
    },
    "C09": {
        "kernel_sample": 150,
        "rule": "headers built with every constructor (Header / Dx9Header / Dx10Header new_image / new_cube_map / new_volume) over all 73 formats, all valid DXGI codes x alpha modes x array sizes x 1D/2D/3D, "
                "26 FourCCs incl. unknown ones, the 19 mask rows and perturbations of them, with builder chains (with_mipmaps, with_mipmap_count, with_cube_map_faces, ...); each written and parsed strict / permissive (+- file length); "
                "plus one u32 field of the written image replaced by a boundary value (0,1,2^k,2^k-1,2^k+1,MAX), truncations, bad magic, skip_magic, and fully random raw headers; "
                "observed per case: parse verdict, parsed header, PixelInfo::from_header, Format::from_header, the bytes written back, to_dx9 / to_dx10 results, layout length; "
                "implementation-only oracle: write -> read is the identity on every constructed header; distinct = distinct case lines; skip_magic + permissive + file length on consistent, defective and small files",
        "trusted_base": BASE_TRUST + ["header tables (DXGI codes, FourCCs, mask rows, DX10->DX9 conversion rows) regenerated from /repo every run (gen/GenHeader.v); mask rows are scanned from src/detect.rs and each row re-validated against Format::from_header"],
        "assumptions": ["known findings F6a / F6b (headers the container cannot represent) are reported as KNOWN-FINDING"],
    },
    "C18": {
        "kernel_sample": 150,
        "rule": "valid headers (all 73 formats, all valid DXGI codes, FourCCs, mask rows; image / cube / volume / arrays / 1D; sizes 1..40; mip counts 1, 1..8, full chain) x each known writer defect "
                "(array size 0, 6-for-one-cube, mip count -1 / +1 / dropped / full chain declared, header size 24, pixel-format size 0 / 24, missing FourCC flag, bad alpha mode, 3D array size, array 0 combined with a mip defect) "
                "x file_len in {exact, None, +1, -1, arbitrary}, parsed permissively (and a quarter also strictly); plus every valid header parsed permissively with the exact length and with None; plus random raw headers; "
                "observed: verdict, parsed header, pixel info, format, bytes written back, layout length; distinct = distinct case lines",
        "trusted_base": BASE_TRUST + ["header tables regenerated from /repo every run (gen/GenHeader.v)"],
        "assumptions": ["the side conditions of the repair theorems (e.g. the defective header's own layout length differs from the file's) are written out in the statements"],
    },
    "C03": {
        "kernel_sample": 200,
        "harness_timeout": 3000,
        "rule": "model comparison through dds::decode on one 4x4 surface per block, U8, U16 and F32 outputs, native and RGB-only channel layouts: BC1 family colour halves - all 32x32 endpoint pairs per 5-bit channel and all 64x64 (quick: every second) per 6-bit channel in both orderings x 6 index patterns + random; "
                "BC2 alpha every nibble at every position; BC4/BC5/BC3-alpha all 256x256 endpoint pairs (quick: every 7th) x each index value at all 16 positions + random indices, both SNORM minimum codes; premultiplied (DXT2/DXT4) and RXGB variants; "
                "BC6H (UF16 and SF16): all 18 mode prefixes (10 two-region, 4 one-region, 4 reserved) x all 32 partitions x {all-zero, all-one, alternating, random, single-bit, extreme-delta} payloads at U8/U16/F32; every third block of every family also at F32 (bit patterns); BC7: every (mode, partition, rotation, index-selector) tuple x {all-zero, all-one, alternating, random, single-bit set/cleared} payloads, the reserved mode, random blocks; for BC7 the case also fails when the implementation-shaped and the specification-shaped decoder disagree on the block; distinct = distinct case lines; structured index lists (solid, solid except the anchor, two-valued, ramp) behind random endpoints for the single-subset BC7 modes and the one-region BC6H modes, constant index bits for the others",
        "trusted_base": BASE_TRUST + ["spec/SpecBC.v (nearest-rounding specification of BC1-5 palettes) and the BC7 mode table of model/BC7.v are written from the format description",
                                      "spec/SpecBC7Tables.v, spec/SpecBC6Tables.v: the BC7 partition/anchor tables and the BC6H bit layout were transcribed from the pinned commit (no independent copy of the standard is available offline); only their structure is proved (tables_structure)"],
        "assumptions": ["the blue channel that BC3_UNORM_NORMAL reconstructs with a square root is not modelled", "U16 output of the BC1-3 family and BC7 is specified as the 8-bit result widened exactly (x257), which is what the format specification's 8-bit decode followed by an exact UNORM conversion gives"],
    },
    "C04": {
        "kernel_sample": 120,
        "extra_targets": ["tests/FlocqAgreement.vo"],
        "harness_timeout": 3000,
        "rule": "model comparison through dds::decode at the native channel layout and all three precisions (F32 compared bit for bit): the 35 pixel formats - formats of <= 16 bits per pixel over every encoded value (quick: every 5th group of 16), wider ones per channel (every 8/10/11/16-bit field run through its values, f32 channels through specials, rounding boundaries of x*255+0.5 and x*65535+0.5 and random words) in 16x1 and 4x4 images; "
                "8-bit YUV (AYUV): every (luma, V) pair and every (luma, U) pair for a third (thorough: all) of the luma codes; the 7 sub-sampled formats at widths 1..10 x heights 1..3 (odd and even) with random and patterned bytes and every byte value; the 3 bi-planar formats at even sizes 2..8 x 2..6; "
                "12000 (thorough 120000) hardware f32 operations (+ - * /, int->f32, f32->u8/u16/u32 casts, min/max/clamp, comparisons on specials, subnormals, boundaries, random patterns) against the IEEE model; "
                "implementation-only oracle: all 65536 half-float codes through R16_FLOAT to U8 and U16 against exact integer arithmetic; distinct = distinct case lines",
        "trusted_base": BASE_TRUST + ["model/Float.v is an executable IEEE-754 model written for this project; it is tied to the hardware arithmetic the implementation runs on by differential execution, and agrees with Flocq's binary32 operations on an in-kernel sample of 3225 operand pairs x 5 operations (coq/tests/FlocqAgreement.v, a test; only that file depends on Flocq's classical axioms)",
                                      "model/Uncomp.v states the documented bit fields, channel orders and defaults; it is the specification of the wiring and is compared with the code on every run"],
        "assumptions": ["f32 -> U8/U16 (R32*_FLOAT) is proved for EVERY 32-bit pattern (monotone on [0, 2^40) with every decision boundary within one ULP of the ideal; 0 for negative values, -0 and NaN; maximum from 2^40 up and for +infinity); the YUV matrices off the grey axis are modelled and compared only",
                        "non-native channel layouts are C05's subject"],
    },
    "C05": {
        "kernel_sample": 60,
        "harness_timeout": 3000,
        "rule": "model comparison for all 73 formats: random surface data at sizes covering every residue modulo the block size (1..70 x 1..24), rectangles {whole, 1x1, full row, full column, random unaligned}, the 12 output colour formats, row pitch minimal or padded by 1..9 bytes, buffer offset 0..3, prefill 0x00/0xFF; "
                "the buffer left by decode_rect (and by decode for the whole-surface cases) must equal blit(prefill, crop(rect, channel_map(native -> requested)(full native decode at the same precision))) byte for byte, including every byte outside the addressed rows; "
                "wide rows (770..3100 pixels) crossing the 3072-byte conversion buffer for 12 representative formats; the reader must end exactly at the end of the surface; distinct = distinct case lines; call traces of the instrumented code paths against the line-by-line models: tag 51 block lines and ProcessBlocksFn calls (model/RectPath.v), tag 52 ProcessPixelsFn calls (model/PixelPath.v), tag 53 ProcessBiPlanarFn calls (model/BiPlanarPath.v); tall rectangles of 270..520 rows; whole-surface decodes at the format's own colour format into padded views with and without the padding behind the last row",
        "trusted_base": BASE_TRUST + ["the full decode at the format's native channel layout is taken from the implementation as the reference image (its values are the subject of C03/C04)"],
        "assumptions": ["native-layout full decodes of BC6H and ASTC are not independently modelled; for them C05 establishes only that every other way of asking agrees with that decode"],
    },
    "C12": {
        "kernel_sample": 80,
        "extra_targets": ["tests/FlocqAgreement.vo"],
        "harness_timeout": 3000,
        "rule": "model comparison of dds::encode (no dithering) for all 45 non-BC formats - the 7 sub-sampled formats at widths 1..9 (R1: 1..20) x heights 1..3 and the 3 bi-planar formats at even sizes, random channel layout / precision / content (60, thorough 400 images each); the 35 pixel formats x 4 input channel layouts x 3 precisions: every 8-bit value in every channel, 16-bit values (quick: every 37th, thorough all) plus boundaries, f32 specials (NaN, infinities, -0, subnormals, > 1, < 0, 65504), rounding boundaries (k+0.5)/max and k/max +-1 ulp for every field width, random values; "
                "implementation-only oracles over all 45 non-BC formats: lossless round trips at the native layout where every stored channel holds the input (unstored channels decode to defaults), quantisation error within half a step for UNORM/SNORM fields on random f32 input incl. values outside [0,1], "
                "and identical encoded bytes for the same pixel values carried as U8 / U16 (x257) / F32 (x/255), as GRAYSCALE / RGB / RGBA, with different row pitches and image shapes; distinct = distinct case lines; exact round trips under all four dithering modes; tag 54: chunk sequences of for_each_chunk (contiguous and padded views) and of the sub-sampled encoder against model/EncChunks.v",
        "trusted_base": BASE_TRUST + ["model/Float.v (executable IEEE-754 model, validated against the hardware by check C04)"],
        "assumptions": ["dithering is excluded by the property and not modelled", "f32 inputs into the 8- and 16-bit UNORM fields are proved for EVERY 32-bit pattern, into the 2/4/5/6/10-bit UNORM fields and the SNORM8 level for every f32 in [0, 2^40); into SNORM16, XR, float and YUV fields they are compared with the model on boundary and random values only"],
    },
    "C01": {
        "kernel_sample": 10,
        "harness_timeout": 3000,
        "rule": "implementation-only totality oracle in the debug (overflow-checked) and release builds: 150000 (thorough 3000000) generated files - valid headers from every constructor family (all DXGI codes, FourCCs, mask formats, 2D / cube / volume / array, mip chains), the same with 1-3 u32 fields set to 0/1/2^k/2^k-1/2^k+1/MAX/random, dimension fields mutated, 31 random boundary words with and without a DX10 extension, garbage of 0..160 bytes; "
                "data length = header only / cut anywhere / exactly the declared length / one short / longer / 2^10..2^45 (served as zeros by a virtual reader); ParseOptions permissive x skip_magic x file_len {None, actual, random, declared}; reader delivering 1-byte / random-length short reads and failing at a byte offset; "
                "2..11 random operations per parsed file: read_surface into one of the 12 colour formats (surfaces up to 40000 pixels), read_surface_rect of up to 9x9 at corner / far-edge / random offsets (also inside 2^32-sized surfaces), skip_surface, skip_mipmaps, rewind_to_previous_surface, rewind_to_start, layout accessors incl. out-of-range indices; "
                "violations: a panic, a call slower than 10 s, Ok returned by a call during which the reader reported an error or was asked for bytes beyond its end; plus 20000 (200000) full decodes of truncated / failing valid files that must return an I/O error; the free functions decode / decode_rect on all 73 formats with empty / tiny images and exact / short / long data; read_cube_map among the random operations",
        "trusted_base": BASE_TRUST + ["the oracle observes panics through catch_unwind and non-termination through a 10 s per-call clock; memory safety is the compiler's (the crate is safe Rust apart from the byte casts of src/cast.rs)"],
        "assumptions": ["block decoders (BC, ASTC) and pixel conversions are total functions on fixed-size inputs; their totality is exercised by the oracle, and for the modelled ones follows from the models of C03/C04 being total"],
    },
    "C15": {
        "kernel_sample": 10,
        "harness_timeout": 3000,
        "rule": "implementation-only totality oracle in the debug and release builds: all 73 formats x 1500 (thorough 20000) rounds each: sizes drawn from {0,1,2,3,4,5,7,8,9,12,13,16,17,31,33,40}^2, the 12 input colour formats, f32 content with NaN, +-inf, -0, +-1e30, subnormals, 65504, >1, <0 at rates 0, 1/2, 1/5, 1/17, "
                "quality {Fast, Normal, High, Unreasonable}, the 4 dithering modes, both error metrics, parallel on/off, writers that fail at a byte offset inside the output by returning an error or by accepting zero bytes; "
                "verdict per call: Ok with exactly PixelInfo::surface_bytes bytes written; UnsupportedFormat for formats without encoder and nothing written; InvalidSize(multiple) with nothing written exactly for sizes that are not a multiple; an I/O error when the writer failed; anything else, a panic or a call not returning within 40 s is a violation; nearly flat content (values a few ULP / codes apart); rows of 260..4100 pixels through padded and cropped views",
        "trusted_base": BASE_TRUST + ["panics are observed through catch_unwind, hangs through a watchdog thread"],
        "assumptions": ["the BC encoders' internal float code (least squares, refinement loops) is not modelled; its totality is exercised, not proved"],
    },
    "C13": {
        "kernel_sample": 10,
        "harness_timeout": 3000,
        "rule": "implementation-only oracle, debug and release builds: the 12 BC encode formats x {Fast, Normal, High, Unreasonable} x {Uniform, Perceptual} x 4 dithering modes: all 256 grey levels as single-colour blocks, random single colours on the 5:6:5 grid, blocks of two random representable colours (one block per call), checkerboards of colour pairs with equal channel sums, "
                "opaque 16-step ramps inside each block (full and low contrast), ramps with extreme alpha patterns {0,1,127,128,129,254,255}, random noise, image sizes 16x8, 7x5, 13x10 (partial edge blocks); each output is decoded with the crate's own decoder and the block bytes are inspected: "
                "representable content within the endpoint quantisation step (exactly for BC4/BC5/BC7 and BC3 alpha; BC7 two-colour blocks within 2), opaque input decodes opaque, BC1 alpha < 128 transparent and the rest opaque, BC2/BC3-family colour blocks have colour0 > colour1, BC1 three-colour blocks use index 3 only for transparent pixels; single colours under constant alpha 0..255, BC1 threshold from 16-bit / float alpha, opaque near-black pixels among bright colours; model comparison (tag 55): the pixels gathered into every 4x4 block, edge padding included, of 30 images per profile = model/EncBlocks.v",
        "trusted_base": BASE_TRUST + ["the decoder used by the oracle is the crate's own (verified against the specification by check C03)"],
        "assumptions": ["the BC encoders are not modelled; the bounds are checked on generated inputs only"],
    },
    "C16": {
        "kernel_sample": 10,
        "harness_timeout": 3000,
        "rule": "implementation-only oracle, debug and release builds, through Encoder::write_surface with automatic generation into a lossless target format of the input's precision and read back with Decoder: 40 (thorough 400) random sizes in 1..40 x 1..40 plus powers of two up to 256 and extreme aspect ratios (256x1, 1x256, 128x3, 5x200, 17x16, 31x33) x 12 colour formats x 5 filters x straight-alpha on/off x {contiguous, unaligned, row-pitched} input; "
                "exactly 32 - clz(max(w,h)) levels of size max(1, dim >> level) and no bytes after the last; a constant image (alpha 1, 0.5, and a tiny non-zero alpha) stays that colour; fully opaque stays opaque; with nearest/box/triangle every value within one unit of its channel's source range (colour of fully transparent straight-alpha pixels exempt); "
                "with straight-alpha off the colour channels do not depend on alpha; the three input layouts give identical files; generation started at a hand-written level 1 continues with levels 2..n generated from it; arrays and cube maps whose elements start generation at different levels (flat colour per element, both orders, four filters)",
        "trusted_base": BASE_TRUST + ["the resampling is done by the external `resize` crate in floating point; it is exercised, not modelled"],
        "assumptions": ["F32 results are compared with a relative tolerance of 1e-4 (constant colour) and one 16-bit unit (opacity, range)"],
    },
    "C19": {
        "kernel_sample": 150,
        "rule": "systematic sweep of headers: every valid DXGI code x 5 alpha modes, the 27 table FourCCs + 60 boundary/arbitrary u32 FourCCs, every mask row with every one-bit perturbation of its red mask, alpha mask and flags and every bit count; "
                "plus the C09 generator (constructors, mutated fields, random raw headers); observed: parse verdict, header, PixelInfo::from_header, Format::from_header, layout length; per format: bits per pixel, native colour, channels, precision; "
                "implementation-only dithering oracle: every encodable format x sizes 1..32 x 6 input colours x {None, Color, Alpha, ColorAndAlpha}: same length, unadvertised groups ignored byte-for-byte, colour-only leaves stored alpha and alpha-only leaves stored colour "
                "(decoded channel bits for uncompressed formats, block halves for BC2/BC3); distinct = distinct case lines",
        "trusted_base": BASE_TRUST + ["header and format tables regenerated from /repo every run; decode byte consumption per format is compared by check C06, encode acceptance per size by check C10"],
        "assumptions": ["dithering independence is established on the implementation (oracle), not proved: the per-channel quantisers are f32 code the model does not cover"],
    },
    "C17": {
        "kernel_sample": 100,
        "rule": "model comparison: 60 (thorough 600) parallel encodes of BC formats at sizes that split into 2..60 fragments under rayon pools of 1..8 threads: the sorted progress increments reported by the worker jobs (recovered as round(v*(h+1))) equal the sorted fragment heights of the C14 geometry model; "
                "implementation-only oracles on Encoder::write_surface_with_progress for 12 formats (one per encoder family) x {no mips, generated mips} x {sequential, parallel with 3/4/16 threads and hook-imposed completion orders}: values in [0,1], non-decreasing, 1.0 last iff Ok; "
                "cancellation before the call (Cancelled, nothing written, no report) and at every report index k (all k for <= 12 reports, else a sample): Cancelled whenever the k-th value is below 1.0; distinct = distinct case lines; the free function encode(): 14 (format, size, dithering) cases from one chunk to several report periods, cancellation before the call and at every report index (a final report of 100% is demanded of the Encoder only, see DESIGN.md A9)",
        "trusted_base": BASE_TRUST + ["real schedules, the mutex and SeqCst visibility of the cancellation flag are runtime behaviour: exercised, not proved", "f32 rounding of the reported values is outside the model (exact rationals)"],
        "assumptions": ["a cancellation requested at a report that already says 100% has no specified outcome (the documentation allows several reports of 100%): excluded from the oracle"],
    },
}
