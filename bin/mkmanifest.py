#!/usr/bin/env python3
"""Regenerates /verif/MANIFEST.json from the table below (dev tool; the manifest itself is committed)."""
import json, os
ROOT = os.path.dirname(os.path.dirname(os.path.abspath(__file__)))
ALL = ["C%02d" % i for i in range(1, 21)]

CLAIMED = {
 "C20": dict(
  text="Coq theorems over unbounded N for every buffer length, pitch, size and bytes-per-pixel: constructors return a view iff the geometry is addressable (no overflow possible), rows/rows_mut are exactly h slices of w*bpp bytes at multiples of the pitch (also empty views), crop addresses exactly the sub-rectangle and rejects others. Model tied to src/lib.rs by differential execution on the property's boundary grid (1.4M cases per run, checked and release builds).",
  ref="DESIGN.md §6 C20",
  note="Trusted: Coq kernel; the hand-written model of src/lib.rs (ImageView/ImageViewMut new, new_with, cropped, rows, rows_mut, is_contiguous) whose agreement with the code is checked by differential execution, not proved; slices <= isize::MAX; usize = 64 bit. cropped_data/get_row/get_row_range are crate-private and modelled but reached only through C05/C08 checks.",
  tech="Coq proof (lia/nia over N) + model-vs-implementation differential execution"),
 "C02": dict(
  text="Coq theorems, for every u32 width/height/depth, every mip count, array size, caps2 word and every PixelInfo shape with block dims 1..15 (a superset of the crate's tables): from_header_with equals 'which object the header describes' + 'does the exact total fit in u64'; on success the code's own iterators (every unwrap, debug_assert and unchecked u64 operation modelled as a possible failure) enumerate exactly the DDS rule's surface list, which starts at 0, is contiguous and sums to the reported total < 2^64; rejection iff the exact total does not fit; indexed access = iteration. Induction over the level list, no enumeration. Model tied to src/layout.rs, src/pixel.rs, src/util.rs by differential execution over the property's boundary set (120k headers per quick run, both build profiles) plus an implementation-only tiling oracle.",
  ref="DESIGN.md §6 C02",
  note="Trusted: Coq kernel; hand-written model of layout.rs / PixelInfo::surface_bytes / get_mipmap_size (agreement with the code checked by differential execution, not proved); header fields are u32 / NonZeroU32 as the Rust types guarantee; usize = 64 bit.",
  tech="Coq proof (induction over mip levels, lia/nia) + model-vs-implementation differential execution"),
 "C08": dict(
  text="Coq refinement theorem: for every header yielding a layout (texture, array, cube map, cube array, partial cube map, volume) and EVERY operation sequence (unbounded length, 7 operation kinds incl. cube reads with wrong-size variants), the modelled Decoder never panics and proceeds in lock step with a cursor over C02's flattened surface list: same verdict, same next surface (size, length, level), same reader position, rejected calls move nothing, cube reads write exactly the predicted cells; I/O refusals need a data section above i64::MAX. The same theorem is proved for volumes (VolumeSurfaceIterator, cursor = (level, depth)). Model tied to src/iter.rs + src/decoder.rs by exhaustive depth-4 (thorough: depth-6) operation sequences on 22 layouts plus random deep sequences, compared after every call.",
  ref="DESIGN.md §6 C08",
  note="The decode call inside read_surface is abstracted to 'consumes exactly the surface length' (C06). Trusted: Coq kernel; hand-written model of iter.rs/decoder.rs tied by differential execution; in-memory cursor semantics of Seek.",
  tech="Coq proof (simulation by induction over the operation list) + model-vs-implementation differential execution of operation sequences"),
 "C06": dict(
  text="Coq theorems about the I/O script of every decode entry (full / rect, pixel / block / bi-planar families, fast paths, empty rects), for every pixel-info shape with block dims 1..15, every surface size, rectangle, memory limit and reader state: a successful decode moves the reader by exactly the surface's encoded length (the C02 rule); a decode refused with a non-I/O error (memory limit, rect out of bounds) leaves the reader untouched because every allocation precedes the first reader effect; a run is Ok only if every read was served in full. The scripts are tied to src/decode/{mod,decoder,read_write}.rs by differential execution: for 73 formats x sizes x rects x colours x memory limits x reader behaviours x faults the observed verdict, position, coalesced skip/read amounts and heap request sizes equal the model's.",
  ref="DESIGN.md §6 C06",
  note="Trusted: Coq kernel; hand-written script model tied by differential execution (not proved); per-format geometry and fast-path table regenerated from /repo on every run (gen/GenFormats.v); std::io contracts of read_exact / io::copy / Seek; pixel values are outside this layer. 'Whatever the chunking' is established by running each case under four reader chunking styles, not by proof.",
  tech="Coq proof (effect-script model, induction over scripts, lia/nia) + model-vs-implementation differential execution with recording reader and counting allocator"),
 "C07": dict(
  text="Coq theorems about the same decode scripts: along every run the bytes allocated never exceed the configured limit (budget accounting invariant); a request is refused with the memory-limit error iff its need exceeds the limit; closed form of the need per family (one line buffer of at most max(64 KiB, one line); one row for pixel rects; plane 1 of the rows read + a line buffer for bi-planar formats; nothing on fast paths); with the default limit every row of the implementation's current 73-format table decodes at 4096x4096 (finite, by computation on the regenerated table). Tied to the code by a counting global allocator: ordered request sizes >= 128 B, verdicts and peak live bytes for sizes up to 4096x4096 and 65536x1 / 1x65536 at every allocation-boundary limit.",
  ref="DESIGN.md §6 C07",
  note="Partial in one respect: the claim that ONLY budgeted sites allocate is checked on the implementation (peak live bytes <= limit + 4 KiB, < 4 KiB of small requests, request list equal to the model's), not proved; astc-decode / std internals are runtime. Trusted: Coq kernel; script model tied by differential execution; allocator rounding is the runtime's.",
  tech="Coq proof (budget invariant over effect scripts; finite table theorem by vm_compute) + counting-allocator differential execution"),
 "C11": dict(
  text="Coq refinement theorem: for every header that yields a layout (textures, arrays, cube maps, partial cubes, volumes), every header length, size multiple and EVERY call sequence (unbounded) of write (right / wrong size / already cancelled), toggle-generation and finish, the modelled Encoder never panics, returns exactly the verdict of a cursor over C02's flattened surface list (TooManySurfaces iff at the end, MissingSurfaces from finish iff not at the end, refusals exactly for refused calls), after every call - also a failed one - has written header + layout offset of the surface it reports as next, a call that does not move the cursor changes nothing, generation passes the remaining levels of the current texture (stopping AT the first level the format refuses), volumes never get generated mipmaps. Model tied to src/encoder.rs + src/iter.rs by exhaustive depth-4 (thorough: 6) call sequences on 14 layouts x 6 formats plus random deep sequences, compared after every call.",
  ref="DESIGN.md §6 C11",
  note="The encode call is abstracted (refused before the first byte, or writes exactly the layout length): that abstraction is checked on the implementation after every call, not proved. Cancellation during a write and writer I/O errors are outside the property. Trusted: Coq kernel; hand-written model tied by differential execution.",
  tech="Coq proof (simulation by induction over the call list, reusing the C08 iterator refinement) + differential execution of call sequences"),
 "C10": dict(
  text="Coq theorems: whenever the modelled Encoder is at the end of the layout - the only state in which finish succeeds (C11) - it has written exactly header length + the layout's data length; every accepted surface advances the byte count by exactly its layout length; the data length is the end of the last surface of C02's tiling. The check runs the real Encoder over 14 layouts x 6 formats x sizes 1..70 x mip settings x generation toggles x parallel on/off, compares the byte count after every call with the model and re-opens every finished file (same header, format, layout; every surface decodes; EOF at the end of the last surface).",
  ref="DESIGN.md §6 C10",
  note="Partial: that the file re-reads to the same header/format/layout and that every surface decodes are implementation-only oracles here (the header round trip is C09's theorem, pixel content C03-C05/C12); the length accounting is proved on the model and compared call by call. Only RGBA_U8 input at quality Fast is fed here; the other input colours / qualities / dithering are exercised by C12-C15.",
  tech="Coq proof (corollaries of the C11 invariant and C02 tiling) + differential execution with re-opening of every finished file"),
 "C14": dict(
  text="Coq theorems: for every image size < 2^32, split height <= 255, preferred fragment size and dithering combination, the fragments of a split view are rows [i*fh, min((i+1)*fh, h)), non-empty, consecutive from 0 to h, computed without u32 overflow, all but the last of exactly the full fragment height which is a multiple of the split height; no split happens when non-local dithering applies; for any encoder that is local to groups of split-height rows, cutting at multiples of the group height commutes with encoding, hence the index-ordered collection of encoded fragments (the result of encode_parallel is a function of the index-ordered list only, whatever the completion order) equals the sequential encoding. The geometry model is tied to src/split.rs by differential execution over sizes around the fragment thresholds; byte equality parallel == sequential == fragment-wise is checked on the implementation under rayon pools of 1..16 threads with hook-imposed completion orders.",
  ref="DESIGN.md §6 C14",
  note="Partial: that rayon's indexed collect preserves order, that worker threads share no hidden state, and that each picked encoder really is local to split-height row groups are runtime / implementation facts exercised by the byte comparison, not proved. Preferred fragment sizes are observed through the public SplitView API on every run. Trusted: Coq kernel; hand-written geometry model tied by differential execution; hook H1 (cfg(dds_verif)) only adds delays.",
  tech="Coq proof (arithmetic of the split + list lemma on group-local encoders) + differential execution + schedule-perturbed byte comparison"),
 "C09": dict(
  text="Coq theorems over symbolic u32 fields: RawHeader read/write is the identity on every 124/144-byte image (bit-for-bit, rest untouched) and on every raw header whose DX10 extension is present iff FOURCC+'DX10' is set; every well-formed header is written as magic + 124 (+20) bytes and reads back equal in strict and permissive mode; everything strict parsing returns is well-formed, hence parsing is a normalisation; constructors and the size/dimension/mipmap builders yield well-formed headers (the two unrepresentable classes F6a/F6b are refuted with witnesses and listed as known findings); DX9<->DX10 conversion keeps dimensions and mip count, keeps the pixel layout for every row of the implementation's current tables (finite, by computation on the regenerated tables) and keeps the data layout for 2D, cube and volume resources. The model is tied to src/header.rs by differential execution on 10k+ byte images per run (parse result, detected pixel info and format, bytes written back, conversions).",
  ref="DESIGN.md §6 C09",
  note="Trusted: Coq kernel; hand-written model of header.rs tied by differential execution; tables regenerated from /repo each run (DXGI/FourCC/conversion rows through the public API, mask rows by a source scan that re-validates each row against Format::from_header). Builder methods that only set a field (with_array_size, with_alpha_mode, with_pixel_format, ...) are covered by the wf predicate, not individually modelled. Known findings F6a, F6b.",
  tech="Coq proof (record/bit-flag reasoning, lia for little-endian bytes, finite table theorems by vm_compute) + differential execution on byte images"),
 "C18": dict(
  text="Coq theorems over symbolic u32 fields: without a file length permissive parsing returns exactly what strict parsing accepts; a header consistent with the supplied file length parses to the strict result; the result of the length-based repair is the header itself, or the header with array_size 0->1, or a header whose layout length equals the file's data length exactly; each known defect (array size 0, 6 for one cube, mip count off by one / dropped / full chain) applied to a consistent header is repaired to a layout of exactly the file's data length, with the side conditions written out (which original mip counts the four guesses reach); the size / flag leniencies (header size 24, pixel-format size 0/24, missing FourCC flag, bad alpha mode, 3D array size) parse to what the clean header parses to. Model tied to src/header.rs + src/layout.rs by differential execution on 14k+ defective / consistent / random headers per run.",
  ref="DESIGN.md §6 C18",
  note="Trusted: Coq kernel; hand-written model of Header::from_raw / fix_based_on_file_len tied by differential execution; layouts through the C02 model; tables regenerated from /repo. The defect theorems carry explicit hypotheses (the defective header's own layout must not already match the length; array_size not 0 for the mip repairs).",
  tech="Coq proof (case analysis over the ordered repair attempts; find/filter lemmas) + differential execution on defect-injected headers"),
 "C03": dict(
  text="Coq theorems for every block: BC1 palettes (both modes, mode chosen by endpoint order only for BC1; BC2/BC3 always four colours) have every channel of every entry equal to the exact 2/3-1/3 or 1/2-1/2 interpolation of the 5/6-bit fields rounded to the nearest 8-bit value; BC4/BC5/BC3-alpha palettes (UNORM and SNORM with both minimum codes = -1, 6- or 4-interpolant mode by endpoint order) are the exact interpolation rounded to nearest at 8 and 16 bits; BC2 alpha and the 16-bit widening are exact; pixel selection reads the documented index bits. BC7: for every 16-byte block the decoder as implemented (promote, decompress_single_index + get_index on a u64, x4 weights, tables regenerated from the source on every run) equals a specification-shaped decoder (mode table, bit replication, indices read one by one with anchors one bit narrower, ((64-w)e0 + w e1 + 32) >> 6, frozen tables), interpolation is the exact weighted average rounded to nearest and never wraps u16, reserved mode gives zeros. BC6H: an integer model of the whole decoder whose bit layout is regenerated from the source and proved equal to the frozen specification table, itself structurally checked (every bit of every endpoint component assigned exactly once with the mode's widths; header lengths), reserved modes zero, interpolation nearest. F32 outputs of all families are modelled over the IEEE model of C04 and compared bit for bit. Tied to the code by differential execution of dds::decode against the extracted model on exhaustive-by-decomposition block families (100k blocks per run).",
  ref="DESIGN.md §6 C03",
  note="Partial: the blue channel BC3_UNORM_NORMAL reconstructs (square root) is not modelled; for BC6H the implementation-shaped decoder is proved equal to the same decoder over the frozen specification tables with sequential index reads (the arithmetic of unquantisation and interpolation is shared). Found and repaired F7 (BC3 three-colour mode) and F15 (BC4/BC5 F32 interpolants one ULP off). The BC7 partition tables and the BC6H bit layout of the specification were transcribed from the pinned commit (no independent copy offline) - their structure is proved and any later change of the source tables breaks tables_tie and the correspondence. Trusted: Coq kernel, extraction, the harness, the specification files spec/SpecBC.v and spec/SpecBC7Tables.v.",
  tech="Coq proof (finite sweeps lifted by lemma for the integer finalisers, div/mod bit-field lemmas and induction over pixels for the BC7 index stream) + differential execution"),
 "C04": dict(
  text="Coq theorems over the whole input domain of each conversion: UNORM fields of 1..16 bits to 8/16-bit outputs are v/(2^n-1) rounded to nearest; SNORM bytes/words treat both minimum codes as -1 and round to nearest; XR bias is (x-0x180)/510 clamped and rounded; every F32 output of a UNORM/SNORM/XR field is the correctly rounded quotient (nearest binary32) for all codes incl. all 65536 16-bit ones; half, 11-bit, 10-bit and shared-exponent floats are exact at F32 and clamp01(value)*max rounded to nearest at 8/16 bits. Bit fields, channel order, defaults and chroma pairing of all 45 formats are stated in model/Uncomp.v and compared with dds::decode bit for bit at U8/U16/F32; the float arithmetic is an executable IEEE model compared with the hardware operations.",
  ref="DESIGN.md §6 C04",
  note="Partial: f32 inputs (R32*_FLOAT to U8/U16) and the BT.601 YUV matrices are modelled and compared on boundary and random inputs but have no rounding theorem; the IEEE model is validated by differential execution, not derived from Flocq. Found and repaired F10 (XR bias F32 one ULP off) and F12 (R9G9B9E5 to U16 off by one); F11 (half codes 0x3801-0x3804 to U16 off by one) is a known finding with a refutation lemma.",
  tech="Coq proof (exhaustive finite sweeps by vm_compute lifted by lemma, executable IEEE-754 model) + differential execution + exact-arithmetic oracle"),
 "C05": dict(
  text="Coq theorems about what the property means: the documented channel mapping is coherent (every conversion equals the conversion through RGBA; identity is the identity; lengths), a rectangle is the corresponding crop (pixel (i,j) of the rect at (x,y) is pixel (x+i,y+j); crops compose), per-pixel conversions commute with cropping, placing rows in a buffer with a row pitch leaves every byte outside the addressed rows unchanged and makes the addressed bytes independent of the previous contents, and in a block format a pixel depends only on the bytes of its own block. The implementation (decode_rect and decode for all 73 formats x 12 colour formats x rectangles x pitches x offsets x prefills) is compared byte for byte with blit(prefill, crop(rect, map chmap (native full decode))).",
  ref="DESIGN.md §6 C05",
  note="Partial: the rectangle code paths of src/decode/read_write.rs (skip arithmetic, block ranges, width offsets, the 3072-byte conversion buffer) are not modelled line by line; they are compared against the specification-level model on generated inputs. The native-layout full decode is the reference image (verified by C03/C04 for the modelled formats, taken as is for BC6H/ASTC).",
  tech="Coq proof (list lemmas, induction over rows) + differential execution against the specification-level model"),
 "C12": dict(
  text="Coq theorems over whole input domains: every 8-bit value is stored exactly by 8/10/16-bit UNORM, half, f32 and shared-exponent fields (decoding at 8 bits returns it) and widened exactly into 16-bit fields; every 16-bit value is stored exactly by 16-bit UNORM and f32 fields; into narrower UNORM/SNORM/XR fields every 8-bit and every 16-bit value receives the nearest code (exactly nearest except 45772 into 10 bits and 43733 into SNORM8, where f32 double rounding gives an error of 0.50003 of a step - stated with that slack and invisible at 16-bit comparison). The encoder model (universal path: input to four f32 channels, from_f32 quantisers, bit packing of the 35 pixel formats, macro-pixel averaging of the 7 sub-sampled formats, planes and 2x2 chroma means of the 3 bi-planar formats) is compared byte for byte with dds::encode, which also establishes that the copy / colour-convert / universal variants agree.",
  ref="DESIGN.md §6 C12",
  note="Partial: f32 inputs are compared with the model on boundary/special/random values but have no rounding theorem; dithering is excluded by the property; the sub-sampled and bi-planar encoders are modelled and compared but have no bound theorem (the documented YUV bound is checked by oracle).",
  tech="Coq proof (exhaustive finite sweeps over an executable IEEE-754 model) + differential execution + round-trip/independence oracles"),
 "C01": dict(
  text="Coq theorems on models in which every unwrap, debug assertion and unchecked u64 operation of the layout code is a possible failure: for every u32 x u32 surface the inner products of the byte-length computation fit u64 and the length is the rule's value or None exactly on overflow; deriving the layout of ANY header equals 'which object is described' + 'does the total fit in u64' (so the only failures are the documented errors); when a layout is produced all its iterators and accessors succeed below 2^64; every header the parser accepts is well-formed with fields below 2^32; a full decode of a non-empty surface from a reader that is too short or fails before the end of the surface never returns Ok, and non-I/O errors leave the reader in place. The implementation is exercised by a totality oracle on generated hostile files (debug and release builds).",
  ref="DESIGN.md §6 C01",
  note="Partial: absence of panics in the Rust code itself (indexing, slicing, casts in the pixel paths) is established by the oracle on generated inputs, not proved; the theorems cover the arithmetic and protocol logic that the models carry. Non-termination is observed only as a 10 s per-call timeout.",
  tech="Coq proof (checked-arithmetic refinement, induction over effect scripts) + implementation-only totality oracle (catch_unwind, debug+release)"),
 "C15": dict(
  text="Coq theorems over an executable IEEE-754 model: Rust's saturating float-to-integer casts return a value in [0, max] for EVERY float (NaN, infinities, negative, huge, subnormal); clamp_0_1 maps every float, NaN included, to a non-NaN value in [0, 1]; in the encoder state machine a format with a size multiple refuses other sizes before anything is written or the cursor moves. The implementation is exercised by a totality oracle over all 73 formats x sizes 0..40 x float specials x 12 colour formats x quality x dithering x metric x parallel x failing writers (error or zero-length write at byte k), in the debug and release builds.",
  ref="DESIGN.md §6 C15",
  note="Partial: the theorems cover the conversion primitives and the size-refusal protocol; the absence of panics and hangs inside the BC encoders' float code is established by the oracle only (bounded loops are not modelled).",
  tech="Coq proof (case analysis over the float representation, Z arithmetic) + implementation-only totality oracle (catch_unwind, watchdog, debug+release)"),
 "C13": dict(
  text="Coq theorems over the decoder model of C03 explaining why the emitted-block conditions make blocks portable: a colour block with colour0 > colour1 decodes identically under a mode-selecting (BC1-rule) and an always-four-colour decoder; in the three-colour mode decoders that differ in the meaning of index 3 agree on every block that does not use it; and the cause of finding F13 (the covariance of a two-colour block with equal channel sums annihilates the power-iteration start vector). The encoders' outputs are checked by an oracle over the 12 BC encode formats x 4 qualities x 2 metrics x 4 dithering modes on single colours, two representable colours, ramps, alpha patterns, noise and partial blocks: quantisation bounds, opacity, BC1 transparency threshold, colour0 > colour1, index-3 usage.",
  ref="DESIGN.md §6 C13",
  note="Partial: the BC encoders (line fits, refinement, float code) are not modelled - the bounds are established on generated inputs by the oracle. Known findings: F13 (two colours with equal channel sums collapse to one colour under the Uniform metric at every quality) and F14 (Fast quality exceeds the quantisation step on two-colour blocks).",
  tech="Coq proof (decoder-model lemmas, ring arithmetic) + implementation-only encode/decode oracle"),
 "C16": dict(
  text="Coq theorems: level l of a dimension d has size max(1, d >> l) and the chain reaches 1 exactly at level log2 d (so a full chain has log2(max(w,h)) + 1 levels); for ANY filter whose outputs are rounded weighted means with non-negative weights (nearest, box, triangle) every output lies within the range of its inputs exactly, hence a constant channel stays constant and a fully opaque alpha stays opaque. The implementation (Encoder with automatic generation, all 12 colour formats, 5 filters, straight alpha on/off, aligned/unaligned/strided input) is checked by an oracle on level count and sizes, constant colour, opacity, range, channel independence, layout independence and generation started at a hand-written level.",
  ref="DESIGN.md §6 C16",
  note="Partial: the resampling kernels (external `resize` crate, f32) and the premultiply/unpremultiply steps are not modelled; the flat-colour, opacity and range clauses are proved for the mathematical filter class and checked on the implementation by the oracle. Mitchell and Lanczos3 have negative lobes, so only the constant-colour and opacity clauses apply to them, as the property says.",
  tech="Coq proof (N/Z arithmetic, induction over weight lists) + implementation-only oracle"),
 "C19": dict(
  text="Coq theorems over the implementation's regenerated tables: for every header from which a format is detected (all valid DXGI codes x alpha modes incl. the premultiplied special cases, every FourCC, every mask pixel format; all other fields symbolic) the pixel layout derived from the header equals the pixel layout of the detected format, so layouts computed with or without a decoder coincide; every implemented format's pixel layout is within the bounds the layout/script theorems assume; size multiples are advertised exactly for the bi-planar formats and equal their sub-sampling; advertised bits per pixel are exact for fixed-size pixels and an upper bound per whole block otherwise. Observed behaviour is tied to the tables by differential execution: header detection sweep here, bytes consumed by decoding in C06, sizes accepted by encoding in C10. The dithering clauses are checked by an implementation-only oracle over all encodable formats.",
  ref="DESIGN.md §6 C19",
  note="Partial: the dithering clauses (acts only where advertised and requested; colour-only leaves stored alpha, alpha-only leaves stored colour) are decided by an oracle on the real encoder outputs, not by a theorem - the quantisers are f32 code outside the model; the internal Flags bit values (DITHER_ALPHA = 0x16) are not observable through the public API and are not modelled. Trusted: Coq kernel; tables regenerated from /repo through the public API and a validated source scan.",
  tech="Coq proof (symbolic case analysis + finite table theorems by vm_compute on regenerated tables) + differential execution + dithering oracle"),
 "C17": dict(
  text="Coq theorems in exact rational arithmetic: for ANY order in which the fragment jobs finish (any permutation of the fragment heights, each submit atomic) the shared progress counter strictly increases within [1, h] and every worker report lies strictly between 0 and 1, so 100% is only reported by the explicit final report; projected reports stay inside their (nested) range and are monotone; the per-mip-level ranges 1-0.4^l .. 1-0.4^(l+1) tile [0,1) so reports of later levels never fall below earlier ones; because the Encoder call ends with checked_report(1.0), a cancellation requested at any earlier report makes the call return Cancelled, and a pre-cancelled call whose first event is the entry check writes nothing. The parallel path is tied to the code by comparing the observed worker increments with the fragment heights of the C14 model; the remaining clauses are implementation-only oracles under imposed completion orders and cancellation at every report index.",
  ref="DESIGN.md §6 C17",
  note="Partial: real thread schedules, the mutex and the visibility of the cancellation flag are runtime behaviour (exercised under hook-imposed orders, not proved); reported values are exact rationals in the model, f32 rounding is excluded as the property allows; the per-encoder report points of the sequential encoders are not modelled (their sequences are checked by the oracle only). Cancellation requested at a report that already says 100% is unspecified and excluded.",
  tech="Coq proof (list/permutation lemmas, rational arithmetic with nra, trace induction) + differential execution of worker increments + cancellation/monotonicity oracles"),
}
WIP = "check not built yet (work in progress, see DESIGN.md §10 staging); proof applies and is planned"

def main():
    checks = []
    for pid in ALL:
        if pid not in CLAIMED: continue
        c = CLAIMED[pid]
        checks.append({
            "property_id": pid,
            "quick_cmd": f"bin/vcheck {pid} --tier quick",
            "thorough_cmd": f"bin/vcheck {pid} --tier thorough",
            "evidence_file": f"evidence/{pid}.json",
            "replay_cmd_template": f"bin/vcheck {pid} --replay {{path}}",
            "engine": "coq",
            "level_claimed": {"category": "proof", "text": c["text"], "design_ref": c["ref"]},
            "level_note": c["note"],
            "technique": c["tech"],
        })
    claimed = sorted(CLAIMED)
    m = {
        "version": 1,
        "setup_cmd": "bin/setup",
        "hooks": {
            "guard": "dds_verif",
            "enable": "RUSTFLAGS=\"--cfg dds_verif\" (set in harness/.cargo/config.toml; the harness crate depends on /repo by path)",
            "baseline_off_cmd": "cd /repo && cargo test --workspace --no-fail-fast --offline",
            "source_commits": HOOK_COMMITS,
            "add_only": True,
        },
        "engines": [
            {"name": "coq", "path": "coq/", "serves_properties": claimed,
             "kind_free_text": "Coq 8.16.1 development: base/, model/, spec/, proofs/, props/ (property theorems), gen/ (regenerated tables), extract/"},
            {"name": "ddsx", "path": "harness/", "serves_properties": claimed,
             "kind_free_text": "Rust correspondence harness running the real crate (path dep on /repo, --cfg dds_verif) in checked and release builds"},
            {"name": "runner", "path": "runner/", "serves_properties": claimed,
             "kind_free_text": "OCaml driver around the extracted model (ExtrOcamlBasic only) for bulk differential runs"},
            {"name": "vcheck", "path": "bin/vcheck", "serves_properties": claimed,
             "kind_free_text": "driver: theorems + Print Assumptions allow-list + forbidden-token scan + correspondence + evidence"},
        ],
        "checks": checks,
        "not_applicable": [{"property_id": p, "reason": NA.get(p, WIP)} for p in ALL if p not in CLAIMED],
        "notes": "All checks share bin/vcheck; see DESIGN.md. known_findings.json lists repaired defects (fixed:) and open findings.",
    }
    with open(os.path.join(ROOT, "MANIFEST.json"), "w") as f:
        json.dump(m, f, indent=1)
    print("claimed:", claimed)

HOOK_COMMITS = ["9e46b42"]
NA = {}
if __name__ == "__main__":
    main()
