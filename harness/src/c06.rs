//! C06 / C07: stream-position contract and memory budget of dds::decode / dds::decode_rect.
//! tag 6, args [fmt; colour; isrect; W; H; ox; oy; w; h; limit; datalen; fault (-1 = none); start]
//! observed: [outcome (0 ok, 1 memory limit, 2 io, 3 rect out of bounds, 9 other, -2 panic);
//!            reader position relative to start (-1 after an I/O error);
//!            #allocs >= 128 B; sizes...;  #coalesced reader effects (-1 after an I/O error); (kind 1 skip / 2 read, n)...]
//! The reader is an in-memory style Read+Seek (seeking past the end allowed) over `datalen` zero bytes
//! that fails every read touching byte offset >= fault, and serves reads in one of four chunking styles.
use crate::allocrec;
use crate::formats::*;
use crate::util::*;
use dds::*;
use std::io::{self, Read, Seek, SeekFrom};

pub const NOISE: usize = 128;

pub struct TestReader {
    pub len: u64, pub pos: u64, pub fault: Option<u64>, pub mode: u8, pub rng: Rng,
    pub effects: Vec<(u8, u64)>, pub interrupted_next: bool,
}
impl TestReader {
    pub fn new(len: u64, start: u64, fault: Option<u64>, mode: u8, seed: u64) -> Self {
        TestReader { len, pos: start, fault, mode, rng: Rng::new(seed), effects: Vec::with_capacity(1 << 14), interrupted_next: false }
    }
    fn note(&mut self, kind: u8, n: u64) {
        if n == 0 { return; }
        if let Some(last) = self.effects.last_mut() { if last.0 == kind { last.1 += n; return; } }
        if self.effects.len() < self.effects.capacity() { self.effects.push((kind, n)); }
    }
}
impl Read for TestReader {
    fn read(&mut self, buf: &mut [u8]) -> io::Result<usize> {
        if buf.is_empty() { return Ok(0); }
        if self.mode == 3 {
            // every other call is interrupted (read_exact must retry)
            self.interrupted_next = !self.interrupted_next;
            if self.interrupted_next { return Err(io::Error::from(io::ErrorKind::Interrupted)); }
        }
        if let Some(k) = self.fault { if self.pos >= k { return Err(io::Error::from(io::ErrorKind::Other)); } }
        let avail = self.len.saturating_sub(self.pos);
        let mut n = (buf.len() as u64).min(avail);
        if let Some(k) = self.fault { n = n.min(k - self.pos); }
        n = match self.mode { 1 => n.min(1), 2 => if n > 1 { 1 + self.rng.below(n) } else { n }, _ => n };
        for b in &mut buf[..n as usize] { *b = 0; }
        self.pos += n;
        self.note(2, n);
        Ok(n as usize)
    }
}
impl Seek for TestReader {
    fn seek(&mut self, p: SeekFrom) -> io::Result<u64> {
        let new = match p {
            SeekFrom::Start(x) => Some(x),
            SeekFrom::Current(d) => if d >= 0 { self.pos.checked_add(d as u64) } else { self.pos.checked_sub(d.unsigned_abs()) },
            SeekFrom::End(d) => if d >= 0 { self.len.checked_add(d as u64) } else { self.len.checked_sub(d.unsigned_abs()) },
        };
        match new {
            None => Err(io::Error::from(io::ErrorKind::InvalidInput)),
            Some(x) => {
                if x > self.pos { let d = x - self.pos; self.note(1, d); } else if x < self.pos { self.note(3, self.pos - x); }
                self.pos = x;
                Ok(x)
            }
        }
    }
}

#[derive(Clone, Copy, Debug)]
pub struct Case {
    pub fmt: usize, pub color: usize, pub rect: bool, pub sw: u32, pub sh: u32, pub ox: u32, pub oy: u32, pub w: u32, pub h: u32,
    pub limit: usize, pub datalen: u64, pub fault: Option<u64>, pub start: u64, pub mode: u8,
    /// extra bytes between the rows of the output view (not an argument of the model: no observable may depend on it)
    pub pad: usize,
}
impl Case {
    pub fn args(&self) -> Vec<i128> {
        vec![self.fmt as i128, self.color as i128, self.rect as i128, self.sw as i128, self.sh as i128, self.ox as i128, self.oy as i128,
             self.w as i128, self.h as i128, self.limit as i128, self.datalen as i128, self.fault.map(|x| x as i128).unwrap_or(-1), self.start as i128]
    }
}

pub struct Obs { pub line: Vec<i128>, pub all_allocs: Vec<usize>, pub peak: isize, pub outcome: i128 }

pub fn observe(c: &Case, buf: &mut Vec<u8>) -> Obs {
    let (format, _) = FORMATS[c.fmt];
    let color = COLORS[c.color];
    let (iw, ih) = if c.rect { (c.w, c.h) } else { (c.sw, c.sh) };
    let row = iw as usize * color.bytes_per_pixel() as usize;
    let pitch = row + c.pad;
    let need = if c.pad == 0 || ih == 0 { row * ih as usize } else { pitch * (ih as usize - 1) + row };
    if buf.len() < need { buf.resize(need, 0); }
    let mut rd = TestReader::new(c.datalen, c.start, c.fault, c.mode, c.datalen ^ 0x5a5a);
    let mut opts = DecodeOptions::default();
    opts.memory_limit = c.limit;
    let view = if c.pad == 0 { ImageViewMut::new(&mut buf[..need], Size::new(iw, ih), color) } else { ImageViewMut::new_with(&mut buf[..need], pitch, Size::new(iw, ih), color) }.expect("view");
    allocrec::start();
    let r = catch(|| {
        if c.rect { decode_rect(&mut rd, view, Offset::new(c.ox, c.oy), Size::new(c.sw, c.sh), format, &opts) }
        else { decode(&mut rd, view, format, &opts) }
    });
    let (allocs, peak) = allocrec::stop();
    let outcome: i128 = match &r {
        None => -2,
        Some(Ok(())) => 0,
        Some(Err(DecodingError::MemoryLimitExceeded)) => 1,
        Some(Err(DecodingError::Io(_))) => 2,
        Some(Err(DecodingError::RectOutOfBounds)) => 3,
        Some(Err(_)) => 9,
    };
    let mut line = vec![outcome];
    line.push(if outcome == 2 { -1 } else { rd.pos as i128 - c.start as i128 });
    let big: Vec<usize> = allocs.iter().copied().filter(|&a| a >= NOISE).collect();
    line.push(big.len() as i128);
    line.extend(big.iter().map(|&a| a as i128));
    if outcome == 2 { line.push(-1); } else {
        line.push(rd.effects.len() as i128);
        for (k, n) in &rd.effects { line.push(*k as i128); line.push(*n as i128); }
    }
    Obs { line, all_allocs: allocs, peak, outcome }
}

/// expected encoded length of a surface (from the crate's own PixelInfo; C02/C19 tie it to the rule)
pub fn surface_len(f: Format, w: u32, h: u32) -> u64 { PixelInfo::from(f).surface_bytes(Size::new(w, h)).unwrap_or(u64::MAX) }

fn emit(out: &mut Out, c: &Case, buf: &mut Vec<u8>, prop: &str) {
    let o = observe(c, buf);
    out.count(match o.outcome { 0 => "ok", 1 => "memlimit", 2 => "io", 3 => "rect_oob", -2 => "PANIC", _ => "other" });
    out.count(if c.rect { "rect" } else { "full" });
    out.count(&format!("mode_{}", c.mode));
    // implementation-only oracles (violations of the property regardless of the model)
    let noise: usize = o.all_allocs.iter().filter(|&&a| a < NOISE).sum();
    if o.peak > c.limit as isize + 4096 && prop == "C07" {
        println!("IMPL-VIOLATION peak live bytes {} exceed memory_limit {} (+4096): {:?}", o.peak, c.limit, c.args());
    }
    if noise > 4096 { println!("IMPL-VIOLATION {} bytes of unbudgeted small allocations: {:?}", noise, c.args()); }
    if o.outcome == -2 { println!("IMPL-VIOLATION panic in decode: {:?}", c.args()); }
    if c.fault.is_some() && o.outcome == 0 {
        // a reader fault inside the surface must surface as an I/O error
        let (format, _) = FORMATS[c.fmt];
        let end = c.start + surface_len(format, c.sw, c.sh);
        if c.fault.unwrap() < end && !(c.rect) { println!("IMPL-VIOLATION reader fault swallowed: {:?}", c.args()); }
    }
    out.case(6, &c.args(), &o.line);
}

fn sizes(rng: &mut Rng, big: bool) -> (u32, u32) {
    if big {
        *rng.pick(&[(4096u32, 4096u32), (65536, 1), (1, 65536), (65537, 3), (3, 65537), (16385, 2), (5000, 7), (1024, 1024), (2048, 31), (70000, 2)])
    } else {
        let w = match rng.below(8) { 0 => 1, 1 => 2, 2 => rng.range(1, 9) as u32, _ => rng.range(1, 70) as u32 };
        let h = match rng.below(8) { 0 => 1, 1 => 2, 2 => rng.range(1, 9) as u32, _ => rng.range(1, 70) as u32 };
        (w, h)
    }
}

pub fn run(out: &mut Out, tier: &str, seed: u64, corpus: Option<&str>, prop: &str) {
    let thorough = tier == "thorough";
    let mut rng = Rng::new(seed ^ if prop == "C07" { 0xC07 } else { 0xC06 });
    let mut buf: Vec<u8> = Vec::new();
    if let Some(p) = corpus {
        if let Ok(s) = std::fs::read_to_string(p) {
            for l in s.lines() {
                let lhs = l.split('|').next().unwrap_or("");
                let t: Vec<i128> = lhs.split_whitespace().filter_map(|x| x.parse().ok()).collect();
                if t.len() != 14 || t[0] != 6 { continue; }
                let c = Case { fmt: t[1] as usize, color: t[2] as usize, rect: t[3] != 0, sw: t[4] as u32, sh: t[5] as u32, ox: t[6] as u32, oy: t[7] as u32,
                    w: t[8] as u32, h: t[9] as u32, limit: t[10] as usize, datalen: t[11] as u64, fault: if t[12] < 0 { None } else { Some(t[12] as u64) }, start: t[13] as u64, mode: 0, pad: 0 };
                if c.fmt < FORMATS.len() && c.color < 12 { emit(out, &c, &mut buf, prop); out.count("corpus"); }
            }
        }
    }
    if tier == "replay" { return; }
    let default_limit = DecodeOptions::default().memory_limit;
    let per_format = match (prop, thorough) { ("C07", false) => 12, ("C07", true) => 120, (_, false) => 40, (_, true) => 600 };
    for (fi, (format, _)) in FORMATS.iter().enumerate() {
        for k in 0..per_format {
            let big = prop == "C07" && k % 3 == 0;
            let (sw, sh) = sizes(&mut rng, big);
            let (mut sw, mut sh) = (sw, sh);
            if big && k == 0 { sw = 4096; sh = 4096; }
            let color = rng.below(12) as usize;
            let rect = rng.chance(1, 2);
            let (ox, oy, w, h) = if rect {
                let ox = rng.below(sw as u64) as u32; let oy = rng.below(sh as u64) as u32;
                let w = if big { 1 + rng.below(((sw - ox) as u64).min(64)) as u32 } else { 1 + rng.below((sw - ox) as u64) as u32 };
                let h = if big { 1 + rng.below(((sh - oy) as u64).min(64)) as u32 } else { 1 + rng.below((sh - oy) as u64) as u32 };
                match rng.below(16) { 0 => (ox, oy, 0, h), 1 => (ox, oy, w, 0), 2 => (sw, 0, 1, 1), 3 => (0, oy, w, sh - oy + 1), _ => (ox, oy, w, h) }
            } else { (0, 0, 0, 0) };
            let total = surface_len(*format, sw, sh);
            let start = *rng.pick(&[0u64, 0, 7, 148, 1 << 20]);
            // big surfaces have no data behind them (allocation happens before the first read)
            let full_len = if big { start } else { start + total };
            let base = Case { fmt: fi, color, rect, sw, sh, ox, oy, w, h, limit: default_limit, datalen: full_len, fault: None, start, mode: 0, pad: 0 };
            // probe with the default limit to learn the allocation sizes, derive boundary limits
            let probe = observe(&base, &mut buf);
            let sizes: Vec<usize> = probe.all_allocs.iter().copied().filter(|&a| a >= NOISE).collect();
            let need: usize = sizes.iter().sum();
            let mut limits = vec![default_limit, 0, 1, 1024, 65536];
            let mut acc = 0usize;
            for s in &sizes { limits.push(acc + s - 1); limits.push(acc + s); acc += s; }
            limits.push(need + 1);
            let nl = if prop == "C07" { limits.len() } else { 3 };
            for li in 0..nl {
                let limit = if prop == "C07" { limits[li] } else { *rng.pick(&limits) };
                // a third of the cases decode into a view with padded rows (the whole-image copy paths then read row by row)
                let mut c = Case { limit, mode: rng.below(4) as u8, pad: if !big && rng.below(3) == 0 { 1 + rng.below(24) as usize } else { 0 }, ..base };
                if c.pad != 0 { out.count("padded_view"); }
                if !big && prop == "C06" {
                    match rng.below(6) {
                        0 => { c.datalen = start + rng.below(total + 1); }            // truncated
                        1 => { c.fault = Some(start + rng.below(total + 1)); }        // hard error at byte k
                        2 => { c.datalen = full_len + rng.below(64); }                // trailing data
                        _ => {}
                    }
                }
                emit(out, &c, &mut buf, prop);
            }
        }
    }
    // small surfaces: fault / EOF at every byte offset
    if prop == "C06" {
        for (fi, (format, _)) in FORMATS.iter().enumerate() {
            if !thorough && fi % 4 != (seed % 4) as usize { continue; }
            let (sw, sh) = (rng.range(1, 9) as u32, rng.range(1, 9) as u32);
            let total = surface_len(*format, sw, sh);
            for k in 0..=total.min(200) {
                for rect in [false, true] {
                    let (ox, oy) = (rng.below(sw as u64) as u32, rng.below(sh as u64) as u32);
                    let c = Case { fmt: fi, color: rng.below(12) as usize, rect, sw, sh, ox, oy, w: sw - ox, h: sh - oy, limit: default_limit,
                        datalen: if k % 2 == 0 { total } else { k }, fault: if k % 2 == 0 { Some(k) } else { None }, start: 0, mode: rng.below(4) as u8, pad: 0 };
                    emit(out, &c, &mut buf, prop);
                }
            }
        }
    }
}
