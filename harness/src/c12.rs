//! C12: uncompressed encoding (tag 12) - the pixel formats 0..34 against the model, and implementation-only
//! oracles for all 45 non-BC formats: round trips, quantisation bounds, independence of the input colour format,
//! precision, image shape and row pitch.
//! tag 12, args [format id; channels 0..3; precision 0..2; channel values...]  observed: encoded bytes
use crate::formats::*;
use crate::util::*;
use dds::*;

const CHANNELS: [Channels; 4] = [Channels::Grayscale, Channels::Alpha, Channels::Rgb, Channels::Rgba];
const PRECS: [Precision; 3] = [Precision::U8, Precision::U16, Precision::F32];

fn opts() -> EncodeOptions { let mut o = EncodeOptions::default(); o.dithering = Dithering::None; o.parallel = false; o }

/// values: one integer per channel (U8 / U16 value or f32 bit pattern); returns the encoded bytes
pub fn encode_values(format: Format, ch: usize, p: usize, values: &[u32], w: u32, h: u32, pitch_extra: usize) -> Option<Vec<u8>> {
    encode_values_d(format, ch, p, values, w, h, pitch_extra, Dithering::None)
}
#[allow(clippy::too_many_arguments)]
pub fn encode_values_d(format: Format, ch: usize, p: usize, values: &[u32], w: u32, h: u32, pitch_extra: usize, dithering: Dithering) -> Option<Vec<u8>> {
    let color = ColorFormat::new(CHANNELS[ch], PRECS[p]);
    let bpp = color.bytes_per_pixel() as usize;
    let row = w as usize * bpp;
    let pitch = row + pitch_extra;
    let mut flat: Vec<u8> = Vec::with_capacity(values.len() * 4);
    for &v in values { match p { 0 => flat.push(v as u8), 1 => flat.extend_from_slice(&(v as u16).to_ne_bytes()), _ => flat.extend_from_slice(&v.to_ne_bytes()) } }
    debug_assert_eq!(flat.len(), row * h as usize);
    let mut buf = vec![0xA5u8; if h == 0 { 0 } else { pitch * (h as usize - 1) + row }];
    for y in 0..h as usize { buf[y * pitch..y * pitch + row].copy_from_slice(&flat[y * row..(y + 1) * row]); }
    let view = ImageView::new_with(&buf, pitch, Size::new(w, h), color)?;
    let mut out = Vec::new();
    let mut o = opts(); o.dithering = dithering;
    match catch(|| encode(&mut out, view, format, None, &o)) { Some(Ok(())) => Some(out), _ => None }
}

fn emit(out: &mut Out, fi: usize, ch: usize, p: usize, values: &[u32]) {
    let n = values.len() / CHANNELS[ch].count() as usize;
    let Some(bytes) = encode_values(FORMATS[fi].0, ch, p, values, n as u32, 1, 0) else { println!("IMPL-VIOLATION encode failed: {} from {:?} {:?}", FORMATS[fi].1, CHANNELS[ch], PRECS[p]); return; };
    let mut args: Vec<i128> = vec![fi as i128, ch as i128, p as i128];
    args.extend(values.iter().map(|&v| v as i128));
    let obs: Vec<i128> = bytes.iter().map(|&b| b as i128).collect();
    out.count(&format!("fmt_{}", FORMATS[fi].1)); out.count(&format!("in_{}", ch * 3 + p));
    out.case(12, &args, &obs);
}

/// tag 54: the chunks the uncompressed encoders cut an image into (for_each_chunk on contiguous and padded views, the
/// per-row chunks of the sub-sampled encoder) against model/EncChunks.v
fn chunk_traces(out: &mut Out, thorough: bool, rng: &mut Rng) {
    let names = ["R8G8B8A8_UNORM", "B5G6R5_UNORM", "R16G16B16A16_FLOAT", "R32G32B32A32_FLOAT", "R8_UNORM", "R10G10B10A2_UNORM", "R9G9B9E5_SHAREDEXP", "B4G4R4A4_UNORM",
        "YUY2", "UYVY", "Y210", "Y216", "R8G8_B8G8_UNORM", "G8R8_G8B8_UNORM", "R1_UNORM", "AYUV", "Y410"];
    for name in names {
        let Some(fi) = FORMATS.iter().position(|(_, n)| *n == name) else { continue; };
        let format = FORMATS[fi].0;
        let bw = match PixelInfo::from(format) { PixelInfo::Block(b) => b.size().0 as usize, _ => 1 };
        for k in 0..(if thorough { 40 } else { 10 }) {
            let w = match k % 5 { 0 => 1 + rng.below(40) as u32, 1 => 500 + rng.below(30) as u32, 2 => 1020 + rng.below(10) as u32, 3 => 1 + rng.below(3000) as u32, _ => 512 * (1 + rng.below(3) as u32) };
            let h = 1 + rng.below(if w > 600 { 3 } else { 9 }) as u32;
            let (ch, p) = (rng.below(4) as usize, rng.below(3) as usize);
            let pitch_extra = if k % 2 == 0 { 0 } else { 1 + rng.below(40) as usize };
            let values: Vec<u32> = (0..w as usize * h as usize * CHANNELS[ch].count() as usize).map(|_| match p { 0 => rng.below(256) as u32, 1 => rng.below(65536) as u32, _ => (rng.below(1 << 20) as f32 / (1u32 << 20) as f32).to_bits() }).collect();
            dds::verif_hooks::start_block_trace();
            let r = encode_values(format, ch, p, &values, w, h, pitch_extra);
            let trace = dds::verif_hooks::take_block_trace();
            if r.is_none() || trace.is_empty() { continue; }
            let (kind, n, contiguous) = if trace[0][0] == 4 { (0i128, trace[0][1] as i128, trace[0][2] as i128) } else { (1, 512, 0) };
            let events: &[Vec<usize>] = if kind == 0 { &trace[1..] } else { &trace[..] };
            let mut obs: Vec<i128> = Vec::new();
            for e in events { obs.push(e.len() as i128); obs.extend(e.iter().map(|&v| v as i128)); }
            out.count(if kind == 0 { "chunk_trace_for_each_chunk" } else { "chunk_trace_subsample" }); out.count(if pitch_extra == 0 { "chunk_trace_contiguous" } else { "chunk_trace_padded" });
            out.case(54, &[kind, n, contiguous, w as i128, h as i128, bw as i128], &obs);
        }
    }
}

fn f32_inputs(rng: &mut Rng) -> Vec<u32> {
    let mut v: Vec<u32> = vec![0, 0x8000_0000, 0x3F80_0000, 0xBF80_0000, 0x3F00_0000, 0x3EFF_FFFF, 0x3F00_0001, 0x3F7F_FFFF, 0x3F80_0001, 0x7F80_0000, 0xFF80_0000, 0x7FC0_0000,
        0x0000_0001, 0x007F_FFFF, 0x0080_0000, 0x7F7F_FFFF, 0xFF7F_FFFF, 0x477F_E000, 0x4780_0000, 0x477F_8000, 0x4000_0000, 0x3FA0_6666, 0xBF40_C0C1, 0x3FA0_6000, 0x3380_0000, 0x3880_0000, 0x387F_C000, 0x3300_0000, 0x3300_0001, 0x32FF_FFFF];
    for max in [1.0f32, 3.0, 15.0, 31.0, 63.0, 254.0, 255.0, 510.0, 1023.0, 65534.0, 65535.0] {
        for _ in 0..6 { let k = rng.below(max as u64 + 1) as f32; for d in [-1i32, 0, 1] {
            v.push((((k + 0.5) / max).to_bits() as i32 + d) as u32); v.push(((k / max).to_bits() as i32 + d) as u32);
        } }
    }
    for _ in 0..60 { v.push((rng.below(1 << 24) as f32 / (1 << 24) as f32).to_bits()); }
    for _ in 0..20 { v.push(rng.next() as u32 & 0x7FFF_FFFF | if rng.below(4) == 0 { 0x8000_0000 } else { 0 }); }
    // no non-canonical NaNs: the float formats copy the payload, the model carries one NaN
    v.retain(|&b| !(f32::from_bits(b).is_nan() && b != 0x7FC0_0000));
    v
}

fn decode_back(format: Format, ch: usize, p: usize, bytes: &[u8], w: u32, h: u32) -> Option<Vec<u32>> {
    let color = ColorFormat::new(CHANNELS[ch], PRECS[p]);
    let mut buf = vec![0u8; w as usize * h as usize * color.bytes_per_pixel() as usize];
    let mut r = bytes;
    match catch(|| decode(&mut r, ImageViewMut::new(&mut buf, Size::new(w, h), color).unwrap(), format, &DecodeOptions::default())) { Some(Ok(())) => {} _ => return None }
    Some(match p { 0 => buf.iter().map(|&b| b as u32).collect(), 1 => buf.chunks(2).map(|c| u16::from_ne_bytes([c[0], c[1]]) as u32).collect(), _ => buf.chunks(4).map(|c| u32::from_ne_bytes([c[0], c[1], c[2], c[3]])).collect() })
}

/// formats in which every stored channel holds an 8-bit (resp. 16-bit, f32) input exactly
fn exact_for(name: &str, p: usize) -> bool {
    let unorm8 = ["R8G8B8_UNORM", "B8G8R8_UNORM", "R8G8B8A8_UNORM", "B8G8R8A8_UNORM", "B8G8R8X8_UNORM", "R8_UNORM", "R8G8_UNORM", "A8_UNORM"];
    let wide = ["R16_UNORM", "R16G16_UNORM", "R16G16B16A16_UNORM"];
    let floats = ["R32_FLOAT", "R32G32_FLOAT", "R32G32B32_FLOAT", "R32G32B32A32_FLOAT"];
    let half_like = ["R16_FLOAT", "R16G16_FLOAT", "R16G16B16A16_FLOAT", "R9G9B9E5_SHAREDEXP"];
    match p { 0 => unorm8.contains(&name) || wide.contains(&name) || floats.contains(&name) || half_like.contains(&name) || name == "R10G10B10A2_UNORM" && false,
              1 => wide.contains(&name) || floats.contains(&name), _ => floats.contains(&name) }
}

fn oracles(out: &mut Out, thorough: bool, rng: &mut Rng) {
    for fi in 0..45usize {
        let (format, name) = FORMATS[fi];
        let native = channels_id(format.channels());
        let bi = fi >= 42; let sub = (36..42).contains(&fi);
        let (w, h) = if bi { (8u32, 4u32) } else { (16, 2) };
        let npx = (w * h) as usize;
        // ---- (a) exact round trips at the native channel layout
        for p in 0..3usize {
            if !exact_for(name, p) { continue; }
            let cnt = CHANNELS[native].count() as usize;
            let rounds = if p == 0 { 24 } else if thorough { 200 } else { 40 };
            for round in 0..rounds {
                // the exactness clause holds whatever dithering is requested (an exact encoder has nothing to diffuse)
                let dithering = [Dithering::None, Dithering::Color, Dithering::Alpha, Dithering::ColorAndAlpha][round % 4];
                out.count(&format!("roundtrip_dither_{:?}", dithering));
                let values: Vec<u32> = (0..npx * cnt).map(|i| match p { 0 => if round < 8 { ((round * npx * cnt + i) % 256) as u32 } else if rng.below(4) == 0 { [255u32, 254, 0, 1][rng.below(4) as usize] } else { rng.below(256) as u32 }, 1 => if round % 2 == 0 { ((round * 4099 + i * 257) % 65536) as u32 } else { rng.below(65536) as u32 }, _ => (rng.below(1 << 24) as f32 / (1u32 << 24) as f32).to_bits() }).collect();
                let Some(bytes) = encode_values_d(format, native, p, &values, w, h, 0, dithering) else { println!("IMPL-VIOLATION round-trip encode failed: {name}"); continue; };
                let Some(back) = decode_back(format, native, p, &bytes, w, h) else { println!("IMPL-VIOLATION round-trip decode failed: {name}"); continue; };
                // channels the format does not store come back as their defaults: compare stored channels only
                let stored: Vec<bool> = match (name, cnt) { ("B8G8R8X8_UNORM", _) => vec![true, true, true], (n, 3) if n.starts_with("R8G8_") || n.starts_with("R16G16_") || n.starts_with("R32G32_") => vec![true, true, false], _ => vec![true; cnt] };
                for (i, (&a, &b)) in values.iter().zip(back.iter()).enumerate() {
                    if stored[i % cnt] && a != b { println!("IMPL-VIOLATION lossless round trip changed a value: {name} precision {p} dithering {:?} channel {} in {a} out {b}", dithering, i % cnt); break; }
                    if !stored[i % cnt] { let d = match p { 0 => 0, 1 => 0, _ => 0 }; if b != d { println!("IMPL-VIOLATION unstored channel did not decode to its default: {name} precision {p} got {b}"); break; } }
                }
                out.count("oracle_roundtrip");
            }
        }
        // ---- (c) the same pixel values through different colour formats, precisions, shapes and row pitches
        for round in 0..(if thorough { 24 } else { 6 }) {
            let grey: Vec<u32> = (0..npx).map(|i| ((round * 53 + i * 7) % 256) as u32).collect();
            let alpha: Vec<u32> = (0..npx).map(|i| if round % 2 == 0 { 255 } else { ((round * 31 + i * 13) % 256) as u32 }).collect();
            // RGBA_U8 reference: (g, g, g, a)
            let rgba: Vec<u32> = (0..npx).flat_map(|i| [grey[i], grey[i], grey[i], alpha[i]]).collect();
            let Some(reference) = encode_values(format, 3, 0, &rgba, w, h, 0) else { println!("IMPL-VIOLATION encode failed: {name}"); continue; };
            let as_prec = |v: &Vec<u32>, p: usize| -> Vec<u32> { v.iter().map(|&x| match p { 0 => x, 1 => x * 257, _ => (x as f32 / 255.0).to_bits() }).collect() };
            for p in 0..3usize {
                let same = encode_values(format, 3, p, &as_prec(&rgba, p), w, h, if p == 1 { 6 } else { 0 });
                if same.as_ref() != Some(&reference) { println!("IMPL-VIOLATION encoded bytes depend on the input precision: {name} RGBA precision {p}"); }
                if round % 2 == 0 {
                    // opaque: RGB (g,g,g) and GRAYSCALE g carry the same pixel values
                    let rgb: Vec<u32> = (0..npx).flat_map(|i| [grey[i], grey[i], grey[i]]).collect();
                    if encode_values(format, 2, p, &as_prec(&rgb, p), w, h, 3).as_ref() != Some(&reference) { println!("IMPL-VIOLATION encoded bytes depend on the input channel layout: {name} RGB precision {p}"); }
                    if encode_values(format, 0, p, &as_prec(&grey, p), w, h, 1).as_ref() != Some(&reference) { println!("IMPL-VIOLATION encoded bytes depend on the input channel layout: {name} GRAYSCALE precision {p}"); }
                }
                out.count("oracle_independence");
            }
            // shape: for pixel formats (no macro pixels) the same pixel sequence as one row gives the same bytes
            if !bi && !sub && fi != 35 {
                if encode_values(format, 3, 0, &rgba, w * h, 1, 9).as_ref() != Some(&reference) { println!("IMPL-VIOLATION encoded bytes depend on the image shape / row pitch: {name}"); }
            }
        }
        // ---- (d) wide rows (beyond the 512-pixel / 4096-byte staging buffers) in a row-pitched view give the bytes of the contiguous image
        for (ci, &(ch, p)) in [(3usize, 0usize), (2, 0), (3, 2), (0, 1), (2, 1)].iter().enumerate() {
            for &ww in &[600u32, 1400, if thorough { 4100 } else { 1030 }] {
                let hh = if bi { 4u32 } else { 3 };
                let cnt = CHANNELS[ch].count() as usize;
                let values: Vec<u32> = (0..(ww * hh) as usize * cnt).map(|i| { let x = ((i * 31 + ci * 7 + fi) % 256) as u32; match p { 0 => x, 1 => x * 257, _ => (x as f32 / 255.0).to_bits() } }).collect();
                let a = encode_values(format, ch, p, &values, ww, hh, 0);
                let b = encode_values(format, ch, p, &values, ww, hh, 4 + (ci % 3) * 4);
                if a.is_none() || a != b { println!("IMPL-VIOLATION encoded bytes depend on the row pitch (wide rows): {name} {ww}x{hh} from {:?} {:?}", CHANNELS[ch], PRECS[p]); }
                out.count("oracle_wide_pitch");
            }
        }
        // ---- (b) quantisation bound at U8 / U16 / F32 input for UNORM fields: decode(encode(x)) within half a step
        let step: Option<f64> = match name { "B5G6R5_UNORM" => Some(1.0 / 31.0), "B5G5R5A1_UNORM" => Some(1.0 / 31.0), "B4G4R4A4_UNORM" | "A4B4G4R4_UNORM" => Some(1.0 / 15.0),
            "R10G10B10A2_UNORM" => Some(1.0 / 1023.0), "R8G8B8A8_SNORM" | "R8_SNORM" | "R8G8_SNORM" => Some(1.0 / 254.0), "R16_SNORM" | "R16G16_SNORM" | "R16G16B16A16_SNORM" => Some(1.0 / 65534.0),
            "R8G8B8_UNORM" | "R8G8B8A8_UNORM" | "R8_UNORM" | "R8G8_UNORM" | "B8G8R8A8_UNORM" => Some(1.0 / 255.0), _ => None };
        if let Some(step) = step {
            let cnt = CHANNELS[native].count() as usize;
            for _ in 0..(if thorough { 60 } else { 12 }) {
                let values: Vec<u32> = (0..npx * cnt).map(|_| (rng.below(1 << 24) as f32 / (1u32 << 24) as f32 * 1.2 - 0.1).to_bits()).collect();
                let Some(bytes) = encode_values(format, native, 2, &values, w, h, 0) else { continue; };
                let Some(back) = decode_back(format, native, 2, &bytes, w, h) else { continue; };
                for (i, (&a, &b)) in values.iter().zip(back.iter()).enumerate() {
                    let c = i % cnt;
                    if (name.contains("R8G8_") || name.contains("R16G16_")) && c == 2 { continue; }
                    let st = if name == "B5G6R5_UNORM" && c == 1 { 1.0 / 63.0 } else if (name == "B5G5R5A1_UNORM" && c == 3) || (name == "R10G10B10A2_UNORM" && c == 3) { continue } else { step };
                    let x = (f32::from_bits(a) as f64).clamp(0.0, 1.0); let y = f32::from_bits(b) as f64;
                    if (x - y).abs() > st / 2.0 + 1e-6 { println!("IMPL-VIOLATION quantisation error above half a step: {name} channel {c} in {x} out {y} step {st}"); break; }
                }
                out.count("oracle_bound");
            }
        }
    }
}


/// tag 121: [format id; channels; precision; w; values...] for the sub-sampled and bi-planar formats (and any other)
fn emit_wh(out: &mut Out, fi: usize, ch: usize, p: usize, w: u32, h: u32, values: &[u32]) {
    let Some(bytes) = encode_values(FORMATS[fi].0, ch, p, values, w, h, 0) else { println!("IMPL-VIOLATION encode failed: {} {w}x{h} from {:?} {:?}", FORMATS[fi].1, CHANNELS[ch], PRECS[p]); return; };
    let mut args: Vec<i128> = vec![fi as i128, ch as i128, p as i128, w as i128];
    args.extend(values.iter().map(|&v| v as i128));
    let obs: Vec<i128> = bytes.iter().map(|&b| b as i128).collect();
    out.count(&format!("fmt_{}", FORMATS[fi].1)); out.count(&format!("in_{}", ch * 3 + p));
    out.case(121, &args, &obs);
}
fn macro_formats(out: &mut Out, thorough: bool, rng: &mut Rng, fin: &[u32]) {
    for fi in 35..45usize {
        let bi = fi >= 42;
        let reps = if thorough { 400 } else { 60 };
        for rep in 0..reps {
            let ch = rng.below(4) as usize; let p = rng.below(3) as usize;
            let (w, h) = if bi { (2 * (1 + rng.below(5) as u32), 2 * (1 + rng.below(3) as u32)) } else { (1 + rng.below(if fi == 35 { 20 } else { 9 }) as u32, 1 + rng.below(3) as u32) };
            let cnt = CHANNELS[ch].count() as usize;
            let values: Vec<u32> = (0..(w * h) as usize * cnt).map(|i| match p { 0 => if rep % 3 == 0 { ((rep * 17 + i * 29) % 256) as u32 } else { rng.below(256) as u32 }, 1 => rng.below(65536) as u32, _ => fin[(rep * 31 + i * 7 + rng.below(5) as usize) % fin.len()] }).collect();
            emit_wh(out, fi, ch, p, w, h, &values);
        }
    }
}

pub fn run(out: &mut Out, tier: &str, seed: u64, corpus: Option<&str>) {
    let thorough = tier == "thorough";
    let mut rng = Rng::new(seed ^ 0xC12);
    if let Some(p) = corpus {
        if let Ok(s) = std::fs::read_to_string(p) {
            for l in s.lines() {
                let lhs = l.split('|').next().unwrap_or("");
                let t: Vec<u64> = lhs.split_whitespace().filter_map(|x| x.parse().ok()).collect();
                if t.len() >= 5 && t[0] == 12 && t[1] < 35 && t[2] < 4 && t[3] < 3 && (t.len() - 4) % CHANNELS[t[2] as usize].count() as usize == 0 {
                    let vals: Vec<u32> = t[4..].iter().map(|&v| v as u32).collect();
                    emit(out, t[1] as usize, t[2] as usize, t[3] as usize, &vals); out.count("corpus");
                }
            }
        }
    }
    if tier == "replay" { return; }
    oracles(out, thorough, &mut rng);
    chunk_traces(out, thorough, &mut rng);
    let fin = f32_inputs(&mut rng);
    macro_formats(out, thorough, &mut rng, &fin);
    for fi in 0..35usize {
        for ch in 0..4usize {
            let cnt = CHANNELS[ch].count() as usize;
            // U8: every value in every channel
            let mut vals = Vec::new();
            for x in 0..256u32 { for c in 0..cnt { vals.push((x + 85 * c as u32) % 256); } }
            for chunk in vals.chunks(cnt * 32) { emit(out, fi, ch, 0, chunk); }
            // U16: all values over the run (quick: a stride) plus boundaries
            let stride = if thorough { 1 } else { 37 };
            let mut vals = Vec::new();
            let mut x = (fi as u32 * 7 + ch as u32) % stride;
            while x < 65536 { for c in 0..cnt { vals.push((x + 21845 * c as u32) % 65536); } x += stride; }
            for b in [0u32, 1, 127, 128, 129, 255, 256, 257, 32767, 32768, 65534, 65535] { for _ in 0..cnt { vals.push(b); } }
            for chunk in vals.chunks(cnt * 64) { emit(out, fi, ch, 1, chunk); }
            // F32
            let mut vals = Vec::new();
            for (i, &b) in fin.iter().enumerate() { for c in 0..cnt { vals.push(if c == 0 { b } else { fin[(i * 7 + c * 13) % fin.len()] }); } }
            for chunk in vals.chunks(cnt * 32) { emit(out, fi, ch, 2, chunk); }
        }
    }
}
