//! C17: progress only moves forward to 100% and cancellation is honoured.
//! tag 17 (model comparison): args [fmt; quality; w; h] observed: [-1] if the parallel encoder did not split,
//!   else the sorted list of progress increments (in rows) reported by the worker jobs, recovered from the
//!   reported values v as round(v * (h + 1)); the model predicts the sorted fragment heights (C14 geometry).
//! Everything else is an implementation-only oracle: values in [0,1], non-decreasing, 1.0 exactly when
//! Encoder::write_surface_with_progress succeeds, cancellation before the call or at any report < 1.0
//! returns Cancelled, a pre-cancelled call writes nothing and can be retried after reset.
use crate::c14::{DITHER, QUALITIES};
use crate::formats::*;
use crate::util::*;
use dds::header::Header;
use dds::*;
use std::sync::atomic::{AtomicUsize, Ordering};
use std::sync::{Arc, Mutex};

fn make_image(w: u32, h: u32, rng: &mut Rng) -> Vec<u8> { (0..w as usize * h as usize * 4).map(|_| rng.next() as u8).collect() }

struct RunResult { reports: Vec<f32>, result: Result<(), EncodingError>, bytes: Vec<u8> }

/// one Encoder::write_surface_with_progress call (main surface of a texture with `mips` levels), cancelling at report index `cancel_at`
fn run_encoder(format: Format, w: u32, h: u32, mips: bool, opts: &EncodeOptions, data: &[u8], cancel_at: Option<usize>, pre_cancel: bool, threads: usize) -> RunResult {
    let mut header = Header::new_image(w, h, format);
    if mips { header = header.with_mipmaps(); }
    let token = CancellationToken::new();
    if pre_cancel { token.cancel(); }
    let reports: Arc<Mutex<Vec<f32>>> = Arc::new(Mutex::new(Vec::new()));
    let count = Arc::new(AtomicUsize::new(0));
    let mut out: Vec<u8> = Vec::new();
    let result;
    {
        let mut enc = Encoder::new(&mut out, format, &header).unwrap();
        enc.options = opts.clone();
        enc.mipmaps.generate = mips;
        let r2 = reports.clone(); let c2 = count.clone(); let t2 = token.clone();
        let mut reporter = move |p: f32| {
            r2.lock().unwrap().push(p);
            let i = c2.fetch_add(1, Ordering::SeqCst);
            if Some(i) == cancel_at { t2.cancel(); }
        };
        let view = ImageView::new(data, Size::new(w, h), ColorFormat::RGBA_U8).unwrap();
        let pool = rayon::ThreadPoolBuilder::new().num_threads(threads).build().unwrap();
        result = pool.install(|| {
            let mut progress = Progress::new(&mut reporter).with_cancellation(&token);
            enc.write_surface_with_progress(view, &mut progress)
        });
    }
    let reports = reports.lock().unwrap().clone();
    RunResult { reports, result, bytes: out }
}

/// one direct `encode()` call with progress and cancellation at report index `cancel_at`
fn run_direct(format: Format, w: u32, h: u32, opts: &EncodeOptions, data: &[u8], cancel_at: Option<usize>, pre_cancel: bool, threads: usize) -> RunResult {
    let token = CancellationToken::new();
    if pre_cancel { token.cancel(); }
    let reports: Arc<Mutex<Vec<f32>>> = Arc::new(Mutex::new(Vec::new()));
    let count = Arc::new(AtomicUsize::new(0));
    let mut out: Vec<u8> = Vec::new();
    let r2 = reports.clone(); let c2 = count.clone(); let t2 = token.clone();
    let mut reporter = move |p: f32| {
        r2.lock().unwrap().push(p);
        let i = c2.fetch_add(1, Ordering::SeqCst);
        if Some(i) == cancel_at { t2.cancel(); }
    };
    let view = ImageView::new(data, Size::new(w, h), ColorFormat::RGBA_U8).unwrap();
    let pool = rayon::ThreadPoolBuilder::new().num_threads(threads).build().unwrap();
    let result = pool.install(|| {
        let mut progress = Progress::new(&mut reporter).with_cancellation(&token);
        match catch(|| encode(&mut out, view, format, Some(&mut progress), opts)) { Some(r) => r, None => { println!("IMPL-VIOLATION panic in encode with progress: {:?} {w}x{h}", format); Err(EncodingError::Cancelled) } }
    });
    let reports = reports.lock().unwrap().clone();
    RunResult { reports, result, bytes: out }
}

/// the free function `encode()`: same oracle as for the Encoder (values, order, 1.0 exactly on success, cancellation
/// before the call and at every report below 100%)
#[allow(clippy::too_many_arguments)]
fn oracle_direct(out: &mut Out, fi: usize, w: u32, h: u32, q: usize, dither: usize, parallel: bool, threads: usize, rng: &mut Rng) {
    let (format, name) = FORMATS[fi];
    let data = make_image(w, h, rng);
    let mut opts = EncodeOptions::default();
    opts.quality = QUALITIES[q]; opts.parallel = parallel; opts.dithering = DITHER[dither];
    let what = format!("encode() {name} {w}x{h} q={q} dithering={:?} parallel={parallel} threads={threads}", DITHER[dither]);
    let base = run_direct(format, w, h, &opts, &data, None, false, threads);
    if base.result.is_err() { return; }
    check_reports_x(&what, &base, false, false);
    out.count("direct_runs");
    let pre = run_direct(format, w, h, &opts, &data, None, true, threads);
    if !matches!(pre.result, Err(EncodingError::Cancelled)) { println!("IMPL-VIOLATION pre-cancelled call did not return Cancelled: {what}"); }
    if !pre.bytes.is_empty() { println!("IMPL-VIOLATION pre-cancelled call wrote {} bytes: {what}", pre.bytes.len()); }
    let n = base.reports.len();
    let ks: Vec<usize> = if n <= 12 { (0..n).collect() } else { let mut v = vec![0, 1, n / 2, n - 3, n - 2, n - 1]; for _ in 0..3 { v.push(rng.below(n as u64) as usize); } v };
    for k in ks {
        let r = run_direct(format, w, h, &opts, &data, Some(k), false, threads);
        out.count("direct_cancel_runs");
        let v = r.reports.get(k).copied();
        check_reports_x(&format!("{what} cancel at {k}"), &r, v == Some(1.0), false);
        if let Some(p) = v { if p < 1.0 && !matches!(r.result, Err(EncodingError::Cancelled)) {
            println!("IMPL-VIOLATION cancellation requested at report {k} (value {p}) but the call returned {:?}: {what}", r.result.as_ref().map(|_| "Ok")); } }
    }
}

/// what the encoder reports as its next surface (None when done): a call that is refused must not change it
fn file_len_probe<W: std::io::Write>(enc: &Encoder<W>) -> Option<(Size, bool)> { enc.surface_info().map(|s| (s.size(), enc.is_done())) }

/// `cancel_at_full`: cancellation was requested at a report that already said 100% (the outcome of such a
/// call is not specified: the documentation allows several reports of 100%)
fn check_reports(what: &str, r: &RunResult, cancel_at_full: bool) { check_reports_x(what, r, cancel_at_full, true) }
/// `final_one`: a successful call must end with a report of exactly 1.0 (the Encoder documents it; the free function
/// `encode()` reports 100% only on its multi-fragment path, see DESIGN.md A9)
fn check_reports_x(what: &str, r: &RunResult, cancel_at_full: bool, final_one: bool) {
    let mut prev = 0.0f32;
    for (i, &p) in r.reports.iter().enumerate() {
        if !(0.0..=1.0).contains(&p) || p.is_nan() { println!("IMPL-VIOLATION progress value {p} outside [0,1] (report {i}): {what}"); return; }
        if p < prev - 1e-5 { println!("IMPL-VIOLATION progress decreased from {prev} to {p} (report {i}): {what}"); return; }
        prev = p;
    }
    let ends_with_one = r.reports.last().copied() == Some(1.0);
    let ones = r.reports.iter().filter(|&&p| p == 1.0).count();
    match &r.result {
        Ok(()) => { if !ends_with_one && final_one { println!("IMPL-VIOLATION successful call did not end with 1.0 ({:?}): {what}", r.reports.last()); } }
        Err(_) => { if ones > 0 && !cancel_at_full { println!("IMPL-VIOLATION failed call reported 1.0: {what}"); } }
    }
}

fn oracle(out: &mut Out, fi: usize, w: u32, h: u32, mips: bool, q: usize, parallel: bool, threads: usize, order: u32, rng: &mut Rng, all_k: bool) {
    let (format, name) = FORMATS[fi];
    let data = make_image(w, h, rng);
    let mut opts = EncodeOptions::default();
    opts.quality = QUALITIES[q]; opts.parallel = parallel; opts.dithering = DITHER[0];
    crate::c14::set_order(order, rng.next());
    let what = format!("{name} {w}x{h} mips={mips} q={q} parallel={parallel} threads={threads} order={order}");
    let base = run_encoder(format, w, h, mips, &opts, &data, None, false, threads);
    if base.result.is_err() { return; }   // e.g. size multiple
    check_reports(&what, &base, false);
    out.count("oracle_runs");
    // cancellation before the call: Cancelled, nothing written beyond the header, retry after reset works
    let pre = run_encoder(format, w, h, mips, &opts, &data, None, true, threads);
    if !matches!(pre.result, Err(EncodingError::Cancelled)) { println!("IMPL-VIOLATION pre-cancelled call did not return Cancelled: {what}"); }
    let header_len = 4 + Header::new_image(w, h, format).byte_len();
    if pre.bytes.len() != header_len { println!("IMPL-VIOLATION pre-cancelled call wrote {} bytes: {what}", pre.bytes.len() - header_len); }
    if !pre.reports.is_empty() { println!("IMPL-VIOLATION pre-cancelled call reported progress: {what}"); }
    // ... and the same encoder can be retried after the token is reset, producing the same file
    {
        let mut header = Header::new_image(w, h, format);
        if mips { header = header.with_mipmaps(); }
        let token = CancellationToken::new();
        token.cancel();
        let mut file: Vec<u8> = Vec::new();
        let mut enc = Encoder::new(&mut file, format, &header).unwrap();
        enc.options = opts.clone();
        enc.mipmaps.generate = mips;
        let view = ImageView::new(&data, Size::new(w, h), ColorFormat::RGBA_U8).unwrap();
        // ONE Progress object for both calls (a failed call must not leave it in a narrowed range); the first, pre-cancelled
        // call is also made with a token-only Progress (cancellation without a reporter)
        let seen: Arc<Mutex<Vec<f32>>> = Arc::new(Mutex::new(Vec::new()));
        let s2 = seen.clone();
        let mut rep = move |p: f32| { s2.lock().unwrap().push(p); };
        let before = file_len_probe(&enc);
        let token_only = { let mut progress = Progress::none().with_cancellation(&token); enc.write_surface_with_progress(view, &mut progress) };
        if !matches!(token_only, Err(EncodingError::Cancelled)) || file_len_probe(&enc) != before {
            println!("IMPL-VIOLATION a pre-cancelled call with a token-only Progress returned {:?} / moved the encoder: {what}", token_only.as_ref().map(|_| "Ok"));
        }
        let mut progress = Progress::new(&mut rep).with_cancellation(&token);
        let first = enc.write_surface_with_progress(view, &mut progress);
        token.reset();
        let second = enc.write_surface_with_progress(view, &mut progress);
        drop(progress);
        {
            let reports = seen.lock().unwrap().clone();
            let rr = RunResult { reports, result: match &second { Ok(()) => Ok(()), Err(_) => Err(EncodingError::Cancelled) }, bytes: Vec::new() };
            check_reports(&format!("{what} (retry with the same Progress object)"), &rr, false);
        }
        let done = enc.is_done() || mips == false && enc.surface_info().is_none();
        let fin = enc.finish();
        if !matches!(first, Err(EncodingError::Cancelled)) || second.is_err() || fin.is_err() || !done || file != base.bytes {
            println!("IMPL-VIOLATION a call cancelled before it started cannot be retried after reset (first {:?}, retry {:?}, finish {:?}, same bytes {}): {what}",
                first.as_ref().map(|_| "Ok"), second.as_ref().map(|_| "Ok"), fin.as_ref().map(|_| "Ok"), file == base.bytes);
        }
        out.count("retry_runs");
    }
    // cancellation at report k
    let n = base.reports.len();
    let ks: Vec<usize> = if all_k || n <= 12 { (0..n).collect() } else { let mut v = vec![0, 1, n / 2, n - 2, n - 1]; for _ in 0..4 { v.push(rng.below(n as u64) as usize); } v };
    for k in ks {
        let r = run_encoder(format, w, h, mips, &opts, &data, Some(k), false, threads);
        out.count("cancel_runs");
        let v = r.reports.get(k).copied();
        check_reports(&format!("{what} cancel at {k}"), &r, v == Some(1.0));
        match v {
            Some(p) if p < 1.0 => if !matches!(r.result, Err(EncodingError::Cancelled)) { println!("IMPL-VIOLATION cancellation requested at report {k} (value {p}) but the call returned {:?}: {what}", r.result.as_ref().map(|_| "Ok")); },
            _ => {}
        }
    }
    crate::c14::set_order(0, 0);
}

fn increments(out: &mut Out, fi: usize, q: usize, w: u32, h: u32, rng: &mut Rng) {
    let (format, _) = FORMATS[fi];
    let data: Vec<u8> = (0..w as usize * h as usize).map(|_| rng.next() as u8).collect();
    let view = ImageView::new(&data, Size::new(w, h), ColorFormat::GRAYSCALE_U8).unwrap();
    let mut opts = EncodeOptions::default();
    opts.quality = QUALITIES[q]; opts.parallel = true;
    let reports: Arc<Mutex<Vec<f32>>> = Arc::new(Mutex::new(Vec::new()));
    let r2 = reports.clone();
    let mut reporter = move |p: f32| { r2.lock().unwrap().push(p); };
    let mut sink = Vec::new();
    let pool = rayon::ThreadPoolBuilder::new().num_threads(1 + rng.below(8) as usize).build().unwrap();
    let res = pool.install(|| {
        let mut progress = Progress::new(&mut reporter);
        encode(&mut sink, view, format, Some(&mut progress), &opts)
    });
    if res.is_err() { return; }
    let reports = reports.lock().unwrap().clone();
    let split = SplitView::new(view, format, &opts).len() > 1;
    let obs: Vec<i128> = if !split { vec![-1] } else {
        let total = h as f64 + 1.0;
        let mut done: Vec<i128> = reports.iter().filter(|&&p| p < 1.0).map(|&p| (p as f64 * total).round() as i128).collect();
        if reports.last().copied() != Some(1.0) { println!("IMPL-VIOLATION parallel encode did not end with 1.0: fmt {fi} {w}x{h}"); }
        let mut inc = Vec::new(); let mut prev = 0;
        for d in done.drain(..) { inc.push(d - prev); prev = d; }
        inc.sort();
        inc
    };
    out.count(if split { "increments_split" } else { "increments_single" });
    out.case(17, &[fi as i128, q as i128, w as i128, h as i128], &obs);
}

pub fn run(out: &mut Out, tier: &str, seed: u64, corpus: Option<&str>) {
    let thorough = tier == "thorough";
    let mut rng = Rng::new(seed ^ 0xC17);
    if let Some(p) = corpus {
        if let Ok(s) = std::fs::read_to_string(p) {
            for l in s.lines() {
                let lhs = l.split('|').next().unwrap_or("");
                let t: Vec<u64> = lhs.split_whitespace().filter_map(|x| x.parse().ok()).collect();
                if t.len() == 5 && t[0] == 17 && (t[1] as usize) < FORMATS.len() && t[2] < 4 && t[3] > 0 && t[4] > 0 && t[3] * t[4] < (1 << 22) {
                    increments(out, t[1] as usize, t[2] as usize, t[3] as u32, t[4] as u32, &mut rng); out.count("corpus");
                }
            }
        }
    }
    if tier == "replay" { return; }
    crate::c14::install_hook();
    let bc: Vec<usize> = (0..FORMATS.len()).filter(|&i| FORMATS[i].0.encoding_support().map(|s| s.split_height().map(|h| h.get()) == Some(4)).unwrap_or(false)).collect();
    // model comparison: worker increments are a permutation of the fragment heights
    let n = if thorough { 600 } else { 60 };
    for _ in 0..n {
        let fi = *rng.pick(&bc);
        let q = if FORMATS[fi].1 == "BC7_UNORM" { 0 } else { rng.below(3) as usize };
        let (w, h) = match rng.below(4) { 0 => (rng.range(20, 90) as u32, rng.range(40, 200) as u32), 1 => (rng.range(200, 400) as u32, rng.range(4, 30) as u32), 2 => (rng.range(1, 12) as u32, rng.range(100, 500) as u32), _ => (64, 64 + rng.below(70) as u32) };
        increments(out, fi, q, w, h, &mut rng);
    }
    // oracles: one format of each encoder family
    let fams = ["R8G8B8A8_UNORM", "B5G6R5_UNORM", "R16G16B16A16_FLOAT", "R32G32B32A32_FLOAT", "YUY2", "R1_UNORM", "NV12", "BC1_UNORM", "BC3_UNORM", "BC4_UNORM", "BC7_UNORM", "R9G9B9E5_SHAREDEXP"];
    let reps = if thorough { 6 } else { 1 };
    for name in fams {
        let fi = FORMATS.iter().position(|(_, n)| *n == name).unwrap();
        for rep in 0..reps {
            for (mips, parallel, threads, order) in [(false, false, 1usize, 0u32), (true, false, 1, 0), (false, true, 4, 1), (true, true, 3, 2), (false, true, 16, 2)] {
                let is_bc = name.starts_with("BC");
                let (mut w, mut h) = if is_bc { if rep % 2 == 0 { (rng.range(40, 80) as u32, rng.range(70, 130) as u32) } else { (rng.range(4, 16) as u32, rng.range(4, 16) as u32) } }
                                     else if rep % 2 == 0 { (rng.range(500, 700) as u32, rng.range(3, 12) as u32) } else { (rng.range(1, 40) as u32, rng.range(1, 40) as u32) };
                if name == "NV12" { w = (w + 1) & !1; h = (h + 1) & !1; if mips { w = 64; h = 32; } }
                if name == "NV12" && mips { continue; }     // odd mip levels are not encodable in NV12
                let q = if name == "BC7_UNORM" { 0 } else { rng.below(2) as usize };
                oracle(out, fi, w, h, mips, q, parallel, threads, order, &mut rng, thorough);
            }
        }
    }
    // the free function encode(): one chunk .. several report periods (a report every 2048 chunks / 8192 blocks), with and
    // without dithering, widths that are / are not multiples of the 512-pixel chunk
    let direct: [(&str, u32, u32, usize); 14] = [("R8G8B8A8_UNORM", 16, 16, 0), ("R8G8B8A8_UNORM", 512, 2049, 0), ("B5G6R5_UNORM", 640, 4096, 1), ("B5G6R5_UNORM", 513, 2100, 3),
        ("B4G4R4A4_UNORM", 256, 4096, 3), ("B5G5R5A1_UNORM", 700, 3000, 1), ("B5G6R5_UNORM", 512, 2049, 0), ("R16G16B16A16_FLOAT", 300, 9, 0), ("YUY2", 514, 2050, 0), ("R1_UNORM", 4096, 300, 0),
        ("BC1_UNORM", 4, 4, 0), ("BC1_UNORM", 12, 10924, 0), ("BC4_UNORM", 8, 8200, 0), ("BC3_UNORM", 64, 96, 3)];
    for (i, (name, w, h, dither)) in direct.into_iter().enumerate() {
        let fi = FORMATS.iter().position(|(_, n)| *n == name).unwrap();
        oracle_direct(out, fi, w, h, 0, dither, false, 1, &mut rng);
        if thorough || i % 3 == 0 { oracle_direct(out, fi, w, h, 0, dither, true, 3, &mut rng); }
    }
    dds::verif_hooks::set_fragment_hook(None);
}
