//! C11 / C10: Encoder call sequences.
//! tag 11, args [header (10 fields as C02); pixel info (5); header_len; generate0; size multiple x; y; (kind; flag)*]
//!   kind 0 = write (flag 0 right size, 1 wrong size, 2 already cancelled),
//!   kind 1 = toggle mipmaps.generate, kind 2 = finish (the encoder is consumed: always the last op)
//! observed: [0; layout error] | 1 :: state :: per op (code :: state) ;  state = [bytes written; has_next; w; h; len; is_mipmap]
//!   codes: 0 ok, 1 too many surfaces, 2 unexpected size, 3 cancelled, 4 invalid size, 5 missing surfaces, 9 other, -2 panic
//! After a successful finish the file is re-opened with Decoder (implementation-only oracle of C10).
use crate::c02;
use crate::formats::*;
use crate::util::*;
use dds::header::*;
use dds::*;
use std::io::Cursor;

pub const ENC_FORMATS: [Format; 6] = [Format::R8_UNORM, Format::R8G8B8A8_UNORM, Format::BC1_UNORM, Format::YUY2, Format::NV12, Format::R16G16B16A16_FLOAT];

fn err_code(e: &EncodingError) -> i128 {
    match e {
        EncodingError::TooManySurfaces => 1,
        EncodingError::UnexpectedSurfaceSize => 2,
        EncodingError::Cancelled => 3,
        EncodingError::InvalidSize(..) => 4,
        EncodingError::MissingSurfaces => 5,
        _ => 9,
    }
}
fn state<W>(e: &Encoder<W>, bytes: usize) -> Vec<i128> {
    match e.surface_info() {
        None => vec![bytes as i128, if e.is_done() { 0 } else { -5 }, 0, 0, 0, 0],
        Some(si) => vec![bytes as i128, if e.is_done() { -5 } else { 1 }, si.size().width as i128, si.size().height as i128, si.data_len() as i128, si.is_mipmap() as i128],
    }
}

pub fn make_header(c: &c02::Case, format: Format) -> Option<Header> {
    let mut h = c.header();
    match &mut h {
        Header::Dx10(d) => { d.dxgi_format = DxgiFormat::try_from(format).ok()?; }
        Header::Dx9(d) => { d.pixel_format = Dx9PixelFormat::try_from(format).ok()?; }
    }
    Some(h)
}

/// shared, inspectable writer
#[derive(Clone, Default)]
struct SharedVec(std::rc::Rc<std::cell::RefCell<Vec<u8>>>);
impl std::io::Write for SharedVec {
    fn write(&mut self, b: &[u8]) -> std::io::Result<usize> { self.0.borrow_mut().extend_from_slice(b); Ok(b.len()) }
    fn flush(&mut self) -> std::io::Result<()> { Ok(()) }
}

pub struct Run { pub obs: Vec<i128>, pub mul: (u32, u32), pub header_len: usize, pub finished_ok: bool, pub bytes: Vec<u8>, pub header: Header, pub format: Format, pub flags: Vec<(u8, u8)> }

/// `ops` use flag 0 for "write right size"; this function turns it into 3 where the format refuses the size.
pub fn observe(c: &c02::Case, format: Format, generate0: bool, ops: &[(u8, u8)], seed: u64, parallel: bool) -> Option<Run> {
    let header = make_header(c, format)?;
    let w = SharedVec::default();
    let mut enc = match Encoder::new(w.clone(), format, &header) {
        Ok(e) => e,
        Err(EncodingError::Layout(e)) => {
            let code = match e { LayoutError::ZeroDimension => 1, LayoutError::TooManyMipMaps(_) => 2, LayoutError::MissingDepth => 3,
                LayoutError::InvalidCubeMapFaces => 4, LayoutError::ArraySizeTooBig(_) => 5, LayoutError::DataLayoutTooBig => 6, #[allow(unreachable_patterns)] _ => 99 };
            return Some(Run { obs: vec![0, code], mul: (1, 1), header_len: 0, finished_ok: false, bytes: vec![], header, format, flags: ops.to_vec() });
        }
        Err(_) => return None,
    };
    enc.mipmaps.generate = generate0;
    enc.options.parallel = parallel;
    enc.options.quality = CompressionQuality::Fast;
    let header_len = w.0.borrow().len();
    let mut rng = Rng::new(seed);
    let mut o: Vec<i128> = vec![1];
    o.extend(state(&enc, header_len));
    let support = format.encoding_support().unwrap();
    let mul = support.size_multiple().map(|(a, b)| (a.get(), b.get())).unwrap_or((1, 1));
    let mut flags = Vec::new();
    let mut finished_ok = false;
    let mut enc = Some(enc);
    for &(k, f) in ops {
        let e = enc.as_mut().unwrap();
        let cur = e.surface_info().map(|s| s.size());
        let r: Option<Result<(), EncodingError>> = match k {
            0 => {
                let sz = match (cur, f) { (Some(s), 1) => Size::new(s.width + 1, s.height), (Some(s), _) => s, (None, _) => Size::new(2, 2) };
                let data: Vec<u8> = (0..sz.width as usize * sz.height as usize * 4).map(|_| rng.next() as u8).collect();
                let img = ImageView::new(&data, sz, ColorFormat::RGBA_U8).unwrap();
                if f == 2 && rng.below(2) == 0 {
                    let token = CancellationToken::new();
                    token.cancel();
                    let mut rep = |_p: f32| {};
                    let mut prog = Progress::new(&mut rep).with_cancellation(&token);
                    catch(|| e.write_surface_with_progress(img, &mut prog))
                } else if f == 2 {
                    // cancellation only: a token without a reporter function
                    let token = CancellationToken::new();
                    token.cancel();
                    let mut prog = Progress::none().with_cancellation(&token);
                    catch(|| e.write_surface_with_progress(img, &mut prog))
                } else {
                    catch(|| e.write_surface(img))
                }
            }
            1 => { e.mipmaps.generate = !e.mipmaps.generate; Some(Ok(())) }
            _ => {
                let en = enc.take().unwrap();
                let done_before = en.is_done();
                let r = catch(|| en.finish());
                flags.push((k, f));
                match r {
                    None => { o.push(-2); }
                    Some(Ok(())) => { o.push(0); finished_ok = true; if !done_before { o.push(-77); } }
                    Some(Err(e)) => { o.push(err_code(&e)); }
                }
                break;
            }
        };
        flags.push((k, f));
        match r {
            None => { o.push(-2); break; }
            Some(Ok(())) => o.push(0),
            Some(Err(e)) => o.push(err_code(&e)),
        }
        let bytes = w.0.borrow().len();
        o.extend(state(enc.as_ref().unwrap(), bytes));
    }
    let bytes = w.0.borrow().clone();
    Some(Run { obs: o, mul, header_len, finished_ok, bytes, header, format, flags })
}

/// C10 oracle on a finished file: exact length, same header / format / layout on re-opening, every surface decodes, EOF.
pub fn reopen_check(run: &Run) -> Result<(), String> {
    let layout = DataLayout::from_header_with(&run.header, run.format.into()).map_err(|e| format!("layout: {e:?}"))?;
    let expect = run.header_len as u64 + layout.data_len();
    if run.bytes.len() as u64 != expect { return Err(format!("file length {} != header {} + data {}", run.bytes.len(), run.header_len, layout.data_len())); }
    let mut dec = Decoder::new(Cursor::new(&run.bytes[..])).map_err(|e| format!("re-open: {e:?}"))?;
    if dec.header() != &run.header { return Err("header differs after re-open".into()); }
    let alias = |f: Format| if f == Format::BC3_UNORM_NORMAL { Format::BC3_UNORM } else { f };
    if alias(dec.format()) != alias(run.format) { return Err(format!("format {:?} != {:?}", dec.format(), run.format)); }
    if dec.layout() != layout { return Err("layout differs after re-open".into()); }
    let mut n = 0u64;
    while let Some(si) = dec.surface_info() {
        let sz = si.size();
        let mut buf = vec![0u8; sz.width as usize * sz.height as usize * 4];
        dec.read_surface(ImageViewMut::new(&mut buf, sz, ColorFormat::RGBA_U8).unwrap()).map_err(|e| format!("surface {n}: {e:?}"))?;
        n += 1;
        if n > 100000 { return Err("too many surfaces".into()); }
    }
    let pos = dec.into_reader().position();
    if pos != run.bytes.len() as u64 { return Err(format!("end of last surface {pos} != end of file {}", run.bytes.len())); }
    Ok(())
}

fn emit(out: &mut Out, c: &c02::Case, format: Format, generate0: bool, ops: &[(u8, u8)], seed: u64, parallel: bool) {
    let Some(run) = observe(c, format, generate0, ops, seed, parallel) else { out.count("skipped_no_header"); return; };
    let mut args = c.args();
    args.push(run.header_len as i128);
    args.push(generate0 as i128);
    args.push(run.mul.0 as i128);
    args.push(run.mul.1 as i128);
    for &(k, f) in &run.flags { args.push(k as i128); args.push(f as i128); }
    out.count(&format!("depth_{:02}", ops.len().min(40) / 5 * 5));
    for &(k, f) in &run.flags { out.count(&format!("op_{k}_{f}")); }
    if run.obs.contains(&-2) { out.count("panic"); println!("IMPL-VIOLATION panic in encoder sequence: {:?}", args); }
    if run.finished_ok {
        out.count("finished_files_reopened");
        if let Err(e) = reopen_check(&run) { println!("IMPL-VIOLATION finished file is not a complete re-readable DDS file ({e}): {:?}", args); }
    }
    out.case(11, &args, &run.obs);
}

fn layouts() -> Vec<c02::Case> {
    let base = c02::Case { dx10: true, w: 8, h: 4, depth: None, mips: 1, cube10: false, dim: 1, array: 1, caps2: 0, pk: 0, pa: 1, pb: 0, pc: 0, pd: 0 };
    vec![
        base, c02::Case { mips: 3, ..base }, c02::Case { mips: 4, ..base }, c02::Case { mips: 4, w: 6, h: 10, ..base },
        c02::Case { array: 0, ..base }, c02::Case { array: 3, mips: 2, ..base }, c02::Case { array: 2, mips: 3, w: 5, h: 3, ..base },
        c02::Case { cube10: true, w: 4, h: 4, mips: 1, ..base }, c02::Case { cube10: true, w: 4, h: 4, mips: 3, ..base },
        c02::Case { dx10: false, w: 4, h: 4, mips: 2, caps2: 0x200 | (0b101000 << 10), ..base },
        c02::Case { dim: 2, depth: Some(3), w: 4, h: 4, mips: 1, ..base }, c02::Case { dim: 2, depth: Some(5), w: 4, h: 6, mips: 3, ..base },
        c02::Case { dx10: false, caps2: 0x200000, depth: Some(2), w: 2, h: 2, mips: 2, ..base },
        c02::Case { dim: 0, w: 8, h: 1, mips: 2, ..base },
    ]
}

fn with_format(c: &c02::Case, format: Format) -> c02::Case {
    let mut c = *c;
    (c.pk, c.pa, c.pb, c.pc, c.pd) = pi_args(PixelInfo::from(format));
    c
}

/// C10, single surfaces: tag 10, args [fmt; W; H; colour; extra row pitch; parallel] observed [code; bytes written]
/// (code 0 ok, 4 invalid size, 6 unsupported format, 9 other, -2 panic)
pub fn single_surface(out: &mut Out, fmt: usize, w: u32, h: u32, color: usize, extra: usize, parallel: bool, rng: &mut Rng) {
    let (format, _) = FORMATS[fmt];
    let cf = COLORS[color];
    let bpp = cf.bytes_per_pixel() as usize;
    let pitch = w as usize * bpp + extra * bpp;
    let len = if h == 0 { 0 } else { pitch * (h as usize - 1) + w as usize * bpp };
    let data: Vec<u8> = (0..len).map(|_| (rng.next() >> 7) as u8 & 0x3f).collect();   // small values: finite floats
    let Some(view) = ImageView::new_with(&data[..len], pitch, Size::new(w, h), cf) else { return; };
    let mut opts = EncodeOptions::default();
    opts.parallel = parallel;
    opts.quality = CompressionQuality::Fast;
    let mut sink: Vec<u8> = Vec::new();
    let r = catch(|| encode(&mut sink, view, format, None, &opts));
    let code: i128 = match &r { None => -2, Some(Ok(())) => 0, Some(Err(EncodingError::InvalidSize(..))) => 4, Some(Err(EncodingError::UnsupportedFormat(_))) => 6, Some(Err(_)) => 9 };
    if code == -2 { println!("IMPL-VIOLATION panic in encode: fmt {fmt} {w}x{h} colour {color} extra pitch {extra}"); }
    if code == 0 {
        // the bytes must decode again as a surface of that size
        let mut buf = vec![0u8; w as usize * h as usize * 4];
        let mut rd = &sink[..];
        let d = decode(&mut rd, ImageViewMut::new(&mut buf, Size::new(w, h), ColorFormat::RGBA_U8).unwrap(), format, &DecodeOptions::default());
        if d.is_err() || !rd.is_empty() { println!("IMPL-VIOLATION encoded surface does not decode / trailing bytes: fmt {fmt} {w}x{h}"); }
    }
    out.count(if code == 0 { "single_ok" } else { "single_refused" });
    out.case(10, &[fmt as i128, w as i128, h as i128, color as i128, extra as i128, parallel as i128], &[code, if code == 0 { sink.len() as i128 } else { 0 }]);
}
pub fn run(out: &mut Out, tier: &str, seed: u64, corpus: Option<&str>, prop: &str) {
    let thorough = tier == "thorough";
    let mut rng = Rng::new(seed ^ 0xC11);
    if prop == "C10" && tier != "replay" {
        // single surfaces: all formats x sizes incl. widths crossing the 512-pixel / 4096-byte staging buffers x row pitch
        let widths: [u32; 14] = [1, 2, 3, 4, 5, 7, 16, 33, 255, 513, 600, 1025, 1100, 4100];
        for fi in 0..FORMATS.len() {
            let n = if thorough { 60 } else { 8 };
            for k in 0..n {
                let w = if k % 2 == 0 { *rng.pick(&widths) } else { rng.range(1, 70) as u32 };
                let h = if w > 300 { rng.range(1, 4) as u32 } else { rng.range(1, 40) as u32 };
                let color = rng.below(12) as usize;
                let extra = *rng.pick(&[0usize, 0, 1, 3, 17]);
                single_surface(out, fi, w, h, color, extra, rng.chance(1, 3), &mut rng);
            }
            // every input colour format at widths beyond the staging buffers (512 pixels, 4096 bytes of any of the 12 pixel sizes)
            let Some(support) = FORMATS[fi].0.encoding_support() else { continue; };
            let (mx, my) = support.size_multiple().map(|(a, b)| (a.get(), b.get())).unwrap_or((1, 1));
            for color in 0..12usize {
                for (wi, w0) in [342u32 + (fi as u32 % 3), 1025, 1366 + color as u32].into_iter().enumerate() {
                    if !thorough && (fi + color + wi) % 2 == 1 { continue; }
                    let w = w0.div_ceil(mx) * mx; let h = (1 + (color as u32 + wi as u32) % 3).div_ceil(my) * my;
                    single_surface(out, fi, w, h, color, if wi == 1 { 5 } else { 0 }, wi == 2, &mut rng);
                    out.count("single_wide_all_colours");
                }
            }
        }
    }
    if let Some(p) = corpus {
        if let Ok(s) = std::fs::read_to_string(p) {
            for l in s.lines() {
                let lhs = l.split('|').next().unwrap_or("");
                let t: Vec<&str> = lhs.split_whitespace().collect();
                if t.len() < 20 || t[0] != "11" { continue; }
                if let Some(c) = c02::parse_corpus_line(&format!("2 {}", t[1..16].join(" "))) {
                    let pi = (c.pk, c.pa, c.pb, c.pc, c.pd);
                    if let Some(f) = ENC_FORMATS.iter().find(|f| pi_args(PixelInfo::from(**f)) == pi) {
                        let g0 = t[17] != "0";
                        let nums: Vec<u8> = t[20..].iter().filter_map(|x| x.parse().ok()).collect();
                        let ops: Vec<(u8, u8)> = nums.chunks(2).filter(|c| c.len() == 2).map(|c| (c[0], c[1])).collect();
                        emit(out, &c, *f, g0, &ops, 1, false);
                        out.count("corpus");
                    }
                }
            }
        }
    }
    if tier == "replay" { return; }
    // op alphabet: write ok, write wrong size, write pre-cancelled, toggle, finish
    let alphabet: [(u8, u8); 5] = [(0, 0), (0, 1), (0, 2), (1, 0), (2, 0)];
    let depth = if thorough { 6 } else { 4 };
    for (li, lay) in layouts().iter().enumerate() {
        for (fi, format) in ENC_FORMATS.iter().enumerate() {
            if prop == "C11" && !thorough && (li + fi) % 3 != 0 { continue; }
            let c = with_format(lay, *format);
            if prop == "C11" {
                let total = 5usize.pow(depth);
                for code in 0..total {
                    let mut ops = Vec::with_capacity(depth as usize);
                    let mut x = code;
                    for _ in 0..depth { ops.push(alphabet[x % 5]); x /= 5; }
                    // finish consumes the encoder: cut after the first finish
                    if let Some(p) = ops.iter().position(|o| o.0 == 2) { if p + 1 < ops.len() { continue; } }
                    emit(out, &c, *format, code % 2 == 0, &ops, code as u64, false);
                }
            }
            let nrand = match (prop, thorough) { ("C10", false) => 12, ("C10", true) => 200, (_, false) => 40, (_, true) => 400 };
            for _ in 0..nrand {
                let mut c = c;
                if prop == "C10" {
                    // sizes 1..~70, all residues of the block sizes
                    c.w = rng.range(1, 70) as u32; c.h = if c.dim == 0 { 1 } else { rng.range(1, 70) as u32 };
                    if c.cube10 || (!c.dx10 && c.caps2 & 0x200 != 0) { c.h = c.w; }
                    if *format == Format::NV12 && rng.chance(3, 4) { c.w = (c.w + 1) & !1; c.h = (c.h + 1) & !1; }
                    c.mips = match rng.below(4) { 0 => 1, 1 => rng.range(1, 4) as u32, 2 if c.depth.is_none() => 17 + rng.below(9) as u32, _ => 32 - (c.w.max(c.h).max(c.depth.unwrap_or(1))).leading_zeros() };   // 17..25: more levels than the chain needs (all 1x1)
                    if let Some(d) = c.depth.as_mut() { *d = rng.range(1, 5) as u32; }
                }
                let n = rng.range(3, 40) as usize;
                let mut ops: Vec<(u8, u8)> = (0..n).map(|_| match rng.below(if prop == "C10" { 20 } else { 10 }) { 0 => (0, 1), 1 => (0, 2), 2 => (1, 0), _ => (0, 0) }).collect();
                ops.push((2, 0));
                emit(out, &c, *format, rng.chance(1, 2), &ops, rng.next(), prop == "C10" && rng.chance(1, 2));
            }
        }
    }
}
