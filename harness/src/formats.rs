//! The 73 formats of dds::Format (the enum is non_exhaustive, so the list is kept here and checked
//! against the variants written in /repo/src/format.rs by `ddsx dump` on every run).
use dds::*;

macro_rules! fmts { ($($n:ident),* $(,)?) => { pub const FORMATS: &[(Format, &str)] = &[ $((Format::$n, stringify!($n))),* ]; } }
fmts!(
    R8G8B8_UNORM, B8G8R8_UNORM, R8G8B8A8_UNORM, R8G8B8A8_SNORM, B8G8R8A8_UNORM, B8G8R8X8_UNORM, B5G6R5_UNORM,
    B5G5R5A1_UNORM, B4G4R4A4_UNORM, A4B4G4R4_UNORM, R8_SNORM, R8_UNORM, R8G8_UNORM, R8G8_SNORM, A8_UNORM,
    R16_UNORM, R16_SNORM, R16G16_UNORM, R16G16_SNORM, R16G16B16A16_UNORM, R16G16B16A16_SNORM, R10G10B10A2_UNORM,
    R11G11B10_FLOAT, R9G9B9E5_SHAREDEXP, R16_FLOAT, R16G16_FLOAT, R16G16B16A16_FLOAT, R32_FLOAT, R32G32_FLOAT,
    R32G32B32_FLOAT, R32G32B32A32_FLOAT, R10G10B10_XR_BIAS_A2_UNORM, AYUV, Y410, Y416,
    R1_UNORM, R8G8_B8G8_UNORM, G8R8_G8B8_UNORM, UYVY, YUY2, Y210, Y216,
    NV12, P010, P016,
    BC1_UNORM, BC2_UNORM, BC2_UNORM_PREMULTIPLIED_ALPHA, BC3_UNORM, BC3_UNORM_PREMULTIPLIED_ALPHA, BC4_UNORM, BC4_SNORM,
    BC5_UNORM, BC5_SNORM, BC6H_UF16, BC6H_SF16, BC7_UNORM,
    ASTC_4X4_UNORM, ASTC_5X4_UNORM, ASTC_5X5_UNORM, ASTC_6X5_UNORM, ASTC_6X6_UNORM, ASTC_8X5_UNORM, ASTC_8X6_UNORM,
    ASTC_8X8_UNORM, ASTC_10X5_UNORM, ASTC_10X6_UNORM, ASTC_10X8_UNORM, ASTC_10X10_UNORM, ASTC_12X10_UNORM, ASTC_12X12_UNORM,
    BC3_UNORM_RXGB, BC3_UNORM_NORMAL,
);

pub fn id_of(f: Format) -> usize { FORMATS.iter().position(|(g, _)| *g == f).expect("format in list") }

/// (kind, a, b, c, d) as in the Coq pixel_info: 0 Fixed b | 1 Block bytes bw bh | 2 BiPlanar b1 b2 sx sy
pub fn pi_args(p: PixelInfo) -> (u8, u8, u8, u8, u8) {
    match p {
        PixelInfo::Fixed { bytes_per_pixel } => (0, bytes_per_pixel, 0, 0, 0),
        PixelInfo::Block(b) => (1, b.bytes_per_block(), b.size().0, b.size().1, 0),
        PixelInfo::BiPlanar(b) => (2, b.plane1_bytes_per_pixel(), b.plane2_bytes_per_sample(), b.plane2_sub_sampling().0, b.plane2_sub_sampling().1),
    }
}
pub fn coq_pi(p: PixelInfo) -> String {
    match pi_args(p) {
        (0, a, ..) => format!("(Fixed {a})"),
        (1, a, b, c, _) => format!("(Block {a} {b} {c})"),
        (_, a, b, c, d) => format!("(BiPlanar {a} {b} {c} {d})"),
    }
}
pub fn channels_id(c: Channels) -> usize { match c { Channels::Grayscale => 0, Channels::Alpha => 1, Channels::Rgb => 2, Channels::Rgba => 3 } }
pub fn precision_id(p: Precision) -> usize { match p { Precision::U8 => 0, Precision::U16 => 1, Precision::F32 => 2 } }
pub fn color_id(c: ColorFormat) -> usize { channels_id(c.channels) * 3 + precision_id(c.precision) }
