//! C03: BC1 - BC5 block decoding (tag 3); BC7 / BC6H are in c03b.rs.
//! tag 3, args [format kind 0..10 (BC1, BC2, BC2 premultiplied, BC3, BC3 premultiplied, RXGB, BC4U, BC4S, BC5U, BC5S, BC7);
//!              rgb_only; precision (0 = U8, 1 = U16, 2 = F32 as bit patterns); block bytes (8 or 16)]  kinds 11, 12 = BC6H_UF16, BC6H_SF16
//! observed: the 16 decoded pixels, channel by channel (through dds::decode on a 4x4 surface)
use crate::util::*;
use dds::*;

pub const KINDS: [(Format, usize, Channels); 13] = [
    (Format::BC1_UNORM, 8, Channels::Rgba), (Format::BC2_UNORM, 16, Channels::Rgba), (Format::BC2_UNORM_PREMULTIPLIED_ALPHA, 16, Channels::Rgba),
    (Format::BC3_UNORM, 16, Channels::Rgba), (Format::BC3_UNORM_PREMULTIPLIED_ALPHA, 16, Channels::Rgba), (Format::BC3_UNORM_RXGB, 16, Channels::Rgb),
    (Format::BC4_UNORM, 8, Channels::Grayscale), (Format::BC4_SNORM, 8, Channels::Grayscale), (Format::BC5_UNORM, 16, Channels::Rgb), (Format::BC5_SNORM, 16, Channels::Rgb),
    (Format::BC7_UNORM, 16, Channels::Rgba), (Format::BC6H_UF16, 16, Channels::Rgb), (Format::BC6H_SF16, 16, Channels::Rgb),
];

pub fn decode_block(format: Format, channels: Channels, precision: Precision, block: &[u8]) -> Option<Vec<i128>> {
    let color = ColorFormat::new(channels, precision);
    let n = 16 * color.bytes_per_pixel() as usize;
    let mut buf = vec![0u8; n];
    let mut r = block;
    let res = catch(|| decode(&mut r, ImageViewMut::new(&mut buf, Size::new(4, 4), color).unwrap(), format, &DecodeOptions::default()));
    match res { Some(Ok(())) => {} _ => return None }
    Some(match precision {
        Precision::U8 => buf.iter().map(|&b| b as i128).collect(),
        Precision::U16 => buf.chunks(2).map(|c| u16::from_ne_bytes([c[0], c[1]]) as i128).collect(),
        Precision::F32 => buf.chunks(4).map(|c| u32::from_ne_bytes([c[0], c[1], c[2], c[3]]) as i128).collect(),
    })
}

pub fn emit(out: &mut Out, kind: usize, rgb_only: bool, wide: bool, block: &[u8]) {
    emit_p(out, kind, rgb_only, wide as usize, block);
    // every third block also at F32
    if out.lines.len() % 3 == 0 { emit_p(out, kind, rgb_only, 2, block); }
}
pub fn emit_p(out: &mut Out, kind: usize, rgb_only: bool, prec: usize, block: &[u8]) {
    let (format, len, native) = KINDS[kind];
    debug_assert_eq!(block.len(), len);
    let channels = if rgb_only { Channels::Rgb } else { native };
    let Some(obs) = decode_block(format, channels, [Precision::U8, Precision::U16, Precision::F32][prec], block) else {
        println!("IMPL-VIOLATION decode of a {len}-byte block failed or panicked: kind {kind} {:?}", block); return;
    };
    let mut args: Vec<i128> = vec![kind as i128, rgb_only as i128, prec as i128];
    args.extend(block.iter().map(|&b| b as i128));
    out.count(&format!("kind_{kind}")); out.count(&format!("prec_{prec}"));
    out.case(3, &args, &obs);
}

const IDX2: [u32; 6] = [0x0000_0000, 0x5555_5555, 0xAAAA_AAAA, 0xFFFF_FFFF, 0xE4E4_E4E4, 0x1B1B_1B1B];

fn colour_half(c0: u16, c1: u16, idx: u32) -> [u8; 8] {
    let mut b = [0u8; 8];
    b[0..2].copy_from_slice(&c0.to_le_bytes()); b[2..4].copy_from_slice(&c1.to_le_bytes()); b[4..8].copy_from_slice(&idx.to_le_bytes());
    b
}
fn bc4_half(e0: u8, e1: u8, k: u8, rng: &mut Rng) -> [u8; 8] {
    // index value k at all 16 positions (k = 8: random indices)
    let g: u32 = if k < 8 { (0..8).fold(0u32, |a, j| a | ((k as u32) << (3 * j))) } else { rng.next() as u32 & 0xFF_FFFF };
    let g2: u32 = if k < 8 { g } else { rng.next() as u32 & 0xFF_FFFF };
    [e0, e1, g as u8, (g >> 8) as u8, (g >> 16) as u8, g2 as u8, (g2 >> 8) as u8, (g2 >> 16) as u8]
}

pub fn run(out: &mut Out, tier: &str, seed: u64, corpus: Option<&str>) {
    let thorough = tier == "thorough";
    let mut rng = Rng::new(seed ^ 0xC03);
    if let Some(p) = corpus {
        if let Ok(s) = std::fs::read_to_string(p) {
            for l in s.lines() {
                let lhs = l.split('|').next().unwrap_or("");
                let t: Vec<u64> = lhs.split_whitespace().filter_map(|x| x.parse().ok()).collect();
                if t.len() >= 12 && t[0] == 3 && (t[1] as usize) < KINDS.len() && t.len() == 4 + KINDS[t[1] as usize].1 {
                    let block: Vec<u8> = t[4..].iter().map(|&b| b as u8).collect();
                    emit_p(out, t[1] as usize, t[2] != 0, (t[3] as usize).min(2), &block); out.count("corpus");
                }
            }
        }
    }
    if tier == "replay" { return; }
    crate::c03b::run(out, thorough, &mut rng);
    // ---- BC1 family colour halves: all endpoint pairs per channel x both orderings x index patterns
    let mut pairs: Vec<(u16, u16)> = Vec::new();
    for a in 0..32u16 { for b in 0..32u16 { pairs.push((a << 11 | 0x2A5, b << 11 | 0x2A5)); pairs.push((a | 0x5540, b | 0x5540)); pairs.push((a << 11 | a, b << 11 | b)); } }
    for a in 0..64u16 { for b in 0..64u16 { if thorough || (a + b) % 2 == 0 { pairs.push((a << 5 | 0x8010, b << 5 | 0x8010)); pairs.push((a << 5, b << 5)); } } }
    for _ in 0..(if thorough { 20000 } else { 2000 }) { pairs.push((rng.next() as u16, rng.next() as u16)); }
    for (pi, (c0, c1)) in pairs.iter().enumerate() {
        let idx = if pi % 7 == 0 { rng.next() as u32 } else { IDX2[pi % IDX2.len()] };
        let half = colour_half(*c0, *c1, idx);
        let wide = pi % 3 == 0;
        emit(out, 0, false, wide, &half);
        // BC2 / BC3 family: the same colour half behind an alpha half
        let alpha: [u8; 8] = { let mut a = [0u8; 8]; for x in a.iter_mut() { *x = rng.next() as u8; } a };
        let mut b16 = [0u8; 16]; b16[..8].copy_from_slice(&alpha); b16[8..].copy_from_slice(&half);
        let k = [1usize, 2, 3, 4, 5][pi % 5];
        emit(out, k, (k == 1 || k == 3) && pi % 2 == 0, wide, &b16);
    }
    // ---- BC2 alpha: every nibble value at every position
    for v in 0..16u8 { let mut b16 = [0u8; 16]; for x in b16[..8].iter_mut() { *x = v | (15 - v) << 4; } b16[8..].copy_from_slice(&colour_half(0xFFFF, 0, 0xE4E4E4E4)); emit(out, 1, false, v % 2 == 0, &b16); emit(out, 2, false, v % 2 == 1, &b16); }
    // ---- BC4 / BC5 / BC3 alpha: all endpoint pairs x every index value at all positions
    let step = if thorough { 1 } else { 7 };
    let mut n = 0u32;
    for e0 in 0..=255u8 { for e1 in 0..=255u8 {
        n += 1; if n % step != 0 { continue; }
        let k = (n / step % 9) as u8;
        let h = bc4_half(e0, e1, k, &mut rng);
        let wide = n / step % 2 == 0;
        emit(out, 6, false, wide, &h);
        emit(out, 7, false, !wide, &h);
        if n % (step * 3) == 0 {
            let h2 = bc4_half(e1 ^ 0x80, e0, (k + 3) % 9, &mut rng);
            let mut b16 = [0u8; 16]; b16[..8].copy_from_slice(&h); b16[8..].copy_from_slice(&h2);
            emit(out, 8, false, wide, &b16); emit(out, 9, false, wide, &b16);
            let mut b3 = [0u8; 16]; b3[..8].copy_from_slice(&h); b3[8..].copy_from_slice(&colour_half(rng.next() as u16, rng.next() as u16, rng.next() as u32));
            emit(out, 3, false, wide, &b3); emit(out, 4, false, wide, &b3); emit(out, 5, false, wide, &b3);
        }
    } }
    // ---- SNORM corner: both minimum codes
    for (e0, e1) in [(0x80u8, 0x81u8), (0x81, 0x80), (0x80, 0x80), (0x81, 0x81), (0x80, 0x7F), (0x7F, 0x80), (0x81, 0x7F), (0x7F, 0x81)] {
        for k in 0..8 { let h = bc4_half(e0, e1, k, &mut rng); emit(out, 7, false, false, &h); emit(out, 7, false, true, &h);
            let mut b16 = [0u8; 16]; b16[..8].copy_from_slice(&h); b16[8..].copy_from_slice(&h); emit(out, 9, false, k % 2 == 0, &b16); }
    }
}
