//! C01: hostile files never crash the reader (implementation-only totality oracle; runs in the debug build with
//! overflow checks and in the release build).  Every generated file is parsed with several ParseOptions, its
//! layout is queried, and a random sequence of decode / rect-decode / skip / rewind operations is run against a
//! reader that serves the header bytes, then zeros up to an arbitrary (possibly huge or truncated) length, may
//! deliver short reads and may fail at a byte offset.  Violations: a panic; an operation taking longer than 10 s;
//! a call during which the reader reported an error, or which needed bytes beyond the end, returning Ok.
use crate::util::*;
use dds::header::*;
use dds::*;
use std::io::{self, Read, Seek, SeekFrom};

pub struct HostileReader { head: Vec<u8>, len: u64, pos: u64, fault: Option<u64>, mode: u8, rng: Rng, pub errored: bool, pub hit_eof: bool, flag: std::rc::Rc<std::cell::Cell<u8>> }
impl Read for HostileReader {
    fn read(&mut self, buf: &mut [u8]) -> io::Result<usize> {
        if buf.is_empty() { return Ok(0); }
        if let Some(k) = self.fault { if self.pos >= k { self.errored = true; self.flag.set(self.flag.get() | 1); return Err(io::Error::from(io::ErrorKind::Other)); } }
        let avail = self.len.saturating_sub(self.pos);
        if avail == 0 { self.hit_eof = true; self.flag.set(self.flag.get() | 2); return Ok(0); }
        let mut n = (buf.len() as u64).min(avail);
        if let Some(k) = self.fault { n = n.min(k - self.pos); }
        n = match self.mode { 1 => n.min(1), 2 => if n > 1 { 1 + self.rng.below(n) } else { n }, _ => n };
        for i in 0..n as usize { let p = self.pos + i as u64; buf[i] = if (p as usize) < self.head.len() { self.head[p as usize] } else { (p.wrapping_mul(2654435761) >> 7) as u8 }; }
        self.pos += n;
        Ok(n as usize)
    }
}
impl Seek for HostileReader {
    fn seek(&mut self, p: SeekFrom) -> io::Result<u64> {
        let new = match p {
            SeekFrom::Start(x) => Some(x),
            SeekFrom::Current(d) => if d >= 0 { self.pos.checked_add(d as u64) } else { self.pos.checked_sub(d.unsigned_abs()) },
            SeekFrom::End(d) => if d >= 0 { self.len.checked_add(d as u64) } else { self.len.checked_sub(d.unsigned_abs()) },
        };
        match new { None => { self.errored = true; self.flag.set(self.flag.get() | 1); Err(io::Error::from(io::ErrorKind::InvalidInput)) } Some(x) => { self.pos = x; Ok(x) } }
    }
}

fn header_bytes(rng: &mut Rng) -> (Vec<u8>, &'static str) {
    let mut bytes = Vec::new();
    let kind;
    match rng.below(10) {
        0..=5 => {
            let h = crate::c09::valid_headers(rng);
            h.write(&mut bytes).unwrap();
            let nm = match rng.below(4) { 0 => 0, 1 => 1, 2 => 2, _ => 3 };
            for _ in 0..nm { let words = (bytes.len() - 4) / 4; let wi = rng.below(words as u64) as usize; let v = crate::c09::boundary_u32(rng); bytes[4 + 4 * wi..8 + 4 * wi].copy_from_slice(&v.to_le_bytes()); }
            kind = if nm == 0 { "valid" } else { "mutated" };
        }
        6 | 7 => {
            // huge or degenerate dimensions on a valid skeleton: height (word 2), width (3), depth (5), mip count (6), array size (last)
            let h = crate::c09::valid_headers(rng);
            h.write(&mut bytes).unwrap();
            for wi in [2usize, 3, 5, 6] { if rng.chance(1, 2) { let v = crate::c09::boundary_u32(rng); bytes[4 + 4 * wi..8 + 4 * wi].copy_from_slice(&v.to_le_bytes()); } }
            if bytes.len() > 128 && rng.chance(1, 2) { let n = bytes.len(); let v = crate::c09::boundary_u32(rng); bytes[n - 8..n - 4].copy_from_slice(&v.to_le_bytes()); }
            kind = "dimensions";
        }
        8 => {
            bytes.extend_from_slice(b"DDS ");
            for _ in 0..31 { bytes.extend_from_slice(&crate::c09::boundary_u32(rng).to_le_bytes()); }
            if rng.chance(1, 2) { bytes[4 + 80..4 + 84].copy_from_slice(&0x4u32.to_le_bytes()); bytes[4 + 84..4 + 88].copy_from_slice(b"DX10"); for _ in 0..5 { bytes.extend_from_slice(&crate::c09::boundary_u32(rng).to_le_bytes()); } }
            kind = "random_words";
        }
        _ => {
            let n = rng.below(160) as usize;
            for _ in 0..n { bytes.push(rng.next() as u8); }
            if rng.chance(1, 2) && n >= 4 { bytes[..4].copy_from_slice(b"DDS "); }
            kind = "garbage";
        }
    }
    (bytes, kind)
}

const COLORS: [ColorFormat; 12] = [ColorFormat::GRAYSCALE_U8, ColorFormat::GRAYSCALE_U16, ColorFormat::GRAYSCALE_F32, ColorFormat::ALPHA_U8, ColorFormat::ALPHA_U16, ColorFormat::ALPHA_F32,
    ColorFormat::RGB_U8, ColorFormat::RGB_U16, ColorFormat::RGB_F32, ColorFormat::RGBA_U8, ColorFormat::RGBA_U16, ColorFormat::RGBA_F32];

fn one_file(out: &mut Out, rng: &mut Rng, idx: u64) {
    let (head, kind) = header_bytes(rng);
    out.count(&format!("file_{kind}"));
    // what the header says the data length is (if it parses strictly or permissively)
    let declared: Option<u64> = catch(|| { let mut r = &head[..]; Header::read(&mut r, &{ let mut o = ParseOptions::default(); o.permissive = true; o }).ok().and_then(|h| DataLayout::from_header(&h).ok()).map(|l| l.data_len()) }).flatten();
    let total_exact = declared.map(|d| (head.len() as u64).saturating_add(d));
    let len: u64 = match rng.below(8) {
        0 => head.len() as u64, 1 => rng.below(head.len() as u64 + 1),
        2 | 3 => total_exact.unwrap_or(head.len() as u64 + rng.below(4096)),
        4 => total_exact.map(|t| rng.range(head.len() as u64, t.max(head.len() as u64))).unwrap_or(head.len() as u64),
        5 => total_exact.map(|t| t.saturating_sub(1)).unwrap_or(0),
        6 => total_exact.map(|t| t.saturating_add(rng.below(100))).unwrap_or(1 << 20),
        _ => 1u64 << rng.range(10, 45),
    };
    let fault = if rng.chance(1, 4) { Some(rng.below(len.saturating_add(2).min(1 << 22))) } else { None };
    let mode = rng.below(3) as u8;
    let mut po = ParseOptions::default();
    po.permissive = rng.chance(1, 2);
    po.skip_magic_bytes = rng.chance(1, 8);
    po.file_len = match rng.below(4) { 0 => None, 1 => Some(len), 2 => Some(rng.next() >> rng.below(64)), _ => total_exact };
    out.count(if po.permissive { "permissive" } else { "strict" });
    let describe = |op: &str| format!("file#{idx} kind {kind} len {len} fault {fault:?} mode {mode} permissive {} skip_magic {} file_len {:?} head {:02x?} op {op}", po.permissive, po.skip_magic_bytes, po.file_len, head);
    let flag = std::rc::Rc::new(std::cell::Cell::new(0u8));
    let reader = HostileReader { head: head.clone(), len, pos: 0, fault, mode, rng: Rng::new(idx), errored: false, hit_eof: false, flag: flag.clone() };
    let t0 = std::time::Instant::now();
    let dec = catch(|| Decoder::new_with_options(reader, &po));
    let Some(dec) = dec else { println!("IMPL-VIOLATION panic: {}", describe("Decoder::new_with_options")); return; };
    if t0.elapsed().as_secs() >= 10 { println!("IMPL-VIOLATION slow (>10s): {}", describe("Decoder::new_with_options")); }
    let Ok(mut dec) = dec else { out.count("parse_err"); return; };
    out.count("parse_ok");
    // layout queries
    if catch(|| { let l = dec.layout(); let _ = (l.data_len(), l.main_size(), l.mipmaps(), l.is_cube_map(), l.pixel_info()); if let Some(a) = l.texture_array() { let _ = (a.len(), a.get(0), a.get(a.len().saturating_sub(1)), a.get(usize::MAX)); } if let Some(v) = l.volume() { let _ = (v.main().get_depth_slice(0), v.main().get_depth_slice(u32::MAX), v.get(0), v.get(255)); } if let Some(t) = l.texture() { let _ = (t.get(0), t.get(255), t.iter_mips().count()); } }).is_none() {
        println!("IMPL-VIOLATION panic: {}", describe("layout queries")); return;
    }
    let nops = 2 + rng.below(10);
    for _ in 0..nops {
        let info = dec.surface_info().map(|s| (s.size(), s.data_len()));
        let op = rng.below(10);
        let t0 = std::time::Instant::now();
        let name;
        flag.set(0);
        let r: Option<Result<(), DecodingError>> = {
            let d = &mut dec;
            match (op, info) {
                (0..=2, Some((size, _))) if (size.width as u64) * (size.height as u64) <= 40_000 => {
                    name = "read_surface";
                    let color = COLORS[rng.below(12) as usize];
                    let mut buf = vec![0u8; size.width as usize * size.height as usize * color.bytes_per_pixel() as usize];
                    catch(move || d.read_surface(ImageViewMut::new(&mut buf, size, color).unwrap()))
                }
                (0..=4, Some((size, _))) if !size.is_empty() => {
                    name = "read_surface_rect";
                    let color = COLORS[rng.below(12) as usize];
                    let rw = 1 + rng.below(size.width.min(9) as u64) as u32; let rh = 1 + rng.below(size.height.min(9) as u64) as u32;
                    let ox = match rng.below(3) { 0 => 0, 1 => size.width - rw, _ => rng.below((size.width - rw) as u64 + 1) as u32 };
                    let oy = match rng.below(3) { 0 => 0, 1 => size.height - rh, _ => rng.below((size.height - rh) as u64 + 1) as u32 };
                    let mut buf = vec![0u8; rw as usize * rh as usize * color.bytes_per_pixel() as usize];
                    catch(move || d.read_surface_rect(ImageViewMut::new(&mut buf, Size::new(rw, rh), color).unwrap(), Offset::new(ox, oy)))
                }
                (5, _) => { name = "skip_surface"; catch(move || d.skip_surface()) }
                (6, _) => { name = "skip_mipmaps"; catch(move || d.skip_mipmaps()) }
                (7, _) => { name = "rewind_to_previous_surface"; catch(move || d.rewind_to_previous_surface()) }
                (8, _) => { name = "rewind_to_start"; catch(move || d.rewind_to_start()) }
                (9, _) => {
                    // cube-map read: the right 4 x 3 arrangement when it is small enough, otherwise arbitrary small views
                    name = "read_cube_map";
                    let fs = d.main_size();
                    let (iw, ih) = match ((fs.width as u64) * 4, (fs.height as u64) * 3) {
                        (a, b) if a.saturating_mul(b) <= 40_000 && rng.below(4) != 0 => (a as u32, b as u32),
                        _ => *rng.pick(&[(4u32, 3u32), (8, 6), (1, 1), (0, 0), (12, 9), (4, 6)]),
                    };
                    let color = COLORS[rng.below(12) as usize];
                    let mut buf = vec![0u8; iw as usize * ih as usize * color.bytes_per_pixel() as usize];
                    catch(move || d.read_cube_map(ImageViewMut::new(&mut buf, Size::new(iw, ih), color).unwrap()))
                }
                _ => { name = "read_surface (1x1 view)"; let mut b = [0u8; 16]; catch(move || d.read_surface(ImageViewMut::new(&mut b[..4], Size::new(1, 1), ColorFormat::RGBA_U8).unwrap())) }
            }
        };
        out.count(&format!("op_{}", name.split(' ').next().unwrap())); out.count("oracle_calls");
        let Some(r) = r else { println!("IMPL-VIOLATION panic: {}", describe(name)); return; };
        if t0.elapsed().as_secs() >= 10 { println!("IMPL-VIOLATION slow (>10s): {}", describe(name)); }
        match &r {
            Ok(()) => out.count("result_ok"),
            Err(DecodingError::Io(_)) => out.count("result_io"),
            Err(_) => out.count("result_other_err"),
        }
        if r.is_ok() && flag.get() != 0 {
            println!("IMPL-VIOLATION {} during the call but it returned Ok: {}", if flag.get() & 1 != 0 { "the reader reported an error" } else { "the reader was asked for bytes beyond the end" }, describe(name));
        }
    }
    // a reader error at any time must have surfaced: after the run, if the reader errored, at least the LAST failing call
    // was reported - checked per call below in `strict_io`.
    let _ = dec.into_reader();
}

/// per-call check with a fresh decoder: a full read of the first surface of a truncated / faulty file is an I/O error
fn strict_io(out: &mut Out, rng: &mut Rng, idx: u64) {
    let h = crate::c09::valid_headers(rng);
    let Ok(layout) = DataLayout::from_header(&h) else { return; };
    let mut head = Vec::new(); h.write(&mut head).unwrap();
    let Some(format) = Format::from_header(&h).ok() else { return; };
    let size = layout.main_size();
    if size.is_empty() || size.pixels() > 40_000 { return; }
    let first = PixelInfo::from(format).surface_bytes(size).unwrap();
    let cut = rng.below(first);                                 // strictly inside the first surface
    let (len, fault) = if rng.chance(1, 2) { (head.len() as u64 + cut, None) } else { (head.len() as u64 + layout.data_len(), Some(head.len() as u64 + cut)) };
    let reader = HostileReader { head: head.clone(), len, pos: 0, fault, mode: rng.below(3) as u8, rng: Rng::new(idx), errored: false, hit_eof: false, flag: std::rc::Rc::new(std::cell::Cell::new(0u8)) };
    let Some(Ok(mut dec)) = catch(|| Decoder::new(reader)) else { println!("IMPL-VIOLATION valid header did not parse: {:02x?}", head); return; };
    if dec.surface_info().map(|s| s.size()) != Some(size) { return; }       // e.g. an array of zero textures
    let color = COLORS[rng.below(12) as usize];
    let mut buf = vec![0u8; size.width as usize * size.height as usize * color.bytes_per_pixel() as usize];
    let r = catch(|| dec.read_surface(ImageViewMut::new(&mut buf, size, color).unwrap()));
    out.count("strict_io"); out.count("oracle_calls");
    match r {
        None => println!("IMPL-VIOLATION panic: truncated full decode {:?} {:?} cut {cut} of {first}", format, size),
        Some(Err(DecodingError::Io(_))) => {}
        Some(other) => println!("IMPL-VIOLATION truncated or faulty full decode did not end in an I/O error ({:?}): {:?} {:?} {:?} cut {cut} of {first} fault {fault:?}", other.map_err(|e| e.to_string()), format, size, color),
    }
}

/// the free functions dds::decode / dds::decode_rect on every format: empty and tiny images, exact / short / empty data
fn free_functions(out: &mut Out, rng: &mut Rng) {
    for (fi, (format, name)) in crate::formats::FORMATS.iter().enumerate() {
        for (w, h) in [(0u32, 0u32), (0, 3), (3, 0), (1, 1), (2, 2), (5, 3), (4, 4), (9, 2)] {
            for k in 0..3 {
                let color = COLORS[(fi + k * 5 + w as usize) % 12];
                let need = PixelInfo::from(*format).surface_bytes(Size::new(w, h)).unwrap_or(0) as usize;
                let data: Vec<u8> = (0..match k { 0 => need, 1 => need / 2, _ => need + 7 }).map(|_| rng.next() as u8).collect();
                let mut buf = vec![0u8; w as usize * h as usize * color.bytes_per_pixel() as usize];
                let mut r = &data[..];
                let res = catch(|| decode(&mut r, ImageViewMut::new(&mut buf, Size::new(w, h), color).unwrap(), *format, &DecodeOptions::default()));
                out.count("free_decode"); out.count("oracle_calls");
                match res {
                    None => println!("IMPL-VIOLATION panic: dds::decode {name} {w}x{h} into {:?} {:?} with {} of {need} bytes", color.channels, color.precision, data.len()),
                    Some(Ok(())) if data.len() < need => println!("IMPL-VIOLATION dds::decode of truncated data returned Ok: {name} {w}x{h}"),
                    _ => {}
                }
                // rectangles, the empty one included, of a slightly larger surface
                let (sw, sh) = (w + 2, h + 1);
                let sneed = PixelInfo::from(*format).surface_bytes(Size::new(sw, sh)).unwrap_or(0) as usize;
                let sdata: Vec<u8> = (0..sneed).map(|_| rng.next() as u8).collect();
                let mut c = std::io::Cursor::new(&sdata[..]);
                let res = catch(|| decode_rect(&mut c, ImageViewMut::new(&mut buf, Size::new(w, h), color).unwrap(), Offset::new(1, 0), Size::new(sw, sh), *format, &DecodeOptions::default()));
                out.count("free_decode_rect"); out.count("oracle_calls");
                match res {
                    None => println!("IMPL-VIOLATION panic: dds::decode_rect {name} {w}x{h} at (1,0) of {sw}x{sh} into {:?} {:?}", color.channels, color.precision),
                    Some(Err(e)) => println!("IMPL-VIOLATION dds::decode_rect of a valid rectangle failed ({e}): {name} {w}x{h} at (1,0) of {sw}x{sh}"),
                    Some(Ok(())) => if c.position() != sneed as u64 { println!("IMPL-VIOLATION dds::decode_rect left the reader at {} of {sneed}: {name} {w}x{h}", c.position()); },
                }
            }
        }
    }
}

pub fn run(out: &mut Out, tier: &str, seed: u64, _corpus: Option<&str>) {
    let thorough = tier == "thorough";
    let mut rng = Rng::new(seed ^ 0xC01);
    if tier == "replay" { return; }
    let n = if thorough { 3_000_000 } else { 150_000 };
    free_functions(out, &mut rng);
    for i in 0..n { one_file(out, &mut rng, i); }
    for i in 0..(if thorough { 200_000 } else { 20_000 }) { strict_io(out, &mut rng, i); }
    // the harness prints one summary case so that the runner has something to agree on
    out.case(1, &[n as i128], &[n as i128]);
}
