//! C03, BC7 blocks (kind 10 of tag 3): every (mode, partition, rotation, index-selector) tuple with random and extreme payloads,
//! the reserved mode, and p-bit / anchor stress patterns.
use crate::util::*;

/// bits of partition + rotation + index selector that follow the mode prefix
const HEAD_BITS: [u32; 8] = [4, 6, 6, 6, 3, 2, 0, 6];

fn block_of(mode: u32, head: u128, payload: u128) -> [u8; 16] {
    let f = HEAD_BITS[mode as usize];
    let v: u128 = (((payload << f) | head) << (mode + 1)) | (1u128 << mode);
    v.to_le_bytes()
}
fn rand128(rng: &mut Rng) -> u128 { ((rng.next() as u128) << 64) | rng.next() as u128 }

/// BC6H: every mode prefix (10 two-region, 4 one-region, 4 reserved) x all 32 partitions x random / extreme payloads, all three precisions
fn bc6(out: &mut Out, thorough: bool, rng: &mut Rng) {
    let prefixes: [(u128, u32); 18] = [(0b00, 2), (0b01, 2), (0b00010, 5), (0b00110, 5), (0b01010, 5), (0b01110, 5), (0b10010, 5), (0b10110, 5), (0b11010, 5), (0b11110, 5),
        (0b00011, 5), (0b00111, 5), (0b01011, 5), (0b01111, 5), (0b10011, 5), (0b10111, 5), (0b11011, 5), (0b11111, 5)];
    let reps = if thorough { 40 } else { 4 };
    let mut n = 0usize;
    for (pi, &(prefix, bits)) in prefixes.iter().enumerate() {
        let two = pi < 10;
        for part in 0..(if two { 32u128 } else { 1 }) {
            let mut payloads: Vec<u128> = vec![0, u128::MAX, 0x5555_5555_5555_5555_5555_5555_5555_5555, 0xAAAA_AAAA_AAAA_AAAA_AAAA_AAAA_AAAA_AAAA];
            for _ in 0..reps { payloads.push(rand128(rng)); payloads.push(1u128 << rng.below(128)); payloads.push(!(1u128 << rng.below(128))); }
            // extreme deltas: all endpoint bits of one kind set
            payloads.push(u128::MAX >> 46); payloads.push(!(u128::MAX >> 46));
            for p in payloads {
                let mut v = (p << bits) | prefix;
                if two { v = (v & !(0x1Fu128 << 77)) | (part << 77); }          // the partition field sits at bits 77..81
                n += 1;
                for kind in [11usize, 12] { crate::c03::emit_p(out, kind, false, n % 3, &v.to_le_bytes()); }
                out.count(&format!("bc6_prefix_{pi}"));
            }
        }
    }
    for _ in 0..(if thorough { 20000 } else { 1500 }) { let v = rand128(rng); crate::c03::emit_p(out, 11 + rng.below(2) as usize, false, rng.below(3) as usize, &v.to_le_bytes()); out.count("bc6_random"); }
}

pub fn run(out: &mut Out, thorough: bool, rng: &mut Rng) {
    bc6(out, thorough, rng);
    let reps = if thorough { 24 } else { 3 };
    let mut n = 0usize;
    for mode in 0..8u32 {
        for head in 0..(1u128 << HEAD_BITS[mode as usize]) {
            let mut payloads: Vec<u128> = vec![0, u128::MAX, 0x5555_5555_5555_5555_5555_5555_5555_5555, 0xAAAA_AAAA_AAAA_AAAA_AAAA_AAAA_AAAA_AAAA];
            for _ in 0..reps { payloads.push(rand128(rng)); }
            // sparse payloads: single bits set / cleared exercise p-bits and the implied anchor bits one at a time
            for _ in 0..reps { payloads.push(1u128 << rng.below(128)); payloads.push(!(1u128 << rng.below(128))); }
            for p in payloads {
                let b = block_of(mode, head, p);
                n += 1;
                crate::c03::emit(out, 10, n % 4 == 1, n % 2 == 0, &b);
                out.count(&format!("bc7_mode_{mode}"));
            }
        }
    }
    // reserved mode: low byte zero, anything above
    for _ in 0..(if thorough { 200 } else { 20 }) {
        let v = rand128(rng) << 8;
        crate::c03::emit(out, 10, false, rng.below(2) == 0, &v.to_le_bytes());
        out.count("bc7_reserved");
    }
    crate::c03::emit(out, 10, false, false, &[0u8; 16]);
    // fully random blocks
    for _ in 0..(if thorough { 20000 } else { 1500 }) {
        let v = rand128(rng);
        crate::c03::emit(out, 10, rng.below(5) == 0, rng.below(2) == 0, &v.to_le_bytes());
        out.count("bc7_random");
    }
}
