//! C03, BC7 blocks (kind 10 of tag 3): every (mode, partition, rotation, index-selector) tuple with random and extreme payloads,
//! the reserved mode, and p-bit / anchor stress patterns.
use crate::util::*;

/// bits of partition + rotation + index selector that follow the mode prefix
const HEAD_BITS: [u32; 8] = [4, 6, 6, 6, 3, 2, 0, 6];

fn block_of(mode: u32, head: u128, payload: u128) -> [u8; 16] {
    let f = HEAD_BITS[mode as usize];
    let v: u128 = (((payload << f) | head) << (mode + 1)) | (1u128 << mode);
    v.to_le_bytes()
}
fn rand128(rng: &mut Rng) -> u128 { ((rng.next() as u128) << 64) | rng.next() as u128 }

pub fn run(out: &mut Out, thorough: bool, rng: &mut Rng) {
    let reps = if thorough { 24 } else { 3 };
    let mut n = 0usize;
    for mode in 0..8u32 {
        for head in 0..(1u128 << HEAD_BITS[mode as usize]) {
            let mut payloads: Vec<u128> = vec![0, u128::MAX, 0x5555_5555_5555_5555_5555_5555_5555_5555, 0xAAAA_AAAA_AAAA_AAAA_AAAA_AAAA_AAAA_AAAA];
            for _ in 0..reps { payloads.push(rand128(rng)); }
            // sparse payloads: single bits set / cleared exercise p-bits and the implied anchor bits one at a time
            for _ in 0..reps { payloads.push(1u128 << rng.below(128)); payloads.push(!(1u128 << rng.below(128))); }
            for p in payloads {
                let b = block_of(mode, head, p);
                n += 1;
                crate::c03::emit(out, 10, n % 4 == 1, n % 2 == 0, &b);
                out.count(&format!("bc7_mode_{mode}"));
            }
        }
    }
    // reserved mode: low byte zero, anything above
    for _ in 0..(if thorough { 200 } else { 20 }) {
        let v = rand128(rng) << 8;
        crate::c03::emit(out, 10, false, rng.below(2) == 0, &v.to_le_bytes());
        out.count("bc7_reserved");
    }
    crate::c03::emit(out, 10, false, false, &[0u8; 16]);
    // fully random blocks
    for _ in 0..(if thorough { 20000 } else { 1500 }) {
        let v = rand128(rng);
        crate::c03::emit(out, 10, rng.below(5) == 0, rng.below(2) == 0, &v.to_le_bytes());
        out.count("bc7_random");
    }
}
