//! C03, BC7 blocks (kind 10 of tag 3): every (mode, partition, rotation, index-selector) tuple with random and extreme payloads,
//! the reserved mode, and p-bit / anchor stress patterns.
use crate::util::*;

/// bits of partition + rotation + index selector that follow the mode prefix
const HEAD_BITS: [u32; 8] = [4, 6, 6, 6, 3, 2, 0, 6];

fn block_of(mode: u32, head: u128, payload: u128) -> [u8; 16] {
    let f = HEAD_BITS[mode as usize];
    let v: u128 = (((payload << f) | head) << (mode + 1)) | (1u128 << mode);
    v.to_le_bytes()
}
fn rand128(rng: &mut Rng) -> u128 { ((rng.next() as u128) << 64) | rng.next() as u128 }

/// BC6H: every mode prefix (10 two-region, 4 one-region, 4 reserved) x all 32 partitions x random / extreme payloads, all three precisions
fn bc6(out: &mut Out, thorough: bool, rng: &mut Rng) {
    let prefixes: [(u128, u32); 18] = [(0b00, 2), (0b01, 2), (0b00010, 5), (0b00110, 5), (0b01010, 5), (0b01110, 5), (0b10010, 5), (0b10110, 5), (0b11010, 5), (0b11110, 5),
        (0b00011, 5), (0b00111, 5), (0b01011, 5), (0b01111, 5), (0b10011, 5), (0b10111, 5), (0b11011, 5), (0b11111, 5)];
    let reps = if thorough { 40 } else { 4 };
    let mut n = 0usize;
    for (pi, &(prefix, bits)) in prefixes.iter().enumerate() {
        let two = pi < 10;
        for part in 0..(if two { 32u128 } else { 1 }) {
            let mut payloads: Vec<u128> = vec![0, u128::MAX, 0x5555_5555_5555_5555_5555_5555_5555_5555, 0xAAAA_AAAA_AAAA_AAAA_AAAA_AAAA_AAAA_AAAA];
            for _ in 0..reps { payloads.push(rand128(rng)); payloads.push(1u128 << rng.below(128)); payloads.push(!(1u128 << rng.below(128))); }
            // extreme deltas: all endpoint bits of one kind set
            payloads.push(u128::MAX >> 46); payloads.push(!(u128::MAX >> 46));
            for p in payloads {
                let mut v = (p << bits) | prefix;
                if two { v = (v & !(0x1Fu128 << 77)) | (part << 77); }          // the partition field sits at bits 77..81
                n += 1;
                for kind in [11usize, 12] { crate::c03::emit_p(out, kind, false, n % 3, &v.to_le_bytes()); }
                out.count(&format!("bc6_prefix_{pi}"));
            }
        }
    }
    for _ in 0..(if thorough { 20000 } else { 1500 }) { let v = rand128(rng); crate::c03::emit_p(out, 11 + rng.below(2) as usize, false, rng.below(3) as usize, &v.to_le_bytes()); out.count("bc6_random"); }
}

/// first bit of the index data of each BC7 mode (the index data fills the block up to bit 128)
const INDEX_START: [u32; 8] = [83, 82, 99, 98, 50, 66, 65, 98];
/// writes a single-subset index list: pixel 0 is stored with one bit less (its top bit is implied 0)
fn put_indexes(v: &mut u128, start: u32, bits: u32, values: &[u8; 16]) -> u32 {
    let mut at = start;
    for (i, &x) in values.iter().enumerate() {
        let n = if i == 0 { bits - 1 } else { bits };
        let mask = (1u128 << n) - 1;
        *v = (*v & !(mask << at)) | ((x as u128 & mask) << at);
        at += n;
    }
    at
}
/// index patterns real encoders emit all the time and random payloads never contain: solid blocks (every index
/// equal), two-valued blocks, ramps
fn patterns(bits: u32, rng: &mut Rng) -> Vec<[u8; 16]> {
    let half = 1u8 << (bits - 1);
    let mut v: Vec<[u8; 16]> = Vec::new();
    for k in 0..half { v.push([k; 16]); }                                         // solid (pixel 0 can only hold the lower half)
    for _ in 0..3 { let (a, b) = (rng.below(half as u64) as u8, rng.below(2 * half as u64) as u8); let mut p = [b; 16]; p[0] = a; v.push(p);   // solid except the anchor
        let mut q = [a; 16]; for x in q.iter_mut().skip(1) { if rng.below(2) == 0 { *x = b; } } v.push(q); }                    // two-valued
    let mut ramp = [0u8; 16]; for (i, x) in ramp.iter_mut().enumerate() { *x = (i as u8) % (2 * half); } ramp[0] %= half; v.push(ramp);
    v
}
fn structured(out: &mut Out, thorough: bool, rng: &mut Rng) {
    let reps = if thorough { 12 } else { 2 };
    let mut n = 0usize;
    // ---- BC7 single-subset modes: 4 (2-bit + 3-bit lists, index selector), 5 (2 + 2), 6 (4)
    for mode in [4u32, 5, 6] {
        let lists: &[u32] = match mode { 4 => &[2, 3], 5 => &[2, 2], _ => &[4] };
        for head in 0..(1u128 << HEAD_BITS[mode as usize]) {
            let pa = patterns(lists[0], rng);
            let pb = if lists.len() == 2 { patterns(lists[1], rng) } else { vec![[0u8; 16]] };
            for ia in &pa { for ib in &pb { for _ in 0..reps {
                let mut v = u128::from_le_bytes(block_of(mode, head, rand128(rng)));
                let at = put_indexes(&mut v, INDEX_START[mode as usize], lists[0], ia);
                if lists.len() == 2 { let end = put_indexes(&mut v, at, lists[1], ib); debug_assert_eq!(end, 128); } else { debug_assert_eq!(at, 128); }
                n += 1;
                crate::c03::emit(out, 10, n % 4 == 1, n % 2 == 0, &v.to_le_bytes());
                out.count(&format!("bc7_structured_mode_{mode}"));
            } } }
        }
    }
    // ---- BC7 multi-subset modes: constant index bits (all indexes 0 / all bits set) behind random endpoints
    for mode in [0u32, 1, 2, 3, 7] {
        for head in 0..(1u128 << HEAD_BITS[mode as usize]) {
            for fill in [0u128, u128::MAX] { for _ in 0..reps.min(3) {
                let mut v = u128::from_le_bytes(block_of(mode, head, rand128(rng)));
                let m = u128::MAX << INDEX_START[mode as usize];
                v = (v & !m) | (fill & m);
                n += 1;
                crate::c03::emit(out, 10, n % 4 == 1, n % 2 == 0, &v.to_le_bytes());
                out.count(&format!("bc7_structured_mode_{mode}"));
            } }
        }
    }
    // ---- BC6H: one-region modes (4-bit list from bit 65), two-region modes (constant index bits from bit 82)
    for &(prefix, bits) in &[(0b00011u128, 5u32), (0b00111, 5), (0b01011, 5), (0b01111, 5)] {
        for ia in &patterns(4, rng) { for _ in 0..reps {
            let mut v = (rand128(rng) << bits) | prefix;
            let end = put_indexes(&mut v, 65, 4, ia); debug_assert_eq!(end, 128);
            n += 1;
            for kind in [11usize, 12] { crate::c03::emit_p(out, kind, false, n % 3, &v.to_le_bytes()); }
            out.count("bc6_structured_one_region");
        } }
    }
    for &(prefix, bits) in &[(0b00u128, 2u32), (0b01, 2), (0b00010, 5), (0b00110, 5), (0b01010, 5), (0b01110, 5), (0b10010, 5), (0b10110, 5), (0b11010, 5), (0b11110, 5)] {
        for part in 0..32u128 { for fill in [0u128, u128::MAX] {
            let mut v = (rand128(rng) << bits) | prefix;
            v = (v & !(0x1Fu128 << 77)) | (part << 77);
            let m = u128::MAX << 82;
            v = (v & !m) | (fill & m);
            n += 1;
            for kind in [11usize, 12] { crate::c03::emit_p(out, kind, false, n % 3, &v.to_le_bytes()); }
            out.count("bc6_structured_two_region");
        } }
    }
}

pub fn run(out: &mut Out, thorough: bool, rng: &mut Rng) {
    bc6(out, thorough, rng);
    structured(out, thorough, rng);
    let reps = if thorough { 24 } else { 3 };
    let mut n = 0usize;
    for mode in 0..8u32 {
        for head in 0..(1u128 << HEAD_BITS[mode as usize]) {
            let mut payloads: Vec<u128> = vec![0, u128::MAX, 0x5555_5555_5555_5555_5555_5555_5555_5555, 0xAAAA_AAAA_AAAA_AAAA_AAAA_AAAA_AAAA_AAAA];
            for _ in 0..reps { payloads.push(rand128(rng)); }
            // sparse payloads: single bits set / cleared exercise p-bits and the implied anchor bits one at a time
            for _ in 0..reps { payloads.push(1u128 << rng.below(128)); payloads.push(!(1u128 << rng.below(128))); }
            for p in payloads {
                let b = block_of(mode, head, p);
                n += 1;
                crate::c03::emit(out, 10, n % 4 == 1, n % 2 == 0, &b);
                out.count(&format!("bc7_mode_{mode}"));
            }
        }
    }
    // reserved mode: low byte zero, anything above
    for _ in 0..(if thorough { 200 } else { 20 }) {
        let v = rand128(rng) << 8;
        crate::c03::emit(out, 10, false, rng.below(2) == 0, &v.to_le_bytes());
        out.count("bc7_reserved");
    }
    crate::c03::emit(out, 10, false, false, &[0u8; 16]);
    // fully random blocks
    for _ in 0..(if thorough { 20000 } else { 1500 }) {
        let v = rand128(rng);
        crate::c03::emit(out, 10, rng.below(5) == 0, rng.below(2) == 0, &v.to_le_bytes());
        out.count("bc7_random");
    }
}
