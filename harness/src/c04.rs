//! C04: uncompressed / packed / sub-sampled / bi-planar decoding at the native channel layout (tag 4) and
//! validation of the floating-point model against the hardware operations (tag 40).
//! tag 4, args [format id 0..44; precision 0..2; w; h; data bytes...]  observed: decoded values (F32 as bit patterns)
//! tag 40, args [op; a; b]  observed: [result]  (f32 bit patterns; op 4 takes a signed integer, ops 5-7 give integers)
use crate::formats::*;
use crate::util::*;
use dds::*;

pub fn decode_native(fi: usize, prec: Precision, w: u32, h: u32, data: &[u8], channels: Option<Channels>) -> Option<Vec<i128>> {
    let format = FORMATS[fi].0;
    let color = ColorFormat::new(channels.unwrap_or(format.channels()), prec);
    let n = w as usize * h as usize * color.bytes_per_pixel() as usize;
    let mut buf = vec![0x5Au8; n];
    let mut r = data;
    let res = catch(|| decode(&mut r, ImageViewMut::new(&mut buf, Size::new(w, h), color).unwrap(), format, &DecodeOptions::default()));
    match res { Some(Ok(())) => {} _ => return None }
    if !r.is_empty() { return None; }
    Some(match prec {
        Precision::U8 => buf.iter().map(|&b| b as i128).collect(),
        Precision::U16 => buf.chunks(2).map(|c| u16::from_ne_bytes([c[0], c[1]]) as i128).collect(),
        Precision::F32 => buf.chunks(4).map(|c| u32::from_ne_bytes([c[0], c[1], c[2], c[3]]) as i128).collect(),
    })
}
const PRECS: [Precision; 3] = [Precision::U8, Precision::U16, Precision::F32];

pub fn surface_len(fi: usize, w: u32, h: u32) -> usize {
    PixelInfo::from(FORMATS[fi].0).surface_bytes(Size::new(w, h)).unwrap() as usize
}
fn emit(out: &mut Out, fi: usize, p: usize, w: u32, h: u32, data: &[u8]) {
    debug_assert_eq!(data.len(), surface_len(fi, w, h));
    let Some(obs) = decode_native(fi, PRECS[p], w, h, data, None) else {
        println!("IMPL-VIOLATION decode failed, panicked or left data unread: {} {w}x{h} precision {p}", FORMATS[fi].1); return;
    };
    let mut args: Vec<i128> = vec![fi as i128, p as i128, w as i128, h as i128];
    args.extend(data.iter().map(|&b| b as i128));
    out.count(&format!("fmt_{}", FORMATS[fi].1)); out.count(&format!("prec_{p}"));
    out.case(4, &args, &obs);
}

fn f32_specials() -> Vec<u32> {
    let mut v: Vec<u32> = vec![0, 0x8000_0000, 1, 0x8000_0001, 0x007F_FFFF, 0x0080_0000, 0x3F80_0000, 0xBF80_0000, 0x3F00_0000, 0x3EFF_FFFF, 0x3F00_0001,
        0x3F7F_FFFF, 0x3F80_0001, 0x7F7F_FFFF, 0xFF7F_FFFF, 0x7F80_0000, 0xFF80_0000, 0x7FC0_0000, 0xFFC0_0000, 0x7F80_0001, 0x477F_E000, 0x4780_0000, 0x7149_F2CA, 0xF149_F2CA,
        0x3B80_8081, 0x3B00_8081, 0x3780_0080, 0x3700_0080, 0x4B80_0000, 0x4B7F_FFFF, 0x4F80_0000, 0x4F7F_FFFF, 0x5F80_0000];
    // rounding boundaries of x * 255 + 0.5 and x * 65535 + 0.5
    for k in [0u32, 1, 2, 127, 128, 254, 255] { for d in [-1i32, 0, 1] {
        let a = (k as f32 + 0.5) / 255.0; v.push((a.to_bits() as i32 + d) as u32);
        let b = k as f32 / 255.0; v.push((b.to_bits() as i32 + d) as u32);
    } }
    for k in [0u32, 1, 32767, 32768, 65534, 65535] { for d in [-1i32, 0, 1] {
        let a = (k as f32 + 0.5) / 65535.0; v.push((a.to_bits() as i32 + d) as u32);
    } }
    v
}

fn float_ops(out: &mut Out, thorough: bool, rng: &mut Rng) {
    let sp = f32_specials();
    let pick = |rng: &mut Rng| -> u32 {
        match rng.below(8) {
            0 => sp[rng.below(sp.len() as u64) as usize],
            1 => (rng.below(600) as f32).to_bits(),
            2 => ((rng.below(70000) as f32) / 65535.0).to_bits(),
            3 => { let e = rng.below(40) as u32; ((e + 100) << 23) | (rng.next() as u32 & 0x7F_FFFF) | ((rng.below(2) as u32) << 31) }
            4 => rng.next() as u32 & 0x807F_FFFF,             // zeros and subnormals
            _ => rng.next() as u32,
        }
    };
    let n = if thorough { 120_000 } else { 12_000 };
    for i in 0..n {
        let op = (i % 12) as i128;
        let a = pick(rng); let b = pick(rng);
        let (fa, fb) = (f32::from_bits(a), f32::from_bits(b));
        let canon = |x: f32| -> i128 { if x.is_nan() { 0x7FC0_0000 } else { x.to_bits() as i128 } };
        let (args, obs): (Vec<i128>, i128) = match op {
            0 => (vec![op, a as i128, b as i128], canon(fa + fb)),
            1 => (vec![op, a as i128, b as i128], canon(fa - fb)),
            2 => (vec![op, a as i128, b as i128], canon(fa * fb)),
            3 => (vec![op, a as i128, b as i128], canon(fa / fb)),
            4 => { let z = (rng.next() as i64) >> rng.below(63); (vec![op, z as i128, 0], canon(z as f32)) }
            5 => (vec![op, a as i128, 0], fa as u8 as i128),
            6 => (vec![op, a as i128, 0], fa as u16 as i128),
            7 => (vec![op, a as i128, 0], fa as u32 as i128),
            8 => (vec![op, a as i128, b as i128], canon(fa.max(fb))),
            9 => (vec![op, a as i128, b as i128], canon(fa.min(fb))),
            10 => (vec![op, a as i128, 0], canon(if fa.is_nan() { fa } else { fa.clamp(0.0, 1.0) })),
            _ => (vec![op, a as i128, b as i128], (fa < fb) as i128 + 2 * (fa <= fb) as i128),
        };
        // max / min of two zeros of different sign is platform-dependent in Rust: skip
        if (op == 8 || op == 9) && fa == 0.0 && fb == 0.0 { continue; }
        out.count(&format!("float_op_{op}"));
        out.case(40, &args, &[obs]);
    }
}


/// implementation-only oracle: every half-float code through R16_FLOAT -> U8 / U16 against exact integer arithmetic
fn half_oracle(out: &mut Out) {
    let fi = id_of(Format::R16_FLOAT);
    for base in (0..65536u32).step_by(256) {
        let mut data = Vec::with_capacity(512);
        for x in base..base + 256 { data.extend_from_slice(&(x as u16).to_le_bytes()); }
        for (p, scale) in [(0usize, 255u128), (1, 65535)] {
            let Some(obs) = decode_native(fi, PRECS[p], 256, 1, &data, None) else { println!("IMPL-VIOLATION half oracle: decode failed"); return; };
            for (i, &got) in obs.iter().enumerate() {
                let x = base + i as u32;
                let (sign, e, m) = (x >> 15, (x >> 10) & 31, (x & 1023) as u128);
                // value = num / 2^sh
                let ok = if sign == 1 { got == 0 } else if e == 31 { got == if m == 0 { scale as i128 } else { 0 } } else {
                    let (num, sh) = if e == 0 { (m, 24u32) } else { ((m + 1024) << e, 25u32) };
                    let den = 1u128 << sh;
                    if num >= den { got == scale as i128 } else {
                        let g = got as u128; let t = num * scale;
                        2 * g * den <= 2 * t + den && 2 * t <= 2 * g * den + den
                    }
                };
                out.count("half_oracle");
                if !ok {
                    let tag = if p == 1 && (0x3801..=0x3804).contains(&x) { format!("F11: half {x:#06x}") } else { format!("half-nearest: half {x:#06x}") };
                    println!("IMPL-VIOLATION {tag} decodes to {} {got}, which is not the nearest value to the exact {}", if p == 0 { "U8" } else { "U16" }, if e == 0 { format!("{m} * 2^-24") } else { format!("{} * 2^{}", m + 1024, e as i32 - 25) });
                }
            }
        }
    }
}


/// implementation-only oracle: nominal black / grey / white of every YUV format (neutral chroma) against the ideal
/// limited-range value; the 10- and 16-bit formats miss white by the known gain error (finding F16)
fn yuv_levels_oracle(out: &mut Out) {
    // (format, luma bits stored in the top of how many bits, bytes per element layout handled per format)
    let fmts: [(Format, u32); 10] = [(Format::P016, 16), (Format::AYUV, 8), (Format::YUY2, 8), (Format::UYVY, 8), (Format::NV12, 8), (Format::Y410, 10), (Format::Y210, 10), (Format::P010, 10), (Format::Y416, 16), (Format::Y216, 16)];
    for (format, bits) in fmts {
        let fi = id_of(format);
        let (yoff, range, mid): (u32, u32, u32) = match bits { 8 => (16, 219, 128), 10 => (64, 876, 512), _ => (4096, 56064, 32768) };
        for level in [0u32, range / 3, range] {
            let y = yoff + level;
            let (w, h) = (2u32, 2u32);
            let n = surface_len(fi, w, h);
            // build the surface: every luma sample y, every chroma sample mid
            let data: Vec<u8> = match format {
                Format::AYUV => (0..4).flat_map(|_| [mid as u8, mid as u8, y as u8, 255]).collect(),
                Format::YUY2 => (0..2).flat_map(|_| [y as u8, mid as u8, y as u8, mid as u8]).collect(),
                Format::UYVY => (0..2).flat_map(|_| [mid as u8, y as u8, mid as u8, y as u8]).collect(),
                Format::NV12 => { let mut d = vec![y as u8; 4]; d.extend_from_slice(&[mid as u8, mid as u8]); d }
                Format::Y410 => (0..4).flat_map(|_| (mid | (y << 10) | (mid << 20) | (3 << 30)).to_le_bytes()).collect(),
                Format::Y210 => (0..2).flat_map(|_| [(y << 6) as u16, (mid << 6) as u16, (y << 6) as u16, (mid << 6) as u16].into_iter().flat_map(|v| v.to_le_bytes())).collect(),
                Format::P010 => { let mut d: Vec<u8> = (0..4).flat_map(|_| ((y << 6) as u16).to_le_bytes()).collect(); d.extend(((mid << 6) as u16).to_le_bytes()); d.extend(((mid << 6) as u16).to_le_bytes()); d }
                Format::P016 => { let mut d: Vec<u8> = (0..4).flat_map(|_| (y as u16).to_le_bytes()).collect(); d.extend((mid as u16).to_le_bytes()); d.extend((mid as u16).to_le_bytes()); d }
                Format::Y416 => (0..4).flat_map(|_| [mid as u16, y as u16, mid as u16, 65535].into_iter().flat_map(|v| v.to_le_bytes())).collect(),
                _ => (0..2).flat_map(|_| [y as u16, mid as u16, y as u16, mid as u16].into_iter().flat_map(|v| v.to_le_bytes())).collect(),
            };
            if data.len() != n { println!("IMPL-VIOLATION yuv oracle built {} bytes for {:?}, expected {n}", data.len(), format); continue; }
            let Some(obs) = decode_native(fi, Precision::U8, w, h, &data, Some(Channels::Rgb)) else { println!("IMPL-VIOLATION yuv oracle: decode failed {:?}", format); continue; };
            let want = ((level as f64 / range as f64) * 255.0).round() as i128;
            out.count("yuv_levels_oracle");
            if obs.iter().any(|&v| v != want) {
                let tag = if bits > 8 && obs.iter().all(|&v| (v - want).abs() <= 1) { format!("F16: {:?}", format) } else { format!("yuv-level: {:?}", format) };
                println!("IMPL-VIOLATION {tag} luma {y} with neutral chroma decodes to {:?} at U8, the ideal limited-range value is {want}", &obs[..3]);
            }
        }
    }
}

/// implementation-only oracle: the chroma pairing of the sub-sampled and bi-planar formats does not depend on the requested
/// channel layout, also on rows wider than the 3072-byte conversion buffer (every chunk boundary must fall between cells)
fn wide_pairing_oracle(out: &mut Out, rng: &mut Rng) {
    for fi in 35..45usize {
        let (format, name) = FORMATS[fi];
        let native = format.channels();
        for (p, w) in [(0usize, 1400u32), (1, 702), (2, 350), (0, 1026), (2, 258)] {
            let h = 2u32;
            let data: Vec<u8> = (0..surface_len(fi, w, h)).map(|_| rng.next() as u8).collect();
            let Some(base) = decode_native(fi, PRECS[p], w, h, &data, None) else { println!("IMPL-VIOLATION wide decode failed: {name} {w}x{h}"); continue; };
            let nn = native.count() as usize;
            for to in [Channels::Rgba, Channels::Rgb, Channels::Grayscale] {
                if to == native { continue; }
                let Some(got) = decode_native(fi, PRECS[p], w, h, &data, Some(to)) else { println!("IMPL-VIOLATION wide decode failed: {name} {w}x{h} to {:?}", to); continue; };
                let tn = to.count() as usize;
                out.count("wide_pairing_oracle");
                // colour channels shared by both layouts must agree pixel by pixel (grey = first channel of a colour format)
                let shared = if to == Channels::Grayscale || native == Channels::Grayscale { 1 } else { 3.min(nn).min(tn) };
                let bad = (0..(w * h) as usize).find(|&i| (0..shared).any(|c| base[i * nn + c] != got[i * tn + c]));
                if let Some(i) = bad { println!("IMPL-VIOLATION {name} {w}x{h} precision {p}: pixel {} decodes differently into {:?} than into the native layout", i, to); }
            }
        }
    }
}

pub fn run(out: &mut Out, tier: &str, seed: u64, corpus: Option<&str>) {
    let thorough = tier == "thorough";
    let mut rng = Rng::new(seed ^ 0xC04);
    if let Some(p) = corpus {
        if let Ok(s) = std::fs::read_to_string(p) {
            for l in s.lines() {
                let lhs = l.split('|').next().unwrap_or("");
                let t: Vec<u64> = lhs.split_whitespace().filter_map(|x| x.parse().ok()).collect();
                if t.len() >= 5 && t[0] == 4 && t[1] < 45 && t[2] < 3 && t[3] >= 1 && t[4] >= 1 && t[3] < 4096 && t[4] < 4096 {
                    let (fi, w, h) = (t[1] as usize, t[3] as u32, t[4] as u32);
                    if (fi < 42 || (w % 2 == 0 && h % 2 == 0)) && t.len() == 5 + surface_len(fi, w, h) {
                        let data: Vec<u8> = t[5..].iter().map(|&b| b as u8).collect();
                        emit(out, fi, t[2] as usize, w, h, &data); out.count("corpus");
                    }
                }
            }
        }
    }
    if tier == "replay" { return; }
    float_ops(out, thorough, &mut rng);
    half_oracle(out);
    yuv_levels_oracle(out);
    wide_pairing_oracle(out, &mut rng);
    let sp = f32_specials();
    // ---- pixel formats (ids 0..34): K pixels in one row
    for fi in 0..35usize {
        let bpp = surface_len(fi, 1, 1);
        let name = FORMATS[fi].1;
        let is_f32 = name.contains("R32");
        let is_f16 = name.contains("16_FLOAT") || name.contains("16G16_FLOAT");
        const K: u32 = 16;
        if bpp <= 2 {
            // exhaustive over the encoded pixel value (quick: every 5th row of 16 values)
            let total: u32 = 1 << (8 * bpp);
            let mut base = 0u32; let mut rowi = 0u32;
            while base < total {
                let take = thorough || bpp == 1 || rowi % 5 == 0 || base + K >= total;
                if take {
                    let mut data = Vec::new();
                    for v in base..base + K { data.extend_from_slice(&v.to_le_bytes()[..bpp]); }
                    for p in 0..3 { emit(out, fi, p, K, 1, &data); }
                }
                base += K; rowi += 1;
            }
        } else {
            // per-channel sweeps over words with one field running through all its values, others random
            let words = bpp / 4;
            let rows = if thorough { 4096 } else { 300 };
            for row in 0..rows {
                let mut data = Vec::new();
                for i in 0..K {
                    let mut px = vec![0u8; bpp];
                    for b in px.iter_mut() { *b = rng.next() as u8; }
                    let run = (row * K + i) as u32;
                    if words >= 1 && bpp != 3 {
                        if is_f32 {
                            let c = (run as usize) % (bpp / 4);
                            let v = if run % 3 == 0 { sp[(run as usize / 3) % sp.len()] } else if run % 3 == 1 { ((run % 70000) as f32 / 65535.0).to_bits() } else { rng.next() as u32 };
                            px[4 * c..4 * c + 4].copy_from_slice(&v.to_le_bytes());
                        } else if bpp == 8 || is_f16 {
                            // 16-bit channels: run through all 65536 values over the rows
                            let c = (row as usize) % (bpp / 2);
                            let v = (run.wrapping_mul(if thorough { 1 } else { 13 }) & 0xFFFF) as u16;
                            px[2 * c..2 * c + 2].copy_from_slice(&v.to_le_bytes());
                        } else if bpp == 4 && (name.contains("10") || name.contains("11") || name.contains("9G9")) {
                            let shift = [0u32, 10, 20, 11, 22, 9, 18, 27, 30][(row as usize) % 9];
                            let mut wv = u32::from_le_bytes([px[0], px[1], px[2], px[3]]);
                            wv = (wv & !(0x7FF << shift)) | ((run & 0x7FF) << shift);
                            px.copy_from_slice(&wv.to_le_bytes());
                        } else {
                            let c = (row as usize) % bpp; px[c] = run as u8;
                        }
                    } else { let c = (row as usize) % bpp; px[c] = run as u8; }
                    data.extend_from_slice(&px);
                }
                emit(out, fi, (row % 3) as usize, K, 1, &data);
                if row % 16 == 0 { for p in 0..3 { emit(out, fi, p, K / 4, 4, &data); } }
            }
        }
    }
    // ---- 8-bit YUV: every (y, v) pair (red depends on exactly these) and every (y, u) pair (blue), green on the way
    {
        let fi = id_of(Format::AYUV);
        let ystep = if thorough { 1 } else { 3 };
        for y in (0..256u32).step_by(ystep) {
            for which in 0..2 {
                let mut data = Vec::with_capacity(1024);
                for c in 0..256u32 { let other = (c * 97 + y * 31 + 13) % 256; let (u, v) = if which == 0 { (other, c) } else { (c, other) }; data.extend_from_slice(&[v as u8, u as u8, y as u8, (c ^ y) as u8]); }
                emit(out, fi, ((y as usize) + which) % 3, 256, 1, &data);
            }
        }
    }
    // ---- sub-sampled formats (ids 35..41): odd / even widths and heights, all byte values per position
    for fi in 35..42usize {
        let reps = if thorough { 200 } else { 24 };
        for w in 1..=10u32 { for h in 1..=3u32 { for rep in 0..reps {
            let n = surface_len(fi, w, h);
            let mut data = vec![0u8; n];
            for (i, b) in data.iter_mut().enumerate() { *b = if rep % 2 == 0 { rng.next() as u8 } else { (rep as usize * 37 + i * 11) as u8 }; }
            emit(out, fi, (rep % 3) as usize, w, h, &data);
        } } }
        // all luma / chroma byte values
        for v in 0..=255u8 { let n = surface_len(fi, 2, 1); let mut data = vec![0u8; n]; for (i, b) in data.iter_mut().enumerate() { *b = v.wrapping_add((i as u8).wrapping_mul(67)); } for p in 0..3 { emit(out, fi, p, 2, 1, &data); } }
    }
    // ---- bi-planar formats (ids 42..44): the implementation requires even sizes for these
    for fi in 42..45usize {
        let reps = if thorough { 120 } else { 16 };
        for w in [2u32, 4, 6, 8] { for h in [2u32, 4, 6] { for rep in 0..reps {
            let n = surface_len(fi, w, h);
            let mut data = vec![0u8; n];
            for b in data.iter_mut() { *b = rng.next() as u8; }
            emit(out, fi, (rep % 3) as usize, w, h, &data);
        } } }
    }
}
