//! C14: SplitView geometry (tag 14) and parallel == sequential == fragment-wise bytes (implementation-only oracles).
//! tag 14, args [fmt; quality 0..3; dithering (0 none, 1 colour, 2 alpha, 3 both); w; h]
//! observed: [len; single?; for i in sample(len): first row, height]
use crate::formats::*;
use crate::util::*;
use dds::*;
use std::sync::atomic::{AtomicU32, AtomicU64, Ordering};

pub const QUALITIES: [CompressionQuality; 4] = [CompressionQuality::Fast, CompressionQuality::Normal, CompressionQuality::High, CompressionQuality::Unreasonable];
pub const DITHER: [Dithering; 4] = [Dithering::None, Dithering::Color, Dithering::Alpha, Dithering::ColorAndAlpha];

pub fn sample_idx(n: u64) -> Vec<u64> {
    let mut v = Vec::new();
    for i in [0, 1, 2, n / 2, n.saturating_sub(2), n.saturating_sub(1)] { if i < n && !v.contains(&i) { v.push(i); } }
    v
}

fn geometry(out: &mut Out, fmt: usize, q: usize, d: usize, w: u32, h: u32, buf: &[u8]) {
    let (format, _) = FORMATS[fmt];
    let mut o = EncodeOptions::default();
    o.quality = QUALITIES[q];
    o.dithering = DITHER[d];
    let view = ImageView::new(&buf[..w as usize * h as usize], Size::new(w, h), ColorFormat::GRAYSCALE_U8).unwrap();
    let sv = SplitView::new(view, format, &o);
    let len = sv.len() as u64;
    let mut obs: Vec<i128> = vec![len as i128, sv.single().is_some() as i128];
    let base = view.data().as_ptr() as usize;
    let mut covered = 0u64;
    for i in 0..len.min(4096) {
        let f = sv.get(i as u32).unwrap();
        let off = f.data().as_ptr() as usize - base;
        if off as u64 != covered * w as u64 { println!("IMPL-VIOLATION fragments are not consecutive: fmt {fmt} q {q} d {d} {w}x{h} fragment {i}"); }
        covered += f.height() as u64;
        if f.width() != w || f.height() == 0 { println!("IMPL-VIOLATION empty or narrowed fragment: fmt {fmt} q {q} d {d} {w}x{h} fragment {i}"); }
    }
    if len <= 4096 && covered != h as u64 { println!("IMPL-VIOLATION fragments do not cover the image: fmt {fmt} q {q} d {d} {w}x{h}: {covered} rows"); }
    if sv.get(len as u32).is_some() { println!("IMPL-VIOLATION get(len) is Some: fmt {fmt} {w}x{h}"); }
    for i in sample_idx(len) {
        let f = sv.get(i as u32).unwrap();
        let off = f.data().as_ptr() as usize - base;
        obs.push((off / w as usize) as i128);
        obs.push(f.height() as i128);
    }
    out.count(if len == 1 { "geom_single" } else { "geom_split" });
    out.case(14, &[fmt as i128, q as i128, d as i128, w as i128, h as i128], &obs);
}

static ORDER_MODE: AtomicU32 = AtomicU32::new(0);
static ORDER_LEN: AtomicU32 = AtomicU32::new(0);
static ORDER_SEED: AtomicU64 = AtomicU64::new(0);

pub fn set_order(mode: u32, seed: u64) { ORDER_MODE.store(mode, Ordering::SeqCst); ORDER_SEED.store(seed, Ordering::SeqCst); ORDER_LEN.store(64, Ordering::SeqCst); }
pub fn install_hook() {
    dds::verif_hooks::set_fragment_hook(Some(Box::new(|event, index| {
        if event != "submit" { return; }
        let mode = ORDER_MODE.load(Ordering::SeqCst);
        let len = ORDER_LEN.load(Ordering::SeqCst);
        let us = match mode {
            1 => (len.saturating_sub(index) as u64) * 150,                     // later fragments finish first
            2 => { let s = ORDER_SEED.load(Ordering::SeqCst); let mut r = Rng::new(s ^ index as u64); r.below(3000) }   // random delays
            3 => if index % 2 == 0 { 2000 } else { 0 },
            _ => 0,
        };
        if us > 0 { std::thread::sleep(std::time::Duration::from_micros(us)); }
    })));
}

fn bytes_equal(out: &mut Out, fmt: usize, q: usize, d: usize, w: u32, h: u32, color: usize, rng: &mut Rng) {
    let (format, name) = FORMATS[fmt];
    let cf = COLORS[color];
    let n = w as usize * h as usize * cf.bytes_per_pixel() as usize;
    let data: Vec<u8> = (0..n).map(|_| (rng.next() >> 9) as u8 & 0x3f).collect();
    let view = ImageView::new(&data, Size::new(w, h), cf).unwrap();
    let mut o = EncodeOptions::default();
    o.quality = QUALITIES[q];
    o.dithering = DITHER[d];
    o.parallel = false;
    let mut seq = Vec::new();
    if encode(&mut seq, view, format, None, &o).is_err() { return; }
    // fragment-wise
    let sv = SplitView::new(view, format, &o);
    let mut frag = Vec::new();
    for i in 0..sv.len() { encode(&mut frag, sv.get(i).unwrap(), format, None, &o).unwrap(); }
    if frag != seq { println!("IMPL-VIOLATION fragment-wise bytes differ from sequential: {name} q {q} d {d} {w}x{h} colour {color}"); }
    out.count("bytes_fragmentwise");
    // parallel, under several pool sizes and completion orders
    o.parallel = true;
    ORDER_LEN.store(sv.len(), Ordering::SeqCst);
    for (threads, mode) in [(1usize, 0u32), (2, 1), (3, 2), (4, 3), (7, 1), (16, 2), (16, 1)] {
        ORDER_MODE.store(mode, Ordering::SeqCst);
        ORDER_SEED.store(rng.next(), Ordering::SeqCst);
        let pool = rayon::ThreadPoolBuilder::new().num_threads(threads).build().unwrap();
        let mut par = Vec::new();
        let r = pool.install(|| encode(&mut par, view, format, None, &o));
        if r.is_err() || par != seq {
            println!("IMPL-VIOLATION parallel bytes differ from sequential: {name} q {q} d {d} {w}x{h} colour {color} threads {threads} order {mode}");
        }
        out.count("bytes_parallel_runs");
    }
    ORDER_MODE.store(0, Ordering::SeqCst);
    // writers that accept only part of what they are offered (short writes, short vectored writes)
    for (cap, vectored) in [(1usize, false), (7, false), (1000, true), (4097, true)] {
        let mut wtr = ShortWriter { data: Vec::new(), cap, vectored, flip: false };
        let pool = rayon::ThreadPoolBuilder::new().num_threads(3).build().unwrap();
        let r = pool.install(|| encode(&mut wtr, view, format, None, &o));
        if r.is_err() || wtr.data != seq {
            println!("IMPL-VIOLATION parallel bytes through a writer with short writes (cap {cap}, vectored {vectored}) differ from sequential ({} vs {} bytes): {name} q {q} d {d} {w}x{h} colour {color}", wtr.data.len(), seq.len());
        }
        out.count("bytes_parallel_short_writer");
    }
}
/// a writer that accepts at most `cap` bytes per call (every other call only one byte); `write_vectored` either falls back
/// to the default (first non-empty buffer) or fills its budget across the buffers
struct ShortWriter { data: Vec<u8>, cap: usize, vectored: bool, flip: bool }
impl std::io::Write for ShortWriter {
    fn write(&mut self, buf: &[u8]) -> std::io::Result<usize> {
        self.flip = !self.flip;
        let n = buf.len().min(if self.flip { self.cap } else { 1 });
        self.data.extend_from_slice(&buf[..n]);
        Ok(n)
    }
    fn write_vectored(&mut self, bufs: &[std::io::IoSlice<'_>]) -> std::io::Result<usize> {
        if !self.vectored { let b = bufs.iter().find(|b| !b.is_empty()).map_or(&[][..], |b| &**b); return self.write(b); }
        let mut left = self.cap; let mut n = 0;
        for b in bufs { let k = b.len().min(left); self.data.extend_from_slice(&b[..k]); n += k; left -= k; if left == 0 { break; } }
        Ok(n)
    }
    fn flush(&mut self) -> std::io::Result<()> { Ok(()) }
}

pub fn run(out: &mut Out, tier: &str, seed: u64, corpus: Option<&str>) {
    let thorough = tier == "thorough";
    let mut rng = Rng::new(seed ^ 0xC14);
    let buf = vec![0u8; 1 << 23];
    if let Some(p) = corpus {
        if let Ok(s) = std::fs::read_to_string(p) {
            for l in s.lines() {
                let lhs = l.split('|').next().unwrap_or("");
                let t: Vec<u64> = lhs.split_whitespace().filter_map(|x| x.parse().ok()).collect();
                if t.len() != 6 || t[0] != 14 { continue; }
                if (t[1] as usize) < FORMATS.len() && t[2] < 4 && t[3] < 4 && t[4] * t[5] <= (1 << 23) && t[4] > 0 && t[5] > 0 {
                    geometry(out, t[1] as usize, t[2] as usize, t[3] as usize, t[4] as u32, t[5] as u32, &buf);
                    out.count("corpus");
                }
            }
        }
    }
    if tier == "replay" { return; }
    install_hook();
    let encodable: Vec<usize> = (0..FORMATS.len()).filter(|&i| FORMATS[i].0.encoding_support().is_some()).collect();
    // geometry: sizes around the fragment thresholds 64 .. 4096 pixels, widths wider than a fragment, heights not multiples of 4
    let per = if thorough { 400 } else { 40 };
    for &fi in &encodable {
        let is_bc = FORMATS[fi].0.encoding_support().unwrap().split_height().map(|h| h.get()) == Some(4);
        for _ in 0..(if is_bc { per * 4 } else { per / 4 }) {
            let q = rng.below(4) as usize;
            let d = rng.below(4) as usize;
            let fp = *rng.pick(&[64u64, 256, 1024, 2048, 4096]);
            let (w, h) = match rng.below(6) {
                0 => { let w = rng.range(1, 64) as u32; (w, ((fp / w as u64) as u32).max(1) + rng.below(9) as u32) }            // just above / below the threshold
                1 => { let w = (fp as u32) + rng.below(300) as u32; (w, rng.range(1, 40) as u32) }                                // wider than a fragment
                2 => { let w = rng.range(1, 200) as u32; (w, rng.range(1, 600) as u32) }
                3 => { let h = rng.range(1, 5000) as u32; (rng.range(1, 9) as u32, h) }
                4 => (rng.range(1, 70) as u32, rng.range(1, 70) as u32),
                _ => { let w = 1u32 << rng.below(11); (w, (fp as u32 * 3 / w).max(1) + rng.below(5) as u32) }
            };
            if (w as u64) * (h as u64) > (1 << 23) { continue; }
            geometry(out, fi, q, d, w, h, &buf);
        }
    }
    // bytes: parallel == sequential == fragment-wise
    let nb = if thorough { 30 } else { 3 };
    for &fi in &encodable {
        let is_bc = FORMATS[fi].0.encoding_support().unwrap().split_height().map(|h| h.get()) == Some(4);
        for k in 0..(if is_bc { nb * 2 } else { nb.min(2) }) {
            let q = if FORMATS[fi].1 == "BC7_UNORM" { 0 } else { [0usize, 0, 1, 2][rng.below(4) as usize] };
            let d = rng.below(4) as usize;
            let (w, h) = if is_bc {
                match k % 4 { 0 => (rng.range(30, 80) as u32, rng.range(60, 140) as u32), 1 => (300 + rng.below(50) as u32, rng.range(5, 20) as u32),
                              2 => (rng.range(1, 20) as u32, rng.range(200, 400) as u32), _ => (64, 65 + rng.below(8) as u32) }
            } else { (rng.range(1, 90) as u32, rng.range(1, 90) as u32) };
            let (mut w, mut h) = (w, h);
            if FORMATS[fi].0.encoding_support().unwrap().size_multiple().is_some() { w = (w + 1) & !1; h = (h + 1) & !1; }
            bytes_equal(out, fi, q, d, w, h, rng.below(12) as usize, &mut rng);
        }
    }
    // large surfaces (more than 4 MiB of encoded data, fragment counts that are not round): release build only
    if !cfg!(debug_assertions) {
        ORDER_MODE.store(0, Ordering::SeqCst);
        let big: &[(&str, u32, u32)] = if thorough { &[("BC2_UNORM", 1024, 4100), ("BC4_UNORM", 2048, 4108), ("BC1_UNORM", 4096, 2052), ("BC5_UNORM", 1000, 4300)] } else { &[("BC2_UNORM", 1024, 4100)] };
        for (name, w, h) in big {
            let fi = FORMATS.iter().position(|(_, n)| n == name).unwrap();
            let data: Vec<u8> = (0..(*w as usize * *h as usize)).map(|i| (i as u32).wrapping_mul(2654435761) as u8 >> 2).collect();
            let view = ImageView::new(&data, Size::new(*w, *h), ColorFormat::GRAYSCALE_U8).unwrap();
            let mut o = EncodeOptions::default();
            o.quality = CompressionQuality::Fast;
            o.parallel = false;
            let mut seq = Vec::new();
            encode(&mut seq, view, FORMATS[fi].0, None, &o).unwrap();
            o.parallel = true;
            let mut par = Vec::new();
            let r = encode(&mut par, view, FORMATS[fi].0, None, &o);
            if r.is_err() || par != seq { println!("IMPL-VIOLATION parallel bytes differ from sequential on a large surface: {name} {w}x{h} (lengths {} vs {})", par.len(), seq.len()); }
            out.count("bytes_large_surfaces");
        }
    }
    dds::verif_hooks::set_fragment_hook(None);
}
