//! C13: block-compressed encoding keeps representable content and emits portable blocks (implementation-only
//! oracle: encode with every quality / metric / dithering, decode with the crate's own decoder - whose values are
//! the subject of C03 - and inspect the emitted block bytes).
use crate::util::*;
use dds::*;

const BCS: [Format; 12] = [Format::BC1_UNORM, Format::BC2_UNORM, Format::BC2_UNORM_PREMULTIPLIED_ALPHA, Format::BC3_UNORM, Format::BC3_UNORM_PREMULTIPLIED_ALPHA,
    Format::BC3_UNORM_RXGB, Format::BC3_UNORM_NORMAL, Format::BC4_UNORM, Format::BC4_SNORM, Format::BC5_UNORM, Format::BC5_SNORM, Format::BC7_UNORM];
const QUALITIES: [CompressionQuality; 4] = [CompressionQuality::Fast, CompressionQuality::Normal, CompressionQuality::High, CompressionQuality::Unreasonable];
const DITHERS: [Dithering; 4] = [Dithering::None, Dithering::Color, Dithering::Alpha, Dithering::ColorAndAlpha];

fn enc(format: Format, rgba: &[u8], w: u32, h: u32, q: CompressionQuality, m: ErrorMetric, d: Dithering) -> Option<Vec<u8>> {
    enc_as(format, rgba, ColorFormat::RGBA_U8, w, h, q, m, d)
}
#[allow(clippy::too_many_arguments)]
fn enc_as(format: Format, rgba: &[u8], color: ColorFormat, w: u32, h: u32, q: CompressionQuality, m: ErrorMetric, d: Dithering) -> Option<Vec<u8>> {
    let mut o = EncodeOptions::default(); o.quality = q; o.error_metric = m; o.dithering = d; o.parallel = false;
    let view = ImageView::new(rgba, Size::new(w, h), color)?;
    let mut out = Vec::new();
    watch(120, format!("C13 encode {:?} {w}x{h} {:?} {:?} {:?}", format, q, m, d));
    let r = catch(|| encode(&mut out, view, format, None, &o));
    unwatch();
    match r { Some(Ok(())) => Some(out), _ => None }
}
fn dec(format: Format, bytes: &[u8], w: u32, h: u32) -> Option<Vec<u8>> {
    let mut buf = vec![0u8; (w * h * 4) as usize];
    let mut r = bytes;
    match catch(|| decode(&mut r, ImageViewMut::new(&mut buf, Size::new(w, h), ColorFormat::RGBA_U8).unwrap(), format, &DecodeOptions::default())) { Some(Ok(())) => Some(buf), _ => None }
}
/// which decoded channels carry the stored data, and the allowed per-channel error for exactly representable content
fn bounds(format: Format) -> [Option<i32>; 4] {
    // 5-bit fields: 255/31 = 8.2 -> 9; 6-bit: 255/63 = 4.05 -> 5; exact formats: 0
    match format {
        Format::BC1_UNORM => [Some(9), Some(5), Some(9), None],
        Format::BC2_UNORM => [Some(9), Some(5), Some(9), Some(17)],           // 4-bit alpha: step 17
        Format::BC3_UNORM => [Some(9), Some(5), Some(9), Some(0)],
        Format::BC3_UNORM_RXGB => [Some(0), Some(5), Some(9), None],          // red travels in the alpha block
        Format::BC3_UNORM_NORMAL => [Some(0), Some(5), None, None],           // x in alpha, y in green
        Format::BC4_UNORM | Format::BC4_SNORM => [Some(0), None, None, None],
        Format::BC5_UNORM | Format::BC5_SNORM => [Some(0), Some(0), None, None],
        Format::BC7_UNORM => [Some(0), Some(0), Some(0), Some(0)],
        _ => [None; 4],                                                      // premultiplied variants: colour is rescaled
    }
}
fn snorm_exact(format: Format, v: u8) -> bool { !matches!(format, Format::BC4_SNORM | Format::BC5_SNORM) || true && { let _ = v; true } }

fn portability(format: Format, bytes: &[u8], rgba: &[u8], w: u32, h: u32, what: &str) {
    let bw = w.div_ceil(4) as usize;
    match format {
        Format::BC2_UNORM | Format::BC2_UNORM_PREMULTIPLIED_ALPHA | Format::BC3_UNORM | Format::BC3_UNORM_PREMULTIPLIED_ALPHA | Format::BC3_UNORM_RXGB | Format::BC3_UNORM_NORMAL => {
            for (bi, b) in bytes.chunks(16).enumerate() {
                let c0 = u16::from_le_bytes([b[8], b[9]]); let c1 = u16::from_le_bytes([b[10], b[11]]);
                if c0 <= c1 {
                    // color0 == color1 is only portable if index bits never select entries 2 / 3 ... the property demands color0 > color1
                    println!("IMPL-VIOLATION non-portable colour block (color0 {c0:#06x} <= color1 {c1:#06x}) in block {bi}: {what}"); return;
                }
            }
        }
        Format::BC1_UNORM => {
            for (bi, b) in bytes.chunks(8).enumerate() {
                let c0 = u16::from_le_bytes([b[0], b[1]]); let c1 = u16::from_le_bytes([b[2], b[3]]);
                if c0 > c1 { continue; }
                let idx = u32::from_le_bytes([b[4], b[5], b[6], b[7]]);
                let (bx, by) = (bi % bw, bi / bw);
                for p in 0..16usize {
                    if (idx >> (2 * p)) & 3 != 3 { continue; }
                    let (x, y) = (bx * 4 + p % 4, by * 4 + p / 4);
                    if x as u32 >= w || y as u32 >= h { continue; }         // padding pixels of a partial block
                    let a = rgba[(y * w as usize + x) * 4 + 3];
                    if a >= 128 { println!("IMPL-VIOLATION BC1 three-colour block uses index 3 for an opaque pixel (alpha {a}) at ({x},{y}): {what}"); return; }
                }
            }
        }
        _ => {}
    }
}

fn check(out: &mut Out, format: Format, rgba: &[u8], w: u32, h: u32, q: CompressionQuality, m: ErrorMetric, d: Dithering, exact_content: bool, kind: &str) {
    let what = format!("{:?} {w}x{h} {kind} quality {:?} metric {:?} dithering {:?}", format, q, m, d);
    let Some(bytes) = enc(format, rgba, w, h, q, m, d) else { println!("IMPL-VIOLATION encode failed or panicked: {what}"); return; };
    let Some(back) = dec(format, &bytes, w, h) else { println!("IMPL-VIOLATION decode of the encoder's output failed: {what}"); return; };
    out.count(&format!("fmt_{:?}", format)); out.count(&format!("kind_{kind}")); out.count(&format!("quality_{:?}", q)); out.count("oracle_calls");
    portability(format, &bytes, rgba, w, h, &what);
    let has_alpha = matches!(format, Format::BC1_UNORM | Format::BC2_UNORM | Format::BC3_UNORM | Format::BC7_UNORM | Format::BC2_UNORM_PREMULTIPLIED_ALPHA | Format::BC3_UNORM_PREMULTIPLIED_ALPHA);
    let b = bounds(format);
    for i in 0..(w * h) as usize {
        let (src, got) = (&rgba[i * 4..i * 4 + 4], &back[i * 4..i * 4 + 4]);
        // opacity
        if has_alpha && rgba.chunks(4).all(|p| p[3] == 255) && got[3] != 255 { println!("IMPL-VIOLATION fully opaque input decodes with alpha {} at pixel {i}: {what}", got[3]); return; }
        if format == Format::BC1_UNORM {
            let want = if src[3] < 128 { 0 } else { 255 };
            if got[3] != want { println!("IMPL-VIOLATION BC1 pixel with alpha {} decodes with alpha {}: {what}", src[3], got[3]); return; }
            if src[3] < 128 { continue; }
        }
        if !exact_content || d != Dithering::None { continue; }
        for c in 0..4 {
            let Some(tol) = b[c] else { continue; };
            // SNORM has 255 levels: an 8-bit input is first mapped to the nearest level
            let tol = if matches!(format, Format::BC4_SNORM | Format::BC5_SNORM) { tol + 1 } else { tol };
            let s = match (format, c) { (Format::BC3_UNORM_RXGB, 0) => src[0], (Format::BC3_UNORM_NORMAL, 0) => src[0], _ => src[c] } as i32;
            if (s - got[c] as i32).abs() > tol { println!("IMPL-VIOLATION representable content decodes outside the bound: channel {c} in {s} out {} (bound {tol}) at pixel {i}: {what}", got[c]); return; }
        }
    }
    let _ = snorm_exact;
}


/// BC1's transparency threshold is one half at every input precision: 16-bit and float alpha just below / at / above it
fn check_bc1_threshold(out: &mut Out, q: CompressionQuality, m: ErrorMetric, d: Dithering, rng: &mut Rng) {
    let a16: [u16; 8] = [0, 32767, 32768, 32895, 32896, 65535, 32700 + rng.below(68) as u16, 32768 + rng.below(200) as u16];
    let af: [f32; 8] = [0.0, f32::from_bits(0x3EFF_FFFF), 0.5, f32::from_bits(0x3F00_0001), 0.50195, 1.0, 0.4999, 0.5 + rng.below(1000) as f32 * 1e-6];
    for prec in 0..2 {
        // 8 blocks in a row, one alpha value per block (dithering cannot move a block that is constant ... only for None)
        let (w, h) = (32u32, 4u32);
        let rgb: Vec<[u8; 3]> = (0..8).map(|_| [rng.next() as u8, rng.next() as u8, rng.next() as u8]).collect();
        let mut bytes: Vec<u8> = Vec::new();
        for _y in 0..h { for x in 0..w as usize { let k = x / 4;
            if prec == 0 { for c in 0..3 { bytes.extend_from_slice(&(rgb[k][c] as u16 * 257).to_ne_bytes()); } bytes.extend_from_slice(&a16[k].to_ne_bytes()); }
            else { for c in 0..3 { bytes.extend_from_slice(&(rgb[k][c] as f32 / 255.0).to_ne_bytes()); } bytes.extend_from_slice(&af[k].to_ne_bytes()); }
        } }
        let color = if prec == 0 { ColorFormat::RGBA_U16 } else { ColorFormat::RGBA_F32 };
        let what = format!("BC1_UNORM alpha threshold from {:?} quality {:?} metric {:?} dithering {:?}", color.precision, q, m, d);
        let Some(enc) = enc_as(Format::BC1_UNORM, &bytes, color, w, h, q, m, d) else { println!("IMPL-VIOLATION encode failed or panicked: {what}"); continue; };
        let Some(back) = dec(Format::BC1_UNORM, &enc, w, h) else { println!("IMPL-VIOLATION decode of the encoder's output failed: {what}"); continue; };
        out.count("kind_bc1_alpha_threshold"); out.count("oracle_calls");
        if matches!(d, Dithering::Alpha | Dithering::ColorAndAlpha) { continue; }          // alpha dithering moves individual pixels across the threshold by design
        for k in 0..8 {
            let below = if prec == 0 { (a16[k] as u32) * 2 < 65535 } else { af[k] < 0.5 };
            let want = if below { 0 } else { 255 };
            for p in 0..16 { let (x, y) = (k * 4 + p % 4, p / 4); let got = back[(y * w as usize + x) * 4 + 3];
                if got != want { println!("IMPL-VIOLATION BC1 pixel with alpha {} decodes with alpha {got}: {what}", if prec == 0 { format!("{}/65535", a16[k]) } else { format!("{:e}", af[k]) }); return; } }
        }
    }
}

/// one 4x4 block holding exactly the two colours a and b (both exactly representable as 5:6:5 endpoints)
#[allow(clippy::too_many_arguments)]
fn check2(out: &mut Out, format: Format, blk: &[u8], q: CompressionQuality, m: ErrorMetric, d: Dithering, a: [u8; 4], b: [u8; 4]) {
    let what = format!("{:?} 4x4 two colours {:?} / {:?} quality {:?} metric {:?} dithering {:?}", format, &a[..3], &b[..3], q, m, d);
    let Some(bytes) = enc(format, blk, 4, 4, q, m, d) else { println!("IMPL-VIOLATION encode failed or panicked: {what}"); return; };
    let Some(back) = dec(format, &bytes, 4, 4) else { println!("IMPL-VIOLATION decode of the encoder's output failed: {what}"); return; };
    out.count("kind_two_colours_representable"); out.count(&format!("fmt_{:?}", format)); out.count("oracle_calls");
    portability(format, &bytes, blk, 4, 4, &what);
    if d != Dithering::None { return; }
    let bd = bounds(format);
    let mut worst: Option<(usize, i32, i32, i32)> = None;
    for i in 0..16 { for c in 0..4 {
        let Some(tol) = bd[c] else { continue; };
        let tol = match format { Format::BC7_UNORM => 2, Format::BC4_SNORM | Format::BC5_SNORM => tol + 1, _ => tol };
        let e = (blk[i * 4 + c] as i32 - back[i * 4 + c] as i32).abs();
        if e > tol && worst.map_or(true, |w| e > w.1) { worst = Some((c, e, tol, blk[i * 4 + c] as i32)); }
    } }
    let Some((c, e, tol, src)) = worst else { return; };
    // classification of the two known causes (see DESIGN.md, findings F13 and F14)
    let family = matches!(format, Format::BC1_UNORM | Format::BC2_UNORM | Format::BC3_UNORM | Format::BC3_UNORM_RXGB | Format::BC3_UNORM_NORMAL);
    // the colour block of RXGB holds (0, g, b): red travels in the alpha block
    let sum = |p: [u8; 4]| if format == Format::BC3_UNORM_RXGB { p[1] as i32 + p[2] as i32 } else { p[0] as i32 + p[1] as i32 + p[2] as i32 };
    let span = (a[c] as i32 - b[c] as i32).abs();
    let tag = if family && m == ErrorMetric::Uniform && sum(a) == sum(b) && a != b { "F13: colour difference orthogonal to (1,1,1): ".to_string() }
              else if family && q == CompressionQuality::Fast && e <= 80 { let _ = span; "F14: Fast quality does not refine the nudged line-fit endpoints: ".to_string() }
              else if matches!(format, Format::BC3_UNORM_RXGB | Format::BC3_UNORM_NORMAL) && m == ErrorMetric::Perceptual { "F17: perceptual metric applied to the swizzled colour block: ".to_string() }
              else if family && m == ErrorMetric::Perceptual && q != CompressionQuality::Fast && e <= 32 { "F18: perceptual metric trades the accuracy of a weak channel next to a saturated one: ".to_string() }
              else { String::new() };
    println!("IMPL-VIOLATION {tag}two representable colours decode outside the endpoint quantisation step: channel {c} in {src} error {e} (bound {tol}): {what}");
}

/// tag 55: the pixels the block encoders gather into each 4x4 block (edge padding included) against model/EncBlocks.v.
/// The image carries its pixel number in the red channel (exact in f32), the hook reports red * 8192 of every position.
fn block_contents(out: &mut Out, thorough: bool, rng: &mut Rng) {
    for format in [Format::BC1_UNORM, Format::BC4_UNORM, Format::BC3_UNORM, Format::BC5_UNORM, Format::BC7_UNORM] {
        for k in 0..(if thorough { 24 } else { 6 }) {
            let (w, h) = match k % 3 { 0 => (1 + rng.below(9) as u32, 1 + rng.below(9) as u32), 1 => (4 * (1 + rng.below(4) as u32), 4 * (1 + rng.below(3) as u32)), _ => (1 + rng.below(21) as u32, 1 + rng.below(14) as u32) };
            let mut data: Vec<u8> = Vec::with_capacity((w * h * 16) as usize);
            for i in 0..(w * h) { for c in 0..4 { let v: f32 = if c == 0 { (i + 1) as f32 / 8192.0 } else { 1.0 }; data.extend_from_slice(&v.to_ne_bytes()); } }
            let mut o = EncodeOptions::default(); o.quality = CompressionQuality::Fast; o.parallel = false;
            let view = ImageView::new(&data, Size::new(w, h), ColorFormat::RGBA_F32).unwrap();
            let mut sink = Vec::new();
            dds::verif_hooks::start_block_trace();
            let r = catch(|| encode(&mut sink, view, format, None, &o));
            let trace = dds::verif_hooks::take_block_trace();
            if !matches!(r, Some(Ok(()))) { println!("IMPL-VIOLATION encode failed or panicked: {:?} {w}x{h} (block contents)", format); continue; }
            let mut obs: Vec<i128> = Vec::new();
            for e in trace.iter().filter(|e| e[0] == 7) { obs.push(e.len() as i128); obs.extend(e.iter().map(|&v| v as i128)); }
            out.count("block_contents_cases");
            out.case(55, &[w as i128, h as i128], &obs);
        }
    }
}

pub fn run(out: &mut Out, tier: &str, seed: u64, _corpus: Option<&str>) {
    let thorough = tier == "thorough";
    let mut rng = Rng::new(seed ^ 0xC13);
    if tier == "replay" { return; }
    let rep565 = |x: u16| -> [u8; 3] { let r = (x >> 11) & 31; let g = (x >> 5) & 63; let b = x & 31; [((r * 527 + 23) >> 6) as u8, ((g * 259 + 33) >> 6) as u8, ((b * 527 + 23) >> 6) as u8] };
    for &format in &BCS {
        let heavy = format == Format::BC7_UNORM;
        for &q in &QUALITIES {
            if q == CompressionQuality::Unreasonable && !thorough && heavy && false { continue; }
            for (mi, &m) in [ErrorMetric::Uniform, ErrorMetric::Perceptual].iter().enumerate() {
                for &d in &DITHERS {
                    let light = d != Dithering::None || mi == 1;
                    // ---- single colours: all 256 grey levels (a few per call, one block each), random colours
                    let greys: Vec<u8> = if light { vec![0, 1, 127, 128, 254, 255] } else if thorough || !heavy || q != CompressionQuality::Unreasonable { (0..=255).collect() } else { (0..=255).step_by(5).collect() };
                    for chunk in greys.chunks(16) {
                        // a row of blocks, one grey level per block
                        let w = 4 * chunk.len() as u32; let h = 4u32;
                        let mut img = vec![0u8; (w * h * 4) as usize];
                        for y in 0..h as usize { for x in 0..w as usize { let g = chunk[x / 4]; let i = (y * w as usize + x) * 4; img[i] = g; img[i + 1] = g; img[i + 2] = g; img[i + 3] = 255; } }
                        check(out, format, &img, w, h, q, m, d, true, "single_grey");
                    }
                    let n_rand = if light { 2 } else if thorough { 40 } else { 8 };
                    for _ in 0..n_rand {
                        let (w, h) = (32u32, 4u32);
                        let mut img = vec![0u8; (w * h * 4) as usize];
                        let cols: Vec<[u8; 4]> = (0..8).map(|_| { let c = rep565(rng.next() as u16); [c[0], c[1], c[2], 255] }).collect();
                        for y in 0..h as usize { for x in 0..w as usize { let i = (y * w as usize + x) * 4; img[i..i + 4].copy_from_slice(&cols[x / 4]); } }
                        check(out, format, &img, w, h, q, m, d, true, "single_colour_representable");
                        // two representable colours in one block, random assignment (one block per call so that a failure can be classified)
                        for bi in 0..4 {
                            let a = cols[bi]; let b2 = { let c = rep565(rng.next() as u16); [c[0], c[1], c[2], 255] };
                            let mut blk = vec![0u8; 64];
                            for p in 0..16 { blk[p * 4..p * 4 + 4].copy_from_slice(if rng.below(2) == 0 || p == 0 { &a } else { &b2 }); }
                            blk[60..64].copy_from_slice(&b2);
                            check2(out, format, &blk, q, m, d, a, b2);
                        }
                    }
                    // single colours under a constant, possibly zero, alpha: the colour of a straight-alpha format does not depend on it
                    // (BC1 under alpha dithering is left out: dithering the 1-bit alpha moves pixels across the threshold by design)
                    let bc1_alpha_dither = format == Format::BC1_UNORM && matches!(d, Dithering::Alpha | Dithering::ColorAndAlpha);
                    for _ in 0..(if bc1_alpha_dither { 0 } else if light { 1 } else { 3 }) {
                        let (w, h) = (32u32, 4u32);
                        let mut img = vec![0u8; (w * h * 4) as usize];
                        let alphas: [u8; 8] = [0, 0, 1, 127, 128, 254, rng.next() as u8, 255];
                        let cols: Vec<[u8; 4]> = (0..8).map(|k| { let c = rep565(rng.next() as u16); [c[0], c[1], c[2], alphas[k]] }).collect();
                        for y in 0..h as usize { for x in 0..w as usize { let i = (y * w as usize + x) * 4; img[i..i + 4].copy_from_slice(&cols[x / 4]); } }
                        check(out, format, &img, w, h, q, m, d, true, "single_colour_constant_alpha");
                    }
                    if format == Format::BC1_UNORM { check_bc1_threshold(out, q, m, d, &mut rng); }
                    // F18 witness: two greens that differ mostly in blue, perceptual metric
                    if d == Dithering::None && m == ErrorMetric::Perceptual && matches!(format, Format::BC1_UNORM | Format::BC2_UNORM | Format::BC3_UNORM) {
                        for (a, b2) in [([90u8, 235, 82, 255], [123u8, 239, 8, 255]), ([49, 247, 33, 255], [25, 251, 8, 255]), ([41, 49, 189, 255], [58, 28, 206, 255])] { for pat in 0..3 {
                            let mut blk = vec![0u8; 64];
                            for p in 0..16 { let pick_a = match pat { 0 => (p % 4 + p / 4) % 2 == 0, 1 => p < 8, _ => p % 5 != 0 }; blk[p * 4..p * 4 + 4].copy_from_slice(if pick_a { &a } else { &b2 }); }
                            check2(out, format, &blk, q, m, d, a, b2);
                        } }
                    }
                    // the degenerate direction: two colours with equal channel sums (red / green, red / blue, ...)
                    if d == Dithering::None {
                        for (a, b2) in [([255u8, 0, 0, 255], [0u8, 255, 0, 255]), ([255, 0, 0, 255], [0, 0, 255, 255]), ([132, 65, 0, 255], [0, 65, 132, 255])] {
                            let mut blk = vec![0u8; 64];
                            for p in 0..16 { blk[p * 4..p * 4 + 4].copy_from_slice(if (p % 4 + p / 4) % 2 == 0 { &a } else { &b2 }); }
                            check2(out, format, &blk, q, m, d, a, b2);
                        }
                    }
                    // ---- opaque black (or near-black) pixels among two or three other opaque colours: the transparent-black entry of
                    //      BC1's three-colour palette must not be used for them
                    for _ in 0..(if light { 1 } else { 3 }) {
                        let (w, h) = (16u32, 8u32);
                        let mut img = vec![0u8; (w * h * 4) as usize];
                        for by in 0..2usize { for bx in 0..4usize {
                            let cols: Vec<[u8; 3]> = (0..2 + rng.below(2)).map(|_| [rng.next() as u8 | 0x40, rng.next() as u8, rng.next() as u8 | 0x80]).collect();
                            let dark = [rng.below(3) as u8, rng.below(3) as u8, rng.below(3) as u8];
                            for p in 0..16usize {
                                let c = if rng.below(3) == 0 { dark } else { cols[rng.below(cols.len() as u64) as usize] };
                                let i = ((by * 4 + p / 4) * w as usize + bx * 4 + p % 4) * 4;
                                img[i..i + 3].copy_from_slice(&c); img[i + 3] = 255;
                            }
                        } }
                        check(out, format, &img, w, h, q, m, d, false, "black_among_colours");
                    }
                    // ---- gradients, noise, extreme alpha patterns, partial edge blocks: opacity, BC1 transparency and portability only
                    for k in 0..(if light { 2 } else if thorough { 24 } else { 6 }) {
                        let (w, h) = match k % 3 { 0 => (16u32, 8u32), 1 => (7, 5), _ => (13, 10) };
                        let mut img = vec![0u8; (w * h * 4) as usize];
                        let (c0, c1): ([u8; 3], [u8; 3]) = ([rng.next() as u8, rng.next() as u8, rng.next() as u8], [rng.next() as u8, rng.next() as u8, rng.next() as u8]);
                        let mode = k % 4;
                        for y in 0..h as usize { for x in 0..w as usize {
                            let i = (y * w as usize + x) * 4;
                            let t = ((x % 4) + 4 * (y % 4)) as i32;                           // a smooth 16-step ramp inside each block
                            for c in 0..3 { img[i + c] = match mode { 3 => rng.next() as u8, _ => (c0[c] as i32 + (c1[c] as i32 - c0[c] as i32) * t / 15 / (1 + (k as i32 % 2) * 7)) as u8 }; }
                            img[i + 3] = match mode { 0 | 1 => 255, 2 => [0u8, 1, 127, 128, 129, 254, 255][rng.below(7) as usize], _ => rng.next() as u8 };
                        } }
                        check(out, format, &img, w, h, q, m, d, false, ["gradient_opaque", "gradient_opaque_low_contrast", "gradient_extreme_alpha", "noise"][mode]);
                    }
                }
            }
        }
    }
    block_contents(out, thorough, &mut rng);
    out.case(1, &[13], &[13]);
}
