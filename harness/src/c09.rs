//! C09 / C18 / C19 (header part): Header::read on byte images, re-serialisation, DX9<->DX10 conversion,
//! pixel info / format detection.
//! tag 9, args [skip_magic; permissive; file_len (-1 = None); byte...]
//! observed: [0; error code] |
//!           1 :: header :: [pixel info (5, kind -1 = error)] :: [format id or -1] :: [#bytes written :: bytes]
//!             :: [to_dx9: 0 | 1 :: header] :: [to_dx10: 0 | 1 :: header] :: [layout length with the header's pixel info, -1 = none]
use crate::dump::{mask_of, source_mask_rows};
use crate::formats::*;
use crate::util::*;
use dds::header::*;
use dds::*;
use std::io::Cursor;
use std::num::NonZeroU32;

fn herr_code(e: &HeaderError) -> i128 {
    match e {
        HeaderError::InvalidMagicBytes(_) => 1,
        HeaderError::InvalidHeaderSize(_) => 2,
        HeaderError::InvalidPixelFormatSize(_) => 3,
        HeaderError::InvalidRgbBitCount(_) => 4,
        HeaderError::InvalidDxgiFormat(_) => 5,
        HeaderError::InvalidResourceDimension(_) => 6,
        HeaderError::InvalidAlphaMode(_) => 7,
        HeaderError::InvalidArraySizeForTexture3D(_) => 8,
        HeaderError::Io(_) => 9,
        #[allow(unreachable_patterns)] _ => 99,
    }
}
pub fn ser_header(h: &Header) -> Vec<i128> {
    match h {
        Header::Dx9(d) => {
            let mut v = vec![9, d.height as i128, d.width as i128, d.depth.is_some() as i128, d.depth.unwrap_or(0) as i128, d.mipmap_count.get() as i128, d.caps2.bits() as i128];
            match &d.pixel_format {
                Dx9PixelFormat::FourCC(c) => v.extend([0, c.0 as i128]),
                Dx9PixelFormat::Mask(m) => v.extend([1, m.flags.bits() as i128, u32::from(m.rgb_bit_count) as i128, m.r_bit_mask as i128, m.g_bit_mask as i128, m.b_bit_mask as i128, m.a_bit_mask as i128]),
            }
            v
        }
        Header::Dx10(d) => vec![10, d.height as i128, d.width as i128, d.depth.is_some() as i128, d.depth.unwrap_or(0) as i128, d.mipmap_count.get() as i128,
            u32::from(d.dxgi_format) as i128, u32::from(d.resource_dimension) as i128, d.misc_flag.bits() as i128, d.array_size as i128, u32::from(d.alpha_mode) as i128],
    }
}

pub fn observe(skip_magic: bool, permissive: bool, file_len: Option<u64>, bytes: &[u8]) -> Vec<i128> {
    let mut opts = ParseOptions::default();
    opts.skip_magic_bytes = skip_magic;
    opts.permissive = permissive;
    opts.file_len = file_len;
    let r = catch(|| Header::read(&mut Cursor::new(bytes), &opts));
    let h = match r {
        None => return vec![-2],
        Some(Err(e)) => return vec![0, herr_code(&e)],
        Some(Ok(h)) => h,
    };
    let mut o = vec![1];
    o.extend(ser_header(&h));
    match PixelInfo::from_header(&h) {
        Ok(p) => { let (k, a, b, c, d) = pi_args(p); o.extend([k as i128, a as i128, b as i128, c as i128, d as i128]); }
        Err(_) => o.extend([-1, 0, 0, 0, 0]),
    }
    o.push(match Format::from_header(&h) { Ok(f) => id_of(f) as i128, Err(_) => -1 });
    let mut w = Vec::new();
    h.write(&mut w).unwrap();
    o.push(w.len() as i128);
    o.extend(w.iter().map(|&b| b as i128));
    match h.to_dx9() { None => o.push(0), Some(d) => { o.push(1); o.extend(ser_header(&Header::Dx9(d))); } }
    match h.to_dx10() { None => o.push(0), Some(d) => { o.push(1); o.extend(ser_header(&Header::Dx10(d))); } }
    o.push(match PixelInfo::from_header(&h) { Ok(p) => match DataLayout::from_header_with(&h, p) { Ok(l) => l.data_len() as i128, Err(_) => -1 }, Err(_) => -1 });
    o
}

fn emit(out: &mut Out, skip_magic: bool, permissive: bool, file_len: Option<u64>, bytes: &[u8], kind: &str) {
    let obs = observe(skip_magic, permissive, file_len, bytes);
    let mut args: Vec<i128> = vec![skip_magic as i128, permissive as i128, file_len.map(|x| x as i128).unwrap_or(-1)];
    args.extend(bytes.iter().map(|&b| b as i128));
    out.count(kind);
    out.count(match obs[0] { 0 => "parse_err", 1 => "parse_ok", _ => "PANIC" });
    if obs[0] == -2 { println!("IMPL-VIOLATION panic in Header::read ({kind})"); }
    out.case(9, &args, &obs);
}

/// implementation-only oracle: write then read is the identity (strict and permissive without file length)
fn roundtrip_oracle(out: &mut Out, h: &Header, what: &str) {
    let mut w = Vec::new();
    h.write(&mut w).unwrap();
    let expect_len = 4 + if matches!(h, Header::Dx10(_)) { 144 } else { 124 };
    let mut bad: Option<String> = None;
    if w.len() != expect_len { bad = Some(format!("written length {} != {expect_len}", w.len())); }
    for permissive in [false, true] {
        let mut o = ParseOptions::default(); o.permissive = permissive;
        match Header::read(&mut Cursor::new(&w[..]), &o) {
            Ok(h2) => if &h2 != h { bad = Some(format!("reads back different (permissive={permissive})")); },
            Err(e) => bad = Some(format!("does not read back (permissive={permissive}): {e:?}")),
        }
    }
    out.count("roundtrip_oracle");
    if let Some(b) = bad {
        // classes of known finding F6: headers the DDS container cannot represent
        let class = match h {
            Header::Dx9(d) if d.pixel_format == Dx9PixelFormat::FourCC(FourCC::DX10) => "F6a",
            Header::Dx10(d) if d.resource_dimension == ResourceDimension::Texture3D && d.array_size != 1 => "F6b",
            _ => "NEW",
        };
        println!("IMPL-VIOLATION {class}: header built by {what} {b}: {:?}", ser_header(h));
    }
}

pub fn boundary_u32(rng: &mut Rng) -> u32 {
    match rng.below(10) {
        0 => 0, 1 => 1, 2 => u32::MAX, 3 => { let k = rng.below(32); 1u32 << k } 4 => { let k = rng.range(1, 31); (1u32 << k) - 1 } 5 => { let k = rng.below(31); (1u32 << k) + 1 }
        6 => rng.below(20) as u32, 7 => rng.below(300) as u32, _ => rng.next() as u32,
    }
}

pub fn valid_headers(rng: &mut Rng) -> Header {
    let (w, h) = (rng.range(1, 40) as u32, rng.range(1, 40) as u32);
    let pick_format = |rng: &mut Rng| FORMATS[rng.below(FORMATS.len() as u64) as usize].0;
    let mut hd = match rng.below(9) {
        0 | 1 | 2 => { let f = pick_format(rng); match rng.below(3) { 0 => Header::new_image(w, h, f), 1 => Header::new_cube_map(w, w, f), _ => Header::new_volume(w, h, if rng.chance(1, 3) { rng.range(1, 70) as u32 } else { rng.range(1, 9) as u32 }, f) } }
        3 | 4 => {
            // any valid DXGI code
            let mut d; loop { d = DxgiFormat::try_from(rng.below(200) as u32); if d.is_ok() { break; } }
            let d = d.unwrap();
            let mut x = match rng.below(3) { 0 => Dx10Header::new_image(w, h, d), 1 => Dx10Header::new_cube_map(w, w, d), _ => Dx10Header::new_volume(if rng.chance(1, 3) { rng.range(1, 6) as u32 } else { w }, if rng.chance(1, 3) { rng.range(1, 6) as u32 } else { h }, if rng.chance(1, 3) { rng.range(1, 70) as u32 } else { rng.range(1, 9) as u32 }, d) };
            if rng.chance(1, 2) { x = x.with_alpha_mode([AlphaMode::Unknown, AlphaMode::Straight, AlphaMode::Premultiplied, AlphaMode::Opaque, AlphaMode::Custom][rng.below(5) as usize]); }
            if rng.chance(1, 3) && x.resource_dimension != ResourceDimension::Texture3D { x = x.with_array_size(*rng.pick(&[0u32, 1, 2, 3, 6, 7])); }
            if rng.chance(1, 6) { x = x.with_resource_dimension(ResourceDimension::Texture1D); }
            Header::Dx10(x)
        }
        5 | 6 => {
            let ccs = [FourCC::DXT1, FourCC::DXT2, FourCC::DXT3, FourCC::DXT4, FourCC::DXT5, FourCC::RXGB, FourCC::ATI1, FourCC::BC4U, FourCC::BC4S, FourCC::ATI2, FourCC::BC5U, FourCC::BC5S,
                       FourCC::RGBG, FourCC::GRGB, FourCC::YUY2, FourCC::UYVY, FourCC(36), FourCC(110), FourCC(111), FourCC(112), FourCC(113), FourCC(114), FourCC(115), FourCC(116), FourCC(0x12345678), FourCC(117)];
            let cc = *rng.pick(&ccs);
            let mut x = match rng.below(3) { 0 => Dx9Header::new_image(w, h, cc.into()), 1 => Dx9Header::new_cube_map(w, w, cc.into()), _ => Dx9Header::new_volume(w, h, rng.range(1, 9) as u32, cc.into()) };
            if rng.chance(1, 3) && x.is_cube_map() { x = x.with_cube_map_faces(CubeMapFaces::from_bits_truncate(rng.below(64) as u8)); }
            Header::Dx9(x)
        }
        _ => {
            let rows = source_mask_rows();
            let r = &rows[rng.below(rows.len() as u64) as usize];
            let mut m = mask_of(r);
            if rng.chance(1, 5) { m.a_bit_mask ^= 1 << rng.below(32); }           // perturbation of the table row
            if rng.chance(1, 8) { let bit = rng.below(20); if bit != 2 { m.flags = PixelFormatFlags::from_bits_retain(m.flags.bits() ^ (1 << bit)); } }   // never the FOURCC bit: that is a different pixel-format kind
            Header::Dx9(match rng.below(3) { 0 => Dx9Header::new_image(w, h, m.into()), 1 => Dx9Header::new_cube_map(w, w, m.into()), _ => Dx9Header::new_volume(w, h, rng.range(1, 9) as u32, m.into()) })
        }
    };
    match rng.below(4) { 0 => hd = hd.with_mipmaps(), 1 => hd = hd.with_mipmap_count(rng.range(1, 8) as u32), _ => {} }
    hd
}

fn data_len(h: &Header) -> Option<u64> {
    let p = PixelInfo::from_header(h).ok()?;
    Some(DataLayout::from_header_with(h, p).ok()?.data_len())
}

pub fn run(out: &mut Out, tier: &str, seed: u64, corpus: Option<&str>, prop: &str) {
    let thorough = tier == "thorough";
    let mut rng = Rng::new(seed ^ match prop { "C18" => 0xC18, "C19" => 0xC19, _ => 0xC09 });
    if let Some(p) = corpus {
        if let Ok(s) = std::fs::read_to_string(p) {
            for l in s.lines() {
                let lhs = l.split('|').next().unwrap_or("");
                let t: Vec<i128> = lhs.split_whitespace().filter_map(|x| x.parse().ok()).collect();
                if t.len() < 4 || t[0] != 9 { continue; }
                let bytes: Vec<u8> = t[4..].iter().map(|&b| b as u8).collect();
                emit(out, t[1] != 0, t[2] != 0, if t[3] < 0 { None } else { Some(t[3] as u64) }, &bytes, "corpus");
            }
        }
    }
    if tier == "replay" { return; }
    let n = if thorough { 40000 } else { 4000 };
    for i in 0..n {
        let mut h = valid_headers(&mut rng);
        // a quarter of the C18 cases start from a file with the full mip chain whose declared count is arbitrary
        let full_chain_case = prop == "C18" && i % 4 == 1;
        if full_chain_case { h = h.with_mipmaps(); }
        let mut bytes = Vec::new();
        h.write(&mut bytes).unwrap();
        let dl = data_len(&h);
        let exact = dl.map(|d| bytes.len() as u64 + d);
        if i % 4 == 0 { roundtrip_oracle(out, &h, "constructors/builders"); }
        match prop {
            "C18" => {
                // each known writer defect applied to a valid header, with the file length of the ORIGINAL header
                let mut words: Vec<u32> = bytes[4..].chunks(4).map(|c| u32::from_le_bytes([c[0], c[1], c[2], c[3]])).collect();
                let is10 = words.len() == 36;
                let defect = if full_chain_case { 12 } else { rng.below(12) };
                let mut second = false;
                match defect {
                    0 => if is10 { words[34] = 0 } ,                                         // array size 0
                    1 => if is10 && words[33] & 4 != 0 { words[34] = 6 },                   // 6 for one cube
                    2 => words[6] = words[6].wrapping_sub(1),                                // mip count off by one
                    3 => words[6] = words[6].wrapping_add(1),
                    4 => { words[6] = 1; words[1] &= !0x20000; words[26] &= !(0x8 | 0x400000); }  // mip count dropped
                    5 => { words[6] = 32 - (h.width().max(h.height()).max(h.depth().unwrap_or(1))).leading_zeros(); }   // full chain declared
                    6 => words[0] = 24,                                                      // header size 24
                    7 => words[18] = if rng.chance(1, 2) { 0 } else { 24 },                  // pixel format size
                    8 => if !is10 && words[19] & 4 != 0 { words[19] &= !4; }                 // missing FourCC flag
                    9 => if is10 { words[35] = (words[35] & !7) | rng.range(5, 7) as u32 },  // bad alpha mode
                    10 => if is10 && words[32] == 4 { words[34] = *rng.pick(&[0u32, 2, 6]) }, // 3D array size
                    12 => { words[6] = rng.range(1, 12) as u32; }                         // full chain in the file, arbitrary count declared
                    _ => { if is10 { words[34] = 0; second = true; } }
                }
                if second { words[6] = words[6].wrapping_add(1); }                          // array 0 combined with a mip defect
                let mut b2 = bytes[..4].to_vec();
                for w in &words { b2.extend_from_slice(&w.to_le_bytes()); }
                let fl = match rng.below(6) { 0 => None, 1 => exact.map(|e| e + 1), 2 => exact.map(|e| e.saturating_sub(1)), 3 => Some(rng.below(100000)), _ => exact };
                emit(out, false, true, fl, &b2, &format!("defect_{defect:02}"));
                if rng.chance(1, 4) { emit(out, false, false, fl, &b2, "defect_strict"); }
                // a consistent file: permissive == strict
                emit(out, false, true, exact, &bytes, "consistent_permissive");
                emit(out, false, true, None, &bytes, "nolen_permissive");
                // the same without the magic bytes in the stream: file_len still counts them (documented)
                if i % 3 == 0 { emit(out, true, true, exact, &bytes[4..], "consistent_permissive_skip_magic"); emit(out, true, true, fl, &b2[4..], "defect_skip_magic"); }
            }
            _ => {
                let permissive = rng.chance(1, 3);
                let fl = if permissive { match rng.below(3) { 0 => None, 1 => exact, _ => Some(rng.below(5000)) } } else { None };
                emit(out, false, permissive, fl, &bytes, "valid");
                // mutate one u32 field to a boundary value
                let mut b2 = bytes.clone();
                let wi = 4 + 4 * rng.below((bytes.len() as u64 - 4) / 4) as usize;
                b2[wi..wi + 4].copy_from_slice(&boundary_u32(&mut rng).to_le_bytes());
                emit(out, false, rng.chance(1, 3), if rng.chance(1, 4) { exact } else { None }, &b2, "mutated_field");
                if i % 16 == 0 {
                    // truncations, bad magic, skip_magic
                    let cut = rng.below(bytes.len() as u64 + 1) as usize;
                    emit(out, false, false, None, &bytes[..cut], "truncated");
                    let mut b3 = bytes.clone(); b3[rng.below(4) as usize] ^= 0x20;
                    emit(out, false, false, None, &b3, "bad_magic");
                    emit(out, true, false, None, &bytes[4..], "skip_magic");
                }
            }
        }
    }
    // small surfaces whose mip levels are a few bytes long: a file length that is off by the 4 magic bytes meets another guess
    for (fmt, bpp) in [(Format::R8_UNORM, 1u64), (Format::R8G8B8A8_UNORM, 4), (Format::B5G6R5_UNORM, 2), (Format::R16G16_UNORM, 4)] {
        for w in 1..=8u32 { for hh in 1..=6u32 { for mips in [false, true] {
            if !thorough && (w + hh) % 2 == 1 && bpp != 1 { continue; }
            let mut h = Header::new_image(w, hh, fmt);
            if mips { h = h.with_mipmap_count(2); }
            let mut bytes = Vec::new();
            h.write(&mut bytes).unwrap();
            let Some(dl) = data_len(&h) else { continue; };
            let exact = bytes.len() as u64 + dl;
            for delta in [-4i64, 0, 4] {
                let fl = Some((exact as i64 + delta) as u64);
                emit(out, true, true, fl, &bytes[4..], "small_skip_magic_permissive");
                emit(out, false, true, fl, &bytes, "small_permissive");
            }
        } } }
    }
    // fully random raw headers with boundary-biased words
    let nr = if thorough { 20000 } else { 1500 };
    for _ in 0..nr {
        let dx10 = rng.chance(1, 2);
        let mut words: Vec<u32> = (0..36).map(|_| boundary_u32(&mut rng)).collect();
        words[0] = if rng.chance(7, 8) { 124 } else { 24 };
        words[18] = *rng.pick(&[32u32, 32, 32, 0, 24, 31]);
        if dx10 { words[19] |= 4; words[20] = FourCC::DX10.0; words[31] = rng.below(140) as u32; words[32] = rng.range(1, 5) as u32; words[33] &= 7; words[35] &= 15; }
        else if rng.chance(1, 2) { words[19] &= !4; words[21] = *rng.pick(&[8u32, 16, 24, 32, 0, 12]); }
        words[1] = rng.next() as u32; words[26] = rng.next() as u32; words[27] = rng.next() as u32 & 0x20FE00;
        let mut b = b"DDS ".to_vec();
        for w in &words { b.extend_from_slice(&w.to_le_bytes()); }
        let permissive = rng.chance(1, 2);
        emit(out, false, permissive, if permissive && rng.chance(1, 2) { Some(rng.below(1 << 20)) } else { None }, &b, "random_raw");
    }
    if prop == "C19" {
        // systematic sweep: every valid DXGI code x 5 alpha modes, every FourCC of the table and arbitrary ones, every mask row and one-bit perturbations of it
        let alphas = [AlphaMode::Unknown, AlphaMode::Straight, AlphaMode::Premultiplied, AlphaMode::Opaque, AlphaMode::Custom];
        for code in 0u32..=260 {
            if let Ok(d) = DxgiFormat::try_from(code) {
                for a in alphas {
                    let h = Header::Dx10(Dx10Header::new_image(rng.range(1, 32) as u32, rng.range(1, 32) as u32, d).with_alpha_mode(a));
                    let mut b = Vec::new(); h.write(&mut b).unwrap();
                    emit(out, false, false, None, &b, "sweep_dxgi");
                }
            }
        }
        let mut ccs: Vec<u32> = vec![0x31545844, 0x32545844, 0x33545844, 0x34545844, 0x35545844, 0x42475852, 0x31495441, 0x55344342, 0x53344342, 0x32495441, 0x55354342, 0x53354342,
                                     0x47424752, 0x42475247, 0x32595559, 0x59565955, 36, 110, 111, 112, 113, 114, 115, 116, 117, 35, 0];
        for _ in 0..60 { ccs.push(boundary_u32(&mut rng)); }
        for cc in ccs {
            if cc == FourCC::DX10.0 { continue; }
            let h = Header::Dx9(Dx9Header::new_image(rng.range(1, 32) as u32, rng.range(1, 32) as u32, FourCC(cc).into()));
            let mut b = Vec::new(); h.write(&mut b).unwrap();
            emit(out, false, false, None, &b, "sweep_fourcc");
        }
        for r in source_mask_rows() {
            let m0 = mask_of(&r);
            let mut variants = vec![m0.clone()];
            for bit in 0..32 {
                let mut m = m0.clone(); m.r_bit_mask ^= 1 << bit; variants.push(m);
                let mut m = m0.clone(); m.a_bit_mask ^= 1 << bit; variants.push(m);
                if bit < 20 && bit != 2 { let mut m = m0.clone(); m.flags = PixelFormatFlags::from_bits_retain(m.flags.bits() ^ (1 << bit)); variants.push(m); }
            }
            for bits in [RgbBitCount::Count8, RgbBitCount::Count16, RgbBitCount::Count24, RgbBitCount::Count32] { let mut m = m0.clone(); m.rgb_bit_count = bits; variants.push(m); }
            for m in variants {
                let h = Header::Dx9(Dx9Header::new_image(rng.range(1, 32) as u32, rng.range(1, 32) as u32, m.into()));
                let mut b = Vec::new(); h.write(&mut b).unwrap();
                emit(out, false, false, None, &b, "sweep_mask");
            }
        }
        // per-format metadata observed through the public API (compared with the model's formulas)
        for (fi, (f, _)) in FORMATS.iter().enumerate() {
            let p = PixelInfo::from(*f);
            out.case(19, &[fi as i128], &[p.bits_per_pixel() as i128, color_id(f.color()) as i128, channels_id(f.channels()) as i128, precision_id(f.precision()) as i128]);
        }
        dithering_oracle(out, &mut rng, thorough);
    }
    // F6 classes are reachable through the public builders: exercise them so the known findings stay visible
    if prop == "C09" {
        roundtrip_oracle(out, &Header::Dx9(Dx9Header::new_image(4, 4, FourCC::DX10.into())), "Dx9Header::new_image(FourCC::DX10)");
        roundtrip_oracle(out, &Header::Dx10(Dx10Header::new_volume(4, 4, 2, DxgiFormat::R8_UNORM).with_array_size(2)), "Dx10Header::new_volume().with_array_size(2)");
        let _ = NonZeroU32::new(1);
    }
}

/// C19 dithering clauses (implementation-only oracle): dithering acts only where advertised and requested.
fn dithering_oracle(out: &mut Out, rng: &mut Rng, thorough: bool) {
    let modes = [Dithering::None, Dithering::Color, Dithering::Alpha, Dithering::ColorAndAlpha];
    for (fi, (format, name)) in FORMATS.iter().enumerate() {
        let Some(sup) = format.encoding_support() else { continue; };
        let independent_alpha = !name.starts_with("BC") && !name.starts_with("ASTC") || name.starts_with("BC2") || name.starts_with("BC3");
        let n = if thorough { 12 } else { 2 };
        for k in 0..n {
            let (mut w, mut h) = (rng.range(1, 32) as u32, rng.range(1, 32) as u32);
            if sup.size_multiple().is_some() { w = (w + 1) & !1; h = (h + 1) & !1; }
            let color = *rng.pick(&[ColorFormat::RGBA_U8, ColorFormat::RGBA_U16, ColorFormat::RGBA_F32, ColorFormat::RGB_U8, ColorFormat::GRAYSCALE_F32, ColorFormat::ALPHA_U16]);
            let bpp = color.bytes_per_pixel() as usize;
            let mut data = vec![0u8; w as usize * h as usize * bpp];
            // smooth gradients with small noise: values between quantisation levels, so that dithering has something to do
            for (i, px) in data.chunks_mut(bpp).enumerate() {
                let x = (i as u32 % w) as f32 / w as f32; let y = (i as u32 / w) as f32 / h as f32;
                let vals = [x * 0.9 + 0.03, y * 0.8 + 0.1, (x + y) * 0.45 + 0.02, 0.2 + 0.7 * (1.0 - x) * y + (rng.below(100) as f32) * 0.0005];
                let nch = color.channels.count() as usize;
                for c in 0..nch {
                    let v = if nch == 1 && color.channels == Channels::Alpha { vals[3] } else { vals[c] };
                    match color.precision {
                        Precision::U8 => px[c] = (v * 255.0) as u8,
                        Precision::U16 => px[2 * c..2 * c + 2].copy_from_slice(&((v * 65535.0) as u16).to_ne_bytes()),
                        Precision::F32 => px[4 * c..4 * c + 4].copy_from_slice(&v.to_ne_bytes()),
                    }
                }
            }
            let view = ImageView::new(&data, Size::new(w, h), color).unwrap();
            let enc = |d: Dithering| -> Option<Vec<u8>> {
                let mut o = EncodeOptions::default(); o.dithering = d; o.quality = CompressionQuality::Fast; o.parallel = k % 2 == 0;
                let mut v = Vec::new(); encode(&mut v, view, *format, None, &o).ok().map(|_| v)
            };
            let outs: Vec<Option<Vec<u8>>> = modes.iter().map(|m| enc(*m)).collect();
            let Some(base) = &outs[0] else { continue; };
            let dec = |bytes: &Vec<u8>| -> Vec<f32> {
                let mut raw = vec![0u8; w as usize * h as usize * 16];
                let mut r = &bytes[..];
                decode(&mut r, ImageViewMut::new(&mut raw, Size::new(w, h), ColorFormat::RGBA_F32).unwrap(), *format, &DecodeOptions::default()).unwrap();
                raw.chunks(4).map(|c| f32::from_ne_bytes([c[0], c[1], c[2], c[3]])).collect()
            };
            let base_px = dec(base);
            out.count("dither_cases");
            for (mi, m) in modes.iter().enumerate().skip(1) {
                let Some(o) = &outs[mi] else { println!("IMPL-VIOLATION encode fails only with dithering {m:?}: {name} {w}x{h}"); continue; };
                if o.len() != base.len() { println!("IMPL-VIOLATION dithering changes the encoded length: {name} {w}x{h} {m:?}"); continue; }
                // formats advertising no dithering for a channel group ignore the option for it
                let eff = Dithering::new(m.color() && sup.dithering().color(), m.alpha() && sup.dithering().alpha());
                if eff == Dithering::None && o != base { println!("IMPL-VIOLATION unadvertised dithering {m:?} changes the output of {name} {w}x{h} ({:?} input)", color); }
                if independent_alpha {
                    let is_bc = name.starts_with("BC");
                    let (alpha_same, colour_same) = if is_bc {
                        // BC2 / BC3 families: 16-byte blocks, bytes 0..8 hold alpha, bytes 8..16 the colour block
                        (o.chunks(16).zip(base.chunks(16)).all(|(a, b)| a[..8] == b[..8]), o.chunks(16).zip(base.chunks(16)).all(|(a, b)| a[8..] == b[8..]))
                    } else {
                        let px = dec(o);
                        (px.chunks(4).zip(base_px.chunks(4)).all(|(a, b)| a[3].to_bits() == b[3].to_bits()),
                         px.chunks(4).zip(base_px.chunks(4)).all(|(a, b)| (0..3).all(|c| a[c].to_bits() == b[c].to_bits())))
                    };
                    // BC3 RXGB / NORMAL keep a colour channel in the "alpha" block: only the advertised groups are meaningful there
                    let swizzled = *name == "BC3_UNORM_RXGB" || *name == "BC3_UNORM_NORMAL";
                    if !m.alpha() && !alpha_same && !swizzled { println!("IMPL-VIOLATION colour-only dithering changes stored alpha: {name} {w}x{h} ({:?} input)", color); }
                    if !m.color() && !colour_same && !swizzled { println!("IMPL-VIOLATION alpha-only dithering changes stored colour: {name} {w}x{h} ({:?} input)", color); }
                }
            }
            let _ = fi;
        }
    }
}
