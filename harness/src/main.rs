#![allow(dead_code)]
//! ddsx - correspondence harness: runs the real `dds` crate (path = /repo, built with
//! --cfg dds_verif) on generated cases and prints, per case, the inputs and the observed outputs
//! in the line format the Coq model's `run_case` consumes:
//!     <tag> <arg> ... | <observed> ...
mod util;
mod c20;
mod c02;
mod c08;
mod formats;
mod allocrec;
mod dump;
mod c06;
mod c11;
mod c14;
mod c09;
mod c17;
mod c03;
mod c03b;
mod c04;
mod c05;
mod c12;
mod c01;
mod c15;
mod c13;
mod c16;

#[global_allocator]
static GLOBAL: allocrec::Rec = allocrec::Rec;

use std::io::Write;

fn main() {
    let args: Vec<String> = std::env::args().collect();
    if args.len() < 5 {
        eprintln!("usage: ddsx <prop> <quick|thorough|replay> <seed> <outfile> [corpusfile]");
        std::process::exit(2);
    }
    let prop = args[1].as_str();
    if prop == "dump" { dump::run(&args[4]); return; }
    let tier = args[2].as_str();
    let seed: u64 = args[3].parse().expect("seed");
    let out_path = &args[4];
    let corpus = args.get(5).cloned();
    util::silence_panics();
    let _ = util::OUT_PATH.set(out_path.clone());
    util::watchdog_start();

    let mut out = util::Out::new();
    match prop {
        "C20" => c20::run(&mut out, tier, seed, corpus.as_deref()),
        "C02" => c02::run(&mut out, tier, seed, corpus.as_deref()),
        "C08" => c08::run(&mut out, tier, seed, corpus.as_deref()),
        "C09" | "C18" | "C19" => c09::run(&mut out, tier, seed, corpus.as_deref(), prop),
        "C03" => c03::run(&mut out, tier, seed, corpus.as_deref()),
        "C04" => c04::run(&mut out, tier, seed, corpus.as_deref()),
        "C05" => c05::run(&mut out, tier, seed, corpus.as_deref()),
        "C12" => c12::run(&mut out, tier, seed, corpus.as_deref()),
        "C01" => c01::run(&mut out, tier, seed, corpus.as_deref()),
        "C15" => c15::run(&mut out, tier, seed, corpus.as_deref()),
        "C13" => c13::run(&mut out, tier, seed, corpus.as_deref()),
        "C16" => c16::run(&mut out, tier, seed, corpus.as_deref()),
        "C17" => c17::run(&mut out, tier, seed, corpus.as_deref()),
        "C14" => c14::run(&mut out, tier, seed, corpus.as_deref()),
        "C11" | "C10" => c11::run(&mut out, tier, seed, corpus.as_deref(), prop),
        "C06" | "C07" => c06::run(&mut out, tier, seed, corpus.as_deref(), prop),
        _ => {
            eprintln!("unknown property {prop}");
            std::process::exit(2);
        }
    }
    let mut f = std::io::BufWriter::new(std::fs::File::create(out_path).expect("create out"));
    for l in &out.lines {
        writeln!(f, "{l}").unwrap();
    }
    f.flush().unwrap();
    // statistics for the evidence file
    println!("STATS {}", out.stats_json());
}
