//! Counting global allocator: while `start()`..`stop()` is active it records the size of every heap
//! request and the peak of live bytes (relative to the start), without allocating itself.
use std::alloc::{GlobalAlloc, Layout, System};
use std::sync::atomic::{AtomicBool, AtomicIsize, AtomicUsize, Ordering::SeqCst};

pub struct Rec;
const CAP: usize = 4096;
static ON: AtomicBool = AtomicBool::new(false);
static N: AtomicUsize = AtomicUsize::new(0);
static LIVE: AtomicIsize = AtomicIsize::new(0);
static PEAK: AtomicIsize = AtomicIsize::new(0);
#[allow(clippy::declare_interior_mutable_const)]
const Z: AtomicUsize = AtomicUsize::new(0);
static SIZES: [AtomicUsize; CAP] = [Z; CAP];

fn note_alloc(size: usize) {
    let i = N.fetch_add(1, SeqCst);
    if i < CAP { SIZES[i].store(size, SeqCst); }
    let live = LIVE.fetch_add(size as isize, SeqCst) + size as isize;
    PEAK.fetch_max(live, SeqCst);
}
unsafe impl GlobalAlloc for Rec {
    unsafe fn alloc(&self, l: Layout) -> *mut u8 {
        if ON.load(SeqCst) { note_alloc(l.size()); }
        System.alloc(l)
    }
    unsafe fn alloc_zeroed(&self, l: Layout) -> *mut u8 {
        if ON.load(SeqCst) { note_alloc(l.size()); }
        System.alloc_zeroed(l)
    }
    unsafe fn dealloc(&self, p: *mut u8, l: Layout) {
        if ON.load(SeqCst) { LIVE.fetch_sub(l.size() as isize, SeqCst); }
        System.dealloc(p, l)
    }
    unsafe fn realloc(&self, p: *mut u8, l: Layout, new_size: usize) -> *mut u8 {
        if ON.load(SeqCst) { LIVE.fetch_sub(l.size() as isize, SeqCst); note_alloc(new_size); }
        System.realloc(p, l, new_size)
    }
}
pub fn start() {
    N.store(0, SeqCst); LIVE.store(0, SeqCst); PEAK.store(0, SeqCst);
    ON.store(true, SeqCst);
}
/// returns (request sizes in order, peak live bytes)
pub fn stop() -> (Vec<usize>, isize) {
    ON.store(false, SeqCst);
    let n = N.load(SeqCst).min(CAP);
    ((0..n).map(|i| SIZES[i].load(SeqCst)).collect(), PEAK.load(SeqCst))
}
