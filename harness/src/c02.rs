//! C02: DataLayout::from_header_with over the boundary set of the property.
//! tag 2, args [dx10; w; h; depth_present; depth; mips; cube10; dim; array; caps2; pkind; a; b; c; d]
//! observed: [0; error code] | 1 :: layout dump (see out_layout in coq/model/Dispatch.v) | [-2] panic
use crate::util::*;
use dds::header::*;
use dds::*;
use std::num::NonZeroU32;

#[derive(Clone, Copy, Debug)]
pub struct Case {
    pub dx10: bool, pub w: u32, pub h: u32, pub depth: Option<u32>, pub mips: u32,
    pub cube10: bool, pub dim: u8, pub array: u32, pub caps2: u32,
    pub pk: u8, pub pa: u8, pub pb: u8, pub pc: u8, pub pd: u8,
}
impl Case {
    pub fn args(&self) -> Vec<i128> {
        vec![self.dx10 as i128, self.w as i128, self.h as i128, self.depth.is_some() as i128, self.depth.unwrap_or(0) as i128,
            self.mips as i128, self.cube10 as i128, self.dim as i128, self.array as i128, self.caps2 as i128,
            self.pk as i128, self.pa as i128, self.pb as i128, self.pc as i128, self.pd as i128]
    }
    pub fn pixel_info(&self) -> PixelInfo {
        match self.pk {
            0 => PixelInfo::fixed(self.pa),
            1 => PixelInfo::block(self.pa, (self.pb, self.pc)),
            _ => PixelInfo::bi_planar(self.pa, self.pb, (self.pc, self.pd)),
        }
    }
    pub fn header(&self) -> Header {
        let mips = NonZeroU32::new(self.mips).unwrap();
        if self.dx10 {
            Header::Dx10(Dx10Header {
                height: self.h, width: self.w, depth: self.depth, mipmap_count: mips,
                dxgi_format: DxgiFormat::R8G8B8A8_UNORM,
                resource_dimension: match self.dim { 0 => ResourceDimension::Texture1D, 1 => ResourceDimension::Texture2D, _ => ResourceDimension::Texture3D },
                misc_flag: if self.cube10 { MiscFlags::TEXTURE_CUBE } else { MiscFlags::empty() },
                array_size: self.array, alpha_mode: AlphaMode::Unknown,
            })
        } else {
            Header::Dx9(Dx9Header {
                height: self.h, width: self.w, depth: self.depth, mipmap_count: mips,
                caps2: Caps2::from_bits_retain(self.caps2),
                pixel_format: Dx9PixelFormat::FourCC(FourCC::NONE),
            })
        }
    }
}

pub fn sample_idx(n: u64) -> Vec<u64> {
    let mut v = Vec::new();
    for i in [0, 1, 2, n / 2, n.saturating_sub(2), n.saturating_sub(1)] {
        if i < n && !v.contains(&i) { v.push(i); }
    }
    v
}
fn out_surf(o: &mut Vec<i128>, s: &SurfaceDescriptor) {
    o.extend([s.width() as i128, s.height() as i128, s.data_offset() as i128, s.data_len() as i128]);
}
fn out_tex(o: &mut Vec<i128>, t: &Texture) {
    o.push(t.data_offset() as i128);
    o.push(t.data_len() as i128);
    o.push(t.data_end() as i128);
    out_surf(o, &t.main());
    let l: Vec<SurfaceDescriptor> = t.iter_mips().collect();
    o.push(l.len() as i128);
    for i in sample_idx(t.mipmaps() as u64) {
        match l.get(i as usize) { Some(s) => out_surf(o, s), None => o.push(-3) }
        // indexed access must agree with iteration
        if t.get(i as u8) != l.get(i as usize).copied() { o.push(-77); }
    }
    if t.get(t.mipmaps()).is_some() && t.mipmaps() < 255 { o.push(-78); }
}
fn out_vold(o: &mut Vec<i128>, vd: &VolumeDescriptor) {
    o.extend([vd.width() as i128, vd.height() as i128, vd.depth() as i128, vd.data_offset() as i128]);
    let slice_len = vd.get_depth_slice(0).map(|s| s.data_len()).unwrap_or(0);
    o.push(slice_len as i128);
    o.push(vd.data_len() as i128);
    for k in sample_idx(vd.depth() as u64) {
        match vd.get_depth_slice(k as u32) { Some(s) => out_surf(o, &s), None => o.push(-3) }
        if vd.depth() <= 4096 {
            if vd.iter_depth_slices().nth(k as usize) != vd.get_depth_slice(k as u32) { o.push(-77); }
        }
    }
    if vd.get_depth_slice(vd.depth()).is_some() { o.push(-78); }
    if vd.depth() <= 4096 && vd.iter_depth_slices().count() as u32 != vd.depth() { o.push(-79); }
}

pub fn observe(c: &Case) -> Vec<i128> {
    let header = c.header();
    let pi = c.pixel_info();
    match catch(|| {
        let layout = match DataLayout::from_header_with(&header, pi) {
            Err(e) => {
                return vec![0, match e {
                    LayoutError::ZeroDimension => 1, LayoutError::TooManyMipMaps(_) => 2, LayoutError::MissingDepth => 3,
                    LayoutError::InvalidCubeMapFaces => 4, LayoutError::ArraySizeTooBig(_) => 5, LayoutError::DataLayoutTooBig => 6,
                    #[allow(unreachable_patterns)] _ => 99,
                }]
            }
            Ok(l) => l,
        };
        let mut o: Vec<i128> = vec![1, layout.data_len() as i128];
        if layout.data_offset() != 0 || layout.data_end() != layout.data_len() { o.push(-76); }
        match layout {
            DataLayout::Texture(t) => {
                o.extend([0, t.main().width() as i128, t.main().height() as i128, t.mipmaps() as i128]);
                out_tex(&mut o, &t);
            }
            DataLayout::Volume(v) => {
                o.extend([1, v.main().width() as i128, v.main().height() as i128, v.mipmaps() as i128]);
                let l: Vec<VolumeDescriptor> = v.iter_mips().collect();
                o.push(l.len() as i128);
                for i in sample_idx(v.mipmaps() as u64) {
                    match l.get(i as usize) { Some(vd) => out_vold(&mut o, vd), None => o.push(-3) }
                    if v.get(i as u8) != l.get(i as usize).copied() { o.push(-77); }
                }
                if v.main() != l[0] { o.push(-75); }
            }
            DataLayout::TextureArray(a) => {
                o.extend([2, a.size().width as i128, a.size().height as i128, a.mipmaps() as i128]);
                match a.kind() {
                    TextureArrayKind::Textures => o.extend([0, 0]),
                    TextureArrayKind::CubeMaps => o.extend([1, 0]),
                    TextureArrayKind::PartialCubeMap(f) => o.extend([2, f.bits() as i128]),
                }
                o.push(a.len() as i128);
                for i in sample_idx(a.len() as u64) {
                    match a.get(i as usize) { Some(t) => out_tex(&mut o, &t), None => o.push(-3) }
                    if i < 64 && a.iter().nth(i as usize) != a.get(i as usize) { o.push(-77); }
                }
                if a.get(a.len()).is_some() { o.push(-78); }
            }
        }
        o
    }) {
        Some(o) => o,
        None => vec![-2],
    }
}

/// impl-only oracle: contiguity of the complete enumeration (small layouts): reported as IMPL-VIOLATION
fn tiling_oracle(c: &Case) -> Option<String> {
    let layout = DataLayout::from_header_with(&c.header(), c.pixel_info()).ok()?;
    let mut expected: u64 = 0;
    let mut count = 0u64;
    let mut check = |s: SurfaceDescriptor| -> Option<String> {
        if s.data_offset() != expected { return Some(format!("surface #{count} starts at {} instead of {}", s.data_offset(), expected)); }
        expected += s.data_len();
        count += 1;
        None
    };
    match layout {
        DataLayout::Texture(t) => { for s in t.iter_mips() { if let Some(e) = check(s) { return Some(e); } } }
        DataLayout::TextureArray(a) => {
            if a.len() > 64 { return None; }
            for t in a.iter() { for s in t.iter_mips() { if let Some(e) = check(s) { return Some(e); } } }
        }
        DataLayout::Volume(v) => {
            for vd in v.iter_mips() {
                if vd.depth() > 4096 { return None; }
                for s in vd.iter_depth_slices() { if let Some(e) = check(s) { return Some(e); } }
            }
        }
    }
    if expected != layout.data_len() { return Some(format!("surfaces sum to {} but data_len is {}", expected, layout.data_len())); }
    None
}

fn emit(out: &mut Out, c: &Case) {
    let obs = observe(c);
    out.count(match obs[0] { 0 => "result_err", 1 => "result_ok", _ => "panic" });
    if obs[0] == 0 { out.count(&format!("err_{}", obs[1])); }
    if obs[0] == 1 { out.count(match obs[2] { 0 => "kind_texture", 1 => "kind_volume", _ => "kind_array" }); }
    out.count(match c.pk { 0 => "pi_fixed", 1 => "pi_block", _ => "pi_biplanar" });
    let args = c.args();
    if let Some(Some(e)) = catch(|| tiling_oracle(c)) {
        println!("IMPL-VIOLATION 2 {} | tiling: {}", args.iter().map(|x| x.to_string()).collect::<Vec<_>>().join(" "), e);
    }
    out.case(2, &args, &obs);
}

pub fn parse_corpus_line(l: &str) -> Option<Case> {
    let lhs = l.split('|').next()?;
    let t: Vec<&str> = lhs.split_whitespace().collect();
    if t.len() != 16 || t[0] != "2" { return None; }
    let n = |i: usize| t[i].parse::<u64>().ok();
    if n(6)? == 0 { return None; }
    Some(Case {
        dx10: n(1)? != 0, w: n(2)? as u32, h: n(3)? as u32, depth: if n(4)? != 0 { Some(n(5)? as u32) } else { None },
        mips: n(6)? as u32, cube10: n(7)? != 0, dim: n(8)? as u8, array: n(9)? as u32, caps2: n(10)? as u32,
        pk: n(11)? as u8, pa: n(12)? as u8, pb: n(13)? as u8, pc: n(14)? as u8, pd: n(15)? as u8,
    })
}

pub fn pixel_infos() -> Vec<(u8, u8, u8, u8, u8)> {
    let mut v = Vec::new();
    for b in [1u8, 2, 3, 4, 6, 8, 12, 16] { v.push((0, b, 0, 0, 0)); }
    // all block sizes that occur (BC 4x4 8/16 B, ASTC 4x4 .. 12x12 16 B, 2x1 4 B / 8 B, 8x1 1 B) + odd ones
    for (by, bw, bh) in [(8u8, 4u8, 4u8), (16, 4, 4), (16, 5, 4), (16, 5, 5), (16, 6, 5), (16, 6, 6), (16, 8, 5), (16, 8, 6), (16, 8, 8),
        (16, 10, 5), (16, 10, 6), (16, 10, 8), (16, 10, 10), (16, 12, 10), (16, 12, 12), (4, 2, 1), (8, 2, 1), (1, 8, 1), (255, 15, 15), (1, 1, 1), (3, 7, 2)] {
        v.push((1, by, bw, bh, 0));
    }
    for (b1, b2, sx, sy) in [(1u8, 2u8, 2u8, 2u8), (2, 4, 2, 2), (1, 2, 4, 1), (1, 2, 2, 1), (0, 1, 3, 5), (15, 15, 15, 15), (1, 0, 2, 2)] {
        v.push((2, b1, b2, sx, sy));
    }
    v
}

pub fn run(out: &mut Out, tier: &str, seed: u64, corpus: Option<&str>) {
    let thorough = tier == "thorough";
    let mut rng = Rng::new(seed ^ 0xC02);
    if let Some(p) = corpus {
        if let Ok(s) = std::fs::read_to_string(p) {
            for l in s.lines() { if let Some(c) = parse_corpus_line(l) { emit(out, &c); out.count("corpus"); } }
        }
    }
    if tier == "replay" { return; }
    let dims = pow2_boundaries(u32::MAX as u64);
    let small: Vec<u64> = (0..=17).collect();
    let pis = pixel_infos();
    let mip_set: Vec<u32> = vec![1, 2, 3, 4, 5, 8, 9, 10, 16, 31, 32, 33, 34, 64, 254, 255, 256, u32::MAX];
    let arrays: Vec<u32> = vec![0, 1, 2, 3, 5, 6, 7, 255, 65536, 715827882, 715827883, u32::MAX / 6, u32::MAX / 6 + 1, u32::MAX - 1, u32::MAX];
    let n = if thorough { 3_000_000 } else { 60_000 };
    for i in 0..n {
        let pick_dim = |rng: &mut Rng| -> u32 {
            match rng.below(10) { 0..=3 => *rng.pick(&small) as u32, 4..=7 => *rng.pick(&dims) as u32, 8 => rng.range(1, 4096) as u32, _ => rng.next() as u32 }
        };
        let (pk, pa, pb, pc, pd) = *rng.pick(&pis);
        let w = pick_dim(&mut rng);
        let h = pick_dim(&mut rng);
        let d = pick_dim(&mut rng);
        let mips = if rng.chance(1, 2) { *rng.pick(&mip_set) } else { rng.range(1, 40) as u32 };
        let dx10 = rng.chance(1, 2);
        // kinds: texture, 1D, array, cube, cube array, partial cube, volume, invalid mixes
        let kind = i % 9;
        let mut c = Case { dx10, w, h, depth: None, mips, cube10: false, dim: 1, array: 1, caps2: 0, pk, pa, pb, pc, pd };
        if dx10 {
            match kind {
                0 => {}
                1 => { c.dim = 0; }
                2 => { c.array = if rng.chance(1, 2) { *rng.pick(&arrays) } else { rng.below(5) as u32 }; c.dim = if rng.chance(1, 4) { 0 } else { 1 }; }
                3 => { c.cube10 = true; }
                4 => { c.cube10 = true; c.array = if rng.chance(1, 2) { *rng.pick(&arrays) } else { rng.below(5) as u32 }; }
                5 => { c.cube10 = true; c.dim = *rng.pick(&[0u8, 2]); }
                6 | 7 => { c.dim = 2; c.depth = if rng.chance(7, 8) { Some(d) } else { None }; c.array = if rng.chance(3, 4) { 1 } else { rng.below(4) as u32 }; }
                _ => { c.dim = rng.below(3) as u8; c.cube10 = rng.chance(1, 2); c.array = rng.below(4) as u32; c.depth = if rng.chance(1, 2) { Some(d) } else { None }; }
            }
        } else {
            match kind {
                0 | 1 | 2 => { c.depth = if rng.chance(1, 8) { Some(d) } else { None }; }
                3 => { c.caps2 = 0x200 | 0xFC00; }
                4 | 5 => { c.caps2 = 0x200 | ((rng.below(64) as u32) << 10); }   // each of the 64 face sets incl. none
                6 | 7 => { c.caps2 = 0x200000; c.depth = if rng.chance(7, 8) { Some(d) } else { None }; }
                _ => { c.caps2 = (rng.next() as u32) & (0x200 | 0xFC00 | 0x200000 | 0x1); c.depth = if rng.chance(1, 2) { Some(d) } else { None }; }
            }
        }
        emit(out, &c);
    }
}
