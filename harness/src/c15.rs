//! C15: encoding is total (implementation-only oracle, debug and release builds).  Every format x sizes 0..40 x
//! float content with specials x 12 input colour formats x quality x dithering x metric x parallel x writers that
//! fail at byte k (by an error, or by accepting zero bytes): the call returns Ok with exactly the encoded length,
//! or a documented error; size-multiple formats refuse other sizes before writing; nothing panics or hangs.
use crate::formats::*;
use crate::util::*;
use dds::*;
use std::io::{self, Write};

struct FailingWriter { written: usize, fail_at: Option<usize>, zero: bool }
impl Write for FailingWriter {
    fn write(&mut self, buf: &[u8]) -> io::Result<usize> {
        if buf.is_empty() { return Ok(0); }
        match self.fail_at {
            Some(k) if self.written >= k => if self.zero { Ok(0) } else { Err(io::Error::from(io::ErrorKind::Other)) },
            Some(k) => { let n = buf.len().min(k - self.written); self.written += n; Ok(n) }
            None => { self.written += buf.len(); Ok(buf.len()) }
        }
    }
    fn flush(&mut self) -> io::Result<()> { Ok(()) }
}

const SPECIALS: [u32; 14] = [0x7FC0_0000, 0x7F80_0000, 0xFF80_0000, 0x8000_0000, 0x7149_F2CA, 0xF149_F2CA, 0x0000_0001, 0x8000_0001, 0x477F_E000, 0x3FC0_0000, 0xBF00_0000, 0x7F7F_FFFF, 0xFF7F_FFFF, 0x0080_0000];
const COLORS: [ColorFormat; 12] = [ColorFormat::GRAYSCALE_U8, ColorFormat::GRAYSCALE_U16, ColorFormat::GRAYSCALE_F32, ColorFormat::ALPHA_U8, ColorFormat::ALPHA_U16, ColorFormat::ALPHA_F32,
    ColorFormat::RGB_U8, ColorFormat::RGB_U16, ColorFormat::RGB_F32, ColorFormat::RGBA_U8, ColorFormat::RGBA_U16, ColorFormat::RGBA_F32];
const SIZES: [u32; 16] = [0, 1, 2, 3, 4, 5, 7, 8, 9, 12, 13, 16, 17, 31, 33, 40];

/// pseudo special-rate selecting nearly flat content
const FLAT: u64 = u64::MAX;
fn content(color: ColorFormat, w: u32, h: u32, special_rate: u64, rng: &mut Rng) -> Vec<u8> {
    let n = w as usize * h as usize * color.channels.count() as usize;
    let mut buf = Vec::with_capacity(n * 4);
    if special_rate == FLAT {
        // nearly flat content: every sample within a few units in the last place (f32) / a few codes of one level
        let spread = 1 + rng.below(8) as u32;
        let base = (0.05 + rng.below(1 << 20) as f32 / (1u32 << 20) as f32 * 0.95).to_bits();
        let (b8, b16) = (rng.next() as u8, rng.next() as u16);
        for _ in 0..n {
            let k = rng.below(spread as u64 + 1) as u32;
            match color.precision {
                Precision::U8 => buf.push(b8.saturating_add((k % 2) as u8)),
                Precision::U16 => buf.extend_from_slice(&b16.saturating_add(k as u16).to_ne_bytes()),
                Precision::F32 => buf.extend_from_slice(&(base + k).to_ne_bytes()),
            }
        }
        return buf;
    }
    for _ in 0..n {
        match color.precision {
            Precision::U8 => buf.push(rng.next() as u8),
            Precision::U16 => buf.extend_from_slice(&(rng.next() as u16).to_ne_bytes()),
            Precision::F32 => {
                let v: u32 = if special_rate > 0 && rng.below(special_rate) == 0 { SPECIALS[rng.below(SPECIALS.len() as u64) as usize] } else { (rng.below(1 << 24) as f32 / (1u32 << 24) as f32).to_bits() };
                buf.extend_from_slice(&v.to_ne_bytes());
            }
        }
    }
    buf
}

pub fn run(out: &mut Out, tier: &str, seed: u64, _corpus: Option<&str>) {
    let thorough = tier == "thorough";
    let mut rng = Rng::new(seed ^ 0xC15);
    if tier == "replay" { return; }
    let rounds = if thorough { 20000 } else { 1500 };
    for fi in 0..FORMATS.len() {
        let (format, name) = FORMATS[fi];
        let support = format.encoding_support();
        let heavy = name.starts_with("BC7") || name.starts_with("BC6") || name.starts_with("BC1") || name.starts_with("BC2") || name.starts_with("BC3");
        for round in 0..rounds {
            let mut w = SIZES[rng.below(SIZES.len() as u64) as usize]; let mut h = SIZES[rng.below(SIZES.len() as u64) as usize];
            let quality = match rng.below(if heavy { 12 } else { 5 }) { 0 => CompressionQuality::High, 1 => CompressionQuality::Fast, 2 if !heavy || (w <= 8 && h <= 8) => CompressionQuality::Unreasonable, _ => CompressionQuality::Normal };
            if heavy && matches!(quality, CompressionQuality::High | CompressionQuality::Unreasonable) { w = w.min(12); h = h.min(12); }
            if w == 0 || h == 0 { w = 0; h = 0; }        // ImageView normalises empty sizes to 0x0
            let color = COLORS[rng.below(12) as usize];
            let special_rate = [0u64, 2, 5, 17, FLAT][round % 5];
            let color = if special_rate == FLAT && round % 2 == 0 { COLORS[2 + 3 * (rng.below(4) as usize)] } else { color };
            let data = content(color, w, h, special_rate, &mut rng);
            let mut o = EncodeOptions::default();
            o.quality = quality;
            o.dithering = [Dithering::None, Dithering::Color, Dithering::Alpha, Dithering::ColorAndAlpha][rng.below(4) as usize];
            o.error_metric = if rng.below(2) == 0 { ErrorMetric::Uniform } else { ErrorMetric::Perceptual };
            o.parallel = rng.below(3) == 0;
            let expected = PixelInfo::from(format).surface_bytes(Size::new(w, h)).unwrap() as usize;
            let fail_at = match rng.below(4) { 0 if expected > 0 => Some(rng.below(expected as u64) as usize), _ => None };
            let zero = rng.below(2) == 0;
            let what = format!("{name} {w}x{h} from {:?} {:?} quality {:?} dithering {:?} metric {:?} parallel {} specials {} writer fails at {fail_at:?} (zero-length write: {zero})", color.channels, color.precision, o.quality, o.dithering, o.error_metric, o.parallel, if special_rate == FLAT { "none, nearly flat content".to_string() } else { format!("1/{special_rate}") });
            let Some(view) = ImageView::new(&data, Size::new(w, h), color) else { println!("IMPL-VIOLATION view refused: {what}"); continue; };
            let mut wr = FailingWriter { written: 0, fail_at, zero };
            watch(40, what.clone());
            let res = catch(|| encode(&mut wr, view, format, None, &o));
            unwatch();
            out.count(&format!("fmt_{name}")); out.count(&format!("quality_{:?}", quality)); out.count("oracle_calls"); out.count(if fail_at.is_some() { "writer_failing" } else { "writer_ok" }); out.count(&format!("in_{}", color_id(color)));
            let Some(res) = res else { println!("IMPL-VIOLATION panic: encode {what}"); continue; };
            let multiple = support.and_then(|s| s.size_multiple()).map(|(a, b)| (a.get(), b.get())).unwrap_or((1, 1));
            let bad_size = w % multiple.0 != 0 || h % multiple.1 != 0;
            match (&res, support) {
                (Err(EncodingError::UnsupportedFormat(_)), None) => { if wr.written != 0 { println!("IMPL-VIOLATION bytes written for an unsupported format: {what}"); } out.count("res_unsupported"); }
                (_, None) => println!("IMPL-VIOLATION a format without encoding support did not return UnsupportedFormat ({:?}): {what}", res.as_ref().map_err(|e| e.to_string())),
                (Err(EncodingError::InvalidSize(a, b)), Some(_)) if bad_size => { if (a.get(), b.get()) != multiple || wr.written != 0 { println!("IMPL-VIOLATION InvalidSize with wrong multiple or after writing {} bytes: {what}", wr.written); } out.count("res_invalid_size"); }
                (_, Some(_)) if bad_size => println!("IMPL-VIOLATION a size that is not a multiple of {multiple:?} was not refused ({:?}, {} bytes written): {what}", res.as_ref().map_err(|e| e.to_string()), wr.written),
                (Ok(()), Some(_)) => {
                    if fail_at.is_some() { println!("IMPL-VIOLATION the writer failed but encode returned Ok: {what}"); }
                    else if wr.written != expected { println!("IMPL-VIOLATION encode returned Ok after {} bytes, the encoded length is {expected}: {what}", wr.written); }
                    out.count("res_ok");
                }
                (Err(EncodingError::Io(_)), Some(_)) if fail_at.is_some() => out.count("res_io"),
                (Err(e), Some(_)) => println!("IMPL-VIOLATION undocumented error {e}: {what}"),
            }
        }
    }
    // views with padded rows and cropped views, rows wider than the encoders' staging buffers (512 pixels / 4096 bytes)
    for fi in 0..FORMATS.len() {
        let (format, name) = FORMATS[fi];
        let Some(support) = format.encoding_support() else { continue; };
        let (mx, my) = support.size_multiple().map(|(a, b)| (a.get(), b.get())).unwrap_or((1, 1));
        for k in 0..(if thorough { 12 } else { 3 }) {
            let color = COLORS[(fi + k * 5) % 12];
            let w = [1030u32, 520, 1400, 345, 260, 4100][(fi + k) % 6].div_ceil(mx) * mx; let h = (1 + (k as u32 % 3)).div_ceil(my) * my;
            let bpp = color.bytes_per_pixel() as usize;
            let crop = k % 2 == 1;
            // parent view: w + 3 pixels wide (crop) or rows padded by 1..40 bytes
            let (pw, pad) = if crop { (w + 3, 0usize) } else { (w, 1 + rng.below(40) as usize) };
            let pitch = pw as usize * bpp + pad;
            let mut data = vec![0u8; pitch * (h as usize - 1) + pw as usize * bpp];
            for b in data.iter_mut() { *b = (rng.next() >> 9) as u8 & 0x3f; }
            let Some(parent) = ImageView::new_with(&data, pitch, Size::new(pw, h), color) else { println!("IMPL-VIOLATION view refused: {name} {pw}x{h} pitch {pitch}"); continue; };
            let view = if crop { parent.cropped(Offset::new(2, 0), Size::new(w, h)) } else { parent };
            let mut o = EncodeOptions::default(); o.quality = CompressionQuality::Fast; o.parallel = k % 3 == 0;
            o.dithering = [Dithering::None, Dithering::ColorAndAlpha][k % 2];
            let expected = PixelInfo::from(format).surface_bytes(Size::new(w, h)).unwrap() as usize;
            let mut wr = FailingWriter { written: 0, fail_at: None, zero: false };
            let what = format!("{name} {w}x{h} from {:?} {:?} through a {} view (pitch {pitch}) dithering {:?} parallel {}", color.channels, color.precision, if crop { "cropped" } else { "padded" }, o.dithering, o.parallel);
            watch(60, what.clone());
            let res = catch(|| encode(&mut wr, view, format, None, &o));
            unwatch();
            out.count("padded_or_cropped_views"); out.count("oracle_calls");
            match res {
                None => println!("IMPL-VIOLATION panic: encode {what}"),
                Some(Ok(())) => if wr.written != expected { println!("IMPL-VIOLATION encode returned Ok after {} bytes, the encoded length is {expected}: {what}", wr.written); },
                Some(Err(e)) => println!("IMPL-VIOLATION undocumented error {e}: {what}"),
            }
        }
    }
    out.case(1, &[15], &[15]);
}
