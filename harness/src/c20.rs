//! C20: ImageView / ImageViewMut constructors, crop and rows on the boundary grid of the property.
//! tag 20, args [mut; ctor; len; pitch; w; h; bpp; docrop; ox; oy; cw; ch]
//! observed: [0] = None | [2] = constructor panicked | [3] = crop panicked |
//!           [1; w; h; pitch; data_len; contiguous; data_offset; rows...]
//!   rows = [-1] if h > 64 | [-2] if the row iterator panicked | n; (start,end)*n relative to data
use crate::util::*;
use dds::{ColorFormat, ImageView, ImageViewMut, Offset, Size};

const BIG: usize = (1usize << 33) + 4096;

fn rows_of_view(v: ImageView, base: usize) -> Vec<i128> {
    if v.height() > 64 {
        return vec![-1];
    }
    match catch(|| {
        let mut r = Vec::new();
        for row in v.rows() {
            let s = row.as_ptr() as usize - base;
            r.push((s, s + row.len()));
        }
        r
    }) {
        None => vec![-2],
        Some(r) => {
            let mut o = vec![r.len() as i128];
            for (s, e) in r {
                o.push(s as i128);
                o.push(e as i128);
            }
            o
        }
    }
}
fn rows_of_view_mut(v: &mut ImageViewMut, base: usize) -> Vec<i128> {
    if v.height() > 64 {
        return vec![-1];
    }
    match catch(|| {
        let mut r = Vec::new();
        for row in v.rows_mut() {
            let s = row.as_ptr() as usize - base;
            r.push((s, s + row.len()));
        }
        r
    }) {
        None => vec![-2],
        Some(r) => {
            let mut o = vec![r.len() as i128];
            for (s, e) in r {
                o.push(s as i128);
                o.push(e as i128);
            }
            o
        }
    }
}

#[derive(Clone, Copy, Debug)]
pub struct Case {
    pub mutable: bool,
    pub ctor: u8, // 0 = new, 1 = new_with
    pub len: usize,
    pub pitch: usize,
    pub w: u32,
    pub h: u32,
    pub color: ColorFormat,
    pub crop: Option<(u32, u32, u32, u32)>,
}

pub fn observe(c: &Case, buf: &mut [u8]) -> Vec<i128> {
    let size = Size::new(c.w, c.h);
    let buf_base = buf.as_ptr() as usize;
    if !c.mutable {
        let data: &[u8] = &buf[..c.len];
        let v = match catch(|| {
            if c.ctor == 0 { ImageView::new(data, size, c.color) } else { ImageView::new_with(data, c.pitch, size, c.color) }
        }) {
            None => return vec![2],
            Some(None) => return vec![0],
            Some(Some(v)) => v,
        };
        let v = match c.crop {
            None => v,
            Some((ox, oy, cw, ch)) => match catch(|| v.cropped(Offset::new(ox, oy), Size::new(cw, ch))) {
                None => return vec![3],
                Some(v) => v,
            },
        };
        let dlen = v.data().len();
        let off = if dlen == 0 { 0 } else { v.data().as_ptr() as usize - buf_base };
        let mut o = vec![1, v.width() as i128, v.height() as i128, v.row_pitch() as i128, dlen as i128,
            match catch(|| v.is_contiguous()) { Some(b) => b as i128, None => -2 }, off as i128];
        let base = v.data().as_ptr() as usize;
        o.extend(rows_of_view(v, base));
        o
    } else {
        let data: &mut [u8] = &mut buf[..c.len];
        let v = match catch(move || {
            if c.ctor == 0 { ImageViewMut::new(data, size, c.color) } else { ImageViewMut::new_with(data, c.pitch, size, c.color) }
        }) {
            None => return vec![2],
            Some(None) => return vec![0],
            Some(Some(v)) => v,
        };
        let mut v = match c.crop {
            None => v,
            Some((ox, oy, cw, ch)) => match catch(move || v.cropped(Offset::new(ox, oy), Size::new(cw, ch))) {
                None => return vec![3],
                Some(v) => v,
            },
        };
        let dlen = v.data().len();
        let base = v.data().as_ptr() as usize;
        let off = if dlen == 0 { 0 } else { base - buf_base };
        let mut o = vec![1, v.width() as i128, v.height() as i128, v.row_pitch() as i128, dlen as i128,
            match catch(|| v.is_contiguous()) { Some(b) => b as i128, None => -2 }, off as i128];
        o.extend(rows_of_view_mut(&mut v, base));
        o
    }
}

fn emit(out: &mut Out, c: &Case, buf: &mut [u8]) {
    let obs = observe(c, buf);
    let (docrop, (ox, oy, cw, ch)) = match c.crop { None => (0, (0, 0, 0, 0)), Some(r) => (1, r) };
    let args = [c.mutable as i128, c.ctor as i128, c.len as i128, c.pitch as i128, c.w as i128, c.h as i128,
        c.color.bytes_per_pixel() as i128, docrop, ox as i128, oy as i128, cw as i128, ch as i128];
    out.count(match obs[0] { 0 => "result_none", 1 => "result_view", 2 => "ctor_panic", 3 => "crop_panic", _ => "other" });
    out.count(if c.ctor == 0 { "ctor_new" } else { "ctor_new_with" });
    if c.crop.is_some() { out.count("with_crop"); }
    if c.len > 4096 { out.count("huge_len"); }
    if c.pitch as u128 > (1u128 << 62) { out.count("huge_pitch"); }
    if c.w == 0 || c.h == 0 { out.count("empty_size"); }
    out.case(20, &args, &obs);
}

pub fn parse_corpus_line(l: &str) -> Option<Case> {
    // same syntax as an output line; only the argument part is used
    let lhs = l.split('|').next()?;
    let t: Vec<&str> = lhs.split_whitespace().collect();
    if t.len() != 13 || t[0] != "20" { return None; }
    let n = |i: usize| t[i].parse::<u128>().ok();
    let bpp = n(7)? as u8;
    let color = *COLORS.iter().find(|c| c.bytes_per_pixel() == bpp)?;
    Some(Case {
        mutable: n(1)? != 0, ctor: n(2)? as u8, len: n(3)? as usize, pitch: n(4)? as usize,
        w: n(5)? as u32, h: n(6)? as u32, color,
        crop: if n(8)? != 0 { Some((n(9)? as u32, n(10)? as u32, n(11)? as u32, n(12)? as u32)) } else { None },
    })
}

/// implementation-only oracle for the crop helper behind `Decoder::read_cube_map` (ImageViewMut::cropped_data): faces
/// read into a view with padded rows, or into a crop of a larger view, land exactly where they land in a contiguous
/// view, nothing outside the addressed rows changes, nothing panics
fn cube_into_views(out: &mut Out, rng: &mut Rng) {
    use dds::header::Header;
    use dds::{Decoder, Format};
    for (fw, fh) in [(4u32, 4u32), (3, 5), (6, 2), (1, 1)] {
        let header = Header::new_cube_map(fw, fh, Format::R8G8B8A8_UNORM);
        let mut file = Vec::new();
        header.write(&mut file).unwrap();
        for _ in 0..(6 * fw * fh * 4) { file.push(rng.next() as u8 | 1); }
        let (iw, ih) = (fw * 4, fh * 3);
        let row = iw as usize * 4;
        let mut reference = vec![0u8; row * ih as usize];
        let ok = catch(|| Decoder::new(std::io::Cursor::new(&file[..])).unwrap().read_cube_map(ImageViewMut::new(&mut reference, Size::new(iw, ih), ColorFormat::RGBA_U8).unwrap()));
        if !matches!(ok, Some(Ok(()))) { println!("IMPL-VIOLATION read_cube_map into a contiguous view failed: faces {fw}x{fh}"); continue; }
        for variant in 0..4 {
            // 0, 1: padded rows; 2, 3: a crop (x0, y0) of a larger view
            let (pad, x0, y0) = match variant { 0 => (4usize, 0u32, 0u32), 1 => (4 * (1 + rng.below(9) as usize), 0, 0), 2 => (0, 1 + rng.below(3) as u32, 0), _ => (8, 1 + rng.below(3) as u32, 1 + rng.below(3) as u32) };
            let (pw, ph) = (iw + x0 + if x0 > 0 { 2 } else { 0 }, ih + y0 + if y0 > 0 { 1 } else { 0 });
            let pitch = pw as usize * 4 + pad;
            let mut buf = vec![0u8; pitch * (ph as usize - 1) + pw as usize * 4];
            let res = catch(|| {
                let parent = ImageViewMut::new_with(&mut buf, pitch, Size::new(pw, ph), ColorFormat::RGBA_U8).unwrap();
                let view = if (x0, y0, pw, ph) == (0, 0, iw, ih) { parent } else { parent.cropped(Offset::new(x0, y0), Size::new(iw, ih)) };
                Decoder::new(std::io::Cursor::new(&file[..])).unwrap().read_cube_map(view)
            });
            out.count("cube_view_oracle");
            match res {
                Some(Ok(())) => {}
                other => { println!("IMPL-VIOLATION read_cube_map into a non-contiguous view (faces {fw}x{fh}, pitch {pitch}, crop at {x0},{y0}) {}", if other.is_none() { "panicked" } else { "failed" }); continue; }
            }
            for y in 0..ph as usize { for xb in 0..pitch.min(buf.len() - y * pitch) {
                let inside = y >= y0 as usize && y < (y0 + ih) as usize && xb >= x0 as usize * 4 && xb < (x0 + iw) as usize * 4;
                let got = buf[y * pitch + xb];
                let want = if inside { reference[(y - y0 as usize) * row + xb - x0 as usize * 4] } else { 0 };
                if got != want { println!("IMPL-VIOLATION read_cube_map into a non-contiguous view differs from the contiguous read at row {y} byte {xb} (faces {fw}x{fh}, pitch {pitch}, crop at {x0},{y0})"); return; }
            } }
        }
    }
}

pub fn run(out: &mut Out, tier: &str, seed: u64, corpus: Option<&str>) {
    let thorough = tier == "thorough";
    let mut rng = Rng::new(seed);
    if tier != "replay" { cube_into_views(out, &mut rng); }
    let mut buf = vec![0u8; BIG];
    // corpus first
    if let Some(p) = corpus {
        if let Ok(s) = std::fs::read_to_string(p) {
            for l in s.lines() {
                if let Some(c) = parse_corpus_line(l) {
                    if c.len <= BIG { emit(out, &c, &mut buf); out.count("corpus"); }
                }
            }
        }
    }
    if tier == "replay" { return; }
    let dims: Vec<u32> = vec![0, 1, 2, 3, 4, 5, 7, 8, 16, 17, 63, 64, 65, 255, 256, 65535, 65536, 65537, u32::MAX - 1, u32::MAX];
    let small_dims: Vec<u32> = vec![0, 1, 2, 3, 4, 5, 7, 8, 13, 16, 31];
    let n_random = if thorough { 400_000 } else { 20_000 };

    // (a) systematic boundary grid
    for &color in COLORS.iter() {
        let bpp = color.bytes_per_pixel() as u128;
        for &w in &dims {
            for &h in &dims {
                let bpr = w as u128 * bpp;
                let exact = bpr * h as u128;
                // lengths: exact, exact+-1, 0, small, huge
                let mut lens: Vec<u128> = vec![0, 1, exact, exact.wrapping_sub(1), exact + 1, 4096, (1u128 << 32) + 5, BIG as u128];
                lens.retain(|&l| l <= BIG as u128);
                lens.sort(); lens.dedup();
                for &len in &lens {
                    for mutable in [false, true] {
                        // contiguous constructor
                        emit(out, &Case { mutable, ctor: 0, len: len as usize, pitch: 0, w, h, color, crop: None }, &mut buf);
                    }
                    // pitches around the interesting thresholds
                    let hm1 = (h as u128).saturating_sub(1);
                    let mut pitches: Vec<u128> = vec![0, 1, bpr.wrapping_sub(1), bpr, bpr + 1, bpr + 3, 2 * bpr,
                        1 << 31, 1 << 32, (1 << 32) + 1, 1 << 62, 1 << 63, (1 << 63) + 2, (u64::MAX / 2) as u128 + 3,
                        u64::MAX as u128 - 1, u64::MAX as u128];
                    if hm1 > 0 {
                        let fit = len.saturating_sub(bpr) / hm1; // largest pitch that fits
                        pitches.extend([fit, fit + 1, fit.wrapping_sub(1)]);
                        // pitches that make pitch*(h-1) wrap around 2^64 to something small
                        let wrap = ((1u128 << 64) + hm1 - 1) / hm1;
                        pitches.extend([wrap, wrap + 1, wrap.wrapping_sub(1)]);
                    }
                    pitches.retain(|&p| p <= u64::MAX as u128);
                    pitches.sort(); pitches.dedup();
                    for &pitch in &pitches {
                        let mutable = (pitch ^ len ^ w as u128) & 1 == 1;
                        emit(out, &Case { mutable, ctor: 1, len: len as usize, pitch: pitch as usize, w, h, color, crop: None }, &mut buf);
                    }
                }
            }
        }
    }
    // (b) random small geometry with crops (inside, on the border, outside, empty)
    for _ in 0..n_random {
        let color = *rng.pick(&COLORS);
        let bpp = color.bytes_per_pixel() as usize;
        let w = if rng.chance(1, 8) { *rng.pick(&dims) } else { *rng.pick(&small_dims) + rng.below(3) as u32 };
        let h = if rng.chance(1, 8) { *rng.pick(&dims) } else { *rng.pick(&small_dims) + rng.below(3) as u32 };
        let bpr = (w as usize).saturating_mul(bpp);
        let ctor = if rng.chance(1, 4) { 0 } else { 1 };
        let pitch = match rng.below(6) { 0 => bpr, 1 => bpr + rng.below(9) as usize, 2 => bpr.saturating_sub(1), 3 => rng.below(64) as usize, 4 => bpr * 2 + 1, _ => bpr + 4 };
        let need = if ctor == 0 { (bpr as u128) * h as u128 } else { (pitch as u128) * (h as u128).saturating_sub(1) + bpr as u128 };
        let len = match rng.below(6) { 0 => need.saturating_sub(1), 1 => need + 1 + rng.below(10) as u128, 2 => rng.below(4097) as u128, _ => need };
        if len > BIG as u128 { continue; }
        let crop = if rng.chance(3, 4) {
            let ox = rng.below(w as u64 + 2) as u32;
            let oy = rng.below(h as u64 + 2) as u32;
            let (cw, ch) = match rng.below(8) {
                0 => (0, rng.below(4) as u32),
                1 => (rng.below(4) as u32, 0),
                2 => (w.saturating_sub(ox), h.saturating_sub(oy)),                   // touches the border
                3 => (w.saturating_sub(ox).saturating_add(1), h.saturating_sub(oy)), // one too wide
                4 => (w.saturating_sub(ox), h.saturating_sub(oy).saturating_add(1)), // one too high
                5 => (u32::MAX - rng.below(3) as u32, 1),                            // u32 overflow of ox+cw
                _ => (rng.below(w.saturating_sub(ox) as u64 + 1) as u32, rng.below(h.saturating_sub(oy) as u64 + 1) as u32),
            };
            Some((ox, oy, cw, ch))
        } else { None };
        let mutable = rng.chance(1, 2);
        emit(out, &Case { mutable, ctor, len: len as usize, pitch, w, h, color, crop }, &mut buf);
    }
}
