//! C05: a decoded pixel does not depend on how it was asked for (tag 5).
//! For every format: the full decode at the format's native channel layout and the requested precision is taken
//! from the implementation (its values are the subject of C03 / C04); the model then computes what decode_rect /
//! decode into ANY colour format, rectangle, row pitch, buffer offset and prefilled buffer must leave in the buffer:
//! blit(prefill, crop(rect, channel_map(native -> requested))).
//! tag 5, args [esize; from_ch; to_ch; W; H; rx; ry; rw; rh; pitch; offset; buflen; prefill; native bytes...]  observed: the buffer
use crate::formats::*;
use crate::util::*;
use dds::*;
use std::io::Cursor;

const CHANNELS: [Channels; 4] = [Channels::Grayscale, Channels::Alpha, Channels::Rgb, Channels::Rgba];
const PRECS: [Precision; 3] = [Precision::U8, Precision::U16, Precision::F32];

fn full_native(format: Format, prec: Precision, w: u32, h: u32, data: &[u8]) -> Option<Vec<u8>> {
    let color = ColorFormat::new(format.channels(), prec);
    let mut buf = vec![0u8; w as usize * h as usize * color.bytes_per_pixel() as usize];
    let mut r = data;
    match catch(|| decode(&mut r, ImageViewMut::new(&mut buf, Size::new(w, h), color).unwrap(), format, &DecodeOptions::default())) {
        Some(Ok(())) => Some(buf), _ => None,
    }
}

#[allow(clippy::too_many_arguments)]
fn one(out: &mut Out, fi: usize, data: &[u8], w: u32, h: u32, rect: (u32, u32, u32, u32), to: Channels, prec: Precision, pitch_extra: usize, offset: usize, prefill: u8, use_full: bool) {
    let (format, name) = FORMATS[fi];
    let Some(native) = full_native(format, prec, w, h, data) else { println!("IMPL-VIOLATION full native decode failed: {name} {w}x{h}"); return; };
    let color = ColorFormat::new(to, prec);
    let (rx, ry, rw, rh) = rect;
    let bpp = color.bytes_per_pixel() as usize;
    let pitch = rw as usize * bpp + pitch_extra;
    let need = if rh == 0 || rw == 0 { 0 } else { pitch * (rh as usize - 1) + rw as usize * bpp };
    // for odd buffer offsets the slice handed to the view also holds the padding behind the last row
    let tail_pad = if offset % 2 == 1 && rh > 0 && rw > 0 { pitch_extra } else { 0 };
    let buflen = offset + need + tail_pad + 5;
    let mut buf = vec![prefill; buflen];
    let block = match PixelInfo::from(format) { PixelInfo::Block(b) if rw > 0 && rh > 0 => Some(b), _ => None };
    let fixed = match PixelInfo::from(format) { PixelInfo::Fixed { bytes_per_pixel } if rw > 0 && rh > 0 => Some(bytes_per_pixel as usize), _ => None };
    let biplanar = match PixelInfo::from(format) { PixelInfo::BiPlanar(b) if rw > 0 && rh > 0 => Some(b), _ => None };
    if block.is_some() || fixed.is_some() || biplanar.is_some() { dds::verif_hooks::start_block_trace(); }
    let res = {
        let view = ImageViewMut::new_with(&mut buf[offset..offset + need + tail_pad], pitch, Size::new(rw, rh), color);
        let Some(view) = view else { println!("IMPL-VIOLATION view refused: {name} {rw}x{rh} pitch {pitch}"); return; };
        if use_full {
            let mut r = data;
            catch(|| decode(&mut r, view, format, &DecodeOptions::default()))
        } else {
            let mut c = Cursor::new(data);
            let res = catch(|| decode_rect(&mut c, view, Offset::new(rx, ry), Size::new(w, h), format, &DecodeOptions::default()));
            if let Some(Ok(())) = res { if c.position() != data.len() as u64 { println!("IMPL-VIOLATION decode_rect left the reader at {} of {}: {name} {w}x{h} rect {rect:?}", c.position(), data.len()); } }
            res
        }
    };
    // tag 51: the call trace of the block code paths against the line-by-line model (coq/model/RectPath.v)
    if let Some(b) = block {
        let trace = dds::verif_hooks::take_block_trace();
        if let (Some(Ok(())), Some(first)) = (&res, trace.first()) {
            let (bbpp, conv) = (first[4], first[5]);
            let targs: Vec<i128> = vec![if use_full { 0 } else { 1 }, b.size().0 as i128, b.size().1 as i128, b.bytes_per_block() as i128, conv as i128, bbpp as i128,
                bpp as i128, pitch as i128, w as i128, h as i128, rx as i128, ry as i128, rw as i128, rh as i128];
            let mut obs: Vec<i128> = Vec::new();
            for e in &trace {
                // a line event carries the decoder's native pixel size and conversion flag (passed to the model as arguments)
                let e: &[usize] = if e[0] == 0 && e.len() == 6 && (e[4], e[5]) == (bbpp, conv) { &e[..4] } else { &e[..] };
                obs.push(e.len() as i128); obs.extend(e.iter().map(|&v| v as i128));
            }
            out.count("trace_cases"); out.count(if conv == 1 { "trace_conv" } else { "trace_native" });
            out.case(51, &targs, &obs);
        } else if let Some(Ok(())) = &res { println!("IMPL-VIOLATION no block trace: {name} {w}x{h} rect {rect:?}"); }
    }
    // tag 53: the ProcessBiPlanarFn calls of the bi-planar paths against model/BiPlanarPath.v
    if let Some(b) = biplanar {
        let trace = dds::verif_hooks::take_block_trace();
        if let (Some(Ok(())), Some(first)) = (&res, trace.first()) {
            if first[0] == 3 && first.len() == 11 {
                let (bbpp, conv) = (first[9], first[10]);
                let (sx, sy) = b.plane2_sub_sampling();
                let targs: Vec<i128> = vec![if use_full { 0 } else { 1 }, b.plane1_bytes_per_pixel() as i128, b.plane2_bytes_per_sample() as i128, sx as i128, sy as i128,
                    conv as i128, bbpp as i128, bpp as i128, w as i128, h as i128, rx as i128, ry as i128, rw as i128, rh as i128];
                let mut obs: Vec<i128> = Vec::new();
                for e in &trace {
                    let e: &[usize] = if e[0] == 3 && e.len() == 11 && (e[9], e[10]) == (bbpp, conv) { &e[..9] } else { &e[..] };
                    obs.push(e.len() as i128); obs.extend(e.iter().map(|&v| v as i128));
                }
                out.count("biplanar_trace_cases"); out.count(if conv == 1 { "biplanar_trace_conv" } else { "biplanar_trace_native" });
                out.case(53, &targs, &obs);
            }
        } else if let Some(Ok(())) = &res { println!("IMPL-VIOLATION no bi-planar trace: {name} {w}x{h} rect {rect:?}"); }
    }
    // tag 52: the ProcessPixelsFn calls of the uncompressed paths against model/PixelPath.v (the specialised whole-image
    // copies make no such call: nothing to compare then)
    if let Some(ebpp) = fixed {
        let trace = dds::verif_hooks::take_block_trace();
        if let (Some(Ok(())), Some(first)) = (&res, trace.first()) {
            if first[0] == 2 && first.len() == 7 {
                let (bbpp, conv) = (first[5], first[6]);
                let targs: Vec<i128> = vec![conv as i128, bbpp as i128, ebpp as i128, bpp as i128, rw as i128, rh as i128];
                let mut obs: Vec<i128> = Vec::new();
                for e in &trace {
                    let e: &[usize] = if e[0] == 2 && e.len() == 7 && (e[5], e[6]) == (bbpp, conv) { &e[..5] } else { &e[..] };
                    obs.push(e.len() as i128); obs.extend(e.iter().map(|&v| v as i128));
                }
                out.count("pixel_trace_cases"); out.count(if conv == 1 { "pixel_trace_conv" } else { "pixel_trace_native" });
                out.case(52, &targs, &obs);
            }
        }
    }
    match res { Some(Ok(())) => {} other => { println!("IMPL-VIOLATION decode{} failed ({:?}): {name} {w}x{h} rect {rect:?} to {:?} {:?}", if use_full { "" } else { "_rect" }, other.map(|r| r.map_err(|e| e.to_string())), to, prec); return; } }
    let esize = prec.size() as i128;
    let mut args: Vec<i128> = vec![esize, channels_id(format.channels()) as i128, channels_id(to) as i128, w as i128, h as i128, rx as i128, ry as i128, rw as i128, rh as i128,
        pitch as i128, offset as i128, buflen as i128, prefill as i128];
    args.extend(native.iter().map(|&b| b as i128));
    let obs: Vec<i128> = buf.iter().map(|&b| b as i128).collect();
    out.count(&format!("fmt_{name}")); out.count(&format!("to_{}", color_id(color))); out.count(if use_full { "mode_full" } else { "mode_rect" });
    out.count(&format!("offset_{offset}")); out.count(if pitch_extra == 0 { "pitch_min" } else { "pitch_padded" });
    out.case(5, &args, &obs);
}

fn random_data(fi: usize, w: u32, h: u32, rng: &mut Rng) -> Vec<u8> {
    let n = PixelInfo::from(FORMATS[fi].0).surface_bytes(Size::new(w, h)).unwrap() as usize;
    let mut d = vec![0u8; n];
    for b in d.iter_mut() { *b = rng.next() as u8; }
    // keep f32 / f16 channels finite and comparable bit for bit: NaN payloads pass through copies unchanged anyway
    d
}

pub fn run(out: &mut Out, tier: &str, seed: u64, _corpus: Option<&str>) {
    let thorough = tier == "thorough";
    let mut rng = Rng::new(seed ^ 0xC05);
    if tier == "replay" { return; }
    for fi in 0..FORMATS.len() {
        let format = FORMATS[fi].0;
        let pi = PixelInfo::from(format);
        let (mx, my) = match pi { PixelInfo::BiPlanar(_) => (2u32, 2u32), _ => (1, 1) };
        let (bw, bh) = match pi { PixelInfo::Block(b) => (b.size().0 as u32, b.size().1 as u32), PixelInfo::BiPlanar(_) => (2, 2), _ => (1, 1) };
        let nsizes = if thorough { 14 } else { 4 };
        for si in 0..nsizes {
            // sizes covering all residues modulo the block size over the run; a few large ones
            let (mut w, mut h) = match si { 0 => (1 + rng.below(3 * bw as u64 + 2) as u32, 1 + rng.below(3 * bh as u64 + 2) as u32),
                                            1 => (bw * 2 + 1 + (fi as u32 % bw.max(2)), bh + 1 + (fi as u32 % bh.max(2))),
                                            2 => (1 + rng.below(40) as u32, 1 + rng.below(12) as u32),
                                            _ => (1 + rng.below(70) as u32, 1 + rng.below(24) as u32) };
            w = w.div_ceil(mx) * mx; h = h.div_ceil(my) * my;
            let data = random_data(fi, w, h, &mut rng);
            let nrect = if thorough { 10 } else { 5 };
            for ri in 0..nrect {
                let rect = match ri {
                    0 => (0, 0, w, h),
                    1 => { let x = rng.below(w as u64) as u32; let y = rng.below(h as u64) as u32; (x, y, 1, 1) }
                    2 => { let y = rng.below(h as u64) as u32; (0, y, w, 1) }
                    3 => { let x = rng.below(w as u64) as u32; (x, 0, 1, h) }
                    _ => { let x = rng.below(w as u64) as u32; let y = rng.below(h as u64) as u32; (x, y, 1 + rng.below((w - x) as u64) as u32, 1 + rng.below((h - y) as u64) as u32) }
                };
                let to = CHANNELS[rng.below(4) as usize];
                let prec = PRECS[rng.below(3) as usize];
                let pitch_extra = if rng.below(2) == 0 { 0 } else { 1 + rng.below(9) as usize };
                let offset = rng.below(4) as usize;
                let prefill = if rng.below(2) == 0 { 0x00 } else { 0xFF };
                one(out, fi, &data, w, h, rect, to, prec, pitch_extra, offset, prefill, false);
                if ri == 0 { one(out, fi, &data, w, h, rect, CHANNELS[(fi + si) % 4], PRECS[(fi / 4 + si) % 3], pitch_extra, offset, prefill, true); }
            }
        }
        // every one of the 12 colour formats once per format (full decode and one unaligned rectangle)
        let (w, h) = ((2 * bw + 3).div_ceil(mx) * mx, (bh + 2).div_ceil(my) * my);
        let data = random_data(fi, w, h, &mut rng);
        // whole-surface decodes at the format's own colour format (the specialised copy paths) into padded views whose slice
        // does / does not include the padding behind the last row; a one-row surface as well
        for (k, (pe, off)) in [(7usize, 1usize), (4, 3), (5, 2)].into_iter().enumerate() {
            one(out, fi, &data, w, h, (0, 0, w, h), format.channels(), format.precision(), pe, off, if k % 2 == 0 { 0xFF } else { 0 }, true);
        }
        if my == 1 { let d1 = random_data(fi, w, 1, &mut rng); one(out, fi, &d1, w, 1, (0, 0, w, 1), format.channels(), format.precision(), 6, 1, 0xFF, true); }
        for ci in 0..12 { let (to, prec) = (CHANNELS[ci / 3], PRECS[ci % 3]);
            one(out, fi, &data, w, h, (0, 0, w, h), to, prec, 0, 0, 0, true);
            one(out, fi, &data, w, h, (1.min(w - 1), 1.min(h - 1), w - 1.min(w - 1), h - 1.min(h - 1)), to, prec, 3, 1, 0xFF, false);
        }
    }
    // tall rectangles: more than 255 rows (row counters of the rect paths must not be narrower than the rectangle)
    let tall: &[(Format, u32, u32)] = &[(Format::BC1_UNORM, 9, 300), (Format::BC4_UNORM, 5, 270), (Format::ASTC_6X5_UNORM, 7, 290), (Format::R8G8_B8G8_UNORM, 6, 300),
        (Format::NV12, 4, 280), (Format::R8G8B8A8_UNORM, 3, 300), (Format::BC7_UNORM, 4, 520)];
    for &(format, w, h) in tall {
        let fi = id_of(format);
        let data = random_data(fi, w, h, &mut rng);
        for k in 0..(if thorough { 6 } else { 2 }) {
            let to = CHANNELS[(k + 2) % 4]; let prec = PRECS[k % 3];
            let x = rng.below(w as u64) as u32; let y = rng.below(6) as u32;
            one(out, fi, &data, w, h, (x, y, w - x, h - y - rng.below(3) as u32), to, prec, k % 2, k % 3, if k % 2 == 0 { 0xFF } else { 0 }, false);
            out.count("tall_rect");
        }
    }
    // wide rows crossing the 3072-byte conversion buffer: widths around 3072 / bytes-per-pixel for every precision
    let wide: &[(Format, u32)] = &[(Format::R8G8B8A8_UNORM, 770), (Format::R8_UNORM, 3075), (Format::R16_UNORM, 1540), (Format::R32G32B32A32_FLOAT, 195), (Format::B5G6R5_UNORM, 1030),
        (Format::BC1_UNORM, 772), (Format::BC4_UNORM, 3080), (Format::R8G8_B8G8_UNORM, 1026), (Format::NV12, 1026), (Format::R1_UNORM, 3100), (Format::BC7_UNORM, 260), (Format::ASTC_5X4_UNORM, 1031)];
    for &(format, w) in wide {
        let fi = id_of(format);
        let h = 2u32;
        let data = random_data(fi, w, h, &mut rng);
        for k in 0..(if thorough { 12 } else { 4 }) {
            let to = CHANNELS[(k + 1) % 4]; let prec = PRECS[k % 3];
            let x = rng.below(9) as u32; let rw = w - x - rng.below(5) as u32;
            one(out, fi, &data, w, h, (x, (k % 2) as u32, rw, 1 + ((k + 1) % 2) as u32 * (1 - (k % 2) as u32)), to, prec, k % 3, k % 4, if k % 2 == 0 { 0 } else { 0xFF }, false);
            if k < 2 { one(out, fi, &data, w, h, (0, 0, w, h), to, prec, k, k, 0, true); }
        }
    }
}
