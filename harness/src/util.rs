use std::collections::BTreeMap;

/// SplitMix64: every random choice of a run derives from one seed.
pub struct Rng(pub u64);
impl Rng {
    pub fn new(seed: u64) -> Self {
        Rng(seed.wrapping_mul(0x9E3779B97F4A7C15) ^ 0xD1B54A32D192ED03)
    }
    pub fn next(&mut self) -> u64 {
        self.0 = self.0.wrapping_add(0x9E3779B97F4A7C15);
        let mut z = self.0;
        z = (z ^ (z >> 30)).wrapping_mul(0xBF58476D1CE4E5B9);
        z = (z ^ (z >> 27)).wrapping_mul(0x94D049BB133111EB);
        z ^ (z >> 31)
    }
    pub fn below(&mut self, n: u64) -> u64 {
        if n == 0 { 0 } else { self.next() % n }
    }
    pub fn range(&mut self, lo: u64, hi_incl: u64) -> u64 {
        lo + self.below((hi_incl - lo).saturating_add(1))
    }
    pub fn pick<'a, T>(&mut self, xs: &'a [T]) -> &'a T {
        &xs[self.below(xs.len() as u64) as usize]
    }
    pub fn chance(&mut self, num: u64, den: u64) -> bool {
        self.below(den) < num
    }
}

pub struct Out {
    pub lines: Vec<String>,
    pub hist: BTreeMap<String, u64>,
    pub samples: Vec<String>,
}
impl Out {
    pub fn new() -> Self {
        Out { lines: Vec::new(), hist: BTreeMap::new(), samples: Vec::new() }
    }
    pub fn case(&mut self, tag: u32, args: &[i128], obs: &[i128]) {
        let mut s = String::with_capacity(16 * (args.len() + obs.len()));
        s.push_str(&tag.to_string());
        for a in args {
            s.push(' ');
            s.push_str(&a.to_string());
        }
        s.push_str(" |");
        for o in obs {
            s.push(' ');
            s.push_str(&o.to_string());
        }
        self.lines.push(s);
    }
    pub fn count(&mut self, key: &str) {
        *self.hist.entry(key.to_string()).or_insert(0) += 1;
    }
    pub fn stats_json(&self) -> String {
        let mut s = String::from("{");
        let mut first = true;
        for (k, v) in &self.hist {
            if !first { s.push(','); }
            first = false;
            s.push_str(&format!("\"{}\":{}", k, v));
        }
        s.push('}');
        s
    }
}

pub fn silence_panics() {
    // panics of the implementation are caught and reported by the oracles; DDSX_PANIC=1 shows where they come from
    if std::env::var("DDSX_PANIC").is_ok() { std::panic::set_hook(Box::new(|i| eprintln!("panic: {i}"))); } else { std::panic::set_hook(Box::new(|_| {})); }
}

/// Runs `f`, returning None if it panicked.
pub fn catch<T>(f: impl FnOnce() -> T) -> Option<T> {
    std::panic::catch_unwind(std::panic::AssertUnwindSafe(f)).ok()
}

/// boundary values around powers of two below `limit` (inclusive)
pub fn pow2_boundaries(limit: u64) -> Vec<u64> {
    let mut v = vec![0u64, 1, 2, 3, 5, 7];
    let mut k = 2;
    while k < 64 {
        let p = 1u64 << k;
        for x in [p - 1, p, p + 1] {
            if x <= limit { v.push(x); }
        }
        k += 1;
    }
    v.push(limit);
    v.push(limit - 1);
    v.sort();
    v.dedup();
    v
}

pub const COLORS: [dds::ColorFormat; 12] = [
    dds::ColorFormat::GRAYSCALE_U8, dds::ColorFormat::GRAYSCALE_U16, dds::ColorFormat::GRAYSCALE_F32,
    dds::ColorFormat::ALPHA_U8, dds::ColorFormat::ALPHA_U16, dds::ColorFormat::ALPHA_F32,
    dds::ColorFormat::RGB_U8, dds::ColorFormat::RGB_U16, dds::ColorFormat::RGB_F32,
    dds::ColorFormat::RGBA_U8, dds::ColorFormat::RGBA_U16, dds::ColorFormat::RGBA_F32,
];

// ---- watchdog: a call that does not return is reported and the harness stops with what it has
use std::sync::{Mutex, OnceLock};
static WATCH: Mutex<Option<(std::time::Instant, String)>> = Mutex::new(None);
pub static OUT_PATH: OnceLock<String> = OnceLock::new();
pub fn watchdog_start() {
    std::thread::spawn(|| loop {
        std::thread::sleep(std::time::Duration::from_millis(250));
        let g = WATCH.lock().unwrap();
        if let Some((deadline, what)) = g.as_ref() {
            if std::time::Instant::now() > *deadline {
                println!("IMPL-VIOLATION hang: the call did not return in time: {what}");
                if let Some(p) = OUT_PATH.get() { let _ = std::fs::write(p, "# aborted by the watchdog\n"); }
                println!("STATS {{\"aborted_by_watchdog\":1}}");
                std::process::exit(0);
            }
        }
    });
}
pub fn watch(secs: u64, what: String) { *WATCH.lock().unwrap() = Some((std::time::Instant::now() + std::time::Duration::from_secs(secs), what)); }
pub fn unwatch() { *WATCH.lock().unwrap() = None; }
