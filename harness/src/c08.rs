//! C08: any sequence of Decoder operations stays in step with the layout.
//! tag 8, args [header (10 fields as C02); pixel info (5); (op kind; flag)*]
//! observed: [0; layout error] | 1 :: state :: per op (code :: state [:: cells]) ... ; stops after I/O error (6) / panic (-2)
//!   state = [has_next; w; h; len; is_mipmap; reader position relative to the data section]
use crate::c02;
use crate::util::*;
use dds::*;
use std::cell::RefCell;
use std::io::{Cursor, Read, Seek, SeekFrom};
use std::rc::Rc;

#[derive(Clone)]
struct Shared(Rc<RefCell<Cursor<Vec<u8>>>>);
impl Read for Shared {
    fn read(&mut self, buf: &mut [u8]) -> std::io::Result<usize> { self.0.borrow_mut().read(buf) }
}
impl Seek for Shared {
    fn seek(&mut self, pos: SeekFrom) -> std::io::Result<u64> { self.0.borrow_mut().seek(pos) }
}

pub const FORMATS: [(Format, (u8, u8, u8, u8, u8)); 5] = [
    (Format::R8_UNORM, (0, 1, 0, 0, 0)),
    (Format::R8G8B8A8_UNORM, (0, 4, 0, 0, 0)),
    (Format::BC1_UNORM, (1, 8, 4, 4, 0)),
    (Format::UYVY, (1, 4, 2, 1, 0)),
    (Format::NV12, (2, 1, 2, 2, 2)),
];

fn err_code(e: &DecodingError) -> i128 {
    match e {
        DecodingError::NoMoreSurfaces => 1,
        DecodingError::UnexpectedSurfaceSize => 2,
        DecodingError::CannotSkipMipmapsInVolume => 3,
        DecodingError::NotACubeMap => 4,
        DecodingError::RectOutOfBounds => 5,
        DecodingError::Io(_) => 6,
        _ => 7,
    }
}

fn state<R>(d: &Decoder<R>, sh: &Shared) -> Vec<i128> {
    let pos = sh.0.borrow().position() as i128;
    match d.surface_info() {
        None => { let done = d.is_done(); vec![if done { 0 } else { -5 }, 0, 0, 0, 0, pos] }
        Some(si) => {
            let done = d.is_done();
            vec![if done { -5 } else { 1 }, si.size().width as i128, si.size().height as i128, si.data_len() as i128, si.is_mipmap() as i128, pos]
        }
    }
}

const CELLS: [(u32, u32); 12] = [(2, 1), (0, 1), (1, 0), (1, 2), (1, 1), (3, 1), (0, 0), (2, 0), (3, 0), (0, 2), (2, 2), (3, 2)];

pub fn observe(c: &c02::Case, format: Format, ops: &[(u8, u8)], rng_seed: u64) -> Vec<i128> {
    let header = c.header();
    let layout = match DataLayout::from_header_with(&header, format.into()) {
        Err(e) => return vec![0, match e {
            LayoutError::ZeroDimension => 1, LayoutError::TooManyMipMaps(_) => 2, LayoutError::MissingDepth => 3,
            LayoutError::InvalidCubeMapFaces => 4, LayoutError::ArraySizeTooBig(_) => 5, LayoutError::DataLayoutTooBig => 6,
            #[allow(unreachable_patterns)] _ => 99 }],
        Ok(l) => l,
    };
    let huge = layout.data_len() > (1 << 22);
    let mut rng = Rng::new(rng_seed);
    let data: Vec<u8> = if huge { Vec::new() } else { (0..layout.data_len()).map(|_| rng.next() as u8).collect() };
    // reference decode of level 0 of every array element (to identify what a cube read put where)
    let mut refs: Vec<Vec<u8>> = Vec::new();
    if let (false, DataLayout::TextureArray(a)) = (huge, &layout) {
        if a.len() <= 64 {
            for t in a.iter() {
                let m = t.main();
                let mut buf = vec![0u8; m.width() as usize * m.height() as usize * 4];
                let s = m.data_offset() as usize;
                let mut r = &data[s..s + m.data_len() as usize];
                let _ = decode(&mut r, ImageViewMut::new(&mut buf, m.size(), ColorFormat::RGBA_U8).unwrap(), format, &DecodeOptions::default());
                refs.push(buf);
            }
        }
    }
    let sh = Shared(Rc::new(RefCell::new(Cursor::new(data))));
    let mut dec = match Decoder::from_header_with(sh.clone(), header, format) {
        Ok(d) => d,
        Err(_) => return vec![-7],
    };
    let mut o: Vec<i128> = vec![1];
    o.extend(state(&dec, &sh));
    for &(k, f) in ops {
        let cur = dec.surface_info().map(|s| s.size());
        let mut cells: Option<Vec<i128>> = None;
        let r = catch(|| -> Result<(), DecodingError> {
            match k {
                0 => {
                    let sz = match cur { Some(s) => if f != 0 { Size::new(s.width + 1, s.height) } else { s }, None => Size::new(1, 1) };
                    let mut buf = vec![0u8; sz.width as usize * sz.height as usize * 4];
                    dec.read_surface(ImageViewMut::new(&mut buf, sz, ColorFormat::RGBA_U8).unwrap())
                }
                1 => {
                    let s = cur.unwrap_or(Size::new(1, 1));
                    let (off, sz) = if f != 0 {
                        (Offset::new(s.width, 0), Size::new(1, 1))
                    } else {
                        let ox = rng.below(s.width as u64) as u32;
                        let oy = rng.below(s.height as u64) as u32;
                        (Offset::new(ox, oy), Size::new(1 + rng.below((s.width - ox) as u64) as u32, 1 + rng.below((s.height - oy) as u64) as u32))
                    };
                    let mut buf = vec![0u8; sz.width as usize * sz.height as usize * 4];
                    dec.read_surface_rect(ImageViewMut::new(&mut buf, sz, ColorFormat::RGBA_U8).unwrap(), off)
                }
                2 => dec.skip_surface(),
                3 => dec.skip_mipmaps(),
                4 => dec.rewind_to_previous_surface(),
                5 => dec.rewind_to_start(),
                _ => {
                    let fs = dec.main_size();
                    let (iw, ih) = if f != 0 { (fs.width * 4 + 1, fs.height * 3) } else { (fs.width * 4, fs.height * 3) };
                    // half of the reads go into a view with padded rows (the faces are then cropped out of a non-contiguous view)
                    let pad = if rng.below(2) == 0 { 0usize } else { 4 * (1 + rng.below(5) as usize) };
                    let pitch = iw as usize * 4 + pad;
                    let mut buf = vec![0xAAu8; if ih == 0 { 0 } else { pitch * (ih as usize - 1) + iw as usize * 4 }];
                    let res = match catch(|| dec.read_cube_map(ImageViewMut::new_with(&mut buf, pitch, Size::new(iw, ih), ColorFormat::RGBA_U8).unwrap())) {
                        Some(r) => r, None => { println!("IMPL-VIOLATION panic in read_cube_map into a {iw}x{ih} view with row pitch {pitch}"); Err(DecodingError::RectOutOfBounds) } };
                    // which cells were written, and with which array element?
                    let mut cl: Vec<i128> = Vec::new();
                    let mut n = 0;
                    if f == 0 {
                        for &(cx, cy) in CELLS.iter() {
                            let mut cell = Vec::with_capacity((fs.width * fs.height * 4) as usize);
                            for y in 0..fs.height {
                                let s = (cy * fs.height + y) as usize * pitch + (cx * fs.width * 4) as usize;
                                cell.extend_from_slice(&buf[s..s + fs.width as usize * 4]);
                            }
                            if cell.iter().any(|&b| b != 0xAA) {
                                n += 1;
                                let elem = refs.iter().position(|r| *r == cell).map(|i| i as i128).unwrap_or(-9);
                                cl.extend([cx as i128, cy as i128, elem]);
                            }
                        }
                    }
                    let mut v = vec![n];
                    v.extend(cl);
                    cells = Some(v);
                    res
                }
            }
        });
        match r {
            None => { o.push(-2); return o; }
            Some(Ok(())) => { o.push(0); }
            Some(Err(e)) => {
                let c = err_code(&e);
                o.push(c);
                if c == 6 { return o; }
            }
        }
        o.extend(state(&dec, &sh));
        if let Some(cl) = cells { o.extend(cl); }
    }
    o
}

fn emit(out: &mut Out, c: &c02::Case, format: Format, ops: &[(u8, u8)], seed: u64) {
    let obs = observe(c, format, ops, seed);
    let mut args = c.args();
    for &(k, f) in ops { args.push(k as i128); args.push(f as i128); }
    out.count(&format!("depth_{:02}", ops.len().min(40) / 5 * 5));
    for &(k, _) in ops { out.count(&format!("op_{k}")); }
    for w in obs.windows(1) { if w[0] == -2 { out.count("panic"); } }
    out.case(8, &args, &obs);
}

fn layouts() -> Vec<(c02::Case, &'static str)> {
    let base = c02::Case { dx10: true, w: 8, h: 4, depth: None, mips: 1, cube10: false, dim: 1, array: 1, caps2: 0, pk: 0, pa: 1, pb: 0, pc: 0, pd: 0 };
    let mut v = Vec::new();
    v.push((base, "texture"));
    v.push((c02::Case { mips: 3, ..base }, "texture_3mips"));
    v.push((c02::Case { mips: 4, ..base }, "texture_full"));
    v.push((c02::Case { mips: 6, w: 4, h: 4, ..base }, "texture_overfull"));
    v.push((c02::Case { array: 0, ..base }, "array0"));
    v.push((c02::Case { array: 3, mips: 2, ..base }, "array3"));
    v.push((c02::Case { array: 2, mips: 3, w: 5, h: 3, ..base }, "array2_odd"));
    v.push((c02::Case { cube10: true, w: 4, h: 4, mips: 1, ..base }, "cube"));
    v.push((c02::Case { cube10: true, w: 4, h: 4, mips: 3, ..base }, "cube_mips"));
    v.push((c02::Case { cube10: true, w: 4, h: 4, mips: 2, array: 2, ..base }, "cube_array"));
    // faces need not be square: the cross arrangement is in units of the face width and height
    v.push((c02::Case { cube10: true, w: 4, h: 6, mips: 2, ..base }, "cube_tall"));
    v.push((c02::Case { cube10: true, w: 6, h: 2, mips: 1, ..base }, "cube_wide"));
    for faces in [0b001000u32, 0b111111, 0b011010] {
        v.push((c02::Case { dx10: false, w: 2, h: 5, mips: 1, caps2: 0x200 | (faces << 10), ..base }, "partial_cube_tall"));
        v.push((c02::Case { dx10: false, w: 7, h: 3, mips: 2, caps2: 0x200 | (faces << 10), ..base }, "partial_cube_wide"));
    }
    for faces in [0b000001u32, 0b000010, 0b101000, 0b110101, 0b011111, 0b100000, 0b000000, 0b111110] {
        v.push((c02::Case { dx10: false, w: 4, h: 4, mips: 2, caps2: 0x200 | (faces << 10), ..base }, "partial_cube"));
    }
    v.push((c02::Case { dim: 2, depth: Some(3), w: 4, h: 4, mips: 1, ..base }, "volume"));
    v.push((c02::Case { dim: 2, depth: Some(5), w: 4, h: 6, mips: 3, ..base }, "volume_3mips"));
    v.push((c02::Case { dx10: false, caps2: 0x200000, depth: Some(2), w: 2, h: 2, mips: 2, ..base }, "volume_dx9"));
    v.push((c02::Case { dim: 0, w: 8, h: 1, mips: 2, ..base }, "1d"));
    v
}

pub fn run(out: &mut Out, tier: &str, seed: u64, corpus: Option<&str>) {
    let thorough = tier == "thorough";
    let mut rng = Rng::new(seed ^ 0xC08);
    if let Some(p) = corpus {
        if let Ok(s) = std::fs::read_to_string(p) {
            for l in s.lines() {
                let lhs = l.split('|').next().unwrap_or("");
                let t: Vec<&str> = lhs.split_whitespace().collect();
                if t.len() < 16 || t[0] != "8" { continue; }
                if let Some(c) = c02::parse_corpus_line(&format!("2 {}", t[1..16].join(" "))) {
                    let pi = (c.pk, c.pa, c.pb, c.pc, c.pd);
                    if let Some((f, _)) = FORMATS.iter().find(|(_, p)| *p == pi) {
                        let nums: Vec<u8> = t[16..].iter().filter_map(|x| x.parse().ok()).collect();
                        let ops: Vec<(u8, u8)> = nums.chunks(2).filter(|c| c.len() == 2).map(|c| (c[0], c[1])).collect();
                        emit(out, &c, *f, &ops, 1);
                        out.count("corpus");
                    }
                }
            }
        }
    }
    if tier == "replay" { return; }
    let depth = if thorough { 6 } else { 4 };
    let lays = layouts();
    for (li, (lay, _name)) in lays.iter().enumerate() {
        // exhaustive sequences up to `depth` over the 7 op kinds, one format per layout (rotating)
        let (format, pi) = FORMATS[li % FORMATS.len()];
        let mut c = *lay;
        (c.pk, c.pa, c.pb, c.pc, c.pd) = pi;
        if matches!(format, Format::NV12) { c.w = (c.w + 1) & !1; c.h = (c.h + 1) & !1; }
        let total = 7usize.pow(depth);
        for code in 0..total {
            let mut ops = Vec::with_capacity(depth as usize);
            let mut x = code;
            for _ in 0..depth { ops.push(((x % 7) as u8, 0u8)); x /= 7; }
            emit(out, &c, format, &ops, code as u64);
        }
        // random deeper sequences incl. wrong-size / out-of-bounds variants, all formats
        let nrand = if thorough { 3000 } else { 300 };
        for _ in 0..nrand {
            let (format, pi) = *rng.pick(&FORMATS);
            let mut c = *lay;
            (c.pk, c.pa, c.pb, c.pc, c.pd) = pi;
            if matches!(format, Format::NV12) { c.w = (c.w + 1) & !1; c.h = (c.h + 1) & !1; }
            let n = rng.range(5, 40) as usize;
            let ops: Vec<(u8, u8)> = (0..n).map(|_| {
                let k = match rng.below(12) { 0..=3 => 0, 4 => 1, 5 | 6 => 2, 7 => 3, 8 | 9 => 4, 10 => 5, _ => 6 };
                (k as u8, if rng.chance(1, 8) { 1 } else { 0 })
            }).collect();
            emit(out, &c, format, &ops, rng.next());
        }
    }
    // huge layouts (no data behind them): only operations that do not read
    let base = c02::Case { dx10: true, w: 3_000_000_000, h: 3_000_000_000, depth: None, mips: 1, cube10: false, dim: 1, array: 2, caps2: 0, pk: 0, pa: 1, pb: 0, pc: 0, pd: 0 };
    for lay in [base, c02::Case { array: 1, mips: 3, ..base }, c02::Case { dim: 2, depth: Some(2), array: 1, ..base }] {
        for _ in 0..200 {
            let n = rng.range(1, 8) as usize;
            let ops: Vec<(u8, u8)> = (0..n).map(|_| (*rng.pick(&[2u8, 2, 3, 4, 5]), 0)).collect();
            emit(out, &lay, Format::R8_UNORM, &ops, 0);
        }
    }
}
