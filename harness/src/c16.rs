//! C16: generated mipmaps have the declared sizes and preserve flat colour and opacity (implementation-only
//! oracle through Encoder::write_surface with automatic generation, lossless target formats of each precision,
//! the written file read back with Decoder).
use crate::util::*;
use dds::header::*;
use dds::*;
use std::io::Cursor;

const CHANNELS: [Channels; 4] = [Channels::Grayscale, Channels::Alpha, Channels::Rgb, Channels::Rgba];
const PRECS: [Precision; 3] = [Precision::U8, Precision::U16, Precision::F32];
const FILTERS: [ResizeFilter; 5] = [ResizeFilter::Nearest, ResizeFilter::Box, ResizeFilter::Triangle, ResizeFilter::Mitchell, ResizeFilter::Lanczos3];

fn target(ch: usize, p: usize) -> Format {
    match (ch, p) {
        (0, 0) => Format::R8_UNORM, (0, 1) => Format::R16_UNORM, (0, _) => Format::R32_FLOAT,
        (1, 0) => Format::A8_UNORM, (1, 1) => Format::R16G16B16A16_UNORM, (1, _) => Format::R32G32B32A32_FLOAT,
        (2, 0) => Format::R8G8B8_UNORM, (2, 1) => Format::R16G16B16A16_UNORM, (2, _) => Format::R32G32B32_FLOAT,
        (_, 0) => Format::R8G8B8A8_UNORM, (_, 1) => Format::R16G16B16A16_UNORM, (_, _) => Format::R32G32B32A32_FLOAT,
    }
}
/// pixel values as f64 in [0,1] units of the precision (U8: v/255 ...); `vals` holds one f64 per channel
fn to_bytes(vals: &[f64], p: usize) -> Vec<u8> {
    let mut b = Vec::new();
    for &v in vals { match p { 0 => b.push(v as u8), 1 => b.extend_from_slice(&(v as u16).to_ne_bytes()), _ => b.extend_from_slice(&(v as f32).to_ne_bytes()) } }
    b
}
struct Level { w: u32, h: u32, px: Vec<f64> }

/// writes level 0 (and lets the encoder generate the rest), reads everything back in the same colour format
#[allow(clippy::too_many_arguments)]
fn roundtrip(ch: usize, p: usize, w: u32, h: u32, vals: &[f64], filter: ResizeFilter, straight: bool, layout: u8, what: &str) -> Option<Vec<Level>> {
    let color = ColorFormat::new(CHANNELS[ch], PRECS[p]);
    let format = target(ch, p);
    let header = Header::new_image(w, h, format).with_mipmaps();
    let bytes = to_bytes(vals, p);
    let bpp = color.bytes_per_pixel() as usize;
    let row = w as usize * bpp;
    // layout 0: contiguous; 1: unaligned start (offset 1); 2: row-pitched with padding
    let (buf, off, pitch) = match layout {
        0 => (bytes.clone(), 0usize, row),
        1 => { let mut b = vec![0xEEu8; bytes.len() + 1]; b[1..].copy_from_slice(&bytes); (b, 1, row) }
        _ => { let pitch = row + 5; let mut b = vec![0xEEu8; pitch * h as usize]; for y in 0..h as usize { b[y * pitch..y * pitch + row].copy_from_slice(&bytes[y * row..(y + 1) * row]); } (b, 0, pitch) }
    };
    let view = ImageView::new_with(&buf[off..], pitch, Size::new(w, h), color)?;
    let mut file = Vec::new();
    let r = catch(|| -> Result<(), EncodingError> {
        let mut e = Encoder::new(&mut file, format, &header)?;
        e.mipmaps.generate = true; e.mipmaps.resize_filter = filter; e.mipmaps.resize_straight_alpha = straight;
        e.options.dithering = Dithering::None;
        e.write_surface(view)?;
        e.finish()
    });
    match r { Some(Ok(())) => {} other => { println!("IMPL-VIOLATION encoding with generated mipmaps failed ({:?}): {what}", other.map(|r| r.map_err(|e| e.to_string()))); return None; } }
    read_levels(&file, color, what)
}
fn read_levels(file: &[u8], color: ColorFormat, what: &str) -> Option<Vec<Level>> {
    let Some(Ok(mut dec)) = catch(|| Decoder::new(Cursor::new(file))) else { println!("IMPL-VIOLATION the written file does not parse: {what}"); return None; };
    let mut levels = Vec::new();
    while let Some(info) = dec.surface_info().map(|s| s.size()) {
        let n = info.width as usize * info.height as usize * color.bytes_per_pixel() as usize;
        let mut buf = vec![0u8; n];
        match catch(|| dec.read_surface(ImageViewMut::new(&mut buf, info, color).unwrap())) { Some(Ok(())) => {} _ => { println!("IMPL-VIOLATION reading back level {} failed: {what}", levels.len()); return None; } }
        let px: Vec<f64> = match color.precision { Precision::U8 => buf.iter().map(|&b| b as f64).collect(), Precision::U16 => buf.chunks(2).map(|c| u16::from_ne_bytes([c[0], c[1]]) as f64).collect(), Precision::F32 => buf.chunks(4).map(|c| f32::from_ne_bytes([c[0], c[1], c[2], c[3]]) as f64).collect() };
        levels.push(Level { w: info.width, h: info.height, px });
    }
    let pos = dec.into_reader().position();
    if pos != file.len() as u64 { println!("IMPL-VIOLATION the file has {} bytes after the last declared level: {what}", file.len() as u64 - pos); return None; }
    Some(levels)
}
fn check_sizes(levels: &[Level], w: u32, h: u32, what: &str) -> bool {
    let expect = 32 - w.max(h).leading_zeros();
    if levels.len() as u32 != expect { println!("IMPL-VIOLATION {} levels instead of {expect}: {what}", levels.len()); return false; }
    for (l, lv) in levels.iter().enumerate() {
        let (ew, eh) = ((w >> l).max(1), (h >> l).max(1));
        if (lv.w, lv.h) != (ew, eh) { println!("IMPL-VIOLATION level {l} is {}x{} instead of {ew}x{eh}: {what}", lv.w, lv.h); return false; }
    }
    true
}

pub fn run(out: &mut Out, tier: &str, seed: u64, _corpus: Option<&str>) {
    let thorough = tier == "thorough";
    let mut rng = Rng::new(seed ^ 0xC16);
    if tier == "replay" { return; }
    let mut sizes: Vec<(u32, u32)> = Vec::new();
    let n_small = if thorough { 400 } else { 40 };
    for _ in 0..n_small { sizes.push((1 + rng.below(40) as u32, 1 + rng.below(40) as u32)); }
    sizes.extend_from_slice(&[(1, 1), (2, 2), (3, 3), (4, 4), (8, 8), (16, 16), (64, 64), (256, 256), (256, 1), (1, 256), (128, 3), (5, 200), (17, 16), (16, 17), (31, 33), (40, 40), (2, 1), (1, 2)]);
    for (si, &(w, h)) in sizes.iter().enumerate() {
        for ch in 0..4usize { for p in 0..3usize {
            let cnt = CHANNELS[ch].count() as usize;
            let max: f64 = match p { 0 => 255.0, 1 => 65535.0, _ => 1.0 };
            let tol = match p { 0 | 1 => 1.0, _ => 1.0 / 65535.0 };
            for (fi, &filter) in FILTERS.iter().enumerate() {
                if !thorough && (si + ch + p + fi) % 3 != 0 && si >= 8 { continue; }
                let straight = (si + fi + ch) % 2 == 0;
                let layout = ((si + p + fi) % 3) as u8;
                let what = format!("{w}x{h} {:?} {:?} filter {:?} straight_alpha {straight} layout {layout}", CHANNELS[ch], PRECS[p], filter);
                out.count(&format!("filter_{:?}", filter)); out.count("oracle_calls"); out.count(&format!("color_{}", ch * 3 + p)); out.count(&format!("layout_{layout}"));
                // ---- (1) a constant colour (alpha in {1, 0.5, tiny}) stays that colour at every level
                let alpha_choice = (si + fi) % 4;
                let constant: Vec<f64> = (0..cnt).map(|c| {
                    let is_alpha = (ch == 3 && c == 3) || ch == 1;
                    let v: f64 = if is_alpha { match (alpha_choice, p) { (0, _) | (1, _) => 1.0, (2, _) => 0.5, (_, 2) => 4e-6, (_, _) => 1.0 / max.max(255.0) } } else { [0.25, 0.5, 0.75, 1.0][(c + si) % 4] };
                    match p { 0 | 1 => (v * max).round().max(if is_alpha && alpha_choice == 3 { 1.0 } else { 0.0 }), _ => v }
                }).collect();
                let vals: Vec<f64> = (0..(w * h) as usize).flat_map(|_| constant.clone()).collect();
                if let Some(levels) = roundtrip(ch, p, w, h, &vals, filter, straight, layout, &format!("constant {constant:?} {what}")) {
                    if check_sizes(&levels, w, h, &what) {
                        'outer: for (l, lv) in levels.iter().enumerate() { for (i, &v) in lv.px.iter().enumerate() {
                            let want = constant[i % cnt];
                            let t = if p == 2 { want.abs() * 1e-4 + 1e-7 } else { 0.0 };
                            if (v - want).abs() > t { println!("IMPL-VIOLATION a constant image does not stay constant: level {l} channel {} is {v} instead of {want}: constant {constant:?} {what}", i % cnt); break 'outer; }
                        } }
                    }
                }
                // ---- (2) random content: sizes, opacity, range (nearest / box / triangle), channel independence without straight alpha
                let opaque = (si + fi) % 2 == 0;
                let vals: Vec<f64> = (0..(w * h) as usize).flat_map(|_| (0..cnt).map(|c| { let is_alpha = (ch == 3 && c == 3) || ch == 1; let v = if is_alpha && opaque { 1.0 } else { rng.below(1 << 16) as f64 / 65535.0 }; match p { 0 | 1 => (v * max).round(), _ => v } }).collect::<Vec<_>>()).collect();
                if let Some(levels) = roundtrip(ch, p, w, h, &vals, filter, straight, layout, &format!("random {what}")) {
                    if !check_sizes(&levels, w, h, &what) { continue; }
                    let (mut lo, mut hi) = (vec![f64::INFINITY; cnt], vec![f64::NEG_INFINITY; cnt]);
                    for (i, &v) in vals.iter().enumerate() { lo[i % cnt] = lo[i % cnt].min(v); hi[i % cnt] = hi[i % cnt].max(v); }
                    'o2: for (l, lv) in levels.iter().enumerate().skip(1) { for (i, &v) in lv.px.iter().enumerate() {
                        let c = i % cnt; let is_alpha = (ch == 3 && c == 3) || ch == 1;
                        if is_alpha && opaque && (if p == 2 { (v - max).abs() > 1.0 / 65535.0 } else { v != max }) { println!("IMPL-VIOLATION a fully opaque image does not stay opaque: level {l} alpha {v}: random {what}"); break 'o2; }
                        let bounded = matches!(filter, ResizeFilter::Nearest | ResizeFilter::Box | ResizeFilter::Triangle);
                        // colour of fully transparent output pixels under straight alpha is unconstrained
                        let transparent = ch == 3 && straight && lv.px[i - c + 3] == 0.0;
                        if bounded && !(transparent && c < 3) && (v < lo[c] - tol || v > hi[c] + tol) { println!("IMPL-VIOLATION level {l} channel {c} value {v} outside the source range [{}, {}] by more than one unit: random {what}", lo[c], hi[c]); break 'o2; }
                    } }
                    // channel independence: with straight alpha off, changing the alpha channel does not change the colour channels
                    if ch == 3 && !straight {
                        let mut vals2 = vals.clone();
                        for i in 0..(w * h) as usize { vals2[i * 4 + 3] = match p { 0 | 1 => (rng.below(1 << 16) as f64 / 65535.0 * max).round(), _ => rng.below(1 << 16) as f64 / 65535.0 }; }
                        if let Some(levels2) = roundtrip(ch, p, w, h, &vals2, filter, straight, layout, &format!("random (other alpha) {what}")) {
                            'o3: for (l, (a, b)) in levels.iter().zip(levels2.iter()).enumerate() { for i in 0..a.px.len() { if i % 4 != 3 && a.px[i] != b.px[i] { println!("IMPL-VIOLATION colour channels depend on alpha although straight-alpha handling is off: level {l} channel {}: random {what}", i % 4); break 'o3; } } }
                        }
                    }
                    // alignment / pitch independence: the other two layouts give the same file content
                    if si % 4 == 0 {
                        for other in 0..3u8 { if other == layout { continue; }
                            if let Some(lv2) = roundtrip(ch, p, w, h, &vals, filter, straight, other, &format!("random {what} (layout {other})")) {
                                if lv2.len() != levels.len() || lv2.iter().zip(levels.iter()).any(|(a, b)| a.px != b.px) { println!("IMPL-VIOLATION the generated mipmaps depend on buffer alignment / row pitch (layout {other} vs {layout}): random {what}"); }
                            }
                        }
                    }
                }
            }
        } }
    }
    // ---- (3) generation that starts at a level > 0: level 0 written with generate = false, level 1 by hand with generate = true
    for &(w, h) in &[(16u32, 16u32), (8, 4), (32, 8)] {
        let format = Format::R8G8B8A8_UNORM; let color = ColorFormat::RGBA_U8;
        let header = Header::new_image(w, h, format).with_mipmaps();
        let what = format!("{w}x{h} RGBA U8: level 0 without generation, level 1 by hand with generation");
        let l0: Vec<u8> = (0..w * h).flat_map(|_| [10u8, 20, 30, 255]).collect();
        let (w1, h1) = ((w / 2).max(1), (h / 2).max(1));
        let l1: Vec<u8> = (0..w1 * h1).flat_map(|_| [200u8, 100, 50, 255]).collect();
        let mut file = Vec::new();
        let r = catch(|| -> Result<(), EncodingError> {
            let mut e = Encoder::new(&mut file, format, &header)?;
            e.mipmaps.generate = false;
            e.write_surface(ImageView::new(&l0, Size::new(w, h), color).unwrap())?;
            e.mipmaps.generate = true;
            e.write_surface(ImageView::new(&l1, Size::new(w1, h1), color).unwrap())?;
            e.finish()
        });
        match r { Some(Ok(())) => {} other => { println!("IMPL-VIOLATION {:?}: {what}", other.map(|r| r.map_err(|e| e.to_string()))); continue; } }
        out.count("handwritten_level1");
        if let Some(levels) = read_levels(&file, color, &what) {
            if !check_sizes(&levels, w, h, &what) { continue; }
            for (l, lv) in levels.iter().enumerate() {
                let want: [f64; 4] = if l == 0 { [10.0, 20.0, 30.0, 255.0] } else { [200.0, 100.0, 50.0, 255.0] };
                if lv.px.iter().enumerate().any(|(i, &v)| v != want[i % 4]) { println!("IMPL-VIOLATION level {l} does not hold the colour of the level it was generated from: {what}"); break; }
            }
        }
    }
    // ---- (4) several elements on one encoder (arrays, cube maps), generation starting at different levels per element,
    //      flat colour per element: every element's chain has the declared sizes and its own colour (no state carried over)
    for (kind, n) in [(0u8, 2usize), (0, 3), (1, 6)] {
        for &(w, filter) in &[(16u32, ResizeFilter::Box), (8, ResizeFilter::Triangle), (16, ResizeFilter::Mitchell), (4, ResizeFilter::Lanczos3)] {
            for order in 0..2 {
                let format = Format::R8G8B8A8_UNORM; let color = ColorFormat::RGBA_U8;
                let header = if kind == 0 { Header::Dx10(Dx10Header::new_image(w, w, DxgiFormat::R8G8B8A8_UNORM).with_array_size(n as u32)).with_mipmaps() } else { Header::new_cube_map(w, w, format).with_mipmaps() };
                let Some(header) = header_ok(header) else { continue; };
                let what = format!("{} of {n} {w}x{w} RGBA U8 {:?}, per-element start levels, order {order}", if kind == 0 { "array" } else { "cube map" }, filter);
                let levels_n = 32 - w.leading_zeros();
                let colour = |e: usize| [30 + 40 * e as u8, 200 - 30 * e as u8, (e * 77 % 256) as u8, 255u8];
                let mut file = Vec::new();
                let r = catch(|| -> Result<(), EncodingError> {
                    let mut enc = Encoder::new(&mut file, format, &header)?;
                    enc.mipmaps.resize_filter = filter;
                    for e in 0..n {
                        // number of levels written by hand before the rest is generated: 1, 2, 1, 3, ... (or the reverse order)
                        let hand = (1 + (if order == 0 { e } else { n - 1 - e }) % 3).min(levels_n as usize);
                        for l in 0..hand {
                            let s = (w >> l).max(1);
                            let px: Vec<u8> = (0..s * s).flat_map(|_| colour(e)).collect();
                            enc.mipmaps.generate = l + 1 == hand;
                            enc.write_surface(ImageView::new(&px, Size::new(s, s), color).unwrap())?;
                        }
                    }
                    enc.finish()
                });
                match r { Some(Ok(())) => {} other => { println!("IMPL-VIOLATION {:?}: {what}", other.map(|r| r.map_err(|e| e.to_string()))); continue; } }
                out.count("multi_element_chains");
                let Some(levels) = read_levels(&file, color, &what) else { continue; };
                if levels.len() != n * levels_n as usize { println!("IMPL-VIOLATION {} surfaces instead of {}: {what}", levels.len(), n * levels_n as usize); continue; }
                'outer: for e in 0..n { for l in 0..levels_n as usize {
                    let lv = &levels[e * levels_n as usize + l];
                    let s = (w >> l).max(1);
                    if (lv.w, lv.h) != (s, s) { println!("IMPL-VIOLATION element {e} level {l} is {}x{} instead of {s}x{s}: {what}", lv.w, lv.h); break 'outer; }
                    let want = colour(e);
                    if lv.px.iter().enumerate().any(|(i, &v)| v != want[i % 4] as f64) { println!("IMPL-VIOLATION element {e} level {l} does not hold the element's flat colour: {what}"); break 'outer; }
                } }
            }
        }
    }
    out.case(1, &[16], &[16]);
}
fn header_ok(h: Header) -> Option<Header> { if dds::DataLayout::from_header(&h).is_ok() { Some(h) } else { None } }
