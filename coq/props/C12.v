(* C12 - uncompressed encoding is exact where the format can hold the input, else nearest.
   Property theorems only; proofs are in proofs/EncodeProofs{A,B,C}.v.  Model: model/Encode.v (the universal
   encoder path of src/encode/uncompressed.rs and the from_f32 quantisers of src/color/formats.rs) over the
   executable IEEE model; decode side: model/Convert.v.  The implementation (which picks copy / colour-convert /
   universal variants per input) is compared with this model byte for byte on all 35 pixel formats. *)
From Coq Require Import ZArith List Bool Lia.
From DDSV Require Import model.Float model.Convert model.Encode spec.SpecNum proofs.EncodeProofsA proofs.EncodeProofsB proofs.EncodeProofsC proofs.FloatMono proofs.FloatTotal proofs.QuantProofs proofs.QuantProofs16 proofs.QuantProofsSmall model.EncChunks proofs.EncChunksProofs.
Import ListNotations.
Local Open Scope Z_scope.

(* 8-bit input: stored exactly by 8, 10 and 16 bit UNORM, half, f32 and shared-exponent fields (decoding at 8 bits
   returns the input), and widened exactly into 16-bit fields.  For all 256 values. *)
Theorem C12_roundtrip_u8 : forall x, 0 <= x < 256 ->
  n8_from (b8 x) = x /\ n10_n8 (n10_from (b8 x)) = x /\ n16_n8 (n16_from (b8 x)) = x /\ fp16_n8 (fp16_from (b8 x)) = x /\ fp_n8 (V (b8 x)) = x /\
  nth 0 (rgb9995 0 (rgb9995_from (b8 x) (b8 x) (b8 x))) (-1) = x /\ n16_from (b8 x) = n8_n16 x.
Proof. exact roundtrip_u8. Qed.
(* 16-bit input: stored exactly by 16-bit UNORM and f32 fields.  For all 65536 values. *)
Theorem C12_roundtrip_u16 : forall x, 0 <= x < 65536 -> n16_from (b16 x) = x /\ fp_n16 (V (b16 x)) = x.
Proof. exact roundtrip_u16. Qed.
(* narrower fields receive the nearest code (8-bit input: all 256 values, exactly nearest) *)
Theorem C12_quantise_u8 : forall x, 0 <= x < 256 ->
  nearest (n5_from (b8 x)) (x * 31) 255 /\ nearest (n6_from (b8 x)) (x * 63) 255 /\ nearest (n4_from (b8 x)) (x * 15) 255 /\
  nearest (n2_from (b8 x)) (x * 3) 255 /\ n1_from (b8 x) = (if 128 <=? x then 1 else 0) /\ nearest (s8_norm (s8_from (b8 x))) (x * 254) 255 /\
  nearest (Z.min 510 (Z.max 0 (xr10_from (b8 x) - 384))) (x * 510) 255.
Proof. exact quantise_u8. Qed.
(* 16-bit input: all 65536 values; exactly nearest except one input each for the 10-bit and SNORM8 fields, where the
   error is 0.50003 of a step (stated with a slack of 4 / 131070 of a step) *)
Theorem C12_quantise_u16 : forall x, 0 <= x < 65536 ->
  nearest (n8_from (b16 x)) (x * 255) 65535 /\ nearest_slack (n10_from (b16 x)) (x * 1023) 65535 4 /\ (x <> 45772 -> nearest (n10_from (b16 x)) (x * 1023) 65535) /\
  nearest (n5_from (b16 x)) (x * 31) 65535 /\
  nearest (n6_from (b16 x)) (x * 63) 65535 /\ nearest (n4_from (b16 x)) (x * 15) 65535 /\ nearest (n2_from (b16 x)) (x * 3) 65535 /\
  nearest_slack (s8_norm (s8_from (b16 x))) (x * 254) 65535 4 /\ (x <> 43733 -> nearest (s8_norm (s8_from (b16 x))) (x * 254) 65535) /\
  nearest (s16_norm (s16_from (b16 x))) (x * 65534) 65535.
Proof. exact quantise_u16. Qed.

(* f32 input into 8- and 16-bit UNORM fields, for EVERY f32 bit pattern b in [0, 2^40): monotone, and the code stored
   is k exactly between the boundaries T8 k and T8 (k+1), each within one ULP of the ideal (k - 1/2) / 255 (resp. 65535) *)
Theorem C12_f32_into_unorm8 : forall b k, 0 <= b < LIM -> 1 <= k <= 255 ->
  (b < T8 k -> n8_from b <= k - 1) /\ (T8 k <= b -> k <= n8_from b) /\ Z.abs (T8 k - ideal_boundary 255 k) <= 1.
Proof. exact n8_from_spec. Qed.
Theorem C12_f32_into_unorm8_between : forall b k, 0 <= b < LIM -> 1 <= k < 255 -> T8 k <= b < T8 (k + 1) -> n8_from b = k.
Proof. exact n8_from_between. Qed.
Theorem C12_f32_into_unorm16 : forall b k, 0 <= b < LIM -> 1 <= k <= 65535 ->
  (b < T16 k -> n16_from b <= k - 1) /\ (T16 k <= b -> k <= n16_from b) /\ Z.abs (T16 k - ideal_boundary 65535 k) <= 1.
Proof. exact n16_from_spec. Qed.
(* outside [0, 2^40): negative, -0, NaN -> 0; huge, +infinity -> maximum.  With the two theorems above every 32-bit pattern
   is decided for the 8- and 16-bit UNORM fields *)
Theorem C12_f32_into_unorm8_outside : forall b, 0 <= b < 2 ^ 32 ->
  (2147483648 <= b -> n8_from b = 0) /\ (LIM <= b <= 2139095040 -> n8_from b = 255) /\ (2139095040 < b < 2147483648 -> n8_from b = 0).
Proof. exact n8_from_outside. Qed.
Theorem C12_f32_into_unorm16_outside : forall b, 0 <= b < 2 ^ 32 ->
  (2147483648 <= b -> n16_from b = 0) /\ (LIM <= b <= 2139095040 -> n16_from b = 65535) /\ (2139095040 < b < 2147483648 -> n16_from b = 0).
Proof. exact n16_from_outside. Qed.
(* the narrow UNORM fields (2, 4, 5, 6, 10 bits): (x.min(1.0) * max + 0.5) as integer, same statement *)
Theorem C12_f32_into_n2 : forall b k, 0 <= b < LIM -> 1 <= k <= 3 ->
  (b < Tf 3 255 k -> n2_from b <= k - 1) /\ (Tf 3 255 k <= b -> k <= n2_from b) /\ Z.abs (Tf 3 255 k - ideal_boundary 3 k) <= 1.
Proof. exact n2_from_spec. Qed.
Theorem C12_f32_into_n4 : forall b k, 0 <= b < LIM -> 1 <= k <= 15 ->
  (b < Tf 15 255 k -> n4_from b <= k - 1) /\ (Tf 15 255 k <= b -> k <= n4_from b) /\ Z.abs (Tf 15 255 k - ideal_boundary 15 k) <= 1.
Proof. exact n4_from_spec. Qed.
Theorem C12_f32_into_n5 : forall b k, 0 <= b < LIM -> 1 <= k <= 31 ->
  (b < Tf 31 255 k -> n5_from b <= k - 1) /\ (Tf 31 255 k <= b -> k <= n5_from b) /\ Z.abs (Tf 31 255 k - ideal_boundary 31 k) <= 1.
Proof. exact n5_from_spec. Qed.
Theorem C12_f32_into_n6 : forall b k, 0 <= b < LIM -> 1 <= k <= 63 ->
  (b < Tf 63 255 k -> n6_from b <= k - 1) /\ (Tf 63 255 k <= b -> k <= n6_from b) /\ Z.abs (Tf 63 255 k - ideal_boundary 63 k) <= 1.
Proof. exact n6_from_spec. Qed.
Theorem C12_f32_into_n10 : forall b k, 0 <= b < LIM -> 1 <= k <= 1023 ->
  (b < Tf 1023 65535 k -> n10_from b <= k - 1) /\ (Tf 1023 65535 k <= b -> k <= n10_from b) /\ Z.abs (Tf 1023 65535 k - ideal_boundary 1023 k) <= 1.
Proof. exact n10_from_spec. Qed.
(* SNORM8 fields: the stored code is (level + 1 - 128) mod 256 with the level decided as above for max = 254 *)
Theorem C12_f32_into_s8 : forall b k, 0 <= b < LIM -> 1 <= k <= 254 ->
  (b < Tf 254 255 k -> Qf 254 255 b <= k - 1) /\ (Tf 254 255 k <= b -> k <= Qf 254 255 b) /\ Z.abs (Tf 254 255 k - ideal_boundary 254 k) <= 1.
Proof. exact s8_level_spec. Qed.
Theorem C12_s8_from_level : forall b, s8_from b = (Qf 254 255 b + 1 - 128) mod 256.
Proof. exact s8_from_level. Qed.

Example C12_ex : encode_px 6 (to_rgba_f32 3 0 [255; 128; 0; 255]) = [0; 252] /\ encode_px 21 (to_rgba_f32 0 1 [45772]) = le_bytes 4 (715 + Z.shiftl 715 10 + Z.shiftl 715 20 + Z.shiftl 3 30).
Proof. split; vm_compute; reflexivity. Qed.

(* "the encoded bytes do not depend on ... row pitches": for_each_chunk (model/EncChunks.v, tied to the code by the chunk
   traces of tag 54) hands the encoder exactly the same sequence of chunks whether the view is contiguous (slice::chunks
   over the whole image) or has padded rows (the fill / flush loop), for every buffer size, width, height and content *)
Theorem C12_chunks_pitch_independent : forall (X : Type) (n : nat), (1 <= n)%nat -> forall rows : list (list X),
  fec_rows X n rows = fec_contiguous X n rows.
Proof. exact fec_rows_eq_contiguous. Qed.
Theorem C12_chunks_partition : forall (X : Type) (n : nat), (1 <= n)%nat -> forall rows : list (list X),
  concat (fec_rows X n rows) = concat rows /\ concat (fec_contiguous X n rows) = concat rows.
Proof. exact chunks_partition. Qed.
Example C12_chunks_ex : fec_rows nat 4 [[1; 2; 3]; [4; 5; 6]; [7; 8; 9]]%nat = [[1; 2; 3; 4]; [5; 6; 7; 8]; [9]]%nat.
Proof. reflexivity. Qed.

Definition C12_all := (C12_roundtrip_u8, C12_roundtrip_u16, C12_quantise_u8, C12_quantise_u16, C12_f32_into_unorm8, C12_f32_into_unorm8_between, C12_f32_into_unorm16,
  C12_f32_into_n2, C12_f32_into_n4, C12_f32_into_n5, C12_f32_into_n6, C12_f32_into_n10, C12_f32_into_s8, C12_s8_from_level, C12_f32_into_unorm8_outside, C12_f32_into_unorm16_outside, C12_chunks_pitch_independent, C12_chunks_partition).
Redirect "props/C12.assumptions" Print Assumptions C12_all.
