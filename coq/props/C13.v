(* C13 - block-compressed encoding keeps representable content and emits portable blocks.
   Property theorems only; proofs in proofs/BCEncProofs.v over the decoder model of C03 (model/BCdec.v).  The BC
   encoders themselves (least-squares fits, refinement, float code) are not modelled: their outputs are checked
   by an oracle that decodes them with the crate's own decoder and inspects the emitted block bytes. *)
From DDSV Require Import base.Machine model.Numeric model.BCdec proofs.BCEncProofs model.EncBlocks proofs.EncBlocksProofs.
From Coq Require Import List.
Import ListNotations.

(* why "colour0 > colour1" makes BC2/BC3 colour blocks portable *)
Theorem C13_mode_independent_when_c0_gt_c1 : forall c0 c1, c1 < c0 -> bc1_lut true c0 c1 = bc1_lut false c0 c1.
Proof. exact mode_independent_when_c0_gt_c1. Qed.
(* why "index 3 of the three-colour mode only for transparent pixels" makes BC1 blocks portable *)
Theorem C13_three_colour_lut : forall c0 c1, c0 <= c1 -> bc1_lut true c0 c1 = lut3 c0 c1 [0; 0; 0; 0].
Proof. exact three_colour_lut. Qed.
Theorem C13_index3_unused_agree : forall c0 c1 e3 e3' (idx : nat -> N), (forall i, (i < 16)%nat -> idx i < 3) ->
  pixels_of_lut (lut3 c0 c1 e3) [] idx = pixels_of_lut (lut3 c0 c1 e3') [] idx.
Proof. exact index3_unused_agree. Qed.
(* the cause of finding F13 *)
Theorem C13_f13_power_iteration_start_is_annihilated : forall dr dg db : Z, (dr + dg + db = 0)%Z ->
  (dr * dr * 1 + dr * dg * 1 + dr * db * 1 = 0 /\ dg * dr * 1 + dg * dg * 1 + dg * db * 1 = 0 /\ db * dr * 1 + db * dg * 1 + db * db * 1 = 0)%Z.
Proof. exact f13_power_iteration_start_is_annihilated. Qed.

(* the gathering of the 4x4 blocks (for_each_f32_rgba_rows, block_universal; model/EncBlocks.v, tied to the code by the block
   contents of tag 55): incomplete groups of rows are completed with copies of the group's first row, incomplete blocks with
   copies of the last pixel of each row - so no block position, padding included, ever holds anything but a pixel of the
   surface, and a surface of one colour hands only blocks of that colour to the block encoders, partial edge blocks included *)
Theorem C13_blocks_hold_image_pixels : forall (X : Type) (bw bh : nat) (d : X), (1 <= bw)%nat -> (1 <= bh)%nat ->
  forall (w : nat) (img : list (list X)), (1 <= w)%nat -> Forall (fun r => length r = w) img ->
  forall blk brow px, In blk (image_blocks X bw bh d w img) -> In brow blk -> In px brow -> In px (concat img).
Proof. exact blocks_hold_image_pixels. Qed.
Theorem C13_constant_image_constant_blocks : forall (X : Type) (bw bh : nat) (d : X), (1 <= bw)%nat -> (1 <= bh)%nat ->
  forall (w : nat) (img : list (list X)), (1 <= w)%nat -> Forall (fun r => length r = w) img ->
  forall c, (forall row px, In row img -> In px row -> px = c) ->
  forall blk brow px, In blk (image_blocks X bw bh d w img) -> In brow blk -> In px brow -> px = c.
Proof. exact constant_image_constant_blocks. Qed.
Theorem C13_block_count : forall (X : Type) (bw bh : nat) (d : X), (1 <= bw)%nat -> (1 <= bh)%nat -> forall (w : nat) (img : list (list X)), (1 <= w)%nat ->
  length (image_blocks X bw bh d w img) = ((w + bw - 1) / bw * ((length img + bh - 1) / bh))%nat.
Proof. exact block_count. Qed.
(* exact positions: position (i, j) of block (bx, by) holds pixel (min(bx*4 + j, w - 1), y) of the surface, y = by*4 + i if
   that row exists and otherwise the first row of the incomplete group (src_row / src_col) *)
Theorem C13_block_pixel : forall (X : Type) (bw bh : nat) (d : X), (1 <= bw)%nat -> (1 <= bh)%nat ->
  forall (w : nat) (img : list (list X)), (1 <= w)%nat -> Forall (fun r => length r = w) img ->
  forall by_ bx i j : nat, (by_ < (length img + bh - 1) / bh)%nat -> (bx < (w + bw - 1) / bw)%nat -> (i < bh)%nat -> (j < bw)%nat ->
  nth j (nth i (nth (by_ * ((w + bw - 1) / bw) + bx) (image_blocks X bw bh d w img) []) []) d
  = nth (src_col bw w bx j) (nth (src_row X bh img by_ i) img []) d.
Proof. exact block_pixel. Qed.
Example C13_blocks_ex : image_blocks nat 2 2 0%nat 3 [[1; 2; 3]; [4; 5; 6]; [7; 8; 9]]%nat
  = [[[1; 2]; [4; 5]]; [[3; 3]; [6; 6]]; [[7; 8]; [7; 8]]; [[9; 9]; [9; 9]]]%nat.
Proof. reflexivity. Qed.

Example C13_ex : bc1_lut true 63488 2016 = bc1_lut false 63488 2016.
Proof. reflexivity. Qed.

Definition C13_all := (C13_mode_independent_when_c0_gt_c1, C13_three_colour_lut, C13_index3_unused_agree, C13_f13_power_iteration_start_is_annihilated,
  C13_blocks_hold_image_pixels, C13_constant_image_constant_blocks, C13_block_count, C13_block_pixel).
Redirect "props/C13.assumptions" Print Assumptions C13_all.
