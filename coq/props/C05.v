(* C05 - a decoded pixel does not depend on how it was asked for.
   Property theorems only; proofs are in proofs/CropProofs.v.  Model: model/Crop.v - the documented channel
   mapping (src/color/ch.rs, convert_channels), rectangle cropping and the placement of rows in an output buffer
   with a row pitch; `block_image` for block formats.  The implementation is compared with
   blit(prefill, crop(rect, map chmap (native full decode))) for all 73 formats (harness tag 5). *)
From Coq Require Import ZArith List Bool Lia.
From DDSV Require Import base.Machine model.Layout model.DecodeScript model.Crop model.RectPath model.PixelPath model.BiPlanarPath model.LineBuffer proofs.LineBufferProofs proofs.CropProofs proofs.RectPathProofs proofs.PixelPathProofs proofs.BiPlanarProofs.
Import ListNotations.
Local Open Scope Z_scope.

(* decoding into a non-native channel layout is the native decode followed by the documented mapping, and that
   mapping is coherent: every conversion equals the conversion through RGBA (defaults: grey replicated, colour of
   an alpha-only source zero, missing alpha one) *)
Theorem C05_chmap_via_rgba : forall one zero from to p, valid_ch from -> valid_ch to -> length p = chcount from ->
  chmap one zero from to p = from_rgba zero to (to_rgba one zero from p).
Proof. exact chmap_via_rgba. Qed.
Theorem C05_chmap_id : forall one zero c p, chmap one zero c c p = p.
Proof. exact chmap_id. Qed.
Theorem C05_chmap_length : forall one zero from to p, valid_ch from -> valid_ch to -> length p = chcount from -> length (chmap one zero from to p) = chcount to.
Proof. exact chmap_length. Qed.
(* a rectangle is the corresponding crop: pixel (i, j) of the rectangle at (x, y) is pixel (x + i, y + j) *)
Theorem C05_crop_pixel : forall img x y w h i j, (i < w)%nat -> (j < h)%nat -> (y + j < length img)%nat ->
  px_at (crop x y w h img) i j = px_at img (x + i) (y + j).
Proof. exact crop_pixel. Qed.
Theorem C05_crop_crop : forall img x1 y1 w1 h1 x2 y2 w2 h2, (x2 + w2 <= w1)%nat -> (y2 + h2 <= h1)%nat ->
  crop x2 y2 w2 h2 (crop x1 y1 w1 h1 img) = crop (x1 + x2) (y1 + y2) w2 h2 img.
Proof. exact crop_crop. Qed.
(* per-pixel conversions (channel mapping) commute with cropping *)
Theorem C05_crop_map_px : forall f img x y w h, crop x y w h (map_px f img) = map_px f (crop x y w h img).
Proof. exact crop_map_px. Qed.
(* row pitch / previous contents: bytes no addressed row covers keep their value; addressed bytes do not depend
   on what the buffer held *)
Theorem C05_blit_outside : forall rows buf offset pitch rowlen i d,
  (forall r, In r rows -> length (row_bytes r) = rowlen) -> (rowlen <= pitch \/ length rows <= 1)%nat ->
  (offset + (length rows - 1) * pitch + rowlen <= length buf \/ rows = [])%nat ->
  ~ covered offset pitch rowlen (length rows) i -> nth i (blit buf offset pitch rows) d = nth i buf d.
Proof. exact blit_outside. Qed.
Theorem C05_blit_covered : forall rows buf1 buf2 offset pitch rowlen i d,
  (forall r, In r rows -> length (row_bytes r) = rowlen) -> (rowlen <= pitch \/ length rows <= 1)%nat -> length buf1 = length buf2 ->
  (offset + (length rows - 1) * pitch + rowlen <= length buf1 \/ rows = [])%nat ->
  covered offset pitch rowlen (length rows) i -> nth i (blit buf1 offset pitch rows) d = nth i (blit buf2 offset pitch rows) d.
Proof. exact blit_covered. Qed.
(* block formats: a pixel depends only on the bytes of the block that contains it *)
Theorem C05_block_pixel_local : forall bw bh dec bpb w h d1 d2 x y, (x < w)%nat -> (y < h)%nat ->
  let bi := ((y / bh) * ((w + bw - 1) / bw) + x / bw)%nat in
  slice (bi * bpb) bpb d1 = slice (bi * bpb) bpb d2 ->
  px_at (block_image bw bh dec bpb w h d1) x y = px_at (block_image bw bh dec bpb w h d2) x y.
Proof. exact block_pixel_local. Qed.

(* the block rows a rect decode reads (the effect script of C06) are exactly the block rows that hold the rectangle:
   every pixel row of the rectangle lies in one of them, and each of them holds at least one *)
Theorem C05_block_rect_script_rows : forall bpb bw bh W H ox oy w h,
  script_rect (Block bpb bw bh) W H ox oy w h =
  let bpl := (div_ceil W bw * bpb)%N in let before := (oy / bh)%N in let to_read := (div_ceil (h + oy) bh - before)%N in
  [EAlloc (line_buffer_len bpl to_read); ESkip (bpl * before); ERead (bpl * to_read); ESkip (bpl * (div_ceil H bh - before - to_read))].
Proof. exact block_rect_script_rows. Qed.
Theorem C05_rect_block_rows_cover : forall oy h bh y, (1 <= bh -> 1 <= h -> oy <= y < oy + h -> oy / bh <= y / bh < dceil (oy + h) bh)%N.
Proof. exact rect_block_rows_cover. Qed.
Theorem C05_rect_block_rows_minimal : forall oy h bh k, (1 <= bh -> 1 <= h -> oy / bh <= k < dceil (oy + h) bh -> exists y, oy <= y < oy + h /\ y / bh = k)%N.
Proof. exact rect_block_rows_minimal. Qed.

(* ---- the block code paths themselves (model/RectPath.v: for_each_block_rect_untyped, for_each_block_untyped,
   ChannelConversionBuffer::process_blocks, general_process_blocks, handle_width_offset, process_4x4_blocks_helper,
   process_2x1_blocks_helper; tied to the code by the call traces of harness tag 51).  For EVERY block size, block
   decoder `dec`, per-pixel channel conversion `cv`, surface size, rectangle, conversion buffer size and data: the
   rectangle path yields exactly the crop of the specification image, the full path yields the specification image,
   and no placement check of the model fails (the calls tile each row, the block lines tile the rectangle). *)
Theorem C05_rect_path_is_crop : forall (A B : Type) (bw bh bpb : nat) (dec : list Z -> list A) (cv : A -> B),
  (1 <= bw)%nat -> (1 <= bh)%nat -> (1 <= bpb)%nat -> (forall b, length (dec b) = bw * bh)%nat ->
  forall f : rowfn A, rowfn_ok A bw bh dec f ->
  forall (bufbytes bbpp : nat) (conv : bool), (conv = true -> 1 <= bbpp /\ bw * bh * bbpp <= bufbytes)%nat ->
  forall (W H : nat) (data : list Z), (1 <= W)%nat -> (length data = cdiv W bw * bpb * cdiv H bh)%nat ->
  forall ox oy w h : nat, (ox + w <= W)%nat -> (oy + h <= H)%nat -> (1 <= w)%nat -> (1 <= h)%nat ->
  rect_image A B bw bh bpb cv f conv bufbytes bbpp W H ox oy w h data = Some (crop_of ox oy w h (spec_image A B bw bh bpb dec cv W H data)).
Proof. exact rect_image_is_crop. Qed.
Theorem C05_full_path_is_spec : forall (A B : Type) (bw bh bpb : nat) (dec : list Z -> list A) (cv : A -> B),
  (1 <= bw)%nat -> (1 <= bh)%nat -> (1 <= bpb)%nat -> (forall b, length (dec b) = bw * bh)%nat ->
  forall f : rowfn A, rowfn_ok A bw bh dec f ->
  forall (bufbytes bbpp : nat) (conv : bool), (conv = true -> 1 <= bbpp /\ bw * bh * bbpp <= bufbytes)%nat ->
  forall (W H : nat) (data : list Z), (1 <= W)%nat -> (length data = cdiv W bw * bpb * cdiv H bh)%nat -> (1 <= H)%nat ->
  full_image A B bw bh bpb cv f conv bufbytes bbpp W H data = Some (spec_image A B bw bh bpb dec cv W H data).
Proof. exact full_image_is_spec. Qed.
(* the three ProcessBlocksFn helpers meet the row contract the two theorems above ask of `f`: the general loop
   (ASTC, 8x1), the 4x4 helper with or without its aligned fast path (BC1-BC7), the 2x1 helper (sub-sampled) *)
Theorem C05_general_process_blocks_ok : forall (A : Type) (bw bh bpb : nat) (dec : list Z -> list A),
  (1 <= bw)%nat -> (1 <= bh)%nat -> (1 <= bpb)%nat -> (forall b, length (dec b) = bw * bh)%nat -> rowfn_ok A bw bh dec (gpb_row A bw dec).
Proof. exact gpb_row_ok. Qed.
Theorem C05_process_4x4_blocks_ok : forall (A : Type) (dec : list Z -> list A), (forall b, length (dec b) = 4 * 4)%nat ->
  forall fast : bool, rowfn_ok A 4 4 dec (p44_row A 4 dec fast).
Proof. exact p44_row_ok. Qed.
Theorem C05_process_2x1_blocks_ok : forall (A : Type) (dec : list Z -> list A), (forall b, length (dec b) = 2 * 1)%nat ->
  rowfn_ok A 2 1 dec (p2x1_row A dec).
Proof. exact p2x1_row_ok. Qed.
(* the specification image is the block image: pixel (x, y) is entry (y mod bh) * bw + x mod bw of block (x / bw, y / bh) *)
Theorem C05_spec_image_pixel : forall (A B : Type) (bw bh bpb : nat) (dec : list Z -> list A) (cv : A -> B),
  (1 <= bw)%nat -> (1 <= bh)%nat -> (1 <= bpb)%nat -> (forall b, length (dec b) = bw * bh)%nat ->
  forall W H data x y d, (length data = cdiv W bw * bpb * cdiv H bh)%nat -> (x < W)%nat -> (y < H)%nat ->
  nth x (nth y (spec_image A B bw bh bpb dec cv W H data) []) (cv d)
  = cv (nth ((y mod bh) * bw + x mod bw) (dec (slice (((y / bh) * cdiv W bw + x / bw) * bpb) bpb data)) d).
Proof. exact spec_image_pixel. Qed.
(* the fixed 3072-byte conversion buffer satisfies the buffer premise for every block size up to 12 x 12 and every
   native pixel size up to 16 bytes (the debug_assert `buffer_size.width >= block_width`) *)
Theorem C05_buffer_fits : forall bw bh bbpp, (bw <= 12 -> bh <= 12 -> bbpp <= 16 -> bw * bh * bbpp <= 3072)%nat.
Proof. intros bw bh bbpp H1 H2 H3. assert (bw * bh <= 144)%nat by nia. nia. Qed.
(* ---- the uncompressed code paths (model/PixelPath.v: for_each_pixel_rect_untyped with its reader positions,
   for_each_pixel_untyped, ChannelConversionBuffer::process_pixels).  For every encoded pixel size, pixel decoder,
   conversion, conversion-buffer size, surface, rectangle and data the rectangle path yields the crop of the full
   decode and leaves the reader exactly at the end of the surface; the full path yields the full decode. *)
Theorem C05_pixel_rect_is_crop : forall (A B : Type) (enc : nat) (decpx : list Z -> A) (cv : A -> B), (1 <= enc)%nat ->
  forall (W H : nat) (data : list Z), (length data = W * H * enc)%nat ->
  forall (conv : bool) (bufpx ox oy w h : nat), (ox + w <= W)%nat -> (oy + h <= H)%nat -> (1 <= w)%nat -> (1 <= h)%nat -> (conv = true -> 1 <= bufpx)%nat ->
  pixel_rect_image A B enc decpx cv conv bufpx W H ox oy w h data = Some (crop_of ox oy w h (pix_image A B enc decpx cv W H data))
  /\ snd (pixel_rect_reads enc W H ox oy w h data) = length data.
Proof. exact pixel_rect_is_crop. Qed.
Theorem C05_pixel_full_is_spec : forall (A B : Type) (enc : nat) (decpx : list Z -> A) (cv : A -> B), (1 <= enc)%nat ->
  forall (W H : nat) (data : list Z), (length data = W * H * enc)%nat ->
  forall (conv : bool) (bufpx : nat), (1 <= W)%nat -> (conv = true -> 1 <= bufpx)%nat ->
  pixel_full_image A B enc decpx cv conv bufpx W H data = Some (pix_image A B enc decpx cv W H data).
Proof. exact pixel_full_is_spec. Qed.
Example C05_pixel_path_ex :
  let data := map Z.of_nat (seq 0 (5 * 3 * 2)) in
  pixel_rect_image Z Z 2 (fun b => (hd 0 b * 256 + nth 1 b 0)%Z) (fun v => (v + 1)%Z) true 2 5 3 1 1 3 2 data
  = Some [[3086; 3600; 4114]; [5656; 6170; 6684]]%Z.
Proof. vm_compute. reflexivity. Qed.

(* ---- the bi-planar code paths (model/BiPlanarPath.v: for_each_bi_planar_rect with its uv-line loop, running y,
   `continue` / `break`; for_each_bi_planar; ChannelConversionBuffer::process_bi_planar; process_bi_planar_helper).
   For every element size, sub-sampling sx x sy, per-pixel conversion `gpx`, channel conversion, buffer size, surface,
   rectangle and data: every pixel (x, y) meets plane-1 element y * W + x and the plane-2 element of its own cell
   (y / sy) * ceil(W / sx) + x / sx with row y mod sy inside the cell (bp_spec_image), and the rectangle path is the crop. *)
Theorem C05_bi_planar_rect_is_crop : forall (A B : Type) (e1 e2 sx sy : nat) (gpx : list Z -> list Z -> nat -> A) (cv : A -> B),
  (1 <= e1)%nat -> (1 <= e2)%nat -> (1 <= sx)%nat -> (1 <= sy)%nat -> forall f : bpfn A, bpfn_ok A e1 e2 sx gpx f ->
  forall (W H : nat) (data : list Z), (1 <= W)%nat -> (length data = W * e1 * H + cdiv W sx * e2 * cdiv H sy)%nat ->
  forall (conv : bool) (bufpx ox oy w h : nat), (ox + w <= W)%nat -> (oy + h <= H)%nat -> (1 <= w)%nat -> (1 <= h)%nat -> (conv = true -> sx <= bufpx)%nat ->
  bp_rect_image A B e1 e2 sx sy cv f conv bufpx W H ox oy w h data = Some (crop_of ox oy w h (bp_spec_image A B e1 e2 sx sy gpx cv W H data)).
Proof. exact bp_rect_is_crop. Qed.
Theorem C05_bi_planar_full_is_spec : forall (A B : Type) (e1 e2 sx sy : nat) (gpx : list Z -> list Z -> nat -> A) (cv : A -> B),
  (1 <= e1)%nat -> (1 <= e2)%nat -> (1 <= sx)%nat -> (1 <= sy)%nat -> forall f : bpfn A, bpfn_ok A e1 e2 sx gpx f ->
  forall (W H : nat) (data : list Z), (1 <= W)%nat -> (length data = W * e1 * H + cdiv W sx * e2 * cdiv H sy)%nat ->
  forall (conv : bool) (bufpx : nat), (1 <= H)%nat -> (conv = true -> sx <= bufpx)%nat ->
  bp_full_image A B e1 e2 sx sy cv f conv bufpx W H data = Some (bp_spec_image A B e1 e2 sx sy gpx cv W H data).
Proof. exact bp_full_is_spec. Qed.
Theorem C05_bi_planar_helper_ok : forall (A : Type) (e1 e2 sx : nat) (gpx : list Z -> list Z -> nat -> A),
  (1 <= e1)%nat -> (1 <= e2)%nat -> (1 <= sx)%nat -> bpfn_ok A e1 e2 sx gpx (bp_row A e1 e2 sx gpx).
Proof. exact bp_row_ok'. Qed.
Example C05_bi_planar_ex :
  let g := fun (a b : list Z) (y : nat) => (hd 0 a * 10000 + hd 0 b * 10 + Z.of_nat y)%Z in
  let data := map Z.of_nat (seq 1 (6 * 4 + 3 * 2 * 2)) in
  bp_rect_image Z Z 1 2 2 2 (fun v => v) (bp_row Z 1 2 2 g) true 2 6 4 1 1 4 2 data
  = Some [[80251; 90271; 100271; 110291]; [140310; 150330; 160330; 170350]]%Z.
Proof. vm_compute. reflexivity. Qed.

(* ---- UntypedLineBuffer (model/LineBuffer.v): whatever the number of lines per refill, next_line returns the lines of the
   region one after the other - line i is bytes [pos + i * bpl, pos + (i + 1) * bpl) - and the reader ends at
   pos + height * bpl.  This is the premise `line i of the buffer = block line first + i` of the models above. *)
Theorem C05_line_buffer : forall (bpl lib : nat) (data : list Z), (1 <= bpl)%nat -> (1 <= lib)%nat ->
  forall height pos : nat, (pos + height * bpl <= length data)%nat ->
  lb_lines bpl lib height pos data = (map (fun i => slice (pos + i * bpl) bpl data) (seq 0 height), (pos + height * bpl)%nat).
Proof. exact lb_lines_spec. Qed.
(* R1_UNORM (process_8x1_blocks_helper) is general_process_blocks at block size 8 x 1 *)
Theorem C05_process_8x1_blocks_ok : forall (A : Type) (bpb : nat) (dec : list Z -> list A), (1 <= bpb)%nat ->
  (forall b, length (dec b) = 8 * 1)%nat -> rowfn_ok A 8 1 dec (gpb_row A 8 dec).
Proof. exact gpb_row_8x1_ok. Qed.

(* non-vacuity: a 7 x 6 surface of 4 x 4 blocks, conversion through a 40-byte buffer, rectangle (2, 1, 5, 4) *)
Example C05_rect_path_ex :
  let dec := fun b : list Z => map (fun i => (hd 0 b * 100 + Z.of_nat i)%Z) (seq 0 16) in
  let data := map Z.of_nat (seq 1 4) in
  rect_image Z Z 4 4 1 (fun v => (v + 1)%Z) (p44_row Z 4 dec true) true 40 1 7 6 2 1 5 4 data
  = Some (crop_of 2 1 5 4 (spec_image Z Z 4 4 1 dec (fun v => (v + 1)%Z) 7 6 data))
  /\ nth 3 (nth 2 (crop_of 2 1 5 4 (spec_image Z Z 4 4 1 dec (fun v => (v + 1)%Z) 7 6 data)) []) 0 = 214%Z.
Proof. split; vm_compute; reflexivity. Qed.

Example C05_ex : blit [9; 9; 9; 9; 9; 9; 9; 9] 1 3 (crop 1 0 1 2 (map_px (chmap [255] [0] 0 2) [[[[1]]; [[2]]]; [[[3]]; [[4]]]])) = [9; 2; 2; 2; 4; 4; 4; 9].
Proof. reflexivity. Qed.

Definition C05_all := (C05_chmap_via_rgba, C05_chmap_id, C05_chmap_length, C05_crop_pixel, C05_crop_crop, C05_crop_map_px,
  C05_blit_outside, C05_blit_covered, C05_block_pixel_local, C05_block_rect_script_rows, C05_rect_block_rows_cover, C05_rect_block_rows_minimal,
  C05_rect_path_is_crop, C05_full_path_is_spec, C05_general_process_blocks_ok, C05_process_4x4_blocks_ok, C05_process_2x1_blocks_ok, C05_spec_image_pixel, C05_buffer_fits, C05_pixel_rect_is_crop, C05_pixel_full_is_spec, C05_bi_planar_rect_is_crop, C05_bi_planar_full_is_spec, C05_bi_planar_helper_ok, C05_line_buffer, C05_process_8x1_blocks_ok).
Redirect "props/C05.assumptions" Print Assumptions C05_all.
