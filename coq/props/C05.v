(* C05 - a decoded pixel does not depend on how it was asked for.
   Property theorems only; proofs are in proofs/CropProofs.v.  Model: model/Crop.v - the documented channel
   mapping (src/color/ch.rs, convert_channels), rectangle cropping and the placement of rows in an output buffer
   with a row pitch; `block_image` for block formats.  The implementation is compared with
   blit(prefill, crop(rect, map chmap (native full decode))) for all 73 formats (harness tag 5). *)
From Coq Require Import ZArith List Bool Lia.
From DDSV Require Import base.Machine model.Layout model.DecodeScript model.Crop proofs.CropProofs.
Import ListNotations.
Local Open Scope Z_scope.

(* decoding into a non-native channel layout is the native decode followed by the documented mapping, and that
   mapping is coherent: every conversion equals the conversion through RGBA (defaults: grey replicated, colour of
   an alpha-only source zero, missing alpha one) *)
Theorem C05_chmap_via_rgba : forall one zero from to p, valid_ch from -> valid_ch to -> length p = chcount from ->
  chmap one zero from to p = from_rgba zero to (to_rgba one zero from p).
Proof. exact chmap_via_rgba. Qed.
Theorem C05_chmap_id : forall one zero c p, chmap one zero c c p = p.
Proof. exact chmap_id. Qed.
Theorem C05_chmap_length : forall one zero from to p, valid_ch from -> valid_ch to -> length p = chcount from -> length (chmap one zero from to p) = chcount to.
Proof. exact chmap_length. Qed.
(* a rectangle is the corresponding crop: pixel (i, j) of the rectangle at (x, y) is pixel (x + i, y + j) *)
Theorem C05_crop_pixel : forall img x y w h i j, (i < w)%nat -> (j < h)%nat -> (y + j < length img)%nat ->
  px_at (crop x y w h img) i j = px_at img (x + i) (y + j).
Proof. exact crop_pixel. Qed.
Theorem C05_crop_crop : forall img x1 y1 w1 h1 x2 y2 w2 h2, (x2 + w2 <= w1)%nat -> (y2 + h2 <= h1)%nat ->
  crop x2 y2 w2 h2 (crop x1 y1 w1 h1 img) = crop (x1 + x2) (y1 + y2) w2 h2 img.
Proof. exact crop_crop. Qed.
(* per-pixel conversions (channel mapping) commute with cropping *)
Theorem C05_crop_map_px : forall f img x y w h, crop x y w h (map_px f img) = map_px f (crop x y w h img).
Proof. exact crop_map_px. Qed.
(* row pitch / previous contents: bytes no addressed row covers keep their value; addressed bytes do not depend
   on what the buffer held *)
Theorem C05_blit_outside : forall rows buf offset pitch rowlen i d,
  (forall r, In r rows -> length (row_bytes r) = rowlen) -> (rowlen <= pitch \/ length rows <= 1)%nat ->
  (offset + (length rows - 1) * pitch + rowlen <= length buf \/ rows = [])%nat ->
  ~ covered offset pitch rowlen (length rows) i -> nth i (blit buf offset pitch rows) d = nth i buf d.
Proof. exact blit_outside. Qed.
Theorem C05_blit_covered : forall rows buf1 buf2 offset pitch rowlen i d,
  (forall r, In r rows -> length (row_bytes r) = rowlen) -> (rowlen <= pitch \/ length rows <= 1)%nat -> length buf1 = length buf2 ->
  (offset + (length rows - 1) * pitch + rowlen <= length buf1 \/ rows = [])%nat ->
  covered offset pitch rowlen (length rows) i -> nth i (blit buf1 offset pitch rows) d = nth i (blit buf2 offset pitch rows) d.
Proof. exact blit_covered. Qed.
(* block formats: a pixel depends only on the bytes of the block that contains it *)
Theorem C05_block_pixel_local : forall bw bh dec bpb w h d1 d2 x y, (x < w)%nat -> (y < h)%nat ->
  let bi := ((y / bh) * ((w + bw - 1) / bw) + x / bw)%nat in
  slice (bi * bpb) bpb d1 = slice (bi * bpb) bpb d2 ->
  px_at (block_image bw bh dec bpb w h d1) x y = px_at (block_image bw bh dec bpb w h d2) x y.
Proof. exact block_pixel_local. Qed.

(* the block rows a rect decode reads (the effect script of C06) are exactly the block rows that hold the rectangle:
   every pixel row of the rectangle lies in one of them, and each of them holds at least one *)
Theorem C05_block_rect_script_rows : forall bpb bw bh W H ox oy w h,
  script_rect (Block bpb bw bh) W H ox oy w h =
  let bpl := (div_ceil W bw * bpb)%N in let before := (oy / bh)%N in let to_read := (div_ceil (h + oy) bh - before)%N in
  [EAlloc (line_buffer_len bpl to_read); ESkip (bpl * before); ERead (bpl * to_read); ESkip (bpl * (div_ceil H bh - before - to_read))].
Proof. exact block_rect_script_rows. Qed.
Theorem C05_rect_block_rows_cover : forall oy h bh y, (1 <= bh -> 1 <= h -> oy <= y < oy + h -> oy / bh <= y / bh < dceil (oy + h) bh)%N.
Proof. exact rect_block_rows_cover. Qed.
Theorem C05_rect_block_rows_minimal : forall oy h bh k, (1 <= bh -> 1 <= h -> oy / bh <= k < dceil (oy + h) bh -> exists y, oy <= y < oy + h /\ y / bh = k)%N.
Proof. exact rect_block_rows_minimal. Qed.

Example C05_ex : blit [9; 9; 9; 9; 9; 9; 9; 9] 1 3 (crop 1 0 1 2 (map_px (chmap [255] [0] 0 2) [[[[1]]; [[2]]]; [[[3]]; [[4]]]])) = [9; 2; 2; 2; 4; 4; 4; 9].
Proof. reflexivity. Qed.

Definition C05_all := (C05_chmap_via_rgba, C05_chmap_id, C05_chmap_length, C05_crop_pixel, C05_crop_crop, C05_crop_map_px,
  C05_blit_outside, C05_blit_covered, C05_block_pixel_local, C05_block_rect_script_rows, C05_rect_block_rows_cover, C05_rect_block_rows_minimal).
Redirect "props/C05.assumptions" Print Assumptions C05_all.
