(* C15 - encoding is total: any pixel data, geometry and options give bytes or an error.
   Property theorems only; proofs in proofs/FloatProofs.v and by computation on model/EncoderSM.v.  The
   implementation is exercised by a totality oracle (all formats x sizes x float specials x options x failing
   writers, debug and release builds). *)
From Coq Require Import ZArith List Bool Lia.
From DDSV Require Import base.Machine model.Float model.Convert model.Layout model.DecoderSM model.EncoderSM proofs.FloatProofs.

(* Rust's saturating float -> integer casts, for EVERY float (NaN, infinities, negative, huge, subnormal) *)
Theorem C15_cast_in_range : forall max x, (0 <= max -> 0 <= to_unsigned max x <= max)%Z.
Proof. exact to_unsigned_range. Qed.
(* clamp_0_1 (value.max(0.0).min(1.0)) maps every float, NaN included, to a non-NaN value in [0, 1] *)
Theorem C15_clamp_total : forall x, let c := clamp_0_1 x in
  is_nan c = false /\ fle (F 0) c = true /\ fle c (F 1) = true.
Proof. exact clamp_0_1_total. Qed.
(* a format with a size multiple refuses other sizes before anything is written or the cursor moves *)
Theorem C15_bad_size_refused_first : forall e si, iter_current (e_it e) = Some (Some si) -> bad_size (e_mul e) si = true ->
  enc_write e false false = EErr XInvalidSize e.
Proof. intros e si H B. unfold enc_write. rewrite H, B. reflexivity. Qed.

Example C15_ex_nan : clamp_0_1 Fnan = F 0 /\ to_unsigned 255 Fnan = 0%Z /\ to_unsigned 255 (Finf false) = 255%Z /\ to_unsigned 255 (Finf true) = 0%Z.
Proof. vm_compute. auto. Qed.

Definition C15_all := (C15_cast_in_range, C15_clamp_total, C15_bad_size_refused_first).
Redirect "props/C15.assumptions" Print Assumptions C15_all.
