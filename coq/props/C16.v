(* C16 - generated mipmaps have the declared sizes and preserve flat colour and opacity.
   Property theorems only; proofs in proofs/MipProofs.v and proofs/LayoutProofs.v.  The resampling itself is done by
   the external `resize` crate in floating point and is not modelled: the theorems state what holds for ANY filter
   whose outputs are weighted means with non-negative weights (nearest, box, triangle), and the implementation is
   checked by an oracle through Encoder::write_surface. *)
From DDSV Require Import base.Machine model.Layout spec.SpecLayout proofs.LayoutProofs proofs.MipProofs.

(* level l of a dimension d has size max(1, d >> l) *)
Theorem C16_mip_dim : forall d level, d < U32 -> mip_dim d level = N.max 1 (N.shiftr d level).
Proof. exact mip_dim_spec. Qed.
(* the chain of a dimension d reaches 1 exactly at level log2 d: a full chain has log2(max(w, h)) + 1 levels *)
Theorem C16_chain_reaches_one : forall d, 1 <= d -> d < U32 -> mip_dim d (N.log2 d) = 1 /\ forall l, l < N.log2 d -> 2 <= mip_dim d l.
Proof. exact chain_reaches_one. Qed.
(* any rounded weighted mean with non-negative weights keeps the value range exactly ... *)
Theorem C16_weighted_mean_in_range : forall lo hi ws xs, Forall (fun w => 0 <= w)%Z ws -> Forall (fun x => lo <= x <= hi)%Z xs ->
  (0 < total ws (length xs))%Z ->
  (lo <= (wsum ws xs + total ws (length xs) / 2) / total ws (length xs) <= hi)%Z.
Proof. exact weighted_mean_in_range. Qed.
(* ... so a constant channel stays constant and a fully opaque alpha channel stays fully opaque *)
Theorem C16_weighted_mean_constant : forall c ws xs, Forall (fun w => 0 <= w)%Z ws -> Forall (fun x => x = c) xs ->
  (0 < total ws (length xs))%Z -> ((wsum ws xs + total ws (length xs) / 2) / total ws (length xs) = c)%Z.
Proof. exact weighted_mean_constant. Qed.

Example C16_ex : mip_dim 40 5 = 1 /\ mip_dim 40 4 = 2 /\ N.log2 40 = 5.
Proof. vm_compute. auto. Qed.

Definition C16_all := (C16_mip_dim, C16_chain_reaches_one, C16_weighted_mean_in_range, C16_weighted_mean_constant).
Redirect "props/C16.assumptions" Print Assumptions C16_all.
