(* C11 - the encoder accepts surfaces only in layout order; rejected calls change nothing.
   Property theorems only; proofs are in proofs/DecoderProofs.v.  Model: model/EncoderSM.v
   (src/encoder.rs write_surface_impl / finish over the iterator model of src/iter.rs). *)
From DDSV Require Import base.Machine model.Layout model.DecoderSM model.EncoderSM spec.SpecLayout
  proofs.LayoutProofs proofs.DecoderProofs.

(* For every header that yields a layout, every header length, initial mipmaps.generate, size multiple
   of the format and EVERY call sequence (unbounded) of write (right size / wrong size / already
   cancelled), toggle-generation and finish, enc_sim / venc_sim unfold, call by call, to:
     - the encoder never panics;
     - its verdict equals the spec cursor's x_step / vx_step: TooManySurfaces iff the cursor is at the end,
       UnexpectedSurfaceSize, Cancelled and InvalidSize exactly for the refused calls, MissingSurfaces from
       finish iff the cursor is not at the end, Ok otherwise;
     - after every call (also a failed one) erel / verel holds: the iterator is at the spec cursor and
       bytes written = header length + layout offset of the surface reported as next;
     - a call that does not move the cursor leaves the encoder exactly as it was;
     - with generation on, a write at level l passes the remaining levels of the current texture
       (up to the first level the format refuses: then the error is returned with the cursor AT that level);
       for volumes nothing is generated. *)
Theorem C11_encoder_refines_cursor : forall h p L hl g mul ops,
  wf_pixel_info p -> 1 <= lh_mips h -> from_header_with h p = LOk L ->
  match L with
  | LTexture t => enc_sim (t_p t) (t_w t) (t_h t) (t_mips t) 1 L mul (enc_init L hl g mul) hl 0 ops
  | LArray a => enc_sim (a_p a) (a_w a) (a_h a) (a_mips a) (a_len a) L mul (enc_init L hl g mul) hl 0 ops
  | LVolume v => venc_sim (vo_p v) (vo_w v) (vo_h v) (vo_d v) (vo_mips v) mul (enc_init L hl g mul) hl (0, 0) ops
  end.
Proof. exact encoder_refines_cursor_all. Qed.

(* finish succeeds exactly at the end of the layout, where the bytes written are header + data length *)
Theorem C11_finish_iff_complete : forall p w h mips len i, 1 <= mips ->
  i = total mips len -> c_offset p w h mips i = sum_lens p w h 0 (N.to_nat mips) * len.
Proof. intros p w h mips len i Hm ->. unfold total. apply c_offset_total. exact Hm. Qed.

(* non-vacuity: NV12 4x4 cube map with 3 mips and generation on: the first write emits levels 0 and 1 and
   stops with InvalidSize at the 1x1 level, leaving the cursor there (bytes = header + offset);
   finish then reports missing surfaces (this sequence produced a short file before the repair F8) *)
Example C11_ex_nv12_mips :
  exists L, from_header_with (mkLH true 4 4 None 3 true Tex2D 1 0) (BiPlanar 1 2 2 2) = LOk L /\
    match enc_step (enc_init L 148 true (2, 2)) (EWrite false false) with
    | EErr XInvalidSize e1 => e_bytes e1 = 148 + 24 + 6 /\ enc_step e1 EFinish = EErr XMissingSurfaces e1
    | _ => False
    end.
Proof. eexists. split; [vm_compute; reflexivity|]. vm_compute. auto. Qed.

Definition C11_all := (C11_encoder_refines_cursor, C11_finish_iff_complete).
Redirect "props/C11.assumptions" Print Assumptions C11_all.
