(* C03 - BC1-BC7 blocks decode to the values the format specification defines.
   Property theorems only; proofs are in proofs/BCProofs.v (BC1-5) and proofs/BC7Proofs.v (BC7).
   Models: model/Numeric.v, model/BCdec.v (src/color/formats.rs, src/decode/bc.rs), model/BC7.v
   (src/decode/bc7.rs, src/decode/bcn_util.rs; tables regenerated into gen/GenBC.v).
   Specifications: spec/SpecBC.v (exact interpolation rounded to nearest), the specification-shaped BC7
   decoder `bc7_spec` of model/BC7.v over the frozen tables of spec/SpecBC7Tables.v.
   BC6H: model/BC6.v (src/decode/bc6.rs; bit layout regenerated into gen/GenBC6.v), proofs/BC6Proofs.v.
   F32 outputs: model/BCF32.v over the IEEE model of C04; compared bit for bit, palette entries are correctly
   rounded quotients by definition of the model.  NOT covered: the blue channel BC3_UNORM_NORMAL reconstructs. *)
From DDSV Require Import base.Machine model.Numeric model.BCdec model.BC7 model.BC6 gen.GenBC gen.GenBC6 spec.SpecBC spec.SpecBC7Tables spec.SpecBC6Tables proofs.BCProofs proofs.BC7Proofs proofs.BC6Proofs.

(* BC1: for every pair of 16-bit endpoints, in both modes, every channel of every palette entry is the exact
   interpolation (2/3-1/3 or 1/2-1/2 of the 5/6-bit UNORM fields) rounded to the nearest 8-bit value; the mode
   is chosen by endpoint order only when mode selection is on (BC1), never for BC2/BC3 *)
Theorem C03_bc1_palette : forall mode_select c0 c1,
  let four := negb mode_select || (c1 <? c0) in
  exists p0 p1 p2 p3, bc1_lut mode_select c0 c1 = [p0; p1; p2; p3] /\
    (forall (ch : nat) max (f : N -> N), (ch = 0%nat /\ max = 31 /\ f = r5_of) \/ (ch = 1%nat /\ max = 63 /\ f = g6_of) \/ (ch = 2%nat /\ max = 31 /\ f = b5_of) ->
       bc1_channel_spec max (f c0) (f c1) four (nth ch p0 0) (nth ch p1 0) (nth ch p2 0) (nth ch p3 0)) /\
    nth 3 p0 0 = 255 /\ nth 3 p1 0 = 255 /\ nth 3 p2 0 = 255 /\ nth 3 p3 0 = (if four then 255 else 0).
Proof. exact bc1_palette_spec. Qed.
Theorem C03_bc1_pixels : forall mode_select b i, (i < 16)%nat ->
  nth i (bc1_u8 mode_select b) [] =
  nth (N.to_nat ((le32 b 4 / 4 ^ N.of_nat i) mod 4)) (bc1_lut mode_select (le16 b 0) (le16 b 2)) [].
Proof. exact bc1_pixels. Qed.
Theorem C03_bc23_always_four_colour : forall c0 c1,
  bc1_lut false c0 c1 = [rgb8_of565 c0 ++ [255]; rgb8_of565 c1 ++ [255]; third_rgb8 c0 c1 ++ [255]; third_rgb8 c1 c0 ++ [255]].
Proof. exact bc23_always_four_colour. Qed.
Theorem C03_bc2_alpha_exact : forall x, x < 16 -> n4_n8 x * 15 = x * 255.
Proof. exact bc2_alpha_exact. Qed.

(* BC4 / BC5 / BC3 alpha: 6- or 4-interpolant palettes by endpoint order (signed comparison for SNORM, both
   minimum codes meaning -1), every entry the exact interpolation rounded to nearest at 8 and at 16 bits *)
Theorem C03_bc4u_palette : forall (wide : bool) c0 c1, c0 < 256 -> c1 < 256 ->
  bc4_palette_spec 255 (if wide then 65535 else 255) c0 c1 (c1 <? c0) (bc4u_lut wide c0 c1).
Proof. exact bc4u_palette_spec. Qed.
Theorem C03_bc4s_palette : forall (wide : bool) r0 r1, r0 < 256 -> r1 < 256 ->
  bc4_palette_spec 254 (if wide then 65535 else 255) (snorm8_level r0) (snorm8_level r1) (i8_of r1 <? i8_of r0)%Z (bc4s_lut wide r0 r1).
Proof. exact bc4s_palette_spec. Qed.
Theorem C03_bc4_pixels : forall lut b i, (i < 16)%nat ->
  nth i (pixels_of_lut lut 0 (idx3 b)) 0 =
  nth (N.to_nat (if (i <? 8)%nat then (le24 b 2 / 8 ^ N.of_nat i) mod 8 else (le24 b 5 / 8 ^ N.of_nat (i - 8)) mod 8)) lut 0.
Proof. exact bc4_pixels. Qed.
(* 16-bit output of the BC1-3 family (and BC7): the 8-bit result widened exactly *)
Theorem C03_widen_exact : forall x, n8_n16 x * 255 = x * 65535.
Proof. exact widen_exact. Qed.

(* BC7: for EVERY 16-byte block the decoder as implemented (promote, decompress_single_index + get_index,
   x4 weights with >> 8, tables as they are in the source now) equals the specification-shaped decoder (bit
   replication, indices read one by one with anchors one bit narrower, weights / 64 with >> 6, frozen tables) *)
Theorem C03_bc7_model_eq_spec : forall blk, bc7_model blk = bc7_spec blk.
Proof. exact bc7_model_eq_spec. Qed.
Theorem C03_bc7_tables : partition2 = spec_partition2 /\ partition3 = spec_partition3.
Proof. exact tables_tie. Qed.
Theorem C03_bc7_weights : forall bits, weights_x4 bits = map (N.mul 4) (spec_weights bits).
Proof. exact weights_tie. Qed.
(* interpolation is the exact weighted average rounded to nearest, fits a byte, and the u16 arithmetic of the
   implementation never wraps *)
Theorem C03_bc7_interp_nearest : forall bits e0 e1 idx,
  let w := nth (N.to_nat idx) (spec_weights bits) 0 in nearest (spec_interp bits e0 e1 idx) ((64 - w) * e0 + w * e1) 64.
Proof. exact interp_nearest. Qed.
Theorem C03_bc7_interp_no_wrap : forall bits e0 e1 idx, e0 < 256 -> e1 < 256 ->
  let w := nth (N.to_nat idx) (weights_x4 bits) 0 in w <= 256 /\ (256 - w) * e0 + w * e1 + 128 < 65536.
Proof. exact interp_no_wrap. Qed.
(* reserved mode (low byte zero) decodes to transparent black; any other block has a mode 0..7 *)
Theorem C03_bc7_reserved : forall b, le128 b mod 256 = 0 -> bc7_model b = repeat [0; 0; 0; 0] 16.
Proof. intros b. exact (reserved_mode_zero _ _ _ _ _ b). Qed.
Theorem C03_bc7_mode_prefix : forall b, le128 b mod 256 <> 0 -> tz 8 (le128 b mod 256) < 8.
Proof. exact mode_is_unary_prefix. Qed.

(* BC6H: the bit layout the implementation uses now is the specification's; its structure (every bit of every
   endpoint component assigned exactly once with the mode's widths, header of 128 - 46 - 5 - mode bits); reserved
   modes give zero; interpolation rounds the weighted average to nearest; unquantisation ends and symmetry *)
Theorem C03_bc6_tables : bc6_two_fields = spec_bc6_two_fields.
Proof. exact bc6_tables_tie. Qed.
Theorem C03_bc6_tables_structure :
  length spec_bc6_two_fields = 10%nat /\ forallb mode_ok spec_bc6_two_fields = true /\
  map fst spec_bc6_two_fields = [0; 1; 2; 6; 10; 14; 18; 22; 26; 30]%N.
Proof. exact bc6_tables_structure. Qed.
Theorem C03_bc6_reserved_zero : forall ix ft p2 signed b, (Z.of_N (le128 b) mod 4 = 3)%Z -> (4 <= (Z.of_N (le128 b) / 4) mod 8)%Z ->
  bc6_decode_with ix ft p2 signed b = zero_block.
Proof. exact bc6_reserved_zero. Qed.
(* the BC6H decoder as implemented equals the one over the specification tables with sequential index reads *)
Theorem C03_bc6_model_eq_spec : forall signed blk, bc6_model signed blk = bc6_spec signed blk.
Proof. exact bc6_model_eq_spec. Qed.
Theorem C03_bc6_interp_nearest : forall a b w, (0 <= w <= 64)%Z ->
  let v := Z.shiftr (a * (64 - w) + b * w + 32) 6 in (64 * v <= a * (64 - w) + b * w + 32 < 64 * v + 64)%Z.
Proof. exact bc6_interp_nearest. Qed.
Theorem C03_bc6_unquantize_ends : forall bits, (1 <= bits < 15)%Z ->
  unquantize false 0 bits = 0%Z /\ unquantize false (2 ^ bits - 1) bits = 65535%Z /\
  (forall c, unquantize true (- c) (bits + 1) = (- unquantize true c (bits + 1))%Z).
Proof. exact bc6_unquantize_ends. Qed.

(* non-vacuity: the F7 block (BC3 colour half with colour0 <= colour1) decodes with four colours; a BC7 mode-6 block *)
Example C03_ex_f7 : firstn 4 (bc3_u8 [255; 255; 0; 0; 0; 0; 0; 0; 0; 0; 255; 255; 228; 0; 0; 0]) =
  [[0; 0; 0; 255]; [255; 255; 255; 255]; [85; 85; 85; 255]; [170; 170; 170; 255]].
Proof. vm_compute. reflexivity. Qed.
Example C03_ex_bc7 : nth 0 (bc7_spec [192; 255; 255; 255; 255; 255; 255; 255; 255; 255; 255; 255; 255; 255; 255; 255]) [] = [255; 255; 255; 255].
Proof. vm_compute. reflexivity. Qed.

Definition C03_all := (C03_bc1_palette, C03_bc1_pixels, C03_bc23_always_four_colour, C03_bc2_alpha_exact, C03_bc4u_palette,
  C03_bc4s_palette, C03_bc4_pixels, C03_widen_exact, C03_bc7_model_eq_spec, C03_bc7_tables, C03_bc7_weights,
  C03_bc7_interp_nearest, C03_bc7_interp_no_wrap, C03_bc7_reserved, C03_bc7_mode_prefix, tables_structure,
  C03_bc6_tables, C03_bc6_tables_structure, C03_bc6_reserved_zero, C03_bc6_model_eq_spec, C03_bc6_interp_nearest, C03_bc6_unquantize_ends).
Redirect "props/C03.assumptions" Print Assumptions C03_all.
