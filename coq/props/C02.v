(* C02 - the data layout tiles the data section exactly as the DDS rules prescribe.
   Property theorems only; proofs are in proofs/LayoutProofs.v. *)
From DDSV Require Import base.Machine model.Layout spec.SpecLayout proofs.LayoutProofs.

(* mip size = max(1, dim >> level) for every u32 dimension and every u8 level *)
Theorem C02_mip_dim : forall d level, d < U32 -> mip_dim d level = N.max 1 (N.shiftr d level).
Proof. exact mip_dim_spec. Qed.

(* surface byte length = the rule, or None exactly when the rule's value does not fit in u64 *)
Theorem C02_surface_bytes : forall p w h,
  surface_bytes p w h = if spec_len p w h <? U64 then Some (spec_len p w h) else None.
Proof. exact surface_bytes_spec. Qed.
Theorem C02_surface_bytes_inner_fits : forall p w h, wf_pixel_info p -> w < U32 -> h < U32 ->
  w * h < U64 /\
  match p with
  | Fixed _ => True
  | Block _ bw bh => div_ceil w bw * div_ceil h bh < U64
  | BiPlanar _ _ sx sy => div_ceil w sx * div_ceil h sy < U64
  end.
Proof. exact surface_bytes_inner_fits. Qed.

(* refinement: from_header_with = (which object the header describes) + (does it fit) *)
Theorem C02_from_header_with_spec : forall h p,
  from_header_with h p =
  match spec_shape h with
  | LErr e => LErr e
  | LOk sh => if (elem_total sh p <? U64) && (exact_total sh p <? U64)
              then LOk (layout_of_shape sh p) else LErr DataLayoutTooBig
  end.
Proof. exact from_header_with_spec. Qed.

(* the layout tiles the data section: the code's own iterators (with every unwrap, debug_assert and
   unchecked u64 operation modelled as a possible failure) succeed and enumerate exactly the rule's
   surface list, which starts at 0, is contiguous, and sums to the reported total < 2^64 *)
Theorem C02_layout_tiling : forall h p L, wf_pixel_info p -> from_header_with h p = LOk L ->
  flatten L = Some (spec_flatten L) /\
  tiles 0 (spec_flatten L) (spec_total L) /\
  layout_data_len L = Some (spec_total L) /\ spec_total L < U64.
Proof. exact layout_tiling. Qed.

(* every enumerated surface has size max(1,dim>>level) and the rule's byte length *)
Theorem C02_surface_rule : forall L,
  let '(p, W, H) := match L with
    | LTexture t => (t_p t, t_w t, t_h t) | LArray a => (a_p a, a_w a, a_h a) | LVolume v => (vo_p v, vo_w v, vo_h v) end in
  Forall (surf_rule p W H) (spec_flatten L).
Proof. exact spec_flatten_rule. Qed.

(* headers whose total does not fit are rejected (and only for that reason) *)
Theorem C02_layout_reject_iff : forall h p sh, spec_shape h = LOk sh ->
  (from_header_with h p = LErr DataLayoutTooBig <-> (U64 <= elem_total sh p \/ U64 <= exact_total sh p)).
Proof. exact layout_reject_iff. Qed.

(* indexed access and iteration agree *)
Theorem C02_arr_get_eq_iter : forall a i, i < a_len a -> arr_get a i = nth_error (arr_iter a) (N.to_nat i).
Proof. exact arr_get_eq_iter. Qed.
Theorem C02_depth_get_eq_iter : forall vd k l, iter_depth_slices vd = Some l ->
  get_depth_slice vd k = Some (nth_error l (N.to_nat k)).
Proof. exact depth_get_eq_iter. Qed.
Theorem C02_tex_get_is_nth : forall t level l, tex_iter_mips t = Some l ->
  tex_get t level = Some (nth_error l (N.to_nat level)).
Proof. intros t level l H. unfold tex_get. rewrite H. reflexivity. Qed.

(* non-vacuity: a 100x300 BC1 texture with 9 mips; a DX9 partial cube map; a depth-3 volume *)
Example C02_ex_texture :
  exists L, from_header_with (mkLH true 100 300 None 9 false Tex2D 1 0) (Block 8 4 4) = LOk L /\
            layout_data_len L = Some 20384 /\ option_map (@length surf) (flatten L) = Some 9%nat.
Proof. eexists. split; [vm_compute; reflexivity|]. split; vm_compute; reflexivity. Qed.
Example C02_ex_partial_cube :
  exists L, from_header_with (mkLH false 5 7 None 2 false Tex2D 0 (512 + 1024 + 8192)) (Fixed 3) = LOk L /\
            layout_data_len L = Some 246.
Proof. eexists. split; [vm_compute; reflexivity|vm_compute; reflexivity]. Qed.
Example C02_ex_volume :
  exists L, from_header_with (mkLH true 5 6 (Some 3) 3 false Tex3D 1 0) (BiPlanar 1 2 2 2) = LOk L /\
            option_map (@length surf) (flatten L) = Some 5%nat.
Proof. eexists. split; [vm_compute; reflexivity|vm_compute; reflexivity]. Qed.
Example C02_ex_too_big :
  from_header_with (mkLH true 4294967295 4294967295 None 1 false Tex2D 1 0) (Fixed 16) = LErr DataLayoutTooBig.
Proof. vm_compute. reflexivity. Qed.

Definition C02_all := (C02_mip_dim, C02_surface_bytes, C02_surface_bytes_inner_fits, C02_from_header_with_spec,
  C02_layout_tiling, C02_surface_rule, C02_layout_reject_iff, C02_arr_get_eq_iter, C02_depth_get_eq_iter, C02_tex_get_is_nth).
Redirect "props/C02.assumptions" Print Assumptions C02_all.
