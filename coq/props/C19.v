(* C19 - format metadata agrees with what the codecs actually do.
   Property theorems only; proofs are in proofs/FormatProofs.v.  All tables are regenerated from /repo on
   every run (gen/GenFormats.v, gen/GenHeader.v).  What the codecs actually do (bytes consumed by decoding,
   sizes accepted by encoding, effect of the dithering options) is compared with these tables by the
   checks C06 / C10 and by the dithering oracle of this check. *)
From DDSV Require Import base.Machine model.Layout model.Formats model.HeaderTypes gen.GenFormats gen.GenHeader model.Header
  spec.SpecLayout proofs.FormatProofs.

(* for every header from which a format is detected - all 162 DXGI codes x alpha modes, every FourCC,
   every mask pixel format, with all other fields symbolic - the pixel layout derived from the header
   equals the pixel layout of that format *)
Theorem C19_pixelinfo_header_eq_format : forall h f, format_of_header h = Some f ->
  pixel_info_of_header h = fmt_pi f /\ fmt_pi f <> None.
Proof. exact pixelinfo_header_eq_format. Qed.

(* hence layouts computed from the header alone and with the detected format coincide *)
Theorem C19_layouts_coincide : forall h f p, format_of_header h = Some f -> fmt_pi f = Some p ->
  exists p', pixel_info_of_header h = Some p' /\ from_header_with (lheader_of h) p' = from_header_with (lheader_of h) p.
Proof. intros h f p Hf Hp. destruct (pixelinfo_header_eq_format h f Hf) as [E _]. exists p. rewrite E, Hp. auto. Qed.

(* every implemented format has a pixel layout within the bounds the layout / script theorems assume *)
Theorem C19_formats_wf : forall row, In row fmt_table -> wf_pixel_info (f_pi row).
Proof. exact formats_wf. Qed.

(* size multiples are advertised exactly for the bi-planar formats and equal their sub-sampling; only those
   formats cannot be split *)
Theorem C19_size_multiple_table : forallb (fun row =>
    match f_enc row, f_pi row with
    | Some en, BiPlanar _ _ sx sy => (e_mul_x en =? sx) && (e_mul_y en =? sy) && (e_split_height en =? 0)
    | Some en, _ => (e_mul_x en =? 1) && (e_mul_y en =? 1) && negb (e_split_height en =? 0)
    | None, _ => true
    end) fmt_table = true.
Proof. exact table_size_multiple. Qed.

(* the advertised bits per pixel are exact for fixed-size pixels and an upper bound per whole block otherwise *)
Theorem C19_bits_per_pixel : forall p w h, wf_pixel_info p ->
  match p with
  | Fixed b => spec_len p w h * 8 = bits_per_pixel p * (w * h)
  | Block by_ bw bh => spec_len p (w * bw) (h * bh) * 8 <= bits_per_pixel p * (w * bw * (h * bh))
  | BiPlanar b1 b2 sx sy => spec_len p (w * sx) (h * sy) * 8 <= bits_per_pixel p * (w * sx * (h * sy))
  end.
Proof. exact bits_per_pixel_bounds. Qed.

Example C19_ex_dxt4 : format_of_header (HDx9 8 8 None 1 0 (PFFourCC FOURCC_DXT4)) = Some FMT_BC3_PREMUL /\
  pixel_info_of_header (HDx9 8 8 None 1 0 (PFFourCC FOURCC_DXT4)) = Some (Block 16 4 4).
Proof. vm_compute. auto. Qed.

Definition C19_all := (C19_pixelinfo_header_eq_format, C19_layouts_coincide, C19_formats_wf, C19_size_multiple_table, C19_bits_per_pixel).
Redirect "props/C19.assumptions" Print Assumptions C19_all.
