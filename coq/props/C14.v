(* C14 - parallel, sequential and fragment-wise encoding produce identical bytes.
   Property theorems only; proofs are in proofs/SplitProofs.v.  Model: model/Split.v
   (src/split.rs get_fragment_height / SplitView, src/encode/mod.rs encode_parallel). *)
From DDSV Require Import base.Machine model.Split model.Formats gen.GenFormats proofs.SplitProofs model.EncBlocks proofs.EncBlocksProofs.
From Coq Require Import List.

(* fragments cover the image exactly once, in order: fragment i is rows [i*fh, min((i+1)*fh, h)), never
   empty, computed without u32 overflow; all but the last have exactly the full fragment height, which is
   a multiple of the format's split height; the last one ends at h.  For every image size < 2^32, every
   split height <= 255, every preferred fragment size and every dithering combination. *)
Theorem C14_fragments_partition : forall w h sh fp ld sup req fh,
  1 <= w < U32 -> 1 <= h < U32 -> sh <= 255 -> fragment_height w h sh ld sup req fp = Some fh ->
  forall i, i < len h fh ->
  exists s e, fragment_rows h (Some fh) i = Some (s, e) /\
    s = i * fh /\ s < e /\ e = N.min ((i + 1) * fh) h /\
    (i + 1 < len h fh -> e - s = fh /\ (e - s) mod sh = 0) /\
    (i + 1 = len h fh -> e = h).
Proof. intros w h sh fp ld sup req fh Hw Hh Hs Hf. exact (fragments_partition w h sh fp ld sup req fh Hw Hh Hs Hf). Qed.

Theorem C14_fragment_height_facts : forall w h sh fp ld sup req fh,
  1 <= w < U32 -> 1 <= h < U32 -> sh <= 255 -> fragment_height w h sh ld sup req fp = Some fh ->
  1 <= sh /\ 1 <= fh < U32 /\ fh mod sh = 0 /\ N.max fp 1 < w * h /\ (fh = sh \/ fh * w <= N.max fp 1).
Proof. intros w h sh fp ld sup req fh Hw Hh Hs Hf. exact (fh_facts w h sh fp ld sup req fh Hw Hh Hs Hf). Qed.

(* no split when global (non-local) dithering applies *)
Theorem C14_no_split_under_global_dithering : forall w h sh fp sup req,
  dither_intersects req sup = true -> fragment_height w h sh false sup req fp = None.
Proof.
  intros w h sh fp sup req H. unfold fragment_height. destruct ((w =? 0) || (h =? 0)); [reflexivity|].
  destruct (sh =? 0); [reflexivity|]. cbn [negb andb]. rewrite H. reflexivity.
Qed.

(* an encoder that is local to groups of g rows commutes with cutting at multiples of g *)
Theorem C14_group_local_concat : forall (R B : Type) (g : nat) (enc_group : list R -> list B), (1 <= g)%nat ->
  forall k r1 r2, length r1 = (k * g)%nat -> enc g enc_group (r1 ++ r2) = enc g enc_group r1 ++ enc g enc_group r2.
Proof. intros R B g eg Hg. exact (group_local_concat g eg Hg). Qed.

(* hence: the index-ordered collection of the encoded fragments (whatever order they were computed in - the
   result of encode_parallel is a function of the index-ordered list only) equals the sequential encoding *)
Theorem C14_parallel_eq_sequential : forall (R B : Type) (enc_group : list R -> list B) (rows : list R)
    w h sh fp ld sup req fh,
  1 <= w < U32 -> 1 <= h < U32 -> sh <= 255 -> N.of_nat (length rows) = h ->
  fragment_height w h sh ld sup req fp = Some fh ->
  encode_parallel (fun r => enc (N.to_nat sh) enc_group (firstn (N.to_nat (snd r - fst r)) (skipn (N.to_nat (fst r)) rows))) h (Some fh)
  = Some (enc (N.to_nat sh) enc_group rows).
Proof. intros R B eg rows w h sh fp ld sup req fh Hw Hh Hs Hl Hf. exact (parallel_eq_sequential eg rows w h sh fp ld sup req fh Hw Hh Hs Hl Hf). Qed.

(* table fact on the implementation's current tables: only formats with local (per-block) dithering
   or without any dithering support can be split when dithering is requested *)
Theorem C14_split_formats_local :
  forallb (fun row => match f_enc row with
                      | Some en => (e_split_height en =? 0) || negb (e_local_dither en =? 0) ||
                                   (e_split_height en =? 1)
                      | None => true end) fmt_table = true.
Proof. vm_compute. reflexivity. Qed.

(* non-vacuity: BC1 at quality Fast (4096-pixel fragments), 33 x 130: 2 fragments of 124 and 6 rows *)
Example C14_ex_bc1 :
  fragment_height 33 130 4 true (true, true) (false, false) 4096 = Some 124 /\
  fragment_rows 130 (Some 124) 1 = Some (124, 130).
Proof. vm_compute. auto. Qed.

(* the locality the fragment-wise encoding rests on, for the block formats: the blocks gathered from the first k * 4 rows
   and from the remaining rows separately are the blocks gathered from the whole surface (model/EncBlocks.v, tag 55) - a
   fragment boundary at a multiple of the block height never changes what any block encoder is given *)
Theorem C14_block_rows_local : forall (X : Type) (bw bh : nat) (d : X), (1 <= bh)%nat -> forall (w : nat) (a b : list (list X)) (k : nat),
  length a = (k * bh)%nat -> image_blocks X bw bh d w (a ++ b) = image_blocks X bw bh d w a ++ image_blocks X bw bh d w b.
Proof. exact image_blocks_app. Qed.

Definition C14_all := (C14_fragments_partition, C14_fragment_height_facts, C14_no_split_under_global_dithering,
  C14_group_local_concat, C14_parallel_eq_sequential, C14_split_formats_local, C14_block_rows_local).
Redirect "props/C14.assumptions" Print Assumptions C14_all.
