(* C01 - hostile files never crash the reader: parse, layout and decode are total.
   Property theorems only.  In the models every unwrap, debug assertion and unchecked u64 operation of the layout
   code is a possible failure (model/Layout.v), so "the model function returns a value" means "the code does not
   panic or overflow there".  Proofs: proofs/LayoutProofs.v, proofs/ScriptProofs.v, proofs/TotalProofs.v,
   proofs/HeaderProofs.v.  The implementation itself is exercised by an oracle on generated hostile files in the
   debug (overflow-checked) and release builds. *)
From DDSV Require Import base.Machine model.Layout model.DecodeScript model.HeaderTypes model.Header spec.SpecLayout
  proofs.LayoutProofs proofs.ScriptProofs proofs.TotalProofs proofs.HeaderProofs.

(* every u32 x u32 surface: the inner products of the byte-length computation fit u64, and the length is the
   rule's value or None exactly when that value does not fit *)
Theorem C01_surface_bytes_inner_fits : forall p w h, wf_pixel_info p -> w < U32 -> h < U32 ->
  w * h < U64 /\
  match p with
  | Fixed _ => True
  | Block _ bw bh => div_ceil w bw * div_ceil h bh < U64
  | BiPlanar _ _ sx sy => div_ceil w sx * div_ceil h sy < U64
  end.
Proof. exact surface_bytes_inner_fits. Qed.
Theorem C01_surface_bytes_checked : forall p w h,
  surface_bytes p w h = if spec_len p w h <? U64 then Some (spec_len p w h) else None.
Proof. exact surface_bytes_spec. Qed.
(* deriving the layout of ANY header never fails except by the documented errors: the checked computation equals
   "which object is described" + "does its total fit in u64" *)
Theorem C01_layout_decides : forall h p,
  from_header_with h p =
  match spec_shape h with
  | LErr e => LErr e
  | LOk sh => if (elem_total sh p <? U64) && (exact_total sh p <? U64)
              then LOk (layout_of_shape sh p) else LErr DataLayoutTooBig
  end.
Proof. exact from_header_with_spec. Qed.
(* when a layout is produced, all of its iterators and indexed accessors succeed (no unwrap, assertion or
   unchecked operation fails) and stay below 2^64 *)
Theorem C01_layout_iterators_total : forall h p L, wf_pixel_info p -> from_header_with h p = LOk L ->
  flatten L = Some (spec_flatten L) /\
  tiles 0 (spec_flatten L) (spec_total L) /\
  layout_data_len L = Some (spec_total L) /\ spec_total L < U64.
Proof. exact layout_tiling. Qed.
(* every header the parser accepts is well-formed with all fields below 2^32 *)
Theorem C01_parsed_is_wf : forall skip bytes h, Forall (fun b => b < 256) bytes ->
  header_read skip false None bytes = HOk h -> wf_header h /\ fields_u32 h.
Proof. exact parsed_is_wf. Qed.
(* a full decode of a non-empty surface from a reader that is too short, or that fails before the end of the
   surface, does not return Ok (it returns the I/O error, or the memory-limit error if that comes first) *)
Theorem C01_full_decode_short_or_faulty : forall p fast W H limit rd, wf_pixel_info p -> 1 <= spec_len p W H ->
  (r_len rd < r_pos rd + spec_len p W H \/ exists k, r_fault rd = Some k /\ k < r_pos rd + spec_len p W H) ->
  s_out (decode_run p (RFull W H fast) limit rd) <> OOk.
Proof. exact full_decode_short_or_faulty. Qed.
(* errors other than I/O leave the reader where it was *)
Theorem C01_non_io_error_no_move : forall p rq limit rd,
  s_out (decode_run p rq limit rd) = OMem \/ s_out (decode_run p rq limit rd) = ORectOOB ->
  s_rd (decode_run p rq limit rd) = rd.
Proof. exact non_io_error_no_move. Qed.
(* once check_likely_overflow has passed, every allocation size and read length of a full-decode script is at most the
   surface's byte length, which is at most i64::MAX: none of the script's u64 arithmetic can wrap *)
Theorem C01_full_script_sizes : forall p fast W H, wf_pixel_info p -> likely_overflow p W H = false ->
  Forall (fun e => eff_size e <= spec_len p W H /\ spec_len p W H <= I64MAX) (script_full p fast W H).
Proof. exact full_script_sizes. Qed.

Example C01_ex_truncated : s_out (decode_run (Fixed 4) (RFull 8 8 false) 65536 (mkReader 0 255 None)) = OIo.
Proof. vm_compute. reflexivity. Qed.
Example C01_ex_fault : s_out (decode_run (Block 8 4 4) (RFull 8 8 false) 65536 (mkReader 10 1000 (Some 20))) = OIo.
Proof. vm_compute. reflexivity. Qed.

Definition C01_all := (C01_surface_bytes_inner_fits, C01_surface_bytes_checked, C01_layout_decides, C01_layout_iterators_total,
  C01_parsed_is_wf, C01_full_decode_short_or_faulty, C01_non_io_error_no_move, C01_full_script_sizes).
Redirect "props/C01.assumptions" Print Assumptions C01_all.
