(* C07 - the decoder's memory limit bounds what a file can make it allocate.
   Property theorems only; proofs are in proofs/ScriptProofs.v.  Model: model/DecodeScript.v. *)
From DDSV Require Import base.Machine model.Layout model.DecodeScript model.Formats gen.GenFormats
  spec.SpecLayout proofs.LayoutProofs proofs.ScriptProofs.

(* whatever the outcome, the bytes allocated by a decode never exceed the configured limit *)
Theorem C07_alloc_within_limit : forall p rq limit rd,
  alloc_all (s_trace (decode_run p rq limit rd)) <= limit /\
  alloc_all (s_trace (decode_run p rq limit rd)) + s_limit (decode_run p rq limit rd) = limit.
Proof. exact alloc_within_limit. Qed.

(* a surface that needs more than the limit fails with the memory-limit error, and only then *)
Theorem C07_memory_verdict : forall p rq limit rd s, plan p rq = (OOk, s) ->
  (s_out (decode_run p rq limit rd) = OMem <-> limit < need p rq).
Proof. exact memory_verdict. Qed.

(* what a decode needs: one line buffer (full: none on the fast paths), one row for pixel rects,
   plane 1 of the rows read plus a line buffer for bi-planar formats *)
Theorem C07_need_closed_form : forall p rq,
  need p rq =
  match plan p rq with
  | (OOk, _) =>
    match rq with
    | RFull W H fast =>
        if is_empty W H then 0 else
        match p with
        | Fixed enc => if fast then 0 else line_buffer_len (W * enc) H
        | Block bpb bw bh => line_buffer_len (div_ceil W bw * bpb) (div_ceil H bh)
        | BiPlanar e1 e2 sx sy => W * e1 * H + line_buffer_len (div_ceil W sx * e2) (div_ceil H sy)
        end
    | RRect W H ox oy w h =>
        if is_empty w h then 0 else
        match p with
        | Fixed enc => w * enc
        | Block bpb bw bh => line_buffer_len (div_ceil W bw * bpb) (div_ceil (h + oy) bh - oy / bh)
        | BiPlanar e1 e2 sx sy =>
            W * e1 * h + line_buffer_len (div_ceil W sx * e2)
                           (div_ceil H sy - oy / sy - (div_ceil H sy - div_ceil (oy + h) sy))
        end
    end
  | _ => 0
  end.
Proof. exact need_closed_form. Qed.

(* the line buffer: at least one line, at most max(64 KiB, one line), never more than the image *)
Theorem C07_line_buffer_bounds : forall bpl height, 1 <= bpl -> 1 <= height ->
  bpl <= line_buffer_len bpl height <= N.max TARGET_BUFFER_SIZE bpl /\ line_buffer_len bpl height <= bpl * height.
Proof. exact line_buffer_bounds. Qed.

(* with the default limit every format of the implementation's current table decodes at 4K x 4K
   (finite: 73 rows x fast/general path; the table is regenerated from /repo on every run) *)
Theorem C07_default_fits_4k :
  forallb (fun row => forallb (fun fast => need (f_pi row) (RFull 4096 4096 fast) <=? default_memory_limit) [true; false]) fmt_table = true.
Proof. vm_compute. reflexivity. Qed.
Theorem C07_default_fits_4k_forall : forall row fast, In row fmt_table ->
  need (f_pi row) (RFull 4096 4096 fast) <= default_memory_limit.
Proof.
  intros row fast Hin. pose proof C07_default_fits_4k as H. rewrite forallb_forall in H.
  specialize (H row Hin). rewrite forallb_forall in H. apply N.leb_le. apply H. destruct fast; cbn; auto.
Qed.

Example C07_ex_nv12_4k : need (BiPlanar 1 2 2 2) (RFull 4096 4096 false) = 16777216 + 65536.
Proof. vm_compute. reflexivity. Qed.
Example C07_ex_wide : need (Fixed 16) (RFull 65536 1 false) = 1048576.
Proof. vm_compute. reflexivity. Qed.

Definition C07_all := (C07_alloc_within_limit, C07_memory_verdict, C07_need_closed_form, C07_line_buffer_bounds, C07_default_fits_4k_forall).
Redirect "props/C07.assumptions" Print Assumptions C07_all.
