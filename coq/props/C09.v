(* C09 - headers survive serialisation: write then read is the identity.
   Property theorems only; proofs are in proofs/HeaderProofs.v.  Model: model/Header.v (src/header.rs),
   tables regenerated from /repo into gen/GenHeader.v on every run. *)
From DDSV Require Import base.Machine model.Layout model.Formats model.HeaderTypes gen.GenFormats gen.GenHeader model.Header proofs.HeaderProofs.

(* raw header: any byte image whose length is a multiple of 4 that RawHeader::read accepts is rewritten
   bit-for-bit (124 or 144 bytes consumed, the rest untouched) *)
Theorem C09_raw_bytes_roundtrip : forall bs k r rest, Forall (fun b => b < 256) bs -> length bs = (4 * k)%nat ->
  raw_read (words_of_bytes bs) = Some (r, rest) ->
  bytes_of_words (raw_write r) ++ bytes_of_words rest = bs.
Proof. exact raw_bytes_roundtrip. Qed.
Theorem C09_raw_write_read : forall r rest, length (rh_res1 r) = 11%nat ->
  (match rh_dx10 r with Some _ => dx10_marker r = true | None => dx10_marker r = false end) ->
  raw_read (raw_write r ++ rest) = Some (r, rest).
Proof. exact raw_write_read. Qed.

(* every well-formed header is written as magic + 124 (+20) bytes and reads back equal, in strict and in
   permissive mode; all u32 fields symbolic *)
Theorem C09_read_write_id : forall h permissive, wf_header h -> fields_u32 h ->
  header_read false permissive None (header_write h) = HOk h.
Proof. exact read_write_id. Qed.
Theorem C09_written_len : forall h, N.of_nat (length (header_write h)) = MAGIC_LEN + header_byte_len h.
Proof. exact written_len. Qed.

(* everything strict parsing returns is well-formed, hence parsing is a normalisation *)
Theorem C09_parsed_is_wf : forall skip bytes h, Forall (fun b => b < 256) bytes ->
  header_read skip false None bytes = HOk h -> wf_header h /\ fields_u32 h.
Proof. exact parsed_is_wf. Qed.
Theorem C09_parse_normalises : forall skip bytes h, Forall (fun b => b < 256) bytes ->
  header_read skip false None bytes = HOk h -> header_read false false None (header_write h) = HOk h.
Proof. exact parse_normalises. Qed.

(* constructors and builders yield well-formed headers ... *)
Theorem C09_constructors_wf : forall w h d dxgi pf,
  (dxgi_lookup dxgi <> None -> wf_header (dx10_new_image w h dxgi) /\ wf_header (dx10_new_volume w h d dxgi) /\ wf_header (dx10_new_cube w h dxgi)) /\
  (wf_pf pf -> wf_header (dx9_new_image w h pf) /\ wf_header (dx9_new_volume w h d pf) /\ wf_header (dx9_new_cube w h pf)).
Proof.
  intros w h d dxgi pf. split.
  - intros H. split; [apply wf_dx10_new_image|split; [apply wf_dx10_new_volume|apply wf_dx10_new_cube]]; exact H.
  - apply wf_dx9_new.
Qed.
Theorem C09_builders_wf : forall h w hh d m, wf_header h ->
  wf_header (with_size h w hh) /\ wf_header (with_dimensions h w hh d) /\ (1 <= m -> wf_header (with_mips h m)) /\ wf_header (with_mipmaps h).
Proof. intros h w hh d m H. split; [apply wf_with_size|split; [apply wf_with_dimensions|split; [intros; apply wf_with_mips|apply wf_with_mipmaps]]]; assumption. Qed.

(* ... except the two classes the DDS container cannot represent (known findings F6a, F6b):
   a DX9 header whose FourCC is 'DX10', and a DX10 Texture3D header with array_size <> 1 *)
Lemma C09_F6a_refuted : header_read false false None (header_write (dx9_new_image 4 4 (PFFourCC FOURCC_DX10))) <> HOk (dx9_new_image 4 4 (PFFourCC FOURCC_DX10)).
Proof. vm_compute. discriminate. Qed.
Lemma C09_F6b_refuted : header_read false false None (header_write (HDx10 4 4 (Some 2) 1 61 4 0 2 0)) <> HOk (HDx10 4 4 (Some 2) 1 61 4 0 2 0).
Proof. vm_compute. discriminate. Qed.

(* DX9 <-> DX10 conversion keeps dimensions, mip count, the pixel layout (every row of the current tables)
   and - for 2D textures, cube maps and volumes - the data layout *)
Theorem C09_conversion_fields : forall h h',
  (to_dx9 h = Some h' \/ to_dx10 h = Some h') ->
  h_height h' = h_height h /\ h_width h' = h_width h /\ h_depth h' = h_depth h /\ h_mips h' = h_mips h.
Proof. intros h h' [H|H]; [apply to_dx9_fields|apply to_dx10_fields]; exact H. Qed.
Theorem C09_conversion_pixel_info :
  forallb (fun row => match snd row with
                      | Some pf => match dx9_pi pf, dx10_pi (fst (fst row)) with Some a, Some b => pi_eqb a b | _, _ => false end
                      | None => true end) to_dx9_rows = true /\
  forallb (fun row => match cc_dxgi row with
                      | Some dx => match dx9_pi (PFFourCC (cc_code row)), dx10_pi dx with Some a, Some b => pi_eqb a b | _, _ => false end
                      | None => true end) fourcc_rows = true /\
  forallb (fun row => match mk_dxgi row with
                      | Some dx => match dx10_pi dx with Some b => pi_eqb (Fixed (mk_bits row / 8)) b | None => false end
                      | None => true end) mask_rows = true.
Proof. exact (conj to_dx9_table_pixel_info (conj to_dx10_table_pixel_info_fourcc to_dx10_table_pixel_info_mask)). Qed.
Theorem C09_conversion_layout : forall h h' p, to_dx9 h = Some h' ->
  (match h with HDx10 _ _ _ _ _ dim _ _ _ => dim = 3 \/ dim = 4 | _ => True end) ->
  from_header_with (lheader_of h') p = from_header_with (lheader_of h) p.
Proof. exact to_dx9_layout. Qed.

(* non-vacuity *)
Example C09_ex_bc1_cube : wf_header (with_mipmaps (dx10_new_cube 64 64 71)) /\ fields_u32 (with_mipmaps (dx10_new_cube 64 64 71)) /\
  h_mips (with_mipmaps (dx10_new_cube 64 64 71)) = 7.
Proof.
  split; [apply wf_with_mipmaps; apply wf_dx10_new_cube; vm_compute; discriminate|]. split; [|vm_compute; reflexivity].
  change (with_mipmaps (dx10_new_cube 64 64 71)) with (HDx10 64 64 None 7 71 3 4 1 1).
  unfold fields_u32. cbn [h_height h_width h_mips h_depth]. repeat split; try (intros d E; discriminate E); vm_compute; reflexivity.
Qed.

Definition C09_all := (C09_raw_bytes_roundtrip, C09_raw_write_read, C09_read_write_id, C09_written_len, C09_parsed_is_wf,
  C09_parse_normalises, C09_constructors_wf, C09_builders_wf, C09_conversion_fields, C09_conversion_pixel_info, C09_conversion_layout).
Redirect "props/C09.assumptions" Print Assumptions C09_all.
