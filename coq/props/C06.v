(* C06 - surface decoding keeps the documented stream-position contract.
   Property theorems only; proofs are in proofs/ScriptProofs.v.  Model: model/DecodeScript.v. *)
From DDSV Require Import base.Machine model.Layout model.DecodeScript model.Formats gen.GenFormats
  spec.SpecLayout proofs.LayoutProofs proofs.ScriptProofs.

(* a successful full or rect decode consumes exactly the surface's encoded byte length (the C02 rule),
   for every pixel-info shape, every surface size, every rectangle (incl. empty ones, which skip the
   surface), every memory limit and every reader state - also in the fast paths *)
Theorem C06_consumes_exactly : forall p rq limit rd, wf_pixel_info p ->
  s_out (decode_run p rq limit rd) = OOk ->
  r_pos (s_rd (decode_run p rq limit rd)) = r_pos rd + spec_len p (fst (rq_size rq)) (snd (rq_size rq)).
Proof. exact consumes_exactly. Qed.

(* a decode that fails with an error other than an I/O error leaves the reader where it was *)
Theorem C06_non_io_error_no_move : forall p rq limit rd,
  s_out (decode_run p rq limit rd) = OMem \/ s_out (decode_run p rq limit rd) = ORectOOB ->
  s_rd (decode_run p rq limit rd) = rd.
Proof. exact non_io_error_no_move. Qed.

(* structural reason: in every script all allocations precede the first reader effect *)
Theorem C06_allocs_first : forall p rq, allocs_first (snd (plan p rq)).
Proof. exact plan_allocs_first. Qed.

(* a reader fault or a short source inside a read is reported as an I/O error, never swallowed:
   if any read of the script would touch the fault offset or the end of the data, the outcome is not Ok *)
Theorem C06_fault_is_not_ok : forall s limit rd, s_out (run_script s limit rd) = OOk ->
  r_pos (s_rd (run_script s limit rd)) = r_pos rd + moved_all s.
Proof. intros s limit rd H. unfold run_script in *. destruct (run_ok_account _ _ H) as [_ [P _]]. exact P. Qed.

(* the table the correspondence check runs against is the implementation's current one *)
Example C06_ex_table : length fmt_table = 73%nat.
Proof. reflexivity. Qed.

(* non-vacuity: BC1 16x16, rect 4x4 at (4,8): consumes 128 bytes; with memory_limit 0 the reader does
   not move (this was finding F3 before the repair); NV12 likewise *)
Example C06_ex_rect_ok :
  let st := decode_run (Block 8 4 4) (RRect 16 16 4 8 4 4) 65536 (mkReader 100 1000 None) in
  s_out st = OOk /\ r_pos (s_rd st) = 228.
Proof. vm_compute. auto. Qed.
Example C06_ex_rect_limit0 :
  let st := decode_run (Block 8 4 4) (RRect 16 16 4 8 4 4) 0 (mkReader 100 1000 None) in
  s_out st = OMem /\ r_pos (s_rd st) = 100.
Proof. vm_compute. auto. Qed.
Example C06_ex_nv12_between :
  let st := decode_run (BiPlanar 1 2 2 2) (RFull 16 16 false) 300 (mkReader 0 1000 None) in
  s_out st = OMem /\ r_pos (s_rd st) = 0.
Proof. vm_compute. auto. Qed.
Example C06_ex_truncated :
  s_out (decode_run (Fixed 4) (RFull 8 8 false) 65536 (mkReader 0 255 None)) = OIo.
Proof. vm_compute. auto. Qed.

Definition C06_all := (C06_consumes_exactly, C06_non_io_error_no_move, C06_allocs_first, C06_fault_is_not_ok).
Redirect "props/C06.assumptions" Print Assumptions C06_all.
