(* C08 - any sequence of decoder operations stays in step with the file layout.
   Property theorems only; proofs are in proofs/DecoderProofs.v.

   Model: model/DecoderSM.v (src/iter.rs SurfaceIterator + src/decoder.rs Decoder operations, with every
   unwrap / debug_assert / unchecked u64 operation as a possible DPanic).  Spec: a cursor i over the
   flattened surface list (c_step), i.e. an index into C02's spec_flatten.
   Proved for every layout a header can yield: textures, arrays, cube maps, cube arrays, partial cube maps
   (TextureSurfaceIterator, flat cursor index i) and volumes (VolumeSurfaceIterator, cursor (level, depth)). *)
From DDSV Require Import base.Machine model.Layout model.DecoderSM spec.SpecLayout proofs.LayoutProofs proofs.DecoderProofs.

(* For every header that yields a texture-like layout and EVERY operation sequence (unbounded length):
   sim_run unfolds, op by op, to
     - the decoder never panics (no unwrap / debug_assert / u64 overflow fires);
     - the verdict (Ok / which error) equals the cursor's verdict c_step;
     - after a successful op, and after a failed cube read, rel d' i' holds for the cursor's next index i';
     - a rejected non-cube call leaves decoder and cursor exactly where they were (d' = d, i' = i);
     - cube reads write exactly the cells the cursor predicts (cell x, cell y, array element);
     - an I/O refusal can only occur if the data section exceeds i64::MAX bytes, and ends the comparison. *)
Theorem C08_decoder_refines_cursor : forall h p L ops,
  wf_pixel_info p -> 1 <= lh_mips h -> from_header_with h p = LOk L ->
  match L with
  | LTexture t => sim_run (t_p t) (t_w t) (t_h t) (t_mips t) 1 L (dec_init L) 0 ops
  | LArray a => sim_run (a_p a) (a_w a) (a_h a) (a_mips a) (a_len a) L (dec_init L) 0 ops
  | LVolume v => vsim_run (vo_p v) (vo_w v) (vo_h v) (vo_d v) (vo_mips v) (dec_init L) (0, 0) ops
  end.
Proof. exact decoder_refines_cursor_all. Qed.

(* volumes: the cursor is the pair (level, depth); vrel gives the reported surface and the reader position *)
Theorem C08_vrel_observe : forall p w h d mips dd c, wf_pixel_info p -> 1 <= mips <= 255 ->
  sum_vol p w h d 0 (N.to_nat mips) < U64 -> vrel p w h d mips dd c ->
  iter_current (d_it dd) = Some (if fst c <? mips then Some (vinfo p w h (fst c)) else None) /\
  d_pos dd = vpos p w h d (fst c) (snd c).
Proof. intros p w h d mips dd c Hp Hm HT. apply vrel_observe; assumption. Qed.

(* what rel means for the observer: reader position and reported surface are those of the cursor *)
Theorem C08_rel_observe : forall p w h mips len Lay d i, wf_pixel_info p ->
  1 <= mips <= 255 -> sum_lens p w h 0 (N.to_nat mips) < U64 -> sum_lens p w h 0 (N.to_nat mips) * len < U64 ->
  rel p w h mips len Lay d i ->
  d_pos d = c_offset p w h mips i /\
  iter_current (d_it d) = Some (if i <? total mips len then Some (info_at p w h (i mod mips)) else None).
Proof. intros p w h mips len Lay d i Hp Hm HL HT. apply rel_observe; assumption. Qed.

(* the cursor index is an index into the flattened surface list of C02, and c_offset / info_at are
   that surface's offset, size and length *)
Theorem C08_cursor_points_into_flatten : forall p w h m n i, 1 <= m -> i < n * m ->
  nth_error (spec_array p w h m n) (N.to_nat i) =
  Some (mkSurf (mip_dim w (i mod m)) (mip_dim h (i mod m)) (c_offset p w h m i)
               (spec_len p (mip_dim w (i mod m)) (mip_dim h (i mod m)))).
Proof. exact cursor_points_into_flatten. Qed.

(* reading every surface in order consumes exactly the data section *)
Theorem C08_read_all_consumes_data_section : forall p w h m n, 1 <= m ->
  c_offset p w h m (n * m) = sum_lens p w h 0 (N.to_nat m) * n.
Proof. exact c_offset_total. Qed.

(* non-vacuity: a cube map with 3 mips; read +X, skip its mips, rewind one, read the cube *)
Example C08_ex_cube :
  exists L, from_header_with (mkLH true 4 4 None 3 true Tex2D 1 0) (Fixed 4) = LOk L /\
    match fst (dec_step (dec_init L) (OpRead false)) with
    | DOk d1 => match fst (dec_step d1 OpSkipMips) with
                | DOk d2 => d_pos d2 = 84 /\ match dec_step d2 (OpCube false) with
                                            | (DOk d3, cells) => d_pos d3 = 504 /\ length cells = 5%nat
                                            | (DErr e d3, cells) => e = ENoMoreSurfaces /\ length cells = 5%nat
                                            | _ => False end
                | _ => False end
    | _ => False end.
Proof. eexists. split; [vm_compute; reflexivity|]. vm_compute. auto. Qed.

Definition C08_all := (C08_decoder_refines_cursor, C08_vrel_observe, C08_rel_observe, C08_cursor_points_into_flatten, C08_read_all_consumes_data_section).
Redirect "props/C08.assumptions" Print Assumptions C08_all.
