(* C20 - image views exist only for addressable geometry and never reach outside it.
   Property theorems only; proofs are in proofs/ViewProofs.v. *)
From DDSV Require Import base.Machine model.View spec.SpecView proofs.ViewProofs.

(* new_with: a view is returned exactly when the (normalised) geometry is addressable, evaluated in
   unbounded arithmetic; otherwise None.  The model never panics or wraps: every intermediate is
   checked (checked_mul64/checked_add64) or proved to fit (bytes_per_row_fits). *)
Theorem C20_new_with_iff : forall len pitch w h bpp,
  len < U64 ->
  let w' := norm_w w h in let h' := norm_h w h in let p' := norm_pitch w h pitch in
  (addressable len p' w' h' bpp ->
     view_new_with len pitch w h bpp = Some (mkView 0 (p' * (h' - 1) + w' * bpp) w' h' bpp p')) /\
  (~ addressable len p' w' h' bpp -> view_new_with len pitch w h bpp = None).
Proof. exact new_with_iff. Qed.

Theorem C20_bytes_per_row_fits : forall w bpp, w < U32 -> bpp <= 16 -> w * bpp < U64.
Proof. exact bytes_per_row_fits. Qed.

(* new: a view exactly when the length matches (slices are at most isize::MAX long) *)
Theorem C20_new_iff : forall len w h bpp,
  len <= I64MAX ->
  let w' := norm_w w h in let h' := norm_h w h in
  (len = w' * h' * bpp -> view_new len w h bpp = Some (mkView 0 len w' h' bpp (w' * bpp))) /\
  (len <> w' * h' * bpp -> view_new len w h bpp = None).
Proof. exact new_iff. Qed.

(* every view the constructors return is well formed *)
Theorem C20_new_with_wf : forall len pitch w h bpp v,
  len < U64 -> 0 < bpp -> view_new_with len pitch w h bpp = Some v -> wf v /\ v_len v <= len /\ v_off v = 0.
Proof. exact new_with_wf. Qed.
Theorem C20_new_wf : forall len w h bpp v,
  len <= I64MAX -> 0 < bpp -> view_new len w h bpp = Some v -> wf v /\ v_len v = len /\ v_off v = 0.
Proof. exact new_wf. Qed.

(* rows / rows_mut: exactly h slices of w*bpp bytes at multiples of the pitch (also for empty views:
   no rows), no panic, all inside the data, consecutive rows disjoint *)
Theorem C20_rows_spec : forall v, wf v ->
  rows v = VOk (spec_rows (v_pitch v) (v_w v) (v_h v) (v_bpp v)) /\
  rows_mut v = VOk (spec_rows (v_pitch v) (v_w v) (v_h v) (v_bpp v)).
Proof. intros v H. rewrite <- row_ranges_spec. split; [exact (rows_ok v H)|exact (rows_mut_ok v H)]. Qed.
Theorem C20_row_in_bounds : forall v y, wf v -> y < v_h v -> y * v_pitch v + v_w v * v_bpp v <= v_len v.
Proof. exact row_in_bounds. Qed.
Theorem C20_rows_disjoint : forall v y, wf v -> y + 1 < v_h v ->
  y * v_pitch v + v_w v * v_bpp v <= (y + 1) * v_pitch v.
Proof. exact rows_disjoint. Qed.

(* crop: rejects rectangles outside the parent; otherwise yields a well-formed view inside the
   parent's data whose row y is bytes [ox*bpp,(ox+cw)*bpp) of the parent's row oy+y *)
Theorem C20_crop_rejects : forall v ox oy cw ch,
  contains_rect (v_w v) (v_h v) ox oy cw ch = false -> cropped v ox oy cw ch = VPanic.
Proof. exact crop_rejects. Qed.
Theorem C20_crop_ok : forall v ox oy cw ch,
  wf v -> v_len v < U64 -> contains_rect (v_w v) (v_h v) ox oy cw ch = true ->
  let v' := crop_expected v ox oy cw ch in
  cropped v ox oy cw ch = VOk v' /\ wf v' /\
  v_off v <= v_off v' /\ v_off v' + v_len v' <= v_off v + v_len v.
Proof. exact crop_ok. Qed.
Theorem C20_crop_rows : forall v ox oy cw ch y,
  is_empty cw ch = false -> y < ch ->
  let v' := crop_expected v ox oy cw ch in
  abs_row v' y = (fst (abs_row v (oy + y)) + ox * v_bpp v,
                  fst (abs_row v (oy + y)) + (ox + cw) * v_bpp v).
Proof. exact crop_rows. Qed.
Theorem C20_no_overflow : forall v y, wf v -> v_len v <= I64MAX -> v_pitch v < U64 -> y < v_h v ->
  y * v_pitch v + v_w v * v_bpp v < U64 /\ v_pitch v * v_h v < U64.
Proof. exact wf_no_overflow. Qed.

(* non-vacuity: a strided 3x5 RGBA8 view of a 100-byte buffer, and its crop *)
Example C20_ex_view : exists v, view_new_with 100 20 3 5 4 = Some v /\ wf v /\
  cropped v 1 2 2 3 = VOk (mkView 44 48 2 3 4 20).
Proof. eexists. split; [vm_compute; reflexivity|]. split; [right; cbn; lia|vm_compute; reflexivity]. Qed.
(* the former overflow witness (F1): pitch 2^63+2, 1x3, is refused *)
Example C20_ex_f1 : view_new_with 64 9223372036854775810 1 3 4 = None.
Proof. vm_compute. reflexivity. Qed.
(* the former chunks_mut(0) witness (F2): rows_mut of the empty view has no rows *)
Example C20_ex_f2 : exists v, view_new 0 0 0 4 = Some v /\ rows_mut v = VOk [].
Proof. eexists. split; vm_compute; reflexivity. Qed.

Redirect "props/C20.assumptions" Print Assumptions C20_new_with_iff.
Redirect "props/C20.assumptions2" Print Assumptions C20_crop_ok.
