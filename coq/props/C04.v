(* C04 - uncompressed, packed, sub-sampled and planar formats decode to the ideal values.
   Property theorems only; proofs are in proofs/ConvertProofs{A,B,C,D}.v.  Models: model/Float.v (executable
   IEEE binary32/64), model/Convert.v (src/color/formats.rs), model/Uncomp.v (bit fields, channel order,
   defaults, chroma pairing of src/decode/{uncompressed,sub_sampled,bi_planar}.rs - this file is the declarative
   statement of the documented layouts and is tied to the code by differential execution on all 45 formats).
   Every theorem below quantifies over the whole input domain of the conversion it is about. *)
From Coq Require Import ZArith List Bool Lia.
From DDSV Require Import model.Float model.Convert spec.SpecNum proofs.ConvertProofsA proofs.ConvertProofsB proofs.ConvertProofsC proofs.ConvertProofsD proofs.YuvProofs model.Encode proofs.FloatMono proofs.FloatTotal proofs.QuantProofs proofs.QuantProofs16 model.Crop model.RectPath model.BiPlanarPath proofs.RectPathProofs proofs.BiPlanarProofs.
Import ListNotations.
Local Open Scope Z_scope.

(* UNORM fields of 1, 2, 4, 5, 6, 8, 10, 16 bits to 8 and 16 bit outputs: v / (2^n - 1) rounded to nearest *)
Theorem C04_unorm_nearest : forall f bits omax x, In (f, bits, omax) unorm_cases -> 0 <= x < 2 ^ bits ->
  nearest (f x) (x * omax) (2 ^ bits - 1).
Proof. exact unorm_nearest. Qed.
(* SNORM bytes / words: both minimum codes mean -1, mapped to [0, 1], rounded to nearest *)
Theorem C04_snorm8_nearest : forall x, 0 <= x < 256 ->
  s8_norm x = Z.max (signed_of 8 x) (-127) + 127 /\ nearest (s8_n8 x) (s8_norm x * 255) 254 /\ nearest (s8_n16 x) (s8_norm x * 65535) 254.
Proof. exact snorm8_nearest. Qed.
Theorem C04_snorm16_nearest : forall x, 0 <= x < 65536 ->
  s16_norm x = Z.max (signed_of 16 x) (-32767) + 32767 /\ nearest (s16_n8 x) (s16_norm x * 255) 65534 /\ nearest (s16_n16 x) (s16_norm x * 65535) 65534.
Proof. exact snorm16_nearest. Qed.
(* XR bias: (x - 0x180) / 510 clamped to [0, 1] for the integer outputs *)
Theorem C04_xr_nearest : forall x, 0 <= x < 1024 ->
  xr10_c x = Z.min 510 (Z.max 0 (x - 384)) /\ nearest (xr10_n8 x) (xr10_c x * 255) 510 /\ nearest (xr10_n16 x) (xr10_c x * 65535) 510.
Proof. exact xr_nearest. Qed.
(* F32 outputs: the correctly rounded quotient (the nearest binary32 value to the ideal real value) *)
Theorem C04_unorm_f32 :
  (forall x, 0 <= x < 2 -> f32_bits (n1_f32 x) = cr x 1) /\ (forall x, 0 <= x < 4 -> f32_bits (n2_f32 x) = cr x 3) /\
  (forall x, 0 <= x < 16 -> f32_bits (n4_f32 x) = cr x 15) /\ (forall x, 0 <= x < 32 -> f32_bits (n5_f32 x) = cr x 31) /\
  (forall x, 0 <= x < 64 -> f32_bits (n6_f32 x) = cr x 63) /\ (forall x, 0 <= x < 256 -> f32_bits (n8_f32 x) = cr x 255) /\
  (forall x, 0 <= x < 1024 -> f32_bits (n10_f32 x) = cr x 1023) /\ (forall x, 0 <= x < 256 -> f32_bits (s8_uf32 x) = cr (s8_norm x) 254) /\
  (forall x, 0 <= x < 1024 -> f32_bits (xr10_f32 x) = f32_bits (f32_div (F (x - 384)) (F 510))).
Proof. exact unorm_f32_correctly_rounded. Qed.
Theorem C04_n16_f32 : forall x, 0 <= x < 65536 -> f32_bits (n16_f32 x) = cr x 65535.
Proof. exact n16_f32_correctly_rounded. Qed.
Theorem C04_s16_f32 : forall x, 0 <= x < 65536 -> f32_bits (s16_uf32 x) = cr (s16_norm x) 65534.
Proof. exact s16_uf32_correctly_rounded. Qed.
(* 11 / 10 bit floats and the shared-exponent format *)
Theorem C04_small_floats :
  (forall x, 0 <= x < 2048 -> small_ok 6 false fp11_n8 255 x = true /\ small_ok 6 false fp11_n16 65535 x = true /\ small_exact 6 false x = true) /\
  (forall x, 0 <= x < 1024 -> small_ok 5 false fp10_n8 255 x = true /\ small_ok 5 false fp10_n16 65535 x = true /\ small_exact 5 false x = true).
Proof. exact small_floats_ok. Qed.
Theorem C04_rgb9995 : forall m e, 0 <= m < 512 -> 0 <= e < 32 ->
  near_dy (nth 0 (rgb9995 0 (rgb9995_word m e)) (-1)) m (e - 24) 255 = true /\
  near_dy (nth 0 (rgb9995 1 (rgb9995_word m e)) (-1)) m (e - 24) 65535 = true /\
  dy_eq (f32_of_bits (nth 0 (rgb9995 2 (rgb9995_word m e)) (-1))) false m (e - 24) = true.
Proof. exact rgb9995_ok. Qed.
(* half floats: exact at F32, nearest at 8 bits, nearest at 16 bits outside the four codes of finding F11 *)
Theorem C04_fp16 : forall x, 0 <= x < 65536 ->
  small_ok 10 true fp16_n8 255 x = true /\ small_exact 10 true x = true /\ (~ In x f11_codes -> small_ok 10 true fp16_n16 65535 x = true).
Proof. exact fp16_ok. Qed.
Theorem C04_fp16_n16_refuted : forall x, In x f11_codes -> small_ok 10 true fp16_n16 65535 x = false.
Proof. exact fp16_n16_refuted. Qed.

(* BT.601 limited range on the grey axis: 8-bit luma with neutral chroma decodes to the nearest 8-bit value of
   clamp((y - 16) / 219); the 10- and 16-bit formats miss nominal white (finding F16) *)
Theorem C04_yuv8_grey_axis : forall y, 0 <= y < 256 -> exists g, yuv 8 0 y 128 128 = [g; g; g] /\ nearest g (Z.min 219 (Z.max 0 (y - 16)) * 255) 219.
Proof. exact yuv8_grey_axis. Qed.
Theorem C04_yuv_wide_white_refuted :
  yuv 10 0 940 512 512 = [254; 254; 254] /\ yuv 10 1 940 512 512 = [65343; 65343; 65343] /\ yuv 16 0 60160 32768 32768 = [254; 254; 254].
Proof. exact yuv_wide_white_refuted. Qed.

(* f32 channels (R32*_FLOAT) to 8 and 16 bits, for EVERY f32 bit pattern b in [0, 2^40) (LIM = 0x53800000): the
   conversion is fp::n8 / fp::n16 = (x * max + 0.5) as integer; it is monotone and its boundary between k-1 and k
   is the f32 T8 k / T16 k, within one ULP of the correctly rounded ideal boundary (k - 1/2) / max *)
Theorem C04_f32_to_u8 : forall b k, 0 <= b < LIM -> 1 <= k <= 255 ->
  (b < T8 k -> fp_n8 (f32_of_bits b) <= k - 1) /\ (T8 k <= b -> k <= fp_n8 (f32_of_bits b)) /\ Z.abs (T8 k - ideal_boundary 255 k) <= 1.
Proof. exact n8_from_spec. Qed.
Theorem C04_f32_to_u16 : forall b k, 0 <= b < LIM -> 1 <= k <= 65535 ->
  (b < T16 k -> fp_n16 (f32_of_bits b) <= k - 1) /\ (T16 k <= b -> k <= fp_n16 (f32_of_bits b)) /\ Z.abs (T16 k - ideal_boundary 65535 k) <= 1.
Proof. exact n16_from_spec. Qed.
(* ... and outside that range, so that EVERY 32-bit pattern is decided: negative values, -0, -infinity and negative NaNs
   give 0; 2^40 up to the largest finite value and +infinity give the maximum; positive NaNs give 0 *)
Theorem C04_f32_to_u8_outside : forall b, 0 <= b < 2 ^ 32 ->
  (2147483648 <= b -> fp_n8 (f32_of_bits b) = 0) /\ (LIM <= b <= 2139095040 -> fp_n8 (f32_of_bits b) = 255) /\ (2139095040 < b < 2147483648 -> fp_n8 (f32_of_bits b) = 0).
Proof. exact n8_from_outside. Qed.
Theorem C04_f32_to_u16_outside : forall b, 0 <= b < 2 ^ 32 ->
  (2147483648 <= b -> fp_n16 (f32_of_bits b) = 0) /\ (LIM <= b <= 2139095040 -> fp_n16 (f32_of_bits b) = 65535) /\ (2139095040 < b < 2147483648 -> fp_n16 (f32_of_bits b) = 0).
Proof. exact n16_from_outside. Qed.

Example C04_ex_f11 : fp16_n16 14337 = 32800 /\ nearest 32799 (1025 * 65535) 2048.
Proof. exact fp16_n16_witness. Qed.
Example C04_ex_unorm : In (n5_n8, 5, 255) unorm_cases /\ n5_n8 31 = 255 /\ n5_n8 16 = 132.
Proof. split; [cbn; tauto|split; reflexivity]. Qed.

(* ---- chroma pairing ("sub-sampled and bi-planar formats pair each pixel with the chroma sample of its own 2x1 / 2x2
   cell").  The code paths are modelled line by line in model/RectPath.v and model/BiPlanarPath.v (see C05, tags 51 / 53).
   Bi-planar: for every plane element size, sub-sampling, width and height (odd ones included) the full decode through
   the helper with its offset / full / rest parts yields bp_spec_image: pixel (x, y) is gpx (plane-1 element y * W + x)
   (plane-2 element (y / sy) * ceil(W / sx) + x / sx) (y mod sy). *)
Theorem C04_bi_planar_pairing : forall (A B : Type) (e1 e2 sx sy : nat) (gpx : list Z -> list Z -> nat -> A) (cv : A -> B),
  (1 <= e1)%nat -> (1 <= e2)%nat -> (1 <= sx)%nat -> (1 <= sy)%nat ->
  forall (W H : nat) (data : list Z), (1 <= W)%nat -> (length data = W * e1 * H + cdiv W sx * e2 * cdiv H sy)%nat ->
  forall (conv : bool) (bufpx : nat), (1 <= H)%nat -> (conv = true -> sx <= bufpx)%nat ->
  bp_full_image A B e1 e2 sx sy cv (bp_row A e1 e2 sx gpx) conv bufpx W H data = Some (bp_spec_image A B e1 e2 sx sy gpx cv W H data).
Proof. exact bi_planar_pairing. Qed.
(* 2x1 macro pixels (YUY2, UYVY, Y210, Y216, R8G8_B8G8, G8R8_G8B8): through process_2x1_blocks_helper with its odd-width
   tail, pixel (x, y) of the full decode is entry x mod 2 of the macro pixel x / 2 of row y *)
Theorem C04_2x1_pairing : forall (A B : Type) (bpb : nat) (dec : list Z -> list A) (cv : A -> B), (1 <= bpb)%nat -> (forall b, length (dec b) = 2 * 1)%nat ->
  forall (conv : bool) (bbpp W H : nat) (data : list Z) x y d, (conv = true -> 1 <= bbpp /\ 2 * 1 * bbpp <= 3072)%nat ->
  (1 <= W)%nat -> (1 <= H)%nat -> (length data = cdiv W 2 * bpb * cdiv H 1)%nat -> (x < W)%nat -> (y < H)%nat ->
  exists img, full_image A B 2 1 bpb cv (p2x1_row A dec) conv 3072 bbpp W H data = Some img /\
    nth x (nth y img []) (cv d) = cv (nth (x mod 2) (dec (slice ((y * cdiv W 2 + x / 2) * bpb) bpb data)) d).
Proof. exact sub_sampled_2x1_pairing. Qed.

Definition C04_all := (C04_unorm_nearest, C04_snorm8_nearest, C04_snorm16_nearest, C04_xr_nearest, C04_unorm_f32, C04_n16_f32, C04_s16_f32,
  C04_small_floats, C04_rgb9995, C04_fp16, C04_fp16_n16_refuted, C04_yuv8_grey_axis, C04_yuv_wide_white_refuted, C04_f32_to_u8, C04_f32_to_u16, C04_f32_to_u8_outside, C04_f32_to_u16_outside, C04_bi_planar_pairing, C04_2x1_pairing).
Redirect "props/C04.assumptions" Print Assumptions C04_all.
