(* C10 - the encoder writes a complete, re-readable DDS file of exactly the declared size.
   Property theorems only.  The byte accounting is C11's invariant (bytes written = header + layout
   offset of the next surface) specialised to the end of the layout, plus C02's tiling theorem;
   that the bytes of each surface decode, and that the header re-reads equal, are established on the
   implementation by the check (re-opening every finished file), see DESIGN.md. *)
From DDSV Require Import base.Machine model.Layout model.DecoderSM model.EncoderSM spec.SpecLayout
  proofs.LayoutProofs proofs.DecoderProofs model.EncChunks proofs.EncChunksProofs.
From Coq Require Import List.
Import ListNotations.

(* whenever the encoder model is at the end of a texture / array / cube layout, it has written exactly
   header_len + the layout's data length, and that is the only state in which finish succeeds *)
Theorem C10_finished_len_tex : forall p w h mips len Lay mul e hl,
  wf_pixel_info p -> 1 <= mips <= 255 -> sum_lens p w h 0 (N.to_nat mips) < U64 -> sum_lens p w h 0 (N.to_nat mips) * len < U64 ->
  erel p w h mips len Lay mul e hl (total mips len) ->
  e_bytes e = hl + sum_lens p w h 0 (N.to_nat mips) * len.
Proof.
  intros p w h mips len Lay mul e hl Hp Hm HL HT [_ [_ [Hb _]]]. rewrite Hb. unfold total. rewrite c_offset_total by lia. reflexivity.
Qed.
Theorem C10_finished_len_vol : forall p w h d mips mul e hl,
  verel p w h d mips mul e hl (mips, 0) ->
  e_bytes e = hl + sum_vol p w h d 0 (N.to_nat mips).
Proof.
  intros p w h d mips mul e hl [_ [_ [_ [Hb _]]]]. rewrite Hb. cbn [fst snd]. unfold vpos, voff. lia.
Qed.

(* each accepted surface occupies exactly its layout length: one step of the invariant *)
Theorem C10_surface_len : forall p w h mips len i, wf_pixel_info p -> 1 <= mips <= 255 ->
  sum_lens p w h 0 (N.to_nat mips) < U64 -> sum_lens p w h 0 (N.to_nat mips) * len < U64 -> i < total mips len ->
  c_offset p w h mips (i + 1) = c_offset p w h mips i + si_len (info_at p w h (i mod mips)).
Proof. intros p w h mips len i Hp Hm HL HT Hlt. eapply c_offset_step; eassumption. Qed.

(* the layout's data length is the sum of its surfaces (C02) - so "header + data length" is the end of the last surface *)
Theorem C10_layout_total : forall h p L, wf_pixel_info p -> from_header_with h p = LOk L ->
  tiles 0 (spec_flatten L) (spec_total L) /\ layout_data_len L = Some (spec_total L).
Proof. intros h p L Hp H. destruct (layout_tiling h p L Hp H) as [_ [A [B _]]]. split; assumption. Qed.

(* the sub-sampled encoders (uncompressed_universal_subsample / process_subsample, model/EncChunks.v, tag 54) cut every row
   into chunks of 512 / bw * bw pixels; whatever the buffer size (at least one block), the blocks written for a row are
   the blocks of the whole row - ceil(width / bw) of them, the last one padded with the last pixel - so a surface has
   exactly the declared byte length *)
Theorem C10_subsample_row_blocks : forall (X Y : Type) (bw : nat) (fblk : list X -> Y) (dX : X), (1 <= bw)%nat ->
  forall (bufpx : nat) (row : list X), (bw <= bufpx)%nat ->
  subsample_row X Y bw fblk dX bufpx row = subsample_blocks X Y bw fblk dX row /\
  length (subsample_row X Y bw fblk dX bufpx row) = ((length row + bw - 1) / bw)%nat.
Proof. exact subsample_row_eq. Qed.
Example C10_subsample_ex : subsample_row nat (list nat) 2 (fun b => b) 0%nat 5 [1; 2; 3; 4; 5; 6; 7]%nat = [[1; 2]; [3; 4]; [5; 6]; [7; 7]]%nat.
Proof. reflexivity. Qed.

Definition C10_all := (C10_finished_len_tex, C10_finished_len_vol, C10_surface_len, C10_layout_total, C10_subsample_row_blocks).
Redirect "props/C10.assumptions" Print Assumptions C10_all.
