(* C18 - permissive parsing repairs known writer bugs and never harms a consistent file.
   Property theorems only; proofs are in proofs/PermissiveProofs.v.  Model: model/Header.v
   (Header::from_raw, Dx9PixelFormat::from_raw, Header::fix_based_on_file_len), layouts: model/Layout.v. *)
From DDSV Require Import base.Machine model.Layout model.Formats model.HeaderTypes gen.GenFormats gen.GenHeader model.Header
  proofs.HeaderProofs proofs.PermissiveProofs.

(* without a file length, permissive parsing changes nothing that strict parsing accepts *)
Theorem C18_no_len_is_noop : forall r h, from_raw false None r = HOk h -> from_raw true None r = HOk h.
Proof. exact no_len_is_noop. Qed.

(* a header that is already consistent with the supplied file length parses to the strict result *)
Theorem C18_consistent_file_unchanged : forall r h fl, from_raw false None r = HOk h -> consistent h fl ->
  from_raw true (Some fl) r = HOk h.
Proof. exact consistent_file_unchanged. Qed.

(* whenever a repair changes anything other than array_size 0 -> 1, the repaired layout matches the file
   length exactly *)
Theorem C18_repair_is_length_exact : forall h fl,
  let h' := fix_based_on_file_len h (Some fl) in
  h' = h \/
  (h_array h = Some 0 /\ h' = set_array h 1) \/
  (exists p, pixel_info_of_header h = Some p /\ MAGIC_LEN + header_byte_len h <= fl /\
             layout_len_of h' p = Some (expected_len h fl)).
Proof. exact repair_is_length_exact. Qed.

(* the known defects, applied to a header h0 that is consistent with the file: the permissive result has a
   layout whose length equals the file's data length *)
Theorem C18_repairs_array_zero : forall h0 p fl,
  pixel_info_of_header h0 = Some p -> MAGIC_LEN + header_byte_len h0 <= fl -> layout_len_of h0 p = Some (expected_len h0 fl) ->
  h_array h0 = Some 1 -> 0 < expected_len h0 fl -> test_len p (expected_len h0 fl) (set_array h0 0) = false ->
  layout_len_of (fix_based_on_file_len (set_array h0 0) (Some fl)) p = Some (expected_len h0 fl).
Proof. exact repairs_array_zero. Qed.
Theorem C18_repairs_cube_six : forall h0 p fl,
  pixel_info_of_header h0 = Some p -> MAGIC_LEN + header_byte_len h0 <= fl -> layout_len_of h0 p = Some (expected_len h0 fl) ->
  is_cube6 (set_array h0 6) = true -> h_array h0 = Some 1 -> test_len p (expected_len h0 fl) (set_array h0 6) = false ->
  layout_len_of (fix_based_on_file_len (set_array h0 6) (Some fl)) p = Some (expected_len h0 fl).
Proof. exact repairs_cube_six. Qed.
Theorem C18_repairs_mip_count : forall h0 p fl m,
  pixel_info_of_header h0 = Some p -> MAGIC_LEN + header_byte_len h0 <= fl -> layout_len_of h0 p = Some (expected_len h0 fl) ->
  test_len p (expected_len h0 fl) (with_mips h0 m) = false -> h_array h0 <> Some 0 ->
  In (h_mips h0) (guesses (with_mips h0 m)) ->
  layout_len_of (fix_based_on_file_len (with_mips h0 m) (Some fl)) p = Some (expected_len h0 fl).
Proof. intros h0 p fl m Hp Hfl Hg. exact (repairs_mip_count h0 p fl Hp Hfl Hg m). Qed.
(* the guesses reach a declared count that is off by one, dropped to 1, or a full chain *)
Theorem C18_guesses_reach : forall h0 m m0, 1 <= m0 -> m < U32 - 1 ->
  (m0 = 1 \/ m0 = m - 1 \/ m0 = m + 1 \/
   m0 = max_mips (N.max (N.max (h_width h0) (h_height h0)) (match h_depth h0 with Some d => d | None => 1 end))) ->
  h_mips h0 = m0 -> In m0 (guesses (with_mips h0 m)).
Proof. intros h0 m m0. exact (guesses_reach h0 m m0). Qed.

(* size / flag leniencies: the defective raw header parses (permissively) to what the clean one parses to *)
Theorem C18_lenient_header_size : forall r h, from_raw_nofix false r = HOk h -> from_raw_nofix true (set_size r 24) = HOk h.
Proof. exact lenient_header_size. Qed.
Theorem C18_lenient_pf_size : forall r h s, s = 0 \/ s = 24 -> from_raw_nofix false r = HOk h ->
  from_raw_nofix true (set_pf r (mkRawPF s (rp_flags (rh_pf r)) (rp_fourcc (rh_pf r)) (rp_bits (rh_pf r)) (rp_r (rh_pf r)) (rp_g (rh_pf r)) (rp_b (rh_pf r)) (rp_a (rh_pf r)))) = HOk h.
Proof. exact lenient_pf_size. Qed.
Theorem C18_lenient_fourcc_flag : forall cc flags, cc <> 0 -> has flags PF_FOURCC = false ->
  pf_from_raw true (mkRawPF RAW_PF_SIZE flags cc 0 0 0 0 0) = HOk (PFFourCC cc).
Proof. exact lenient_fourcc_flag. Qed.
Theorem C18_lenient_alpha_mode : forall r d h m2, rh_dx10 r = Some d -> 4 < N.land m2 7 ->
  from_raw_nofix true (set_dx10 r (mkRawDx10 (rd_format d) (rd_dim d) (rd_misc d) (rd_array d) 0)) = HOk h ->
  from_raw_nofix true (set_dx10 r (mkRawDx10 (rd_format d) (rd_dim d) (rd_misc d) (rd_array d) m2)) = HOk h.
Proof. exact lenient_alpha_mode. Qed.
Theorem C18_lenient_array_3d : forall r d h a, rh_dx10 r = Some d -> rd_dim d = 4 ->
  from_raw_nofix true (set_dx10 r (mkRawDx10 (rd_format d) 4 (rd_misc d) 1 (rd_misc2 d))) = HOk h ->
  from_raw_nofix true (set_dx10 r (mkRawDx10 (rd_format d) 4 (rd_misc d) a (rd_misc2 d))) = HOk h.
Proof. exact lenient_array_3d. Qed.

(* non-vacuity: a BC1 64x64 texture with a full chain (7 levels, 2744 bytes), declared with 6 levels *)
Example C18_ex_mips :
  let h0 := HDx10 64 64 None 7 71 3 0 1 0 in
  layout_len_of h0 (Block 8 4 4) = Some 2744 /\
  fix_based_on_file_len (with_mips h0 6) (Some (4 + 144 + 2744)) = h0.
Proof. vm_compute. auto. Qed.
Example C18_ex_array0_kept :          (* array 0 -> 1 is kept even if nothing matches *)
  fix_based_on_file_len (HDx10 4 4 None 1 28 3 0 0 0) (Some 1000) = HDx10 4 4 None 1 28 3 0 1 0.
Proof. vm_compute. reflexivity. Qed.

Definition C18_all := (C18_no_len_is_noop, C18_consistent_file_unchanged, C18_repair_is_length_exact, C18_repairs_array_zero,
  C18_repairs_cube_six, C18_repairs_mip_count, C18_guesses_reach, C18_lenient_header_size, C18_lenient_pf_size,
  C18_lenient_fourcc_flag, C18_lenient_alpha_mode, C18_lenient_array_3d).
Redirect "props/C18.assumptions" Print Assumptions C18_all.
