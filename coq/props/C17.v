(* C17 - progress only moves forward to 100% and cancellation is honoured.
   Property theorems only; proofs are in proofs/ProgressProofs.v.  Model: model/Progress.v (src/progress.rs,
   the report/cancel protocol of src/encode/mod.rs and src/encoder.rs), in exact rational arithmetic - the
   property itself excludes float rounding. *)
From Coq Require Import QArith Permutation Sorting.Sorted.
From DDSV Require Import base.Machine model.Progress proofs.ProgressProofs model.EncChunks proofs.EncChunksProofs.
From Coq Require Import List.

(* worker reports under ANY interleaving: whatever order the fragments finish in (any permutation of the
   fragment heights - the mutex makes each submit atomic), the shared counter takes strictly increasing values
   in [1, h], ends at h, and every reported fraction counter / (h + 1) lies strictly between 0 and 1; so 100% is
   only ever reported by the explicit final report after write-out *)
Theorem C17_parallel_reports_any_order : forall heights order h,
  (forall x, In x heights -> 1 <= x)%N -> fold_right N.add 0%N heights = h -> Permutation order heights ->
  StronglySorted N.lt (0%N :: psums 0 order) /\
  (forall d, In d (psums 0 order) -> (1 <= d <= h)%N) /\
  (order <> [] -> last (psums 0 order) 0%N = h).
Proof. exact parallel_reports_any_order. Qed.
Theorem C17_parallel_report_values : forall h order q, (forall d, In d (psums 0 order) -> (1 <= d <= h)%N) ->
  In q (parallel_reports h order) -> (0 < q /\ q < 1)%Q.
Proof. exact parallel_report_values. Qed.

(* nested ranges: a projected report stays inside its range and is monotone in the inner progress *)
Theorem C17_project_in : forall r p, (0 <= r_len r -> 0 <= p <= 1 -> r_start r <= project r p <= r_start r + r_len r)%Q.
Proof. exact project_in. Qed.
Theorem C17_project_mono : forall r p p', (0 <= r_len r -> p <= p' -> project r p <= project r p')%Q.
Proof. exact project_mono. Qed.
(* the per-mip-level ranges 1 - 0.4^l .. 1 - 0.4^(l+1) tile [0, 1) from 0 upwards *)
Theorem C17_level_ranges_tile : forall l,
  (0 <= level_start l /\ level_start l < level_start (S l) /\ level_start (S l) < 1 /\
   r_start (level_range l) == level_start l /\ r_start (level_range l) + r_len (level_range l) == level_start (S l) /\
   0 < r_len (level_range l))%Q.
Proof. exact level_ranges_tile. Qed.
Theorem C17_level_reports_monotone : forall l p p', (0 <= p <= 1 -> 0 <= p' <= 1 ->
  project (level_range l) p <= project (level_range (S l)) p')%Q.
Proof. exact level_reports_monotone. Qed.

(* cancellation: Encoder::write_surface_with_progress ends with checked_report(1.0) = [Check; Report 1], so a
   token set at ANY earlier report makes the call return Cancelled; a call whose first event is a Check
   (encode's entry check) and whose token is already set writes nothing *)
Theorem C17_cancel_at_any_report : forall body k, (k < length (reports_of body))%nat ->
  fst (run_trace (body ++ [Check; Report 1]) false (Some k) 0 0) = Cancelled.
Proof. exact encoder_cancel_at_any_report. Qed.
Theorem C17_precancelled_writes_nothing : forall t, run_trace (Check :: t) true None 0 0 = (Cancelled, 0%nat).
Proof. exact precancelled_writes_nothing. Qed.

(* the sequential encoders report chunk_index / chunk_count before each chunk: chunk_count is the real number of chunks
   (model/EncChunks.v, tied to the code by tag 54), so every such report is below 100% - div_ceil(pixels, buffer) for the
   whole-image chunking of for_each_chunk, rows * div_ceil(width, chunk pixels) for the per-row chunking of the
   dithering and sub-sampled encoders *)
Theorem C17_chunk_count_whole : forall (X : Type) (n : nat), (1 <= n)%nat -> forall rows : list (list X),
  length (fec_contiguous X n rows) = ((length (concat rows) + n - 1) / n)%nat.
Proof. exact chunk_count_whole. Qed.
Theorem C17_chunk_count_rows : forall (X : Type) (n : nat), (1 <= n)%nat -> forall (rows : list (list X)) (w : nat),
  Forall (fun r => length r = w) rows -> length (concat (map (EncChunks.chunks X n) rows)) = (length rows * ((w + n - 1) / n))%nat.
Proof. exact chunk_count_rows. Qed.

Example C17_ex : parallel_reports 10 [4; 2; 4]%N = [4 # 11; 6 # 11; 10 # 11].
Proof. reflexivity. Qed.

Definition C17_all := (C17_parallel_reports_any_order, C17_parallel_report_values, C17_project_in, C17_project_mono,
  C17_level_ranges_tile, C17_level_reports_monotone, C17_cancel_at_any_report, C17_precancelled_writes_nothing, C17_chunk_count_whole, C17_chunk_count_rows).
Redirect "props/C17.assumptions" Print Assumptions C17_all.
