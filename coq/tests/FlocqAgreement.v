(* A TEST, not a theorem about the code: the project's executable IEEE model (model/Float.v) agrees with Flocq's
   BinarySingleNaN operations (an independent, proved-correct implementation) on a fixed pseudo-random sample of
   operand pairs, evaluated inside the kernel.  Flocq brings the classical axioms of the real numbers into THIS file
   only; no property theorem depends on it. *)
From Coq Require Import ZArith List Bool.
From Flocq Require Import IEEE754.BinarySingleNaN IEEE754.Binary IEEE754.Bits.
From DDSV Require Import model.Float.
Import ListNotations.
Local Open Scope Z_scope.

Definition of_flocq (x : binary32) : fl :=
  match x with
  | Binary.B754_zero _ _ s => Fz s | Binary.B754_infinity _ _ s => Finf s | Binary.B754_nan _ _ _ _ _ => Fnan
  | Binary.B754_finite _ _ s m e _ => Ffin s m e
  end.
Definition fl_eqb (a b : fl) : bool :=
  match a, b with
  | Fz s, Fz t | Finf s, Finf t => Bool.eqb s t | Fnan, Fnan => true
  | Ffin s m e, Ffin t n f => Bool.eqb s t && Pos.eqb m n && Z.eqb e f | _, _ => false
  end.
Definition agree (a b : Z) : bool :=
  let x := b32_of_bits a in let y := b32_of_bits b in let x' := f32_of_bits a in let y' := f32_of_bits b in
  fl_eqb (of_flocq x) x' &&
  fl_eqb (of_flocq (b32_mult mode_NE x y)) (f32_mul x' y') &&
  fl_eqb (of_flocq (b32_plus mode_NE x y)) (f32_add x' y') &&
  fl_eqb (of_flocq (b32_minus mode_NE x y)) (f32_sub x' y') &&
  fl_eqb (of_flocq (b32_div mode_NE x y)) (f32_div x' y').

(* a 64-bit linear congruential generator; operands are the high 32 bits, some forced into interesting ranges *)
Fixpoint samples (n : nat) (s : Z) : list (Z * Z) :=
  match n with O => [] | S n' =>
    let s1 := (s * 6364136223846793005 + 1442695040888963407) mod 2 ^ 64 in
    let s2 := (s1 * 6364136223846793005 + 1442695040888963407) mod 2 ^ 64 in
    let pick := fun t => let v := t / 2 ^ 32 in
      match (t / 2 ^ 29) mod 8 with
      | 0 => v mod 2 ^ 23                                  (* subnormals and zero *)
      | 1 => 2139095040 - (v mod 4)                         (* near +infinity / largest finite *)
      | 2 => 1065353216 + (v mod 1024) - 512                (* around 1.0 *)
      | 3 => (v mod 2 ^ 23) + 2 ^ 31                        (* negative subnormals *)
      | _ => v end in
    (pick s1, pick s2) :: samples n' s2 end.
Definition special : list Z := [0; 2147483648; 1; 2147483649; 8388607; 8388608; 1065353216; 3212836864; 2139095039; 2139095040; 4286578688; 2143289344; 1056964608; 1073741824; 1199570688].
Example float_model_agrees_with_flocq :
  forallb (fun ab => agree (fst ab) (snd ab)) (samples 3000 20261002) &&
  forallb (fun a => forallb (fun b => agree a b) special) special = true.
Proof. vm_compute. reflexivity. Qed.
