(* Machine integers of the Rust code as unbounded N with explicit bounds / checked operators.
   usize is 64 bit (recorded assumption: x86-64). *)
From Coq Require Export NArith ZArith List Bool Lia.
From Coq Require Export ZifyBool ZifyNat ZifyN.
Export ListNotations.
Ltac Zify.zify_post_hook ::= Z.div_mod_to_equations.

Global Arguments N.add : simpl never.
Global Arguments N.sub : simpl never.
Global Arguments N.mul : simpl never.
Global Arguments N.div : simpl never.
Global Arguments N.modulo : simpl never.
Global Arguments N.ltb : simpl never.
Global Arguments N.leb : simpl never.
Global Arguments N.eqb : simpl never.
Global Arguments N.max : simpl never.
Global Arguments N.min : simpl never.
Global Arguments N.shiftr : simpl never.
Global Arguments N.shiftl : simpl never.
Global Arguments N.pow : simpl never.

Open Scope N_scope.

Definition U8  : N := 256.
Definition U16 : N := 65536.
Definition U32 : N := 4294967296.
Definition U64 : N := 18446744073709551616.
Definition I64MAX : N := 9223372036854775807.   (* i64::MAX = isize::MAX *)

(* checked arithmetic: None = overflow (Rust: checked_* returns None; plain operator panics in
   debug builds and wraps in release builds) *)
Definition checked_add64 (a b : N) : option N := if a + b <? U64 then Some (a + b) else None.
Definition checked_mul64 (a b : N) : option N := if a * b <? U64 then Some (a * b) else None.
Definition checked_mul32 (a b : N) : option N := if a * b <? U32 then Some (a * b) else None.
Definition saturating_mul64 (a b : N) : N := N.min (a * b) (U64 - 1).
Definition saturating_add64 (a b : N) : N := N.min (a + b) (U64 - 1).
Definition saturating_sub (a b : N) : N := a - b.    (* N subtraction truncates at 0 *)
Definition wrap64 (a : N) : N := a mod U64.
Definition wrap32 (a : N) : N := a mod U32.
Definition div_ceil (a b : N) : N := (a + b - 1) / b.   (* b > 0 at every use *)

(* N-indexed sequence start, start+1, ..., of n elements *)
Fixpoint nseq (n : nat) (start : N) : list N :=
  match n with O => [] | S n' => start :: nseq n' (start + 1) end.

Definition obind {A B} (o : option A) (f : A -> option B) : option B :=
  match o with Some a => f a | None => None end.
Notation "'let?' x ':=' o 'in' k" := (obind o (fun x => k))
  (at level 200, x pattern, o at level 100, k at level 200, right associativity).

Ltac chk_tac := intros; split; [intros H'; try discriminate H'; try (injection H' as H'); try lia | intros H'; try (f_equal; lia); try lia].
Lemma checked_add64_Some a b r : checked_add64 a b = Some r <-> (r = a + b /\ a + b < U64).
Proof. unfold checked_add64. destruct (N.ltb_spec (a+b) U64); chk_tac. Qed.
Lemma checked_mul64_Some a b r : checked_mul64 a b = Some r <-> (r = a * b /\ a * b < U64).
Proof. unfold checked_mul64. destruct (N.ltb_spec (a*b) U64); chk_tac. Qed.
Lemma checked_add64_None a b : checked_add64 a b = None <-> U64 <= a + b.
Proof. unfold checked_add64. destruct (N.ltb_spec (a+b) U64); chk_tac; reflexivity. Qed.
Lemma checked_mul64_None a b : checked_mul64 a b = None <-> U64 <= a * b.
Proof. unfold checked_mul64. destruct (N.ltb_spec (a*b) U64); chk_tac; reflexivity. Qed.

Lemma div_ceil_spec a b : 0 < b -> (div_ceil a b - 1) * b < a + (if a =? 0 then 1 else 0) /\ a <= div_ceil a b * b.
Proof.
  intros Hb. unfold div_ceil. destruct (N.eqb_spec a 0).
  - subst. replace (0 + b - 1) with (b - 1) by lia. rewrite N.div_small by lia. lia.
  - pose proof (N.div_mod (a + b - 1) b ltac:(lia)) as E.
    pose proof (N.mod_lt (a + b - 1) b ltac:(lia)) as L.
    set (q := (a + b - 1) / b) in *. set (r := (a + b - 1) mod b) in *.
    split; nia.
Qed.

Lemma nseq_In n : forall s y, In y (nseq n s) <-> s <= y < s + N.of_nat n.
Proof.
  induction n as [|n IH]; intros s y; cbn [nseq].
  - split; [intros []|lia].
  - cbn [In]. rewrite IH. lia.
Qed.
Lemma nseq_length n s : length (nseq n s) = n.
Proof. revert s; induction n as [|n IH]; intros s; cbn [nseq length]; [reflexivity|]. rewrite IH. reflexivity. Qed.
Lemma nseq_seq n : forall s, nseq n (N.of_nat s) = map N.of_nat (seq s n).
Proof.
  induction n as [|n IH]; intros s; cbn [nseq seq map]; [reflexivity|].
  f_equal. replace (N.of_nat s + 1) with (N.of_nat (S s)) by lia. apply IH.
Qed.
Lemma nseq_nth n : forall s k, (k < n)%nat -> nth k (nseq n s) 0 = s + N.of_nat k.
Proof.
  induction n as [|n IH]; intros s k Hk; [lia|]. cbn [nseq].
  destruct k as [|k]; cbn [nth]; [lia|]. rewrite IH by lia. lia.
Qed.
Lemma nseq_nth_error n : forall s k, (k < n)%nat -> nth_error (nseq n s) k = Some (s + N.of_nat k).
Proof.
  induction n as [|n IH]; intros s k Hk; [lia|]. cbn [nseq].
  destruct k as [|k]; cbn [nth_error]; [f_equal; lia|]. rewrite IH by lia. f_equal. lia.
Qed.
