(* Specification vocabulary for the numeric conversions (C04 / C12): "r is a nearest integer to num / den",
   "r is a nearest integer to clamp01(M * 2^E) * scale", "the float v is exactly (-1)^s * M * 2^E". *)
From Coq Require Import ZArith List Bool Lia.
From DDSV Require Import model.Float.
Import ListNotations.
Local Open Scope Z_scope.

Fixpoint zr_aux (fuel : nat) (i : Z) : list Z := match fuel with O => [] | S f => i :: zr_aux f (i + 1) end.
Definition zrange (n : Z) : list Z := zr_aux (Z.to_nat n) 0.
Lemma zr_aux_In f : forall i x, i <= x < i + Z.of_nat f -> In x (zr_aux f i).
Proof.
  induction f as [|f IH]; intros i x H; [lia|]. cbn [zr_aux]. destruct (Z.eq_dec x i) as [->|Hne]; [left; reflexivity|].
  right. apply IH. lia.
Qed.
Lemma zsweep (P : Z -> bool) (n : Z) : forallb P (zrange n) = true -> forall x, 0 <= x < n -> P x = true.
Proof. intros H x Hx. rewrite forallb_forall in H. apply H. apply zr_aux_In. lia. Qed.

(* both neighbours are accepted on an exact tie *)
Definition nearestb (r num den : Z) : bool := (2 * r * den <=? 2 * num + den) && (2 * num <=? 2 * r * den + den).
Definition nearest (r num den : Z) : Prop := 2 * r * den <= 2 * num + den /\ 2 * num <= 2 * r * den + den.
Lemma nearestb_spec r num den : nearestb r num den = true -> nearest r num den.
Proof. unfold nearestb, nearest. intros H. apply andb_prop in H. destruct H as [A B]. apply Z.leb_le in A, B. split; assumption. Qed.

(* nearest up to a slack of s / (2 den) of a unit *)
Definition nearest_slackb (r num den s : Z) : bool := (2 * r * den <=? 2 * num + den + s) && (2 * num <=? 2 * r * den + den + s).
Definition nearest_slack (r num den s : Z) : Prop := 2 * r * den <= 2 * num + den + s /\ 2 * num <= 2 * r * den + den + s.
Lemma nearest_slackb_spec r num den s : nearest_slackb r num den s = true -> nearest_slack r num den s.
Proof. unfold nearest_slackb, nearest_slack. intros H. apply andb_prop in H. destruct H as [A B]. apply Z.leb_le in A, B. split; assumption. Qed.

(* r is a nearest integer to clamp01(M * 2^E) * scale *)
Definition near_dy (r M E scale : Z) : bool :=
  if M <=? 0 then r =? 0 else
  let '(num, den) := if 0 <=? E then (M * 2 ^ E, 1) else (M, 2 ^ (- E)) in
  if den <=? num then r =? scale else nearestb r (num * scale) den.
(* v is exactly (-1)^s * M * 2^E, M >= 0 *)
Definition dy_eq (v : fl) (s : bool) (M E : Z) : bool :=
  match v with
  | Fz s' => (M =? 0) && Bool.eqb s s'
  | Ffin s' m e => Bool.eqb s s' && (let e0 := Z.min e E in Zpos m * 2 ^ (e - e0) =? M * 2 ^ (E - e0))
  | _ => false
  end.
(* two's complement value of an n-bit code *)
Definition signed_of (bits x : Z) : Z := if x <? 2 ^ (bits - 1) then x else x - 2 ^ bits.
