(* Independent statement of what an image view is (C20), in unbounded arithmetic. *)
From DDSV Require Import base.Machine.

(* geometry after the documented normalisation of empty sizes *)
Definition norm_w (w h : N) : N := if (w =? 0) || (h =? 0) then 0 else w.
Definition norm_h (w h : N) : N := if (w =? 0) || (h =? 0) then 0 else h.
Definition norm_pitch (w h pitch : N) : N := if (w =? 0) || (h =? 0) then 0 else pitch.

(* "the row pitch covers a row and every pixel row lies inside the buffer" *)
Definition addressable (len pitch w h bpp : N) : Prop :=
  w * bpp <= pitch /\ pitch * (h - 1) + w * bpp <= len.

(* the rows a view exposes: h slices of w*bpp bytes at multiples of the pitch *)
Definition spec_rows (pitch w h bpp : N) : list (N * N) :=
  map (fun y => (N.of_nat y * pitch, N.of_nat y * pitch + w * bpp)) (seq 0 (N.to_nat h)).
