(* Specification of BC1 - BC5 block decoding, written from the format description (D3D10/11 "Block Compression",
   Khronos Data Format spec ch. "S3TC" / "RGTC"), independent of the code's arithmetic:
   endpoints are UNORM / SNORM fields; palette entries are the exact interpolation, rounded to the nearest
   value of the output precision (8-bit for the BC1-3 colour/alpha paths, whose 16-bit output is the 8-bit
   value widened exactly; 8 or 16 bit for BC4/BC5, which decode natively at each precision). *)
From DDSV Require Import base.Machine.

(* r is a nearest integer to num / den  (both neighbours are accepted on an exact tie) *)
Definition nearest (r num den : N) : Prop := 2 * r * den <= 2 * num + den /\ 2 * num <= 2 * r * den + den.
Definition nearestb (r num den : N) : bool := (2 * r * den <=? 2 * num + den) && (2 * num <=? 2 * r * den + den).
Lemma nearestb_spec r num den : nearestb r num den = true -> nearest r num den.
Proof. unfold nearestb, nearest. intros H. apply andb_prop in H. destruct H as [A B]. apply N.leb_le in A, B. split; assumption. Qed.

(* one colour channel of a BC1-style palette: field width k bits (max = 2^k - 1), endpoints e0 e1 *)
Definition bc1_channel_spec (max e0 e1 : N) (four : bool) (p0 p1 p2 p3 : N) : Prop :=
  nearest p0 (e0 * 255) max /\ nearest p1 (e1 * 255) max /\
  if four then nearest p2 ((2 * e0 + e1) * 255) (3 * max) /\ nearest p3 ((e0 + 2 * e1) * 255) (3 * max)
  else nearest p2 ((e0 + e1) * 255) (2 * max) /\ p3 = 0.

(* BC4-style palette over endpoint values a, c on a scale 0..scale (255 for UNORM bytes, 254 for normalised
   SNORM bytes), output maximum omax (255 or 65535) *)
Definition bc4_palette_spec (scale omax a c : N) (six : bool) (lut : list N) : Prop :=
  match lut with
  | [p0; p1; p2; p3; p4; p5; p6; p7] =>
      nearest p0 (a * omax) scale /\ nearest p1 (c * omax) scale /\
      if six then
        nearest p2 ((6 * a + 1 * c) * omax) (7 * scale) /\ nearest p3 ((5 * a + 2 * c) * omax) (7 * scale) /\
        nearest p4 ((4 * a + 3 * c) * omax) (7 * scale) /\ nearest p5 ((3 * a + 4 * c) * omax) (7 * scale) /\
        nearest p6 ((2 * a + 5 * c) * omax) (7 * scale) /\ nearest p7 ((1 * a + 6 * c) * omax) (7 * scale)
      else
        nearest p2 ((4 * a + 1 * c) * omax) (5 * scale) /\ nearest p3 ((3 * a + 2 * c) * omax) (5 * scale) /\
        nearest p4 ((2 * a + 3 * c) * omax) (5 * scale) /\ nearest p5 ((1 * a + 4 * c) * omax) (5 * scale) /\
        p6 = 0 /\ p7 = omax
  | _ => False
  end.

(* a signed byte as a value on the scale 0..254: -128 and -127 both mean -1.0 *)
Definition snorm8_level (x : N) : N :=
  let s := if x <? 128 then Z.of_N x else (Z.of_N x - 256)%Z in      (* two's complement *)
  Z.to_N (Z.max s (-127) + 127).
