(* The DDS data-section rule, stated independently of the code's control flow (C02):
   surfaces in the order array element -> mip level -> depth slice, each of size
   max(1, dim >> level) and byte length ceil(w/bw)*ceil(h/bh)*block_bytes (or the planar sum),
   laid out back to back from offset 0.  Unbounded arithmetic. *)
From DDSV Require Import base.Machine model.Layout.

Definition mip (d level : N) : N := N.max 1 (N.shiftr d level).

Definition spec_len (p : pixel_info) (w h : N) : N :=
  match p with
  | Fixed b => w * h * b
  | Block by_ bw bh => div_ceil w bw * div_ceil h bh * by_
  | BiPlanar b1 b2 sx sy => w * h * b1 + div_ceil w sx * div_ceil h sy * b2
  end.

Definition wf_pixel_info (p : pixel_info) : Prop :=
  match p with
  | Fixed b => 1 <= b <= 255
  | Block by_ bw bh => 1 <= by_ <= 255 /\ 1 <= bw <= 15 /\ 1 <= bh <= 15
  | BiPlanar b1 b2 sx sy => b1 <= 15 /\ b2 <= 15 /\ 1 <= b1 + b2 /\ 1 <= sx <= 15 /\ 1 <= sy <= 15
  end.

(* mip chain of one texture starting at byte offset off: levels level .. level+n-1 *)
Fixpoint spec_mips (p : pixel_info) (w h level : N) (n : nat) (off : N) : list surf :=
  match n with
  | O => []
  | S n' =>
      let len := spec_len p (mip_dim w level) (mip_dim h level) in
      mkSurf (mip_dim w level) (mip_dim h level) off len :: spec_mips p w h (level + 1) n' (off + len)
  end.
Fixpoint sum_lens (p : pixel_info) (w h level : N) (n : nat) : N :=
  match n with
  | O => 0
  | S n' => spec_len p (mip_dim w level) (mip_dim h level) + sum_lens p w h (level + 1) n'
  end.

(* depth slices of one volume level *)
Definition spec_slices (w h d off slice : N) : list surf :=
  map (fun k => mkSurf w h (off + k * slice) slice) (nseq (N.to_nat d) 0).
Fixpoint spec_vol (p : pixel_info) (w h d level : N) (n : nat) (off : N) : list surf :=
  match n with
  | O => []
  | S n' =>
      let sl := spec_len p (mip_dim w level) (mip_dim h level) in
      spec_slices (mip_dim w level) (mip_dim h level) (mip_dim d level) off sl
        ++ spec_vol p w h d (level + 1) n' (off + mip_dim d level * sl)
  end.
Fixpoint sum_vol (p : pixel_info) (w h d level : N) (n : nat) : N :=
  match n with
  | O => 0
  | S n' => mip_dim d level * spec_len p (mip_dim w level) (mip_dim h level) + sum_vol p w h d (level + 1) n'
  end.

(* array of count textures, each of total length tlen, back to back *)
Definition spec_array (p : pixel_info) (w h mips count : N) : list surf :=
  let tlen := sum_lens p w h 0 (N.to_nat mips) in
  flat_map (fun i => spec_mips p w h 0 (N.to_nat mips) (i * tlen)) (nseq (N.to_nat count) 0).

Definition spec_flatten (L : layout) : list surf :=
  match L with
  | LTexture t => spec_mips (t_p t) (t_w t) (t_h t) 0 (N.to_nat (t_mips t)) 0
  | LArray a => spec_array (a_p a) (a_w a) (a_h a) (a_mips a) (a_len a)
  | LVolume v => spec_vol (vo_p v) (vo_w v) (vo_h v) (vo_d v) 0 (N.to_nat (vo_mips v)) 0
  end.
Definition spec_total (L : layout) : N :=
  match L with
  | LTexture t => sum_lens (t_p t) (t_w t) (t_h t) 0 (N.to_nat (t_mips t))
  | LArray a => sum_lens (a_p a) (a_w a) (a_h a) 0 (N.to_nat (a_mips a)) * a_len a
  | LVolume v => sum_vol (vo_p v) (vo_w v) (vo_h v) (vo_d v) 0 (N.to_nat (vo_mips v))
  end.

(* contiguity: first surface at `off`, each next one where the previous ends, last ends at `fin` *)
Fixpoint tiles (off : N) (l : list surf) (fin : N) : Prop :=
  match l with
  | [] => off = fin
  | s :: r => s_off s = off /\ tiles (off + s_len s) r fin
  end.

(* ---- which object a header describes (the DDS rules), ignoring sizes in bytes *)
Inductive shape :=
| ShTexture (w h mips : N)
| ShArray (k : array_kind) (w h mips count : N)
| ShVolume (w h d mips : N).

Definition spec_dims2 (h : lheader) : lres (N * N * N) :=
  if lh_w h =? 0 then LErr ZeroDimension else
  if lh_h h =? 0 then LErr ZeroDimension else
  if 255 <? lh_mips h then LErr TooManyMipMaps else LOk (lh_w h, lh_h h, lh_mips h).
Definition spec_dims3 (h : lheader) : lres (N * N * N * N) :=
  if lh_w h =? 0 then LErr ZeroDimension else
  if lh_h h =? 0 then LErr ZeroDimension else
  match lh_depth h with
  | None => LErr MissingDepth
  | Some d => if d =? 0 then LErr ZeroDimension else
              if 255 <? lh_mips h then LErr TooManyMipMaps else LOk (lh_w h, lh_h h, d, lh_mips h)
  end.

Definition spec_shape (h : lheader) : lres shape :=
  if lh_dx10 h then
    if lh_cube10 h then
      match lh_dim h with
      | Tex2D => match spec_dims2 h with
                 | LErr e => LErr e
                 | LOk (w, hh, m) =>
                     if lh_array h * 6 <? U32 then LOk (ShArray KCubeMaps w hh m (lh_array h * 6))
                     else LErr ArraySizeTooBig
                 end
      | _ => LErr InvalidCubeMapFaces
      end
    else match lh_dim h with
      | Tex3D => match spec_dims3 h with LErr e => LErr e | LOk (w, hh, d, m) => LOk (ShVolume w hh d m) end
      | dim => match spec_dims2 h with
               | LErr e => LErr e
               | LOk (w, hh, m) =>
                   let hh := match dim with Tex1D => 1 | _ => hh end in
                   if lh_array h =? 1 then LOk (ShTexture w hh m) else LOk (ShArray KTextures w hh m (lh_array h))
               end
      end
  else
    if has_bits (lh_caps2 h) CAPS2_CUBE_MAP then
      if has_bits (lh_caps2 h) CAPS2_VOLUME then LErr InvalidCubeMapFaces else
      match spec_dims2 h with
      | LErr e => LErr e
      | LOk (w, hh, m) =>
          let faces := cube_faces (lh_caps2 h) in
          let n := count_faces faces in
          LOk (ShArray (if n =? 6 then KCubeMaps else KPartial faces) w hh m n)
      end
    else if has_bits (lh_caps2 h) CAPS2_VOLUME then
      match spec_dims3 h with LErr e => LErr e | LOk (w, hh, d, m) => LOk (ShVolume w hh d m) end
    else
      match spec_dims2 h with LErr e => LErr e | LOk (w, hh, m) => LOk (ShTexture w hh m) end.

(* exact (unbounded) byte totals *)
Definition elem_total (sh : shape) (p : pixel_info) : N :=
  match sh with
  | ShTexture w h m => sum_lens p w h 0 (N.to_nat m)
  | ShArray _ w h m _ => sum_lens p w h 0 (N.to_nat m)
  | ShVolume w h d m => sum_vol p w h d 0 (N.to_nat m)
  end.
Definition exact_total (sh : shape) (p : pixel_info) : N :=
  match sh with
  | ShArray _ w h m n => sum_lens p w h 0 (N.to_nat m) * n
  | _ => elem_total sh p
  end.

Definition layout_of_shape (sh : shape) (p : pixel_info) : layout :=
  match sh with
  | ShTexture w h m => LTexture (mkTex w h m p 0 (to_short_len (sum_lens p w h 0 (N.to_nat m))))
  | ShArray k w h m n => LArray (mkArr k n w h m p (to_short_len (sum_lens p w h 0 (N.to_nat m))))
  | ShVolume w h d m => LVolume (mkVol w h d m p)
  end.

Definition shape_dims_pos (sh : shape) : Prop :=
  match sh with
  | ShTexture w h _ => 1 <= w /\ 1 <= h
  | ShArray _ w h _ _ => 1 <= w /\ 1 <= h
  | ShVolume w h d _ => 1 <= w /\ 1 <= h /\ 1 <= d
  end.
