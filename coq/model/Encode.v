(* Model of the uncompressed encoders of src/encode/uncompressed.rs (pixel formats, ids 0..34), without
   dithering: the "universal" path - the input pixel is converted to four f32 channels (exactly as
   as_rgba_f32 does) and each stored channel is quantised by the from_f32 function of its field type.
   A channel is carried as its f32 bit pattern, so that the float formats copy it unchanged. *)
From Coq Require Import ZArith List Bool Lia.
From DDSV Require Import model.Float model.Convert.
Import ListNotations.
Local Open Scope Z_scope.

Definition V (bits : Z) : fl := f32_of_bits bits.
Definition one_bits : Z := 1065353216.
Definition fmin1 (x : fl) : fl := fmin x (F 1).        (* x.min(1.0): a NaN becomes 1.0 *)
Definition q (max : Z) (limit : Z) (x : fl) : Z := to_unsigned limit (f32_add (f32_mul x (F max)) half_f).
Definition n1_from (b : Z) : Z := if fle (f32_of_bits 1056964608) (V b) then 1 else 0.
Definition n2_from (b : Z) : Z := q 3 255 (fmin1 (V b)).
Definition n4_from (b : Z) : Z := q 15 255 (fmin1 (V b)).
Definition n5_from (b : Z) : Z := q 31 255 (fmin1 (V b)).
Definition n6_from (b : Z) : Z := q 63 255 (fmin1 (V b)).
Definition n8_from (b : Z) : Z := q 255 255 (V b).
Definition n10_from (b : Z) : Z := q 1023 65535 (fmin1 (V b)).
Definition n16_from (b : Z) : Z := q 65535 65535 (V b).
Definition s8_from (b : Z) : Z := (q 254 255 (fmin1 (V b)) + 1 - 128) mod 256.
Definition s16_from (b : Z) : Z :=
  let x := f32_to_f64 (fmin1 (V b)) in
  (to_unsigned 65535 (f64_add (f64_mul x (f64_of_Z 65534)) (f64_of_bits 4602678819172646912)) + 1 - 32768) mod 65536.
Definition xr10_from (b : Z) : Z := Z.min 1023 (to_unsigned 65535 (f32_add (f32_mul (V b) (F 510)) (f32_div (F 769) (F 2)))).

(* fp16::from_f32 on the bit pattern *)
Definition fp16_from (x : Z) : Z :=
  let sign := Z.land x 2147483648 in let exp := Z.land x 2139095040 in let man := Z.land x 8388607 in
  let half_sign := Z.shiftr sign 16 in
  if exp =? 2139095040 then Z.lor (Z.lor (Z.lor half_sign 31744) (if man =? 0 then 0 else 512)) (Z.shiftr man 13)
  else
    let half_exp := Z.shiftr exp 23 - 127 + 15 in
    if 31 <=? half_exp then Z.lor half_sign 31744
    else if half_exp <=? 0 then
      if 24 <? 14 - half_exp then half_sign
      else
        let man' := Z.lor man 8388608 in
        let half_man := Z.shiftr man' (14 - half_exp) in
        let round_bit := Z.shiftl 1 (13 - half_exp) in
        let up := negb (Z.land man' round_bit =? 0) && negb (Z.land man' (3 * round_bit - 1) =? 0) in
        Z.lor half_sign (if up then half_man + 1 else half_man)
    else
      let v := Z.lor (Z.lor half_sign (Z.shiftl half_exp 10)) (Z.shiftr man 13) in
      if negb (Z.land man 4096 =? 0) && negb (Z.land man 12287 =? 0) then v + 1 else v.
(* f32_mantissa_round_half_up and f32_to_unsigned_fp_e5 *)
Definition is_normal_bits (x : Z) : bool := let e := Z.shiftr x 23 mod 256 in negb (e =? 0) && negb (e =? 255).
Definition mant_round (n x : Z) : Z :=
  let f_m0 := x - Z.land x 8388607 in
  let f_mn := Z.lor f_m0 (Z.shiftl 1 (23 - n - 1)) in
  let x' := f32_add (V x) (f32_sub (V f_mn) (V f_m0)) in
  let xb := f32_bits x' in xb - Z.land xb (Z.shiftr 8388607 n).
Definition small_from (n : Z) (x : Z) : Z :=
  match V x with
  | Fnan => 2 ^ (n + 5) - 1
  | v => if fle v (F 0) then 0 else
         let x' := if is_normal_bits x then mant_round n x else x in
         let h := fp16_from x' in
         Z.shiftl (Z.shiftr h 10 mod 32) n + Z.shiftr (h mod 1024) (10 - n)
  end.
(* rgb9995f::from_f32 *)
Definition fmax0 (x : fl) : fl := fmax x (F 0).
Definition rgb9995_from (r g b : Z) : Z :=
  let cl := fun x => fmin (fmax0 (V x)) (F 65408) in
  let r := cl r in let g := cl g in let b := cl b in
  let mx := fmax (fmax r g) b in
  let mb := f32_bits mx in
  if (match mx with Fz _ => true | _ => false end) || ((Z.shiftr mb 23 mod 256 =? 0)) then 0 else
  let e0 := Z.max 0 (Z.shiftr mb 23 mod 256 - 127 + 16) in
  let mants := fun e => map (fun c => to_unsigned 4294967295 (f32_add (f32_mul c (two_powi (- (e - 24)))) half_f)) [r; g; b] in
  let m0 := mants e0 in
  let e := if existsb (Z.eqb 512) m0 then e0 + 1 else e0 in
  let m := if existsb (Z.eqb 512) m0 then mants e else m0 in
  nth 0 m 0 + Z.shiftl (nth 1 m 0) 9 + Z.shiftl (nth 2 m 0) 18 + Z.shiftl e 27.
(* yuv*::from_rgb_f32 *)
Definition yuv_from (max yoff coff limit : Z) (clampmax : bool) (r g b : Z) : list Z :=
  let s := fun x => f32_mul (V x) (F max) in
  let r := s r in let g := s g in let b := s b in
  let half2 := fun k => f32_div (F (2 * k + 1)) (F 2) in
  let y := f32_add (f32_add (f32_add (f32_mul (lit6 256788) r) (f32_mul (lit6 504129) g)) (f32_mul (lit6 97906) b)) (half2 yoff) in
  let u := f32_add (f32_add (f32_sub (f32_mul (fneg (lit6 148223)) r) (f32_mul (lit6 290993) g)) (f32_mul (lit6 439216) b)) (half2 coff) in
  let v := f32_add (f32_sub (f32_sub (f32_mul (lit6 439216) r) (f32_mul (lit6 367788) g)) (f32_mul (lit6 71427) b)) (half2 coff) in
  map (fun x => let t := to_unsigned limit x in if clampmax then Z.min max t else t) [y; u; v].

Definition le_bytes (n : nat) (x : Z) : list Z := map (fun i => Z.shiftr x (8 * Z.of_nat i) mod 256) (seq 0 n).

(* the pixel as four f32 bit patterns, from the input colour format: channels 0 Grayscale, 1 Alpha, 2 Rgb, 3 Rgba;
   precision 0 U8, 1 U16, 2 F32 *)
Definition to_rgba_f32 (channels prec : Z) (px : list Z) : list Z :=
  let cv := fun x => if prec =? 0 then f32_bits (n8_f32 x) else if prec =? 1 then f32_bits (n16_f32 x) else x in
  let c := fun i => cv (nth i px 0) in
  if channels =? 0 then [c 0%nat; c 0%nat; c 0%nat; one_bits]
  else if channels =? 1 then [0; 0; 0; c 0%nat]
  else if channels =? 2 then [c 0%nat; c 1%nat; c 2%nat; one_bits]
  else [c 0%nat; c 1%nat; c 2%nat; c 3%nat].

Definition encode_px (f : Z) (p : list Z) : list Z :=
  let r := nth 0 p 0 in let g := nth 1 p 0 in let b := nth 2 p 0 in let a := nth 3 p 0 in
  match f with
  | 0 => [n8_from r; n8_from g; n8_from b]
  | 1 => [n8_from b; n8_from g; n8_from r]
  | 2 => map n8_from [r; g; b; a]
  | 3 => map s8_from [r; g; b; a]
  | 4 => map n8_from [b; g; r; a]
  | 5 => [n8_from b; n8_from g; n8_from r; 255]
  | 6 => le_bytes 2 (n5_from b + Z.shiftl (n6_from g) 5 + Z.shiftl (n5_from r) 11)
  | 7 => le_bytes 2 (n5_from b + Z.shiftl (n5_from g) 5 + Z.shiftl (n5_from r) 10 + Z.shiftl (n1_from a) 15)
  | 8 => le_bytes 2 (n4_from b + Z.shiftl (n4_from g) 4 + Z.shiftl (n4_from r) 8 + Z.shiftl (n4_from a) 12)
  | 9 => le_bytes 2 (n4_from a + Z.shiftl (n4_from b) 4 + Z.shiftl (n4_from g) 8 + Z.shiftl (n4_from r) 12)
  | 10 => [s8_from r]
  | 11 => [n8_from r]
  | 12 => [n8_from r; n8_from g]
  | 13 => [s8_from r; s8_from g]
  | 14 => [n8_from a]
  | 15 => le_bytes 2 (n16_from r)
  | 16 => le_bytes 2 (s16_from r)
  | 17 => le_bytes 2 (n16_from r) ++ le_bytes 2 (n16_from g)
  | 18 => le_bytes 2 (s16_from r) ++ le_bytes 2 (s16_from g)
  | 19 => flat_map (fun x => le_bytes 2 (n16_from x)) [r; g; b; a]
  | 20 => flat_map (fun x => le_bytes 2 (s16_from x)) [r; g; b; a]
  | 21 => le_bytes 4 (n10_from r + Z.shiftl (n10_from g) 10 + Z.shiftl (n10_from b) 20 + Z.shiftl (n2_from a) 30)
  | 22 => le_bytes 4 (small_from 6 r + Z.shiftl (small_from 6 g) 11 + Z.shiftl (small_from 5 b) 22)
  | 23 => le_bytes 4 (rgb9995_from r g b)
  | 24 => le_bytes 2 (fp16_from r)
  | 25 => le_bytes 2 (fp16_from r) ++ le_bytes 2 (fp16_from g)
  | 26 => flat_map (fun x => le_bytes 2 (fp16_from x)) [r; g; b; a]
  | 27 => le_bytes 4 r
  | 28 => le_bytes 4 r ++ le_bytes 4 g
  | 29 => flat_map (le_bytes 4) [r; g; b]
  | 30 => flat_map (le_bytes 4) [r; g; b; a]
  | 31 => le_bytes 4 (xr10_from r + Z.shiftl (xr10_from g) 10 + Z.shiftl (xr10_from b) 20 + Z.shiftl (n2_from a) 30)
  | 32 => let yuv := yuv_from 255 16 128 255 false r g b in [nth 2 yuv 0; nth 1 yuv 0; nth 0 yuv 0; n8_from a]
  | 33 => let yuv := yuv_from 1023 64 512 65535 true r g b in
          le_bytes 4 (nth 1 yuv 0 + Z.shiftl (nth 0 yuv 0) 10 + Z.shiftl (nth 2 yuv 0) 20 + Z.shiftl (n2_from a) 30)
  | 34 => let yuv := yuv_from 65535 4096 32768 65535 false r g b in
          le_bytes 2 (nth 1 yuv 0) ++ le_bytes 2 (nth 0 yuv 0) ++ le_bytes 2 (nth 2 yuv 0) ++ le_bytes 2 (n16_from a)
  | _ => []
  end.

Fixpoint chunksZ (fuel n : nat) (l : list Z) : list (list Z) :=
  match fuel with O => [] | S fu => match l with [] => [] | _ => firstn n l :: chunksZ fu n (skipn n l) end end.
Definition chcountZ (c : Z) : nat := if c =? 0 then 1 else if c =? 1 then 1 else if c =? 2 then 3 else 4.
(* an image given as the flat list of its channel values *)
Definition encode_image (f channels prec : Z) (values : list Z) : list Z :=
  flat_map (fun px => encode_px f (to_rgba_f32 channels prec px)) (chunksZ (length values) (chcountZ channels) values).

(* ---- sub-sampled (ids 35..41) and bi-planar (42..44) encoders: src/encode/sub_sampled.rs, bi_planar.rs *)
Definition qf8 (x : fl) : Z := q 255 255 x.
Definition mid (a b : Z) : Z := (a + b) / 2.
Definition yuv8_from (p : list Z) : list Z := yuv_from 255 16 128 255 false (nth 0 p 0) (nth 1 p 0) (nth 2 p 0).
Definition yuv10_from (p : list Z) : list Z := yuv_from 1023 64 512 65535 true (nth 0 p 0) (nth 1 p 0) (nth 2 p 0).
Definition yuv16_from (p : list Z) : list Z := yuv_from 65535 4096 32768 65535 false (nth 0 p 0) (nth 1 p 0) (nth 2 p 0).
(* one macro pixel: blk holds the 2 (R1: 8) pixels as rgba bit patterns *)
Definition encode_macro (f : Z) (blk : list (list Z)) : list Z :=
  let p0 := nth 0 blk [] in let p1 := nth 1 blk [] in
  let avg := fun c => qf8 (f32_mul (f32_add (V (nth c p0 0)) (V (nth c p1 0))) half_f) in
  let rgbg := [avg 0%nat; n8_from (nth 1 p0 0); avg 2%nat; n8_from (nth 1 p1 0)] in
  let yuy2 := let a := yuv8_from p0 in let b := yuv8_from p1 in [nth 0 a 0; mid (nth 1 a 0) (nth 1 b 0); nth 0 b 0; mid (nth 2 a 0) (nth 2 b 0)] in
  let y216 := let a := yuv16_from p0 in let b := yuv16_from p1 in [nth 0 a 0; mid (nth 1 a 0) (nth 1 b 0); nth 0 b 0; mid (nth 2 a 0) (nth 2 b 0)] in
  match f with
  | 35 => [fold_left (fun acc ip => acc + Z.shiftl (n1_from (nth 0 (snd ip) 0)) (7 - Z.of_nat (fst ip))) (combine (seq 0 8) blk) 0]
  | 36 => rgbg
  | 37 => [nth 1 rgbg 0; nth 0 rgbg 0; nth 3 rgbg 0; nth 2 rgbg 0]
  | 38 => [nth 1 yuy2 0; nth 0 yuy2 0; nth 3 yuy2 0; nth 2 yuy2 0]
  | 39 => yuy2
  | 40 => flat_map (fun c => le_bytes 2 (Z.land c 65472)) y216
  | 41 => flat_map (le_bytes 2) y216
  | _ => []
  end.
Fixpoint blocks_of {A} (fuel bw : nat) (row : list A) (last : A) : list (list A) :=
  match fuel with O => [] | S fu =>
    match row with [] => [] | _ => let b := firstn bw row in (b ++ repeat last (bw - length b)) :: blocks_of fu bw (skipn bw row) last end end.
Definition encode_sub_row (f : Z) (row : list (list Z)) : list Z :=
  let bw := if f =? 35 then 8%nat else 2%nat in
  flat_map (encode_macro f) (blocks_of (length row) bw row (last row [])).
Fixpoint rows_of {A} (fuel w : nat) (l : list A) : list (list A) :=
  match fuel with O => [] | S fu => match l with [] => [] | _ => firstn w l :: rows_of fu w (skipn w l) end end.
(* bi-planar: plane 1 row by row, then plane 2 (one chroma pair per 2x2 block: the mean of the four samples) *)
Definition encode_biplanar (f : Z) (w : nat) (px : list (list Z)) : list Z :=
  let rows := rows_of (length px) w px in
  let from := if f =? 42 then yuv8_from else if f =? 43 then yuv10_from else yuv16_from in
  let yb := fun v => if f =? 42 then [v] else if f =? 43 then le_bytes 2 (Z.shiftl v 6) else le_bytes 2 v in
  let plane1 := flat_map (fun r => flat_map (fun p => yb (nth 0 (from p) 0)) r) rows in
  let pairs := rows_of (length rows) 2 rows in
  let plane2 := flat_map (fun pr =>
      let r0 := nth 0 pr [] in let r1 := nth 1 pr [] in
      flat_map (fun x => let blk := map from [nth (2 * x) r0 []; nth (2 * x + 1) r0 []; nth (2 * x) r1 []; nth (2 * x + 1) r1 []] in
                         let u := fold_right Z.add 0 (map (fun y => nth 1 y 0) blk) / 4 in
                         let v := fold_right Z.add 0 (map (fun y => nth 2 y 0) blk) / 4 in
                         yb u ++ yb v) (seq 0 (w / 2))) pairs in
  plane1 ++ plane2.
(* any of the 45 formats, image of width w given as the flat list of its channel values *)
Definition encode_image_wh (f channels prec : Z) (w : nat) (values : list Z) : list Z :=
  let px := map (to_rgba_f32 channels prec) (chunksZ (length values) (chcountZ channels) values) in
  if f <? 35 then flat_map (encode_px f) px
  else if f <? 42 then flat_map (encode_sub_row f) (rows_of (length px) w px)
  else encode_biplanar f w px.
