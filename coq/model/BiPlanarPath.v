(* C05 / C04: line-by-line model of the bi-planar code paths of src/decode/read_write.rs (NV12, P010, P016):

     process_bi_planar_helper                -> bp_row      (offset part, full macro pixels, rest)
     ChannelConversionBuffer::process_bi_planar -> bp_calls (offset call, then chunks of round_down(3072 / bpp, sx) pixels
                                                 with their plane-2 element ranges)
     for_each_bi_planar_rect                 -> bp_rect_emits (the uv-line loop with its running y, `continue` before the
                                                 rectangle and `break` after it) and bp_rect_image
     for_each_bi_planar                      -> bp_full_emits / bp_full_image

   Plane 1 holds one element of e1 bytes per pixel, plane 2 one element of e2 bytes per sx x sy cell.  The conversion of
   one pixel from its plane-1 element, the plane-2 element of its cell and its row inside the cell is the parameter
   `gpx` (values: C04); `cv` is the channel conversion.  What is modelled is which elements meet in which output pixel. *)
From Coq Require Import ZArith List Bool Lia Arith.
From DDSV Require Import model.Crop model.RectPath.
Import ListNotations.

Section BiPlanar.
Variables (A B : Type).
Variables (e1 e2 sx sy : nat) (gpx : list Z -> list Z -> nat -> A) (cv : A -> B).

Definition el (e : nat) (l : list Z) (i : nat) : list Z := slice (i * e) e l.

(* a ProcessBiPlanarFn, one output row: plane-1 bytes, plane-2 bytes, range.offset, range.width, range.y *)
Definition bpfn := list Z -> list Z -> nat -> nat -> nat -> list A.

(* ---- process_bi_planar_helper *)
Definition bp_row : bpfn := fun p1 p2 offset width y =>
  let w0 := if offset =? 0 then 0 else Nat.min (sx - offset) width in
  let s2 := if offset =? 0 then 0 else 1 in
  let width' := width - w0 in
  let full := width' / sx in
  map (fun x => gpx (el e1 p1 x) (el e2 p2 0) y) (seq 0 w0)
  ++ concat (map (fun m => map (fun i => gpx (el e1 p1 (w0 + m * sx + i)) (el e2 p2 (s2 + m)) y) (seq 0 sx)) (seq 0 full))
  ++ map (fun i => gpx (el e1 p1 (w0 + full * sx + i)) (el e2 p2 (s2 + full)) y) (seq 0 (width' - full * sx)).

(* ---- ChannelConversionBuffer::process_bi_planar: the calls of the ProcessBiPlanarFn *)
Record bcall := mkBCall { b_p1 : nat; b_n : nat; b_p2 : nat; b_n2 : nat; b_off : nat; b_col : nat }.
Definition bp_calls (conv : bool) (bufpx width offset : nat) : list bcall :=
  if negb conv then [mkBCall 0 width 0 (cdiv (offset + width) sx) offset 0] else
  let ow := if offset =? 0 then 0 else Nat.min (sx - offset) width in
  let s2 := if offset =? 0 then 0 else 1 in
  let w' := width - ow in
  let pcs := bufpx - bufpx mod sx in
  (if offset =? 0 then [] else [mkBCall 0 ow 0 1 offset 0]) ++
  map (fun k => let cs := k * pcs in
                let ce := Nat.min (cs + pcs) w' in
                mkBCall (ow + cs) (ce - cs) (s2 + cs / sx) (cdiv ce sx - cs / sx) 0 (ow + cs)) (seq 0 (cdiv w' pcs)).
Definition bcall_row (f : bpfn) (p1 p2 : list Z) (y : nat) (c : bcall) : list B :=
  map cv (f (slice (b_p1 c * e1) (b_n c * e1) p1) (slice (b_p2 c * e2) (b_n2 c * e2) p2) (b_off c) (b_n c) y).
Definition bp_line (f : bpfn) (conv : bool) (bufpx : nat) (p1 p2 : list Z) (width offset y : nat) : option (list B) :=
  place_exact (map (fun c => (b_col c, bcall_row f p1 p2 y c)) (bp_calls conv bufpx width offset)) width.

(* ---- the uv-line loops: which (output row, uv line read, row inside the cell) triples are processed *)
Fixpoint bp_inner (n y_offset y lo hi : nat) (j : nat) : list (nat * nat * nat) * nat :=
  match n with
  | O => ([], y)
  | S n' => if y <? lo then bp_inner n' (S y_offset) (S y) lo hi j                      (* y += 1; continue *)
            else if hi <=? y then ([], y)                                                (* break *)
            else let r := bp_inner n' (S y_offset) (S y) lo hi j in ((y - lo, j, y_offset) :: fst r, snd r)
  end.
Fixpoint bp_outer (lines : list nat) (y lo hi : nat) : list (nat * nat * nat) :=
  match lines with
  | [] => []
  | j :: rest => let r := bp_inner sy 0 y lo hi j in fst r ++ bp_outer rest (snd r) lo hi
  end.
Definition bp_rect_emits (H oy h : nat) : list (nat * nat * nat) :=
  let uv_before := oy / sy in
  let uv_after := cdiv H sy - cdiv (oy + h) sy in
  let uv_lines := cdiv H sy - uv_before - uv_after in
  bp_outer (seq 0 uv_lines) (uv_before * sy) oy (oy + h).
Definition bp_full_emits (H : nat) : list (nat * nat * nat) := bp_outer (seq 0 (cdiv H sy)) 0 0 H.

(* surface data: plane 1 (W * e1 bytes per row, H rows), then plane 2 (cdiv W sx * e2 bytes per line) *)
Definition bp_rect_image (f : bpfn) (conv : bool) (bufpx : nat) (W H ox oy w h : nat) (data : list Z) : option (list (list B)) :=
  let p1bpl := W * e1 in
  let uvbpl := cdiv W sx * e2 in
  let plane1 := slice (p1bpl * oy) (p1bpl * h) data in                                   (* skip, read_into, skip *)
  let uv0 := p1bpl * H + (oy / sy) * uvbpl in                                            (* skip uv_before lines *)
  match sequence (map (fun t => let '(r, j, yo) := t in
           let p1 := slice (r * p1bpl + ox * e1) (w * e1) plane1 in
           let uv_line := slice (uv0 + j * uvbpl) uvbpl data in
           let p2 := slice ((ox / sx) * e2) ((cdiv (ox + w) sx - ox / sx) * e2) uv_line in
           option_map (fun row => (r, [row])) (bp_line f conv bufpx p1 p2 w (ox mod sx) yo)) (bp_rect_emits H oy h)) with
  | Some groups => place_exact groups h
  | None => None
  end.
Definition bp_full_image (f : bpfn) (conv : bool) (bufpx : nat) (W H : nat) (data : list Z) : option (list (list B)) :=
  let p1bpl := W * e1 in
  let uvbpl := cdiv W sx * e2 in
  let plane1 := slice 0 (p1bpl * H) data in
  match sequence (map (fun t => let '(r, j, yo) := t in
           let p1 := slice (r * p1bpl) p1bpl plane1 in
           let p2 := slice (p1bpl * H + j * uvbpl) uvbpl data in
           option_map (fun row => (r, [row])) (bp_line f conv bufpx p1 p2 W 0 yo)) (bp_full_emits H)) with
  | Some groups => place_exact groups H
  | None => None
  end.

(* what the decode means: pixel (x, y) pairs its own plane-1 element with the plane-2 element of its sx x sy cell *)
Definition bp_spec_image (W H : nat) (data : list Z) : list (list B) :=
  map (fun y => map (fun x => cv (gpx (el e1 data (y * W + x))
                                     (el e2 (skipn (W * e1 * H) data) ((y / sy) * cdiv W sx + x / sx)) (y mod sy))) (seq 0 W)) (seq 0 H).
End BiPlanar.

(* the trace of the instrumented implementation (tag 53): per ProcessBiPlanarFn call
   [3; plane-1 byte offset; plane-1 byte length; plane-2 byte offset; plane-2 byte length; range.offset; range.width; range.y; output byte offset] *)
Definition bp_trace (e1 e2 sx sy : nat) (conv : bool) (bufpx outbpp : nat) (emits : list (nat * nat * nat)) (width offset : nat) : list (list nat) :=
  flat_map (fun t => let '(_, _, yo) := t in
     map (fun c => [3; b_p1 c * e1; b_n c * e1; b_p2 c * e2; b_n2 c * e2; b_off c; b_n c; yo; b_col c * outbpp]) (bp_calls sx conv bufpx width offset)) emits.
