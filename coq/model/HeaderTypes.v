(* Types of the header tables that `ddsx dump` regenerates into gen/GenHeader.v from the implementation
   (public API: DxgiFormat::try_from, PixelInfo::try_from, Format::from_dxgi / from_four_cc, to_linear,
   has_alpha, Dx10Header::to_dx9) and from a scan of /repo/src/detect.rs (KNOWN_PIXEL_FORMATS rows, every
   parsed row re-validated against Format::from_header) and /repo/src/header.rs (FourCC constants). *)
From DDSV Require Import base.Machine model.Layout.

Inductive pf9 :=
| PFFourCC (cc : N)
| PFMask (flags bits r g b a : N).     (* bits in {8,16,24,32} *)

Record dxgi_row := mkDxgi {
  dx_code : N;
  dx_pi : option pixel_info;     (* PixelInfo::try_from *)
  dx_fmt : option N;             (* Format::from_dxgi, as a format id of gen/GenFormats.v *)
  dx_linear : N;                 (* to_linear *)
  dx_has_alpha : bool }.

Record fourcc_row := mkCC { cc_code : N; cc_fmt : option N; cc_dxgi : option N }.

Record mask_row := mkMask {
  mk_flags : N; mk_bits : N; mk_r : N; mk_g : N; mk_b : N; mk_a : N;
  mk_dxgi : option N; mk_fmt : N }.

Definition pf9_eqb (x y : pf9) : bool :=
  match x, y with
  | PFFourCC a, PFFourCC b => a =? b
  | PFMask f1 n1 r1 g1 b1 a1, PFMask f2 n2 r2 g2 b2 a2 =>
      (f1 =? f2) && (n1 =? n2) && (r1 =? r2) && (g1 =? g2) && (b1 =? b2) && (a1 =? a2)
  | _, _ => false
  end.

Definition pi_eqb (x y : pixel_info) : bool :=
  match x, y with
  | Fixed a, Fixed b => a =? b
  | Block a1 b1 c1, Block a2 b2 c2 => (a1 =? a2) && (b1 =? b2) && (c1 =? c2)
  | BiPlanar a1 b1 c1 d1, BiPlanar a2 b2 c2 d2 => (a1 =? a2) && (b1 =? b2) && (c1 =? c2) && (d1 =? d2)
  | _, _ => false
  end.
