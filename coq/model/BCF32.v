(* F32 outputs of the block decoders (src/decode/bc.rs): the BC1-3 family and BC7 convert their 8-bit result with
   n8::f32; BC4 / BC5 build their palette in f32 (endpoints n8::f32 / s8::uf32, interpolants by division after
   the repair of finding F15); BC6H converts its half floats.  Values are f32 bit patterns. *)
From Coq Require Import ZArith List Bool Lia.
From DDSV Require Import base.Machine model.Numeric model.BCdec model.BC7 model.BC6 model.Float model.Convert model.Uncomp.
Import ListNotations.
Local Open Scope Z_scope.

Definition f8 (v : N) : Z := f32_bits (n8_f32 (Z.of_N v)).
Definition qf (den i : Z) : Z := f32_bits (f32_div (F i) (F den)).
Definition bc4_lut_f32 (signed : bool) (b0 b1 : N) : list Z :=
  let one := 1065353216 in
  if negb signed then
    let c0 := Z.of_N b0 in let c1 := Z.of_N b1 in
    let fb := fun x => f32_bits (n8_f32 x) in
    if c1 <? c0 then [fb c0; fb c1; qf 1785 (c0 * 6 + c1); qf 1785 (c0 * 5 + c1 * 2); qf 1785 (c0 * 4 + c1 * 3); qf 1785 (c0 * 3 + c1 * 4); qf 1785 (c0 * 2 + c1 * 5); qf 1785 (c0 + c1 * 6)]
    else [fb c0; fb c1; qf 1275 (c0 * 4 + c1); qf 1275 (c0 * 3 + c1 * 2); qf 1275 (c0 * 2 + c1 * 3); qf 1275 (c0 + c1 * 4); 0; one]
  else
    let r0 := Z.of_N b0 in let r1 := Z.of_N b1 in
    let a := Convert.s8_norm r0 in let c := Convert.s8_norm r1 in
    let fb := fun x => f32_bits (s8_uf32 x) in
    if (Numeric.i8_of b1 <? Numeric.i8_of b0) then [fb r0; fb r1; qf 1778 (a * 6 + c); qf 1778 (a * 5 + c * 2); qf 1778 (a * 4 + c * 3); qf 1778 (a * 3 + c * 4); qf 1778 (a * 2 + c * 5); qf 1778 (a + c * 6)]
    else [fb r0; fb r1; qf 1270 (a * 4 + c); qf 1270 (a * 3 + c * 2); qf 1270 (a * 2 + c * 3); qf 1270 (a + c * 4); 0; one].
Definition bc4_f32 (signed : bool) (b : list N) : list Z :=
  pixels_of_lut (bc4_lut_f32 signed (BCdec.byte b 0) (BCdec.byte b 1)) 0 (idx3 b).

(* kinds as in the harness: 0..5 BC1-3 family, 6 BC4U, 7 BC4S, 8 BC5U, 9 BC5S, 10 BC7, 11 BC6H_UF16, 12 BC6H_SF16 *)
Definition bc6_out (prec : Z) (signed : bool) (b : list N) : list Z :=
  map (fun h => if prec =? 0 then fp16_n8 h else if prec =? 1 then fp16_n16 h else f16_bits h) (concat (bc6_model signed b)).
Definition bc_decode_f32 (k : Z) (rgb_only : bool) (b : list N) : list Z :=
  if k =? 6 then bc4_f32 false b else if k =? 7 then bc4_f32 true b
  else if k =? 8 then concat (map (fun rg => [fst rg; snd rg; 0]) (combine (bc4_f32 false b) (bc4_f32 false (skipn 8 b))))
  else if k =? 9 then concat (map (fun rg => [fst rg; snd rg; 1056964608]) (combine (bc4_f32 true b) (bc4_f32 true (skipn 8 b))))
  else if k =? 10 then map f8 (concat (let m := bc7_model b in if rgb_only then map (firstn 3) m else m))
  else if k =? 11 then bc6_out 2 false b else if k =? 12 then bc6_out 2 true b
  else map f8 (concat (bc_decode (match k with 0 => FBC1 | 1 => FBC2 | 2 => FBC2P | 3 => FBC3 | 4 => FBC3P | _ => FRXGB end) rgb_only false b)).
