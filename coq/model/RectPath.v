(* C05: line-by-line model of the block code paths of src/decode/read_write.rs - the code that decides WHICH
   encoded block and WHICH pixel of it ends up WHERE in the output:

     general_process_blocks            -> gpb_row
     handle_width_offset               -> hwo
     process_4x4_blocks_helper         -> p44_row      (BC1-BC7; `fast` = the aligned 4-row fast path was taken)
     process_2x1_blocks_helper         -> p2x1_row     (sub-sampled 2x1 formats)
     ChannelConversionBuffer::process_blocks -> pb_calls  (the calls of the ProcessBlocksFn: offset call first,
                                          then chunks of round_down(3072 / (bpp * rows), block width) pixels)
     for_each_block_rect_untyped::inner -> rect_lines / rect_image   (block-line selection, block range, row ranges,
                                          running pixel_row)
     for_each_block_untyped::inner      -> full_lines / full_image

   The decoder of one block (`dec`: block bytes -> bw * bh pixels, row-major) and the channel conversion of one
   pixel (`cv`) are parameters: C03 / C04 are about their values, C05 is about the plumbing around them.
   Every placement the code computes from offsets (the column of a call inside the output row, the first output
   row of a block line) is kept as an explicit number and *checked* when the image is assembled (`place`): the
   model returns None if the pieces do not tile the rows / the rectangle exactly.  The same numbers are what the
   instrumented implementation reports (harness tag 51), so the model's chunking is tied to the code's. *)
From Coq Require Import ZArith List Bool Lia Arith.
From DDSV Require Import model.Crop.
Import ListNotations.

Definition cdiv (a b : nat) : nat := (a + b - 1) / b.          (* u32::div_ceil *)

(* one call of the ProcessBlocksFn by process_blocks: blocks [boff, boff + bcnt) of the encoded slice, `width`
   pixels after skipping `woff` pixels of the first block, written from column `col` of the output rows *)
Record call := mkCall { c_boff : nat; c_bcnt : nat; c_width : nat; c_woff : nat; c_col : nat }.
(* one block line of a surface: rows [rs, re) of the blocks are decoded into the output rows from `prow` on *)
Record line := mkLine { l_rs : nat; l_re : nat; l_prow : nat }.

(* pieces (position, items) must follow each other without gap or overlap, starting at `pos` *)
Fixpoint place {X} (pieces : list (nat * list X)) (pos : nat) : option (list X) :=
  match pieces with
  | [] => Some []
  | (c, xs) :: r => if c =? pos then option_map (app xs) (place r (pos + length xs)) else None
  end.
Definition place_exact {X} (pieces : list (nat * list X)) (total : nat) : option (list X) :=
  match place pieces 0 with
  | Some l => if length l =? total then Some l else None
  | None => None
  end.
Fixpoint sequence {X} (l : list (option X)) : option (list X) :=
  match l with
  | [] => Some []
  | Some x :: r => option_map (cons x) (sequence r)
  | None :: _ => None
  end.

(* Crop.crop at any pixel type *)
Definition crop_of {X} (x y w h : nat) (img : list (list X)) : list (list X) := map (slice x w) (slice y h img).

Section RectPath.
Variables (A B : Type).
Variables (bw bh bpb : nat) (dec : list Z -> list A) (cv : A -> B).

(* cast::from_bytes::<[u8; BYTES_PER_BLOCK]> *)
Definition blocks_of (l : list Z) : list (list Z) := map (fun k => slice (k * bpb) bpb l) (seq 0 (length l / bpb)).

(* a ProcessBlocksFn, one output row at a time: blocks, range.width, range.width_offset, row y of the blocks *)
Definition rowfn := list (list Z) -> nat -> nat -> nat -> list A.

(* ---- general_process_blocks *)
Fixpoint gpb_go (y width woff bi : nat) (blocks : list (list Z)) : list A :=
  match blocks with
  | [] => []
  | b :: bs =>
      let po := if bi =? 0 then woff else 0 in
      let block_w := Nat.min (Nat.min (bw - po) width) (width + woff - bi * bw) in
      slice (y * bw + po) block_w (dec b) ++ gpb_go y width woff (S bi) bs
  end.
Definition gpb_row : rowfn := fun blocks width woff y => gpb_go y width woff 0 blocks.

(* ---- handle_width_offset: (pixels written, remaining blocks, remaining width, remaining width_offset) *)
Definition hwo (blocks : list (list Z)) (width woff y : nat) : list A * list (list Z) * nat * nat :=
  let pw := Nat.min (bw - woff) width in
  if pw =? 0 then ([], blocks, width, woff)
  else (gpb_row (firstn 1 blocks) pw woff y, skipn 1 blocks, width - pw, 0).

(* ---- process_4x4_blocks_helper (bw = bh = 4) *)
Definition fast44_row (blocks : list (list Z)) (width y : nat) : list A :=
  let full := width / 4 in
  concat (map (fun b => slice (y * 4) 4 (dec b)) (firstn full blocks))
  ++ (if width mod 4 =? 0 then [] else slice (y * 4) (width - full * 4) (dec (nth full blocks []))).
Definition p44_row (fast : bool) : rowfn := fun blocks width woff y =>
  let '(pre, bl, w', wo') := if woff =? 0 then ([], blocks, width, woff) else hwo blocks width woff y in
  pre ++ (if fast then fast44_row bl w' y else gpb_row bl w' wo' y).

(* ---- process_2x1_blocks_helper (bw = 2, bh = 1) *)
Definition p2x1_row : rowfn := fun blocks width woff _ =>
  let '(pre, bl, w') := if woff =? 1 then (slice 1 1 (dec (nth 0 blocks [])), skipn 1 blocks, width - 1)
                        else ([], blocks, width) in
  pre ++ concat (map (fun b => slice 0 2 (dec b)) (firstn (w' / 2) bl))
      ++ (if w' mod 2 =? 1 then slice 0 1 (dec (last bl [])) else []).

(* ---- ChannelConversionBuffer::process_blocks: the calls it makes.  conv = the target channels differ from the
   native ones; bufpx = BUFFER_BYTES / (native bytes per pixel * rows) *)
Definition pb_calls (conv : bool) (bufpx nblocks width woff : nat) : list call :=
  if negb conv then [mkCall 0 nblocks width woff 0] else
  let ow := if woff =? 0 then 0 else Nat.min (bw - woff) width in
  let skipb := if woff =? 0 then 0 else 1 in
  let w' := width - ow in
  let pcs := bufpx - bufpx mod bw in                              (* util::round_down_to_multiple *)
  (if woff =? 0 then [] else [mkCall 0 1 ow woff 0]) ++
  map (fun k => let cs := k * pcs in
                let sz := Nat.min (cs + pcs) w' - cs in
                mkCall (skipb + cs / bw) (cdiv sz bw) sz 0 (ow + cs)) (seq 0 (cdiv w' pcs)).

(* the pixels one call writes into output row y *)
Definition call_row (f : rowfn) (enc : list Z) (y : nat) (c : call) : list B :=
  map cv (f (blocks_of (slice (c_boff c * bpb) (c_bcnt c * bpb) enc)) (c_width c) (c_woff c) y).

(* one block line: its output rows, None if the calls do not tile a row *)
Definition line_rows (f : rowfn) (conv : bool) (bufbytes bbpp : nat) (enc : list Z) (nblocks width woff : nat) (ln : line)
  : option (list (list B)) :=
  let height := l_re ln - l_rs ln in
  let calls := pb_calls conv (bufbytes / (bbpp * height)) nblocks width woff in
  sequence (map (fun y => place_exact (map (fun c => (c_col c, call_row f enc y c)) calls) width) (seq (l_rs ln) height)).

(* ---- for_each_block_rect_untyped::inner: the block lines it visits, with the running pixel_row *)
Fixpoint rect_lines_go (n bly prow oy h : nat) : list line :=
  match n with
  | O => []
  | S n' => let rs := oy - bly * bh in                           (* saturating_sub *)
            let re := Nat.min (oy + h - bly * bh) bh in
            mkLine rs re prow :: rect_lines_go n' (S bly) (prow + (re - rs)) oy h
  end.
Definition rect_lines (oy h : nat) : list line :=
  let before := oy / bh in
  rect_lines_go (cdiv (h + oy) bh - before) before 0 oy h.

Definition assemble (first_line bpl brs bre width woff height : nat) (f : rowfn) (conv : bool) (bufbytes bbpp : nat)
  (lines : list line) (data : list Z) : option (list (list B)) :=
  match sequence (map (fun '(i, ln) =>
           let block_line := slice ((first_line + i) * bpl) bpl data in          (* UntypedLineBuffer::next_line *)
           let enc := slice (brs * bpb) ((bre - brs) * bpb) block_line in        (* block_line[block_range] *)
           option_map (fun rows => (l_prow ln, rows)) (line_rows f conv bufbytes bbpp enc (bre - brs) width woff ln))
         (combine (seq 0 (length lines)) lines)) with
  | Some groups => place_exact groups height
  | None => None
  end.

Definition rect_image (f : rowfn) (conv : bool) (bufbytes bbpp : nat) (W H ox oy w h : nat) (data : list Z) : option (list (list B)) :=
  let bpl := cdiv W bw * bpb in
  assemble (oy / bh) bpl (ox / bw) (cdiv (ox + w) bw) w (ox mod bw) h f conv bufbytes bbpp (rect_lines oy h) data.

(* ---- for_each_block_untyped::inner *)
Definition full_lines (H : nat) : list line :=
  map (fun by_ => mkLine 0 (Nat.min bh (H - by_ * bh)) (by_ * bh)) (seq 0 (cdiv H bh)).
Definition full_image (f : rowfn) (conv : bool) (bufbytes bbpp : nat) (W H : nat) (data : list Z) : option (list (list B)) :=
  let bpl := cdiv W bw * bpb in
  assemble 0 bpl 0 (cdiv W bw) W 0 H f conv bufbytes bbpp (full_lines H) data.

(* ---- what the decode means: pixel (x, y) is entry (y mod bh) * bw + x mod bw of block (x / bw, y / bh) *)
Definition full_row (y : nat) (blocks : list (list Z)) : list A := concat (map (fun b => slice (y * bw) bw (dec b)) blocks).
Definition spec_row (W : nat) (data : list Z) (y : nat) : list B :=
  let bpl := cdiv W bw * bpb in
  map cv (firstn W (full_row (y mod bh) (blocks_of (slice ((y / bh) * bpl) bpl data)))).
Definition spec_image (W H : nat) (data : list Z) : list (list B) := map (spec_row W data) (seq 0 H).

End RectPath.

(* the call trace the instrumented implementation reports (tag 51): per block line [0; rs; re; out byte offset of the
   line], per call [1; encoded byte offset; encoded byte length; width; width_offset; out byte offset in the row] *)
Definition rect_trace (bw bh bpb : nat) (conv : bool) (bufbytes bbpp outbpp pitch : nat) (ox oy w h : nat) : list (list nat) :=
  let nblocks := cdiv (ox + w) bw - ox / bw in
  flat_map (fun ln =>
     [0; l_rs ln; l_re ln; l_prow ln * pitch] ::
     map (fun c => [1; c_boff c * bpb; c_bcnt c * bpb; c_width c; c_woff c; c_col c * outbpp])
         (pb_calls bw conv (bufbytes / (bbpp * (l_re ln - l_rs ln))) nblocks w (ox mod bw)))
    (rect_lines bh oy h).
Definition full_trace (bw bh bpb : nat) (conv : bool) (bufbytes bbpp outbpp pitch : nat) (W H : nat) : list (list nat) :=
  flat_map (fun ln =>
     [0; l_rs ln; l_re ln; l_prow ln * pitch] ::
     map (fun c => [1; c_boff c * bpb; c_bcnt c * bpb; c_width c; c_woff c; c_col c * outbpp])
         (pb_calls bw conv (bufbytes / (bbpp * (l_re ln - l_rs ln))) (cdiv W bw) W 0))
    (full_lines bh H).
