(* C05: line-by-line model of the uncompressed code paths of src/decode/read_write.rs:

     for_each_pixel_rect_untyped        -> pixel_rect_reads (the reader positions: first jump, per-row jumps,
                                           final jump) and pixel_rect_image
     for_each_pixel_untyped             -> pixel_full_image (UntypedLineBuffer lines)
     ChannelConversionBuffer::process_pixels -> pp_calls / pp_row (chunks of 3072 / native-bytes-per-pixel pixels,
                                           the encoded bytes per pixel recomputed as encoded.len() / pixels)
     process_pixels_helper              -> px_fn (one decoded pixel per encoded pixel)

   The decoder of one pixel (`decpx`) and the channel conversion (`cv`) are parameters.  As in RectPath.v every
   placement is an explicit number checked by `place_exact`. *)
From Coq Require Import ZArith List Bool Lia Arith.
From DDSV Require Import model.Crop model.RectPath.
Import ListNotations.

Section PixelPath.
Variables (A B : Type).
Variables (enc : nat) (decpx : list Z -> A) (cv : A -> B).

(* a ProcessPixelsFn built with process_pixels_helper: encoded bytes -> decoded pixels *)
Definition px_fn (ebpp : nat) (bytes : list Z) : list A := map decpx (blocks_of ebpp bytes).

(* ChannelConversionBuffer::process_pixels: (first pixel, pixel count) of every call of the ProcessPixelsFn *)
Definition pp_calls (conv : bool) (bufpx pixels : nat) : list (nat * nat) :=
  if negb conv then [(0, pixels)] else
  map (fun k => (k * bufpx, Nat.min (k * bufpx + bufpx) pixels - k * bufpx)) (seq 0 (cdiv pixels bufpx)).
Definition pp_row (conv : bool) (bufpx : nat) (rowbytes : list Z) (pixels : nat) : option (list B) :=
  let ebpp := length rowbytes / pixels in                               (* encoded.len() / pixels *)
  place_exact (map (fun sn => (fst sn, map cv (px_fn ebpp (slice (fst sn * ebpp) (snd sn * ebpp) rowbytes)))) (pp_calls conv bufpx pixels)) pixels.

(* for_each_pixel_rect_untyped: the byte ranges it reads, by a running reader position; returns the rows and the
   final position (after the trailing jump) *)
Fixpoint pixel_reads_go (n : nat) (first : bool) (pos rowlen gap : nat) (data : list Z) : list (list Z) * nat :=
  match n with
  | O => ([], pos)
  | S n' => let pos1 := if first then pos else pos + gap in
            let r := pixel_reads_go n' false (pos1 + rowlen) rowlen gap data in
            (slice pos1 rowlen data :: fst r, snd r)
  end.
Definition pixel_rect_reads (W H ox oy w h : nat) (data : list Z) : list (list Z) * nat :=
  let bpr := W * enc in
  let before := ox * enc in
  let after := (W - ox - w) * enc in
  let r := pixel_reads_go h true (bpr * oy + before) (w * enc) (before + after) data in
  (fst r, snd r + (after + (H - oy - h) * bpr)).
Definition pixel_rect_image (conv : bool) (bufpx : nat) (W H ox oy w h : nat) (data : list Z) : option (list (list B)) :=
  sequence (map (fun row => pp_row conv bufpx row w) (fst (pixel_rect_reads W H ox oy w h data))).
(* for_each_pixel_untyped: line y of the line buffer is bytes [y * W * enc, (y + 1) * W * enc) *)
Definition pixel_full_image (conv : bool) (bufpx : nat) (W H : nat) (data : list Z) : option (list (list B)) :=
  sequence (map (fun y => pp_row conv bufpx (slice (y * (W * enc)) (W * enc) data) W) (seq 0 H)).

(* what the decode means *)
Definition pix_image (W H : nat) (data : list Z) : list (list B) :=
  map (fun y => map (fun x => cv (decpx (slice ((y * W + x) * enc) enc data))) (seq 0 W)) (seq 0 H).
End PixelPath.

(* the trace the instrumented implementation reports for process_pixels (tag 52): per row and call
   [2; encoded byte offset; encoded byte length; output byte offset; output byte length] *)
Definition pixel_trace (conv : bool) (bufbytes bbpp ebpp outbpp : nat) (w h : nat) : list (list nat) :=
  flat_map (fun _ => map (fun sn => [2; fst sn * ebpp; snd sn * ebpp; fst sn * outbpp; snd sn * outbpp]) (pp_calls conv (bufbytes / bbpp) w)) (seq 0 h).
