(* A small executable model of IEEE-754 binary floating point (round to nearest, ties to even), generic in the
   precision: binary32 = (24, -149, 104), binary64 = (53, -1074, 971).  A finite non-zero value is
   (-1)^s * m * 2^e with m < 2^prec, emin <= e <= emax, and m >= 2^(prec-1) unless e = emin (subnormal).
   Only what src/color/formats.rs and the encoders' quantisers use is provided: + - * /, conversions from and
   to integers with Rust's `as` semantics (saturating, NaN -> 0, truncation toward zero), min / max / clamp with
   Rust's NaN rules, comparisons, and the bit-pattern encoding.  The model is tied to the hardware operations
   the implementation runs on by differential execution (harness tag 40), not by proof. *)
From Coq Require Import ZArith List Bool Lia.
Import ListNotations.
Local Open Scope Z_scope.

Inductive fl := Fz (s : bool) | Finf (s : bool) | Fnan | Ffin (s : bool) (m : positive) (e : Z).

Section Format.
  Variables (prec emin emax : Z).

  (* round the exact value (-1)^s * m * 2^e (m > 0), with an extra sticky flag meaning "plus a positive amount
     smaller than one unit of 2^e" *)
  Definition round_sticky (s : bool) (m : Z) (e : Z) (sticky : bool) : fl :=
    if m <=? 0 then Fz s else
    let bits := Z.log2 m + 1 in
    let shift := Z.max (bits - prec) (emin - e) in
    if shift <=? 0 then
      (* exactly representable (the sticky flag can only be set by the caller when shift > 0 is guaranteed) *)
      let l := Z.min (prec - bits) (e - emin) in
      let m' := Z.shiftl m l in let e' := e - l in
      if emax <? e' then Finf s else Ffin s (Z.to_pos m') e'
    else
      let q := Z.shiftr m shift in
      let r := m - Z.shiftl q shift in
      let half := Z.shiftl 1 (shift - 1) in
      let up := (half <? r) || ((r =? half) && (sticky || Z.odd q)) in
      let q' := if up then q + 1 else q in
      let e' := e + shift in
      if q' =? 0 then Fz s else
      let '(q2, e2) := if q' =? Z.shiftl 1 prec then (Z.shiftl 1 (prec - 1), e' + 1) else (q', e') in
      if emax <? e2 then Finf s else Ffin s (Z.to_pos q2) e2.
  Definition round_me (s : bool) (m : Z) (e : Z) : fl := round_sticky s m e false.

  Definition fneg (a : fl) : fl :=
    match a with Fz s => Fz (negb s) | Finf s => Finf (negb s) | Fnan => Fnan | Ffin s m e => Ffin (negb s) m e end.
  Definition fmul (a b : fl) : fl :=
    match a, b with
    | Fnan, _ | _, Fnan => Fnan
    | Finf s, Fz _ | Fz _, Finf s => Fnan
    | Finf s, Finf t => Finf (xorb s t)
    | Finf s, Ffin t _ _ | Ffin t _ _, Finf s => Finf (xorb s t)
    | Fz s, Fz t => Fz (xorb s t)
    | Fz s, Ffin t _ _ | Ffin t _ _, Fz s => Fz (xorb s t)
    | Ffin s m e, Ffin t n f => round_me (xorb s t) (Zpos m * Zpos n) (e + f)
    end.
  Definition signed (s : bool) (m : Z) : Z := if s then - m else m.
  Definition fadd (a b : fl) : fl :=
    match a, b with
    | Fnan, _ | _, Fnan => Fnan
    | Finf s, Finf t => if Bool.eqb s t then Finf s else Fnan
    | Finf s, _ | _, Finf s => Finf s
    | Fz s, Fz t => Fz (s && t)
    | Fz _, x | x, Fz _ => x
    | Ffin s m e, Ffin t n f =>
        let e0 := Z.min e f in
        let v := signed s (Z.shiftl (Zpos m) (e - e0)) + signed t (Z.shiftl (Zpos n) (f - e0)) in
        if v =? 0 then Fz false else round_me (v <? 0) (Z.abs v) e0
    end.
  Definition fsub (a b : fl) : fl := fadd a (fneg b).
  Definition fdiv (a b : fl) : fl :=
    match a, b with
    | Fnan, _ | _, Fnan => Fnan
    | Finf s, Finf t => Fnan
    | Finf s, Fz t | Finf s, Ffin t _ _ => Finf (xorb s t)
    | Fz s, Fz t => Fnan
    | Fz s, Finf t | Fz s, Ffin t _ _ => Fz (xorb s t)
    | Ffin s _ _, Finf t => Fz (xorb s t)
    | Ffin s _ _, Fz t => Finf (xorb s t)
    | Ffin s m e, Ffin t n f =>
        (* enough quotient bits for a correct rounding: prec + 2 beyond the divisor's size *)
        let k := prec + 2 + Z.log2 (Zpos n) + 1 in
        let num := Z.shiftl (Zpos m) k in
        let q := num / Zpos n in let r := num mod Zpos n in
        round_sticky (xorb s t) (2 * q + (if r =? 0 then 0 else 1)) (e - f - k - 1) false
    end.

  Definition of_Z (z : Z) : fl := if z =? 0 then Fz false else round_me (z <? 0) (Z.abs z) 0.
  (* Rust `as` casts to an unsigned integer with maximum `max`: NaN -> 0, saturating, toward zero *)
  Definition to_unsigned (max : Z) (a : fl) : Z :=
    match a with
    | Fnan | Fz _ => 0
    | Finf s => if s then 0 else max
    | Ffin s m e => if s then 0 else Z.min max (if 0 <=? e then Z.shiftl (Zpos m) e else Z.shiftr (Zpos m) (- e))
    end.
  (* comparison of the real values; None when unordered *)
  Definition fcmp (a b : fl) : option comparison :=
    match a, b with
    | Fnan, _ | _, Fnan => None
    | _, _ =>
      let key := fun x => match x with
        | Fz _ => (0, 0, 0) | Finf s => (if s then -1 else 1, 1, 0) | Fnan => (0, 0, 0)
        | Ffin s m e => (if s then -1 else 1, 0, 0) end in
      match a, b with
      | Finf s, Finf t => Some (if Bool.eqb s t then Eq else if s then Lt else Gt)
      | Finf s, _ => Some (if s then Lt else Gt)
      | _, Finf t => Some (if t then Gt else Lt)
      | _, _ =>
        let val := fun x => match x with Ffin s m e => (signed s (Zpos m), e) | _ => (0, 0) end in
        let '(va, ea) := val a in let '(vb, eb) := val b in
        let e0 := Z.min ea eb in
        Some (Z.compare (va * 2 ^ (ea - e0)) (vb * 2 ^ (eb - e0)))
      end
    end.
  Definition flt (a b : fl) : bool := match fcmp a b with Some Lt => true | _ => false end.
  Definition fle (a b : fl) : bool := match fcmp a b with Some Lt | Some Eq => true | _ => false end.
  Definition is_nan (a : fl) : bool := match a with Fnan => true | _ => false end.
  (* f32::max / f32::min: a NaN operand is ignored *)
  Definition fmax (a b : fl) : fl := if is_nan a then b else if is_nan b then a else if flt a b then b else a.
  Definition fmin (a b : fl) : fl := if is_nan a then b else if is_nan b then a else if flt b a then b else a.
  (* f32::clamp: NaN stays NaN *)
  Definition fclamp (x lo hi : fl) : fl := if flt x lo then lo else if flt hi x then hi else x.

  (* bit patterns: 1 sign bit, ebits exponent bits, prec - 1 fraction bits *)
  Definition bias_shift : Z := prec - 1 - emin.     (* biased exponent of a normal number is e + bias_shift + ... *)
  Definition to_bits (ebits : Z) (a : fl) : Z :=
    let sb := fun s : bool => if s then Z.shiftl 1 (ebits + prec - 1) else 0 in
    let emask := Z.shiftl (Z.shiftl 1 ebits - 1) (prec - 1) in
    match a with
    | Fz s => sb s
    | Finf s => sb s + emask
    | Fnan => emask + Z.shiftl 1 (prec - 2)
    | Ffin s m e =>
        if Zpos m <? Z.shiftl 1 (prec - 1) then sb s + Zpos m
        else sb s + Z.shiftl (e - emin + 1) (prec - 1) + (Zpos m - Z.shiftl 1 (prec - 1))
    end.
  Definition of_bits (ebits : Z) (x : Z) : fl :=
    let s := Z.testbit x (ebits + prec - 1) in
    let ex := Z.shiftr x (prec - 1) mod Z.shiftl 1 ebits in
    let fr := x mod Z.shiftl 1 (prec - 1) in
    if ex =? Z.shiftl 1 ebits - 1 then (if fr =? 0 then Finf s else Fnan)
    else if ex =? 0 then (if fr =? 0 then Fz s else Ffin s (Z.to_pos fr) emin)
    else Ffin s (Z.to_pos (fr + Z.shiftl 1 (prec - 1))) (ex - 1 + emin).
End Format.

(* binary32 *)
Definition f32_add := fadd 24 (-149) 104.
Definition f32_sub := fsub 24 (-149) 104.
Definition f32_mul := fmul 24 (-149) 104.
Definition f32_div := fdiv 24 (-149) 104.
Definition f32_of_Z := of_Z 24 (-149) 104.
Definition f32_bits := to_bits 24 (-149) 8.
Definition f32_of_bits := of_bits 24 (-149) 8.
(* binary64 *)
Definition f64_add := fadd 53 (-1074) 971.
Definition f64_mul := fmul 53 (-1074) 971.
Definition f64_of_Z := of_Z 53 (-1074) 971.
Definition f64_bits := to_bits 53 (-1074) 11.
Definition f64_of_bits := of_bits 53 (-1074) 11.
(* f32 -> f64 is exact: the same value, renormalised *)
Definition f32_to_f64 (a : fl) : fl := match a with Ffin s m e => round_me 53 (-1074) 971 s (Zpos m) e | x => x end.
Definition f64_to_f32 (a : fl) : fl := match a with Ffin s m e => round_me 24 (-149) 104 s (Zpos m) e | x => x end.
