(* C13 / C10: line-by-line model of how the block-compression encoders gather the pixels of each 4x4 block
   (src/encode/write_util.rs for_each_f32_rgba_rows, src/encode/bc.rs block_universal and the get_4x4 helpers):

     for_each_f32_rgba_rows  -> row_buffers : groups of bh rows; a last incomplete group is completed with copies of ITS FIRST row
     block_universal         -> line_blocks : width / bw full blocks read with the row stride, then one partial block whose
                                missing columns repeat the last pixel of each row
     image_blocks            -> all blocks of a surface in the order they are written

   A block is a list of bh rows of bw pixels.  Pixels are an abstract type X (f32 RGBA after as_rgba_f32). *)
From Coq Require Import List Bool Lia Arith.
Import ListNotations.

Section EncBlocks.
Variables (X : Type) (bw bh : nat) (d : X).

Definition group (k : nat) (img : list (list X)) : list (list X) := firstn bh (skipn (k * bh) img).
Definition row_buffers (img : list (list X)) : list (list (list X)) :=
  let h := length img in
  map (fun k => group k img) (seq 0 (h / bh))
  ++ (if h mod bh =? 0 then [] else
        let part := skipn (h / bh * bh) img in
        [part ++ repeat (hd [] part) (bh - h mod bh)]).

Definition full_block (bi : nat) (rows : list (list X)) : list (list X) := map (fun row => firstn bw (skipn (bi * bw) row)) rows.
Definition partial_block (w : nat) (rows : list (list X)) : list (list X) :=
  map (fun row => let part := firstn (w - w / bw * bw) (skipn (w / bw * bw) row) in part ++ repeat (last part d) (bw - (w - w / bw * bw))) rows.
Definition line_blocks (w : nat) (rows : list (list X)) : list (list (list X)) :=
  map (fun bi => full_block bi rows) (seq 0 (w / bw)) ++ (if w mod bw =? 0 then [] else [partial_block w rows]).
Definition image_blocks (w : nat) (img : list (list X)) : list (list (list X)) := flat_map (line_blocks w) (row_buffers img).
End EncBlocks.
