(* Uniform executable entry point of the model for the correspondence check:
   run_case tag args = the observable outputs the implementation must produce for the same case. *)
From DDSV Require Import base.Machine model.View.

Local Open Scope Z_scope.

Definition zn (z : Z) : N := Z.to_N z.
Definition nz (n : N) : Z := Z.of_N n.
Definition bz (b : bool) : Z := if b then 1 else 0.

(* ---- C20: [mut; ctor; len; pitch; w; h; bpp; docrop; ox; oy; cw; ch] *)
Definition out_rows (mut : bool) (v : view) : list Z :=
  if (64 <? v_h v)%N then [-1] else
  match (if mut then rows_mut v else rows v) with
  | VPanic => [-2]
  | VOk rs => nz (N.of_nat (length rs)) :: flat_map (fun r => [nz (fst r); nz (snd r)]) rs
  end.
Definition out_view (mut : bool) (v : view) : list Z :=
  [1; nz (v_w v); nz (v_h v); nz (v_pitch v); nz (v_len v); bz (is_contiguous v);
   (if (v_len v =? 0)%N then 0 else nz (v_off v))] ++ out_rows mut v.
Definition run_c20 (a : list Z) : list Z :=
  match a with
  | [mut; ctor; len; pitch; w; h; bpp; docrop; ox; oy; cw; ch] =>
    let mutb := negb (mut =? 0) in
    let ov := if ctor =? 0 then view_new (zn len) (zn w) (zn h) (zn bpp)
              else view_new_with (zn len) (zn pitch) (zn w) (zn h) (zn bpp) in
    match ov with
    | None => [0]
    | Some v =>
      if docrop =? 0 then out_view mutb v else
      match cropped v (zn ox) (zn oy) (zn cw) (zn ch) with
      | VPanic => [3]
      | VOk v' => out_view mutb v'
      end
    end
  | _ => [-99]
  end.

Definition run_case (tag : Z) (args : list Z) : list Z :=
  match tag with
  | 20 => run_c20 args
  | _ => [-98]
  end.

Fixpoint zlist_eqb (a b : list Z) : bool :=
  match a, b with
  | [], [] => true
  | x :: a', y :: b' => (x =? y) && zlist_eqb a' b'
  | _, _ => false
  end.
Definition check_case (c : Z * list Z * list Z) : bool :=
  let '(t, a, r) := c in zlist_eqb (run_case t a) r.
