(* Uniform executable entry point of the model for the correspondence check:
   run_case tag args = the observable outputs the implementation must produce for the same case. *)
From DDSV Require Import base.Machine model.View model.Layout model.DecoderSM model.EncoderSM model.Split model.DecodeScript model.Formats gen.GenFormats spec.SpecLayout model.HeaderTypes gen.GenHeader model.Header model.Numeric model.BCdec model.BC7 model.Float model.Convert model.Uncomp model.Crop model.RectPath model.PixelPath model.BiPlanarPath model.EncChunks model.EncBlocks model.Encode model.BC6 model.BCF32.

Local Open Scope Z_scope.

Definition zn (z : Z) : N := Z.to_N z.
Definition nz (n : N) : Z := Z.of_N n.
Definition bz (b : bool) : Z := if b then 1 else 0.

(* ---- C20: [mut; ctor; len; pitch; w; h; bpp; docrop; ox; oy; cw; ch] *)
Definition out_rows (mut : bool) (v : view) : list Z :=
  if (64 <? v_h v)%N then [-1] else
  match (if mut then rows_mut v else rows v) with
  | VPanic => [-2]
  | VOk rs => nz (N.of_nat (length rs)) :: flat_map (fun r => [nz (fst r); nz (snd r)]) rs
  end.
Definition out_view (mut : bool) (v : view) : list Z :=
  [1; nz (v_w v); nz (v_h v); nz (v_pitch v); nz (v_len v); bz (is_contiguous v);
   (if (v_len v =? 0)%N then 0 else nz (v_off v))] ++ out_rows mut v.
Definition run_c20 (a : list Z) : list Z :=
  match a with
  | [mut; ctor; len; pitch; w; h; bpp; docrop; ox; oy; cw; ch] =>
    let mutb := negb (mut =? 0) in
    let ov := if ctor =? 0 then view_new (zn len) (zn w) (zn h) (zn bpp)
              else view_new_with (zn len) (zn pitch) (zn w) (zn h) (zn bpp) in
    match ov with
    | None => [0]
    | Some v =>
      if docrop =? 0 then out_view mutb v else
      match cropped v (zn ox) (zn oy) (zn cw) (zn ch) with
      | VPanic => [3]
      | VOk v' => out_view mutb v'
      end
    end
  | _ => [-99]
  end.

(* ---- C02: [dx10; w; h; depth_present; depth; mips; cube10; dim; array; caps2; pkind; a; b; c; d] *)
Definition mk_pixel_info (k a b c d : Z) : pixel_info :=
  if k =? 0 then Fixed (zn a) else if k =? 1 then Block (zn a) (zn b) (zn c) else BiPlanar (zn a) (zn b) (zn c) (zn d).
Definition err_code (e : layout_error) : Z :=
  match e with ZeroDimension => 1 | TooManyMipMaps => 2 | MissingDepth => 3
             | InvalidCubeMapFaces => 4 | ArraySizeTooBig => 5 | DataLayoutTooBig => 6 end.
Fixpoint dedup (l : list N) : list N :=
  match l with [] => [] | x :: r => x :: filter (fun y => negb (y =? x)%N) (dedup r) end.
Definition sample_idx (n : N) : list N :=
  dedup (filter (fun i => i <? n)%N [0; 1; 2; n / 2; n - 2; n - 1]%N).
Definition oz {A} (o : option A) (f : A -> list Z) : list Z := match o with Some a => f a | None => [-2] end.
Definition out_surf (s : surf) : list Z := [nz (s_w s); nz (s_h s); nz (s_off s); nz (s_len s)].
Definition out_tex (t : texture) : list Z :=
  oz (tex_data_offset t) (fun o => [nz o]) ++ oz (tex_data_len t) (fun o => [nz o]) ++ oz (tex_data_end t) (fun o => [nz o]) ++
  oz (tex_main t) out_surf ++
  oz (tex_iter_mips t) (fun l => nz (N.of_nat (length l)) ::
     flat_map (fun i => match nth_error l (N.to_nat i) with Some s => out_surf s | None => [-3] end) (sample_idx (t_mips t))).
Definition out_vold (vd : vold) : list Z :=
  [nz (vd_w vd); nz (vd_h vd); nz (vd_d vd); nz (vd_off vd); nz (vd_slice vd)] ++
  oz (vold_data_len vd) (fun o => [nz o]) ++
  flat_map (fun k => match get_depth_slice vd k with Some (Some s) => out_surf s | Some None => [-3] | None => [-2] end)
           (sample_idx (vd_d vd)).
Definition kind_code (k : array_kind) : list Z :=
  match k with KTextures => [0; 0] | KCubeMaps => [1; 0] | KPartial f => [2; nz f] end.
Definition out_layout (L : layout) : list Z :=
  oz (layout_data_len L) (fun o => [nz o]) ++
  match L with
  | LTexture t => [0; nz (t_w t); nz (t_h t); nz (t_mips t)] ++ out_tex t
  | LVolume v => [1; nz (vo_w v); nz (vo_h v); nz (vo_mips v)] ++
      oz (vol_iter_mips v) (fun l => nz (N.of_nat (length l)) ::
        flat_map (fun i => match nth_error l (N.to_nat i) with Some vd => out_vold vd | None => [-3] end) (sample_idx (vo_mips v)))
  | LArray a => [2; nz (a_w a); nz (a_h a); nz (a_mips a)] ++ kind_code (a_kind a) ++ [nz (a_len a)] ++
      flat_map (fun i => match arr_get a i with Some t => out_tex t | None => [-3] end) (sample_idx (a_len a))
  end.
Definition mk_lheader (dx10 w h dp d mips cube10 dim array caps2 : Z) : lheader :=
  mkLH (negb (dx10 =? 0)) (zn w) (zn h) (if dp =? 0 then None else Some (zn d)) (zn mips)
       (negb (cube10 =? 0)) (if dim =? 0 then Tex1D else if dim =? 1 then Tex2D else Tex3D) (zn array) (zn caps2).
Definition run_c02 (a : list Z) : list Z :=
  match a with
  | [dx10; w; h; dp; d; mips; cube10; dim; array; caps2; pk; pa; pb; pc; pd] =>
    match from_header_with (mk_lheader dx10 w h dp d mips cube10 dim array caps2) (mk_pixel_info pk pa pb pc pd) with
    | LErr e => [0; err_code e]
    | LOk L => 1 :: out_layout L
    end
  | _ => [-99]
  end.

(* ---- C08: [dx10; w; h; dp; d; mips; cube10; dim; array; caps2; pk; pa; pb; pc; pd; (kind; flag)*] *)
Definition dec_err_code (e : dec_err) : Z :=
  match e with ENoMoreSurfaces => 1 | EUnexpectedSurfaceSize => 2 | ECannotSkipMipmapsInVolume => 3
             | ENotACubeMap => 4 | ERectOutOfBounds => 5 | EIo => 6 end.
Definition mk_op (k f : Z) : dec_op :=
  let b := negb (f =? 0) in
  if k =? 0 then OpRead b else if k =? 1 then OpRect b else if k =? 2 then OpSkip else if k =? 3 then OpSkipMips
  else if k =? 4 then OpRewindPrev else if k =? 5 then OpRewindStart else OpCube b.
Fixpoint mk_ops (l : list Z) : list dec_op :=
  match l with k :: f :: r => mk_op k f :: mk_ops r | _ => [] end.
Definition out_dec (d : decoder) : list Z :=
  match iter_current (d_it d) with
  | None => [-2]
  | Some None => [0; 0; 0; 0; 0; nz (d_pos d)]
  | Some (Some si) => [1; nz (si_w si); nz (si_h si); nz (si_len si); bz (negb (si_level si =? 0)%N); nz (d_pos d)]
  end.
Definition out_cells (c : list (N * N * N)) : list Z :=
  nz (N.of_nat (length c)) :: flat_map (fun t => [nz (fst (fst t)); nz (snd (fst t)); nz (snd t)]) c.
(* the comparison stops after the first I/O error or panic (the documentation leaves the state open) *)
Fixpoint run_ops (d : decoder) (ops : list dec_op) : list Z :=
  match ops with
  | [] => []
  | op :: rest =>
      let cube := match op with OpCube _ => true | _ => false end in
      match dec_step d op with
      | (DOk d', cells) => (0 :: out_dec d') ++ (if cube then out_cells cells else []) ++ run_ops d' rest
      | (DErr EIo d', cells) => [6]
      | (DErr e d', cells) => (dec_err_code e :: out_dec d') ++ (if cube then out_cells cells else []) ++ run_ops d' rest
      | (DPanic, _) => [-2]
      end
  end.
Definition run_c08 (a : list Z) : list Z :=
  match a with
  | dx10 :: w :: h :: dp :: d :: mips :: cube10 :: dim :: array :: caps2 :: pk :: pa :: pb :: pc :: pd :: ops =>
    match from_header_with (mk_lheader dx10 w h dp d mips cube10 dim array caps2) (mk_pixel_info pk pa pb pc pd) with
    | LErr e => [0; err_code e]
    | LOk L => (1 :: out_dec (dec_init L)) ++ run_ops (dec_init L) (mk_ops ops)
    end
  | _ => [-99]
  end.

(* ---- C06 / C07: [fmt; colour; isrect; W; H; ox; oy; w; h; limit; datalen; fault; start] *)
Definition NOISE : N := 128.
Definition out_code (o : outcome) : Z := match o with OOk => 0 | OMem => 1 | OIo => 2 | ORectOOB => 3 end.
Definition out_eff (e : eff) : list Z :=
  match e with ESkip n => [1; nz n] | ERead n => [2; nz n] | EAlloc n => [0; nz n] end.
Definition run_c06 (a : list Z) : list Z :=
  match a with
  | [fmt; color; isrect; W; H; ox; oy; w; h; limit; datalen; fault; start] =>
    match find_fmt fmt_table (zn fmt) with
    | None => [-97]
    | Some row =>
      let fast := existsb (N.eqb (zn color)) (f_fast row) in
      let rq := if isrect =? 0 then RFull (zn W) (zn H) fast else RRect (zn W) (zn H) (zn ox) (zn oy) (zn w) (zn h) in
      let rd := mkReader (zn start) (zn datalen) (if fault <? 0 then None else Some (zn fault)) in
      let st := decode_run (f_pi row) rq (zn limit) rd in
      let tr := rev (s_trace st) in
      let big := filter (fun n => NOISE <=? n)%N (allocs tr) in
      let io := match s_out st with OIo => true | _ => false end in
      [out_code (s_out st); (if io then -1 else nz (r_pos (s_rd st)) - start)] ++
      (nz (N.of_nat (length big)) :: map nz big) ++
      (if io then [-1] else let c := coalesce tr in nz (N.of_nat (length c)) :: flat_map out_eff c)
    end
  | _ => [-99]
  end.

(* ---- C11 / C10: [header (10); pixel info (5); header_len; generate0; mul x; mul y; (kind; flag)*] *)
Definition enc_err_code (x : enc_err) : Z :=
  match x with XTooManySurfaces => 1 | XUnexpectedSurfaceSize => 2 | XCancelled => 3 | XInvalidSize => 4 | XMissingSurfaces => 5 end.
Definition out_enc (e : encoder) : list Z :=
  match iter_current (e_it e) with
  | None => [-2]
  | Some None => [nz (e_bytes e); 0; 0; 0; 0; 0]
  | Some (Some si) => [nz (e_bytes e); 1; nz (si_w si); nz (si_h si); nz (si_len si); bz (negb (si_level si =? 0)%N)]
  end.
Definition mk_enc_op (k f : Z) : enc_op :=
  if k =? 0 then EWrite (f =? 1) (f =? 2) else if k =? 1 then EToggle else EFinish.
Fixpoint mk_enc_ops (l : list Z) : list enc_op :=
  match l with k :: f :: r => mk_enc_op k f :: mk_enc_ops r | _ => [] end.
Fixpoint run_enc_ops (e : encoder) (ops : list enc_op) : list Z :=
  match ops with
  | [] => []
  | op :: rest =>
      let fin := match op with EFinish => true | _ => false end in
      match enc_step e op with
      | EOk e' => if fin then [0] else (0 :: out_enc e') ++ run_enc_ops e' rest
      | EErr x e' => if fin then [enc_err_code x] else (enc_err_code x :: out_enc e') ++ run_enc_ops e' rest
      | EPanic => [-2]
      end
  end.
Definition run_c11 (a : list Z) : list Z :=
  match a with
  | dx10 :: w :: h :: dp :: d :: mips :: cube10 :: dim :: array :: caps2 :: pk :: pa :: pb :: pc :: pd :: hl :: g0 :: mx :: my :: ops =>
    match from_header_with (mk_lheader dx10 w h dp d mips cube10 dim array caps2) (mk_pixel_info pk pa pb pc pd) with
    | LErr e => [0; err_code e]
    | LOk L => let e0 := enc_init L (zn hl) (negb (g0 =? 0)) (zn mx, zn my) in
               (1 :: out_enc e0) ++ run_enc_ops e0 (mk_enc_ops ops)
    end
  | _ => [-99]
  end.

(* ---- C10 single surfaces: [fmt; W; H; colour; extra pitch; parallel] -> [code; bytes] *)
Definition run_c10 (a : list Z) : list Z :=
  match a with
  | [fmt; W; H; color; extra; par] =>
    match find_fmt fmt_table (zn fmt) with
    | None => [-97]
    | Some row =>
      match f_enc row with
      | None => [6; 0]
      | Some en =>
          if negb (((zn W) mod e_mul_x en =? 0) && ((zn H) mod e_mul_y en =? 0))%N then [4; 0]
          else [0; nz (SpecLayout.spec_len (f_pi row) (zn W) (zn H))]
      end
    end
  | _ => [-99]
  end.

(* ---- C14 split geometry: [fmt; quality; dithering; w; h] -> [len; single; (first row, height) of sampled fragments] *)
Definition run_c14 (a : list Z) : list Z :=
  match a with
  | [fmt; q; d; w; h] =>
    match find_fmt fmt_table (zn fmt) with
    | None => [-97]
    | Some row =>
      let fh :=
        match f_enc row, find (fun r => fst r =? zn fmt)%N frag_table with
        | Some en, Some (_, fps) =>
            let fp := nth (Z.to_nat q) fps 0%N in
            let req := (orb (d =? 1) (d =? 3), orb (d =? 2) (d =? 3)) in
            fragment_height (zn w) (zn h) (e_split_height en) (negb (e_local_dither en =? 0)%N)
              (negb (e_dither_color en =? 0)%N, negb (e_dither_alpha en =? 0)%N) req fp
        | _, _ => None
        end in
      let len := split_len (zn h) fh in
      [nz len; bz (len =? 1)%N] ++
      flat_map (fun i => match fragment_rows (zn h) fh i with Some (s, e) => [nz s; nz (e - s)] | None => [-2] end) (sample_idx len)
    end
  | _ => [-99]
  end.

(* ---- C09 / C18 / C19: [skip_magic; permissive; file_len; byte...] *)
Definition herr_code (e : herr) : Z :=
  match e with EInvalidMagic => 1 | EInvalidHeaderSize => 2 | EInvalidPixelFormatSize => 3 | EInvalidRgbBitCount => 4
             | EInvalidDxgiFormat => 5 | EInvalidResourceDimension => 6 | EInvalidAlphaMode => 7
             | EInvalidArraySizeForTexture3D => 8 | EIoHeader => 9 end.
Definition out_depth (d : option N) : list Z := match d with Some x => [1; nz x] | None => [0; 0] end.
Definition out_header (h : header) : list Z :=
  match h with
  | HDx9 hh w d m c2 pf =>
      [9; nz hh; nz w] ++ out_depth d ++ [nz m; nz c2] ++
      match pf with PFFourCC cc => [0; nz cc] | PFMask f n r g b a => [1; nz f; nz n; nz r; nz g; nz b; nz a] end
  | HDx10 hh w d m dx dim misc arr al => [10; nz hh; nz w] ++ out_depth d ++ [nz m; nz dx; nz dim; nz misc; nz arr; nz al]
  end.
Definition out_pi (p : option pixel_info) : list Z :=
  match p with
  | Some (Fixed a) => [0; nz a; 0; 0; 0]
  | Some (Block a b c) => [1; nz a; nz b; nz c; 0]
  | Some (BiPlanar a b c d) => [2; nz a; nz b; nz c; nz d]
  | None => [-1; 0; 0; 0; 0]
  end.
Definition out_opt_header (o : option header) : list Z := match o with Some h => 1 :: out_header h | None => [0] end.
Definition run_c09 (a : list Z) : list Z :=
  match a with
  | skip :: perm :: fl :: bytes =>
    match header_read (negb (skip =? 0)) (negb (perm =? 0)) (if fl <? 0 then None else Some (zn fl)) (map zn bytes) with
    | HErr e => [0; herr_code e]
    | HOk h =>
        let w := header_write h in
        (1 :: out_header h) ++ out_pi (pixel_info_of_header h) ++
        [match format_of_header h with Some f => nz f | None => -1 end] ++
        (nz (N.of_nat (length w)) :: map nz w) ++
        out_opt_header (to_dx9 h) ++ out_opt_header (to_dx10 h) ++
        [match pixel_info_of_header h with
         | Some p => match layout_len_of h p with Some l => nz l | None => -1 end
         | None => -1 end]
    end
  | _ => [-99]
  end.

(* ---- C19 per-format metadata: [fmt] -> [bits per pixel; native colour; channels; precision] *)
Definition bpp_model (p : pixel_info) : N :=
  match p with
  | Fixed b => b * 8
  | Block by_ bw bh => div_ceil (by_ * 8) (bw * bh)
  | BiPlanar b1 b2 sx sy => b1 * 8 + div_ceil (b2 * 8) (sx * sy)
  end.
Definition run_c19 (a : list Z) : list Z :=
  match a with
  | [fmt] => match find_fmt fmt_table (zn fmt) with
             | None => [-97]
             | Some row => [nz (bpp_model (f_pi row)); nz (f_native row); nz (f_native row / 3); nz (f_native row mod 3)]
             end
  | _ => [-99]
  end.

(* ---- C17 parallel progress increments: [fmt; quality; w; h] -> [-1] | sorted fragment heights *)
Definition run_c17 (a : list Z) : list Z :=
  match a with
  | [fmt; q; w; h] =>
    match find_fmt fmt_table (zn fmt) with
    | None => [-97]
    | Some row =>
      let fh :=
        match f_enc row, find (fun r => fst r =? zn fmt)%N frag_table with
        | Some en, Some (_, fps) =>
            fragment_height (zn w) (zn h) (e_split_height en) (negb (e_local_dither en =? 0)%N)
              (negb (e_dither_color en =? 0)%N, negb (e_dither_alpha en =? 0)%N) (false, false) (nth (Z.to_nat q) fps 0%N)
        | _, _ => None
        end in
      match fh with
      | None => [-1]
      | Some f => let len := split_len (zn h) fh in
                  if (len =? 1)%N then [-1]       (* SplitView::single: one fragment takes the sequential path *)
                  else nz (zn h - (len - 1) * f) :: repeat (nz f) (N.to_nat (len - 1))
      end
    end
  | _ => [-99]
  end.

Fixpoint zlist_eqb (a b : list Z) : bool :=
  match a, b with
  | [], [] => true
  | x :: a', y :: b' => (x =? y) && zlist_eqb a' b'
  | _, _ => false
  end.
(* ---- C03 BC1-5 blocks: [kind; rgb_only; wide; bytes...] -> 16 pixels, channel by channel *)
Definition bcfmt_of (k : Z) : bcfmt :=
  if k =? 0 then FBC1 else if k =? 1 then FBC2 else if k =? 2 then FBC2P else if k =? 3 then FBC3 else if k =? 4 then FBC3P
  else if k =? 5 then FRXGB else if k =? 6 then FBC4U else if k =? 7 then FBC4S else if k =? 8 then FBC5U else FBC5S.
Definition run_c03 (a : list Z) : list Z :=
  match a with
  | k :: rgb :: prec :: bytes =>
      let b := map zn bytes in
      if (prec =? 2) && negb ((k =? 11) || (k =? 12)) then BCF32.bc_decode_f32 k (negb (rgb =? 0)) b
      else if (k =? 11) || (k =? 12) then
        (* BC6H: the decoder over the tables as they are in the source now must agree with the one over the frozen
           specification tables on this block *)
        if zlist_eqb (concat (bc6_model (k =? 12) b)) (concat (bc6_spec (k =? 12) b)) then BCF32.bc6_out prec (k =? 12) b else [-6]
      else if k =? 10 then
        (* BC7: the implementation-shaped model and the specification-shaped one must agree on the block as well *)
        let m := bc7_model b in
        if zlist_eqb (map nz (concat m)) (map nz (concat (bc7_spec b)))
        then map nz (concat (widen (negb (prec =? 0)) (if rgb =? 0 then m else map (firstn 3) m)))
        else [-7]
      else map nz (concat (bc_decode (bcfmt_of k) (negb (rgb =? 0)) (negb (prec =? 0)) b))
  | _ => [-99]
  end.

(* ---- C04 uncompressed decode: [fmt; prec; w; h; bytes...] -> channel values; float model: [op; a; b] -> [r] *)
Definition run_c04 (a : list Z) : list Z :=
  match a with
  | f :: prec :: w :: h :: data => Uncomp.decode_image f prec w h data
  | _ => [-99]
  end.
Definition canon_bits (x : fl) : Z := f32_bits x.
Definition run_c40 (a : list Z) : list Z :=
  match a with
  | [op; x; y] =>
      let fx := f32_of_bits x in let fy := f32_of_bits y in
      [ if op =? 0 then canon_bits (f32_add fx fy) else if op =? 1 then canon_bits (f32_sub fx fy)
        else if op =? 2 then canon_bits (f32_mul fx fy) else if op =? 3 then canon_bits (f32_div fx fy)
        else if op =? 4 then canon_bits (f32_of_Z x) else if op =? 5 then Convert.as_u8 fx else if op =? 6 then Convert.as_u16 fx
        else if op =? 7 then Convert.as_u32 fx else if op =? 8 then canon_bits (fmax fx fy) else if op =? 9 then canon_bits (fmin fx fy)
        else if op =? 10 then canon_bits (Convert.clamp01 fx)
        else (if flt fx fy then 1 else 0) + 2 * (if fle fx fy then 1 else 0) ]
  | _ => [-99]
  end.

(* ---- C05: [esize; from; to; W; H; rx; ry; rw; rh; pitch; offset; buflen; prefill; native bytes...] -> buffer *)
Fixpoint chunk_list {A} (fuel : nat) (n : nat) (l : list A) : list (list A) :=
  match fuel with O => [] | S fu => match l with [] => [] | _ => firstn n l :: chunk_list fu n (skipn n l) end end.
Definition run_c05 (a : list Z) : list Z :=
  match a with
  | esize :: from :: to :: W :: H :: rx :: ry :: rw :: rh :: pitch :: offset :: buflen :: prefill :: native =>
      let es := Z.to_nat esize in
      let one := if esize =? 1 then [255] else if esize =? 2 then [255; 255] else [0; 0; 128; 63] in
      let zero := repeat 0 es in
      let chans := chunk_list (length native) es native in
      let pixels := chunk_list (length chans) (Crop.chcount from) chans in
      let img := chunk_list (length pixels) (Z.to_nat W) pixels in
      let out := Crop.crop (Z.to_nat rx) (Z.to_nat ry) (Z.to_nat rw) (Z.to_nat rh) (Crop.map_px (Crop.chmap one zero from to) img) in
      Crop.blit (repeat prefill (Z.to_nat buflen)) (Z.to_nat offset) (Z.to_nat pitch) out
  | _ => [-99]
  end.

(* ---- C05 block code paths: [mode (0 full, 1 rect); bw; bh; bpb; conv; bbpp; outbpp; pitch; W; H; ox; oy; w; h]
   -> the call trace of the block paths, every event preceded by its length *)
Definition run_c51 (a : list Z) : list Z :=
  match a with
  | [mode; bw; bh; bpb; conv; bbpp; outbpp; pitch; W; H; ox; oy; w; h] =>
      let n := Z.to_nat in
      let tr := if mode =? 0 then RectPath.full_trace (n bw) (n bh) (n bpb) (negb (conv =? 0)) 3072 (n bbpp) (n outbpp) (n pitch) (n W) (n H)
                else RectPath.rect_trace (n bw) (n bh) (n bpb) (negb (conv =? 0)) 3072 (n bbpp) (n outbpp) (n pitch) (n ox) (n oy) (n w) (n h) in
      flat_map (fun e => Z.of_nat (length e) :: map Z.of_nat e) tr
  | _ => [-99]
  end.

(* ---- C05 uncompressed code paths: [conv; bbpp; ebpp; outbpp; w; h] -> the ProcessPixelsFn calls, each preceded by its length *)
Definition run_c52 (a : list Z) : list Z :=
  match a with
  | [conv; bbpp; ebpp; outbpp; w; h] =>
      let n := Z.to_nat in
      flat_map (fun e => Z.of_nat (length e) :: map Z.of_nat e)
        (PixelPath.pixel_trace (negb (conv =? 0)) 3072 (n bbpp) (n ebpp) (n outbpp) (n w) (n h))
  | _ => [-99]
  end.

(* ---- C05 bi-planar code paths: [mode; e1; e2; sx; sy; conv; bbpp; outbpp; W; H; ox; oy; w; h] -> the ProcessBiPlanarFn calls *)
Definition run_c53 (a : list Z) : list Z :=
  match a with
  | [mode; e1; e2; sx; sy; conv; bbpp; outbpp; W; H; ox; oy; w; h] =>
      let n := Z.to_nat in
      let cv := negb (conv =? 0) in
      let tr := if mode =? 0 then BiPlanarPath.bp_trace (n e1) (n e2) (n sx) (n sy) cv (3072 / n bbpp) (n outbpp) (BiPlanarPath.bp_full_emits (n sy) (n H)) (n W) 0
                else BiPlanarPath.bp_trace (n e1) (n e2) (n sx) (n sy) cv (3072 / n bbpp) (n outbpp) (BiPlanarPath.bp_rect_emits (n sy) (n H) (n oy) (n h)) (n w) (n ox mod n sx) in
      flat_map (fun e => Z.of_nat (length e) :: map Z.of_nat e) tr
  | _ => [-99]
  end.

(* ---- C12 / C10 encoder chunking: [kind (0 for_each_chunk, 1 sub-sampled rows); buffer pixels; contiguous; w; h; bw] -> chunk events *)
Definition run_c54 (a : list Z) : list Z :=
  match a with
  | [kind; nbuf; contiguous; w; h; bw] =>
      let n := Z.to_nat in
      let rows := repeat (repeat tt (n w)) (n h) in
      if kind =? 0 then
        flat_map (fun c => [2; 5; Z.of_nat (length c)])
          (if contiguous =? 0 then EncChunks.fec_rows unit (n nbuf) rows else EncChunks.fec_contiguous unit (n nbuf) rows)
      else
        concat (map (fun yr => flat_map (fun c => [4; 6; Z.of_nat (fst yr); Z.of_nat (length c); Z.of_nat ((length c + n bw - 1) / n bw)])
                                (EncChunks.chunks unit (n nbuf / n bw * n bw) (snd yr))) (combine (seq 0 (n h)) rows))
  | _ => [-99]
  end.

(* ---- C13 block gathering: [w; h] -> for every 4x4 block the pixel numbers (1-based, row-major) at its 16 positions *)
Definition run_c55 (a : list Z) : list Z :=
  match a with
  | [w; h] =>
      let n := Z.to_nat in
      let img := map (fun y => map (fun x => S (y * n w + x)) (seq 0 (n w))) (seq 0 (n h)) in
      flat_map (fun blk => 17 :: 7 :: map Z.of_nat (concat blk)) (EncBlocks.image_blocks nat 4 4 0%nat (n w) img)
  | _ => [-99]
  end.

(* ---- C12 uncompressed encode: [fmt; channels; prec; values...] -> bytes *)
Definition run_c12 (a : list Z) : list Z :=
  match a with
  | f :: ch :: prec :: values => Encode.encode_image f ch prec values
  | _ => [-99]
  end.

(* C12, any of the 45 formats: [fmt; channels; prec; w; values...] *)
Definition run_c121 (a : list Z) : list Z :=
  match a with
  | f :: ch :: prec :: w :: values => Encode.encode_image_wh f ch prec (Z.to_nat w) values
  | _ => [-99]
  end.

Definition run_case (tag : Z) (args : list Z) : list Z :=
  match tag with
  | 20 => run_c20 args
  | 2 => run_c02 args
  | 8 => run_c08 args
  | 6 => run_c06 args
  | 11 => run_c11 args
  | 10 => run_c10 args
  | 14 => run_c14 args
  | 9 => run_c09 args
  | 19 => run_c19 args
  | 17 => run_c17 args
  | 1 => args      (* C01 / C13 / C15 / C16: implementation-only oracle runs; the summary case is echoed *)
  | 3 => run_c03 args
  | 4 => run_c04 args
  | 5 => run_c05 args
  | 51 => run_c51 args
  | 52 => run_c52 args
  | 53 => run_c53 args
  | 54 => run_c54 args
  | 55 => run_c55 args
  | 12 => run_c12 args
  | 121 => run_c121 args
  | 40 => run_c40 args
  | _ => [-98]
  end.

Definition check_case (c : Z * list Z * list Z) : bool :=
  let '(t, a, r) := c in zlist_eqb (run_case t a) r.
