(* Model of src/iter.rs (SurfaceIterator) and src/decoder.rs (Decoder operations) - C08.
   option = panic (unwrap / debug_assert / arithmetic overflow in the checked build). *)
From DDSV Require Import base.Machine model.Layout.

Inductive iter :=
| ITex (first : texture) (len idx level : N)
| IVol (v : volume) (level depth : N).

Definition iter_new (L : layout) : iter :=
  match L with
  | LTexture t => ITex t 1 0 0
  | LVolume v => IVol v 0 0
  | LArray a => ITex (arr_first a) (a_len a) 0 0
  end.

(* SurfaceInfo: size, len, mipmap level *)
Record sinfo := mkSI { si_w : N; si_h : N; si_len : N; si_level : N }.

Definition iter_current (it : iter) : option (option sinfo) :=
  match it with
  | ITex first len idx level =>
      if idx <? len then
        let? d := tex_get first level in
        match d with
        | None => None      (* debug_assert!(desc.is_some()) *)
        | Some s => Some (Some (mkSI (s_w s) (s_h s) (s_len s) level))
        end
      else Some None
  | IVol v level depth =>
      let? ov := vol_get v level in
      match ov with
      | None => Some None
      | Some vd =>
          if negb (depth <? vd_d vd) then None else   (* debug_assert!(current_depth < v.depth()) *)
          let? os := get_depth_slice vd depth in
          match os with
          | None => None
          | Some s => Some (Some (mkSI (s_w s) (s_h s) (s_len s) level))
          end
      end
  end.

Definition iter_advance (it : iter) : option iter :=
  match it with
  | ITex first len idx level =>
      if idx <? len then
        if level + 1 <? U8 then
          (if level + 1 <? t_mips first then Some (ITex first len idx (level + 1))
           else Some (ITex first len (idx + 1) 0))
        else None
      else Some it
  | IVol v level depth =>
      let? ov := vol_get v level in
      match ov with
      | None => Some it
      | Some vd =>
          if depth + 1 <? vd_d vd then Some (IVol v level (depth + 1))
          else if level + 1 <? U8 then Some (IVol v (level + 1) 0) else None
      end
  end.

Definition iter_rewind (it : iter) : option iter :=
  match it with
  | ITex first len idx level =>
      if 0 <? level then Some (ITex first len idx (level - 1))
      else if 0 <? idx then
        (if 0 <? t_mips first then Some (ITex first len (idx - 1) (t_mips first - 1)) else None)
      else Some it
  | IVol v level depth =>
      if 0 <? depth then Some (IVol v level (depth - 1))
      else if 0 <? level then
        let? ov := vol_get v (level - 1) in
        match ov with
        | None => None    (* unwrap *)
        | Some vd => if 0 <? vd_d vd then Some (IVol v (level - 1) (vd_d vd - 1)) else None
        end
      else Some it
  end.

Fixpoint sum64 (l : list N) (acc : N) : option N :=
  match l with [] => Some acc | x :: r => let? a := unchecked_add64 acc x in sum64 r a end.

Inductive skipres := SkipOk (it : iter) (bytes : N) | SkipErr | SkipPanic.

Definition iter_skip_mipmaps (it : iter) : skipres :=
  match it with
  | ITex first len idx level =>
      if (idx <? len) && negb (level =? 0) then
        match tex_iter_mips first with
        | None => SkipPanic
        | Some l =>
          match sum64 (map s_len (skipn (N.to_nat level) l)) 0 with
          | None => SkipPanic
          | Some b => SkipOk (ITex first len (idx + 1) 0) b
          end
        end
      else SkipOk it 0
  | IVol v level depth =>
      if negb (depth =? 0) then SkipErr
      else if (level =? 0) || (vo_mips v <=? level) then SkipOk it 0
      else
        match vol_iter_mips v with
        | None => SkipPanic
        | Some l =>
          match omap vold_data_len (skipn (N.to_nat level) l) with
          | None => SkipPanic
          | Some ls =>
            match sum64 ls 0 with
            | None => SkipPanic
            | Some b => SkipOk (IVol v (vo_mips v) 0) b
            end
          end
        end
  end.

Definition iter_elapsed (it : iter) : option N :=
  match it with
  | ITex first len idx level =>
      let? dl := tex_data_len first in
      let? base := unchecked_mul64 dl idx in
      let? l := tex_iter_mips first in
      (* for level in 0..current_level: first.get(level).unwrap().data_len() *)
      if (N.of_nat (length l) <? level) then None else
      sum64 (map s_len (firstn (N.to_nat level) l)) base
  | IVol v level depth =>
      let? l := vol_iter_mips v in
      if (N.of_nat (length l) <? level) then None else
      let? ls := omap vold_data_len (firstn (N.to_nat level) l) in
      let? b := sum64 ls 0 in
      match nth_error l (N.to_nat level) with
      | None => Some b
      | Some vd =>
          let? os := get_depth_slice vd 0 in
          let sl := match os with Some s => s_len s | None => 0 end in
          let? m := unchecked_mul64 sl depth in
          unchecked_add64 b m
      end
  end.

(* ---- Decoder *)
Record decoder := mkDec { d_layout : layout; d_it : iter; d_pos : N (* reader position relative to the data section *) }.

Inductive dec_op :=
| OpRead (wrong_size : bool)
| OpRect (out_of_bounds : bool)
| OpSkip
| OpSkipMips
| OpRewindPrev
| OpRewindStart
| OpCube (wrong_size : bool).

Inductive dec_err := ENoMoreSurfaces | EUnexpectedSurfaceSize | ECannotSkipMipmapsInVolume | ENotACubeMap | ERectOutOfBounds | EIo.
Inductive dres := DOk (d : decoder) | DErr (e : dec_err) (d : decoder) | DPanic.

(* util::io_skip_exact on an in-memory cursor: fails only for counts above i64::MAX or u64 overflow *)
Definition io_skip (pos count : N) : option N :=
  if count =? 0 then Some pos
  else if I64MAX <? count then None
  else if pos + count <? U64 then Some (pos + count) else None.

(* the decode call itself: consumes exactly the surface's bytes (C06) *)
Definition read_current (d : decoder) (wrong_size : bool) : dres :=
  match iter_current (d_it d) with
  | None => DPanic
  | Some None => DErr ENoMoreSurfaces d
  | Some (Some si) =>
      if wrong_size then DErr EUnexpectedSurfaceSize d else
      match iter_advance (d_it d) with
      | None => DPanic
      | Some it' => DOk (mkDec (d_layout d) it' (d_pos d + si_len si))
      end
  end.
Definition rect_current (d : decoder) (oob : bool) : dres :=
  match iter_current (d_it d) with
  | None => DPanic
  | Some None => DErr ENoMoreSurfaces d
  | Some (Some si) =>
      if oob then DErr ERectOutOfBounds d else
      match iter_advance (d_it d) with
      | None => DPanic
      | Some it' => DOk (mkDec (d_layout d) it' (d_pos d + si_len si))
      end
  end.
Definition skip_surface (d : decoder) : dres :=
  match iter_current (d_it d) with
  | None => DPanic
  | Some None => DErr ENoMoreSurfaces d
  | Some (Some si) =>
      match io_skip (d_pos d) (si_len si) with
      | None => DErr EIo d
      | Some p =>
        match iter_advance (d_it d) with
        | None => DPanic
        | Some it' => DOk (mkDec (d_layout d) it' p)
        end
      end
  end.
Definition skip_mipmaps (d : decoder) : dres :=
  match iter_skip_mipmaps (d_it d) with
  | SkipPanic => DPanic
  | SkipErr => DErr ECannotSkipMipmapsInVolume d
  | SkipOk it' b =>
      match io_skip (d_pos d) b with
      | None => DErr EIo (mkDec (d_layout d) it' (d_pos d))
      | Some p => DOk (mkDec (d_layout d) it' p)
      end
  end.
(* seek(Current(-n)): amounts above i64::MAX are an I/O error (after the repair of the former
   expect() panic); a cursor rejects negative positions.  None = I/O error *)
Definition seek_back (pos n : N) : option N :=
  if I64MAX <? n then None else if n <=? pos then Some (pos - n) else None.
Definition rewind_prev (d : decoder) : dres :=
  match iter_elapsed (d_it d), iter_rewind (d_it d) with
  | Some cur, Some it' =>
      match iter_elapsed it' with
      | None => DPanic
      | Some prev =>
          if cur <? prev then DPanic else
          match seek_back (d_pos d) (cur - prev) with
          | None => DErr EIo (mkDec (d_layout d) it' (d_pos d))
          | Some p => DOk (mkDec (d_layout d) it' p)
          end
      end
  | _, _ => DPanic
  end.
Definition rewind_start (d : decoder) : dres :=
  match iter_elapsed (d_it d) with
  | None => DPanic
  | Some cur =>
      match seek_back (d_pos d) cur with
      | None => DErr EIo d
      | Some p => DOk (mkDec (d_layout d) (iter_new (d_layout d)) p)
      end
  end.

(* read_cube_map: face table (face bit, cell x, cell y) in the order +X -X +Y -Y +Z -Z *)
Definition face_table : list (N * N * N) := [(1, 2, 1); (2, 0, 1); (4, 1, 0); (8, 1, 2); (16, 1, 1); (32, 3, 1)].
Definition layout_cube_faces (L : layout) : option N :=
  match L with
  | LArray a => match a_kind a with KTextures => None | KCubeMaps => Some 63 | KPartial f => Some f end
  | _ => None
  end.
(* returns the final result and the cells written so far: (cell x, cell y, array element read) *)
Fixpoint cube_loop (faces : list (N * N * N)) (fw fh : N) (d : decoder) (acc : list (N * N * N))
  : dres * list (N * N * N) :=
  match faces with
  | [] => (DOk d, acc)
  | (_, x, y) :: rest =>
      match iter_current (d_it d) with
      | None => (DPanic, acc)
      | Some None => (DErr ENoMoreSurfaces d, acc)
      | Some (Some si) =>
          if negb ((si_w si =? fw) && (si_h si =? fh)) then (DErr EUnexpectedSurfaceSize d, acc) else
          let elem := match d_it d with ITex _ _ idx _ => idx | _ => 0 end in
          match read_current d false with
          | DOk d1 =>
              match skip_mipmaps d1 with
              | DOk d2 => cube_loop rest fw fh d2 (acc ++ [(x, y, elem)])
              | DErr e d2 => (DErr e d2, acc ++ [(x, y, elem)])
              | DPanic => (DPanic, acc ++ [(x, y, elem)])
              end
          | r => (r, acc)
          end
      end
  end.
Definition read_cube_map (d : decoder) (wrong_size : bool) : dres * list (N * N * N) :=
  match layout_cube_faces (d_layout d) with
  | None => (DErr ENotACubeMap d, [])
  | Some faces =>
      match d_layout d with
      | LArray a =>
          (* image size must be (4w, 3h) with checked u32 multiplication *)
          if wrong_size || negb ((a_w a * 4 <? U32) && (a_h a * 3 <? U32)) then (DErr EUnexpectedSurfaceSize d, [])
          else cube_loop (filter (fun f => has_bits faces (fst (fst f))) face_table) (a_w a) (a_h a) d []
      | _ => (DErr ENotACubeMap d, [])
      end
  end.

Definition dec_step (d : decoder) (op : dec_op) : dres * list (N * N * N) :=
  match op with
  | OpRead ws => (read_current d ws, [])
  | OpRect oob => (rect_current d oob, [])
  | OpSkip => (skip_surface d, [])
  | OpSkipMips => (skip_mipmaps d, [])
  | OpRewindPrev => (rewind_prev d, [])
  | OpRewindStart => (rewind_start d, [])
  | OpCube ws => read_cube_map d ws
  end.

Definition dec_init (L : layout) : decoder := mkDec L (iter_new L) 0.
