(* Model of src/progress.rs (ProgressRange, ParallelProgress::submit, checked_report) and of the event
   protocol of Encoder::write_surface_with_progress / encode / encode_parallel - C17.
   Progress values are exact rationals here; the property itself excludes float rounding. *)
From Coq Require Import QArith.
From DDSV Require Import base.Machine.

(* ---- ParallelProgress: a counter of finished rows behind a mutex; each worker job submits its fragment's height *)
Fixpoint psums (acc : N) (l : list N) : list N :=
  match l with [] => [] | x :: r => (acc + x) :: psums (acc + x) r end.
(* what encode_parallel reports for a given completion order: done / (height + 1) for every prefix *)
Definition parallel_reports (h : N) (order : list N) : list Q :=
  map (fun d => Z.of_N d # Pos.of_nat (S (N.to_nat h))) (psums 0 order).

(* ---- ProgressRange *)
Local Open Scope Q_scope.
Record range := mkRange { r_start : Q; r_len : Q }.
Definition FULL : range := mkRange 0 1.
Definition from_to (a b : Q) : range := mkRange a (b - a).
Definition sub_range (outer inner : range) : range :=
  mkRange (r_start outer + r_start inner * r_len outer) (r_len inner * r_len outer).
Definition project (r : range) (p : Q) : Q := r_start r + r_len r * p.

(* Encoder::write_surface_impl get_level_progress_range: 1 - 0.4^level .. 1 - 0.4^(level+1) *)
Definition level_start (l : nat) : Q := 1 - (2 # 5) ^ (Z.of_nat l).
Definition level_range (l : nat) : range := from_to (level_start l) (level_start (S l)).

(* ---- the cancellation protocol as an event trace *)
Local Close Scope Q_scope.
Inductive ev := Check | Report (p : Q) | Write.
Inductive outcome := Done | Cancelled.
(* walks the trace; the token becomes set when the k-th report (0-based) is delivered, or is set from the start *)
Fixpoint run_trace (t : list ev) (token : bool) (cancel_at : option nat) (nrep : nat) (written : nat) : outcome * nat :=
  match t with
  | [] => (Done, written)
  | Check :: r => if token then (Cancelled, written) else run_trace r token cancel_at nrep written
  | Report _ :: r => run_trace r (token || match cancel_at with Some k => Nat.eqb k nrep | None => false end) cancel_at (S nrep) written
  | Write :: r => run_trace r token cancel_at nrep (S written)
  end.
Definition reports_of (t : list ev) : list Q := flat_map (fun e => match e with Report p => [p] | _ => [] end) t.
