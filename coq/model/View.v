(* Model of src/lib.rs: ImageView / ImageViewMut constructors, crop, rows (C20).
   A view is described by the offset of its data inside the caller's buffer, the length of its
   (truncated) data slice and its geometry.  Operations that can panic in Rust (slice indexing,
   assert!, arithmetic overflow in debug builds, chunks_mut(0)) return VPanic explicitly. *)
From DDSV Require Import base.Machine.

Record view := mkView {
  v_off : N;      (* offset of data[0] in the buffer the view was created from *)
  v_len : N;      (* data.len() *)
  v_w : N; v_h : N;
  v_bpp : N;      (* color.bytes_per_pixel(): 1..16 *)
  v_pitch : N }.

Inductive vres (A : Type) := VOk (a : A) | VPanic.
Arguments VOk {A} a. Arguments VPanic {A}.

Definition is_empty (w h : N) : bool := (w =? 0) || (h =? 0).

(* ImageView::new / ImageViewMut::new *)
Definition new_core (len w h bpp : N) : option view :=
  if len =? saturating_mul64 (w * h) bpp
  then Some (mkView 0 len w h bpp (w * bpp)) else None.
Definition view_new (len w h bpp : N) : option view :=
  if is_empty w h then new_core len 0 0 bpp else new_core len w h bpp.

(* ImageView::new_with / ImageViewMut::new_with (after the checked-arithmetic repair) *)
Definition new_with_core (len pitch w h bpp : N) : option view :=
  let bpr := w * bpp in
  if pitch <? bpr then None else
  match (let? a := checked_mul64 pitch (saturating_sub h 1) in checked_add64 a bpr) with
  | None => None
  | Some al => if len <? al then None else Some (mkView 0 al w h bpp pitch)
  end.
Definition view_new_with (len pitch w h bpp : N) : option view :=
  if is_empty w h then new_with_core len 0 0 0 bpp else new_with_core len pitch w h bpp.

Definition is_contiguous (v : view) : bool := v_pitch v * v_h v =? v_len v.

Definition contains_rect (w h ox oy cw ch : N) : bool := (ox + cw <=? w) && (oy + ch <=? h).

(* data[start..end] : panics unless start <= end <= len *)
Definition slice_ok (len s e : N) : bool := (s <=? e) && (e <=? len).

(* cropped / cropped_data *)
Definition cropped (v : view) (ox oy cw ch : N) : vres view :=
  if negb (contains_rect (v_w v) (v_h v) ox oy cw ch) then VPanic      (* documented assert! *)
  else if is_empty cw ch then VOk (mkView (v_off v) 0 0 0 (v_bpp v) 0)
  else
    let bpr := cw * v_bpp v in
    let s := oy * v_pitch v + ox * v_bpp v in
    let e := s + (ch - 1) * v_pitch v + bpr in
    if (e <? U64) && slice_ok (v_len v) s e
    then VOk (mkView (v_off v + s) (e - s) cw ch (v_bpp v) (v_pitch v))
    else VPanic.


(* ImageView::rows : (start, end) of each row inside data; VPanic if a slice is out of range *)
Definition rows (v : view) : vres (list (N * N)) :=
  let h := if is_empty (v_w v) (v_h v) then 0 else v_h v in
  let bpr := v_w v * v_bpp v in
  let rs := map (fun y => (y * v_pitch v, y * v_pitch v + bpr)) (nseq (N.to_nat h) 0) in
  if forallb (fun r => slice_ok (v_len v) (fst r) (snd r)) rs then VOk rs else VPanic.

(* slice::chunks_mut(p): chunk k covers [k*p, min((k+1)*p, len)) *)
Definition chunks (len p : N) : list (N * N) :=
  map (fun k => (k * p, N.min ((k + 1) * p) len)) (nseq (N.to_nat (div_ceil len p)) 0).

(* ImageViewMut::rows_mut (after the repair: chunk size max(pitch,1)); row[..bpr] panics when the
   chunk is shorter than bpr *)
Definition rows_mut (v : view) : vres (list (N * N)) :=
  let bpr := v_w v * v_bpp v in
  let cs := chunks (v_len v) (N.max (v_pitch v) 1) in
  if forallb (fun c => bpr <=? snd c - fst c) cs
  then VOk (map (fun c => (fst c, fst c + bpr)) cs) else VPanic.

(* ImageViewMut::get_row / get_row_range *)
Definition get_row (v : view) (y : N) : vres (N * N) :=
  let s := y * v_pitch v in let e := s + v_w v * v_bpp v in
  if slice_ok (v_len v) s e then VOk (s, e) else VPanic.
Definition get_row_range (v : view) (y height : N) : vres (N * N) :=
  if height =? 0 then VPanic (* debug_assert *) else
  let s := y * v_pitch v in let e := s + (height - 1) * v_pitch v + v_w v * v_bpp v in
  if slice_ok (v_len v) s e then VOk (s, e) else VPanic.
