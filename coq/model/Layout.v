(* Model of src/util.rs (mip sizes), src/pixel.rs (PixelInfo::surface_bytes) and src/layout.rs
   (Texture / Volume / TextureArray / DataLayout::from_header_with).
   u64 arithmetic that the code performs with checked_* is modelled with the checked operators of
   Machine.v; arithmetic it performs unchecked (offset += len, index * len, slice_len * depth) and
   every unwrap()/debug_assert! is modelled by functions returning option, None meaning
   "panic in the checked build / wrap in the release build".  The theorems show None never occurs
   for layouts produced by from_header_with. *)
From DDSV Require Import base.Machine.

Inductive pixel_info :=
| Fixed (bytes : N)
| Block (bytes bw bh : N)
| BiPlanar (b1 b2 sx sy : N).

(* util::get_mipmap_size (level : u8) *)
Definition mip_dim (d level : N) : N :=
  if 31 <=? level then 1 else
  let s := N.shiftr d level in if s =? 0 then 1 else s.

(* PixelInfo::surface_bytes *)
Definition surface_bytes (p : pixel_info) (w h : N) : option N :=
  match p with
  | Fixed b => checked_mul64 (w * h) b
  | Block by_ bw bh => checked_mul64 (div_ceil w bw * div_ceil h bh) by_
  | BiPlanar b1 b2 sx sy =>
      let? p1 := checked_mul64 (w * h) b1 in
      let? p2 := checked_mul64 (div_ceil w sx * div_ceil h sy) b2 in
      checked_add64 p1 p2
  end.

(* layout::get_texture_len : for level in 0..mipmaps *)
Fixpoint tex_len_from (p : pixel_info) (w h level : N) (n : nat) (acc : N) : option N :=
  match n with
  | O => Some acc
  | S n' =>
      let? m := surface_bytes p (mip_dim w level) (mip_dim h level) in
      let? acc' := checked_add64 acc m in
      tex_len_from p w h (level + 1) n' acc'
  end.
Definition get_texture_len (w h mips : N) (p : pixel_info) : option N :=
  tex_len_from p w h 0 (N.to_nat mips) 0.

Fixpoint vol_len_from (p : pixel_info) (w h d level : N) (n : nat) (acc : N) : option N :=
  match n with
  | O => Some acc
  | S n' =>
      let? sl := surface_bytes p (mip_dim w level) (mip_dim h level) in
      let? m := checked_mul64 sl (mip_dim d level) in
      let? acc' := checked_add64 acc m in
      vol_len_from p w h d (level + 1) n' acc'
  end.
Definition get_volume_len (w h d mips : N) (p : pixel_info) : option N :=
  vol_len_from p w h d 0 (N.to_nat mips) 0.

Definition to_short_len (len : N) : option N :=
  if (len <? U32) && negb (len =? 0) then Some len else None.

(* SurfaceDescriptor / VolumeDescriptor *)
Record surf := mkSurf { s_w : N; s_h : N; s_off : N; s_len : N }.
Record vold := mkVold { vd_w : N; vd_h : N; vd_d : N; vd_off : N; vd_slice : N }.

Record texture := mkTex {
  t_w : N; t_h : N; t_mips : N; t_p : pixel_info; t_idx : N; t_short : option N }.
Record volume := mkVol { vo_w : N; vo_h : N; vo_d : N; vo_mips : N; vo_p : pixel_info }.
Inductive array_kind := KTextures | KCubeMaps | KPartial (faces : N).
Record tex_array := mkArr {
  a_kind : array_kind; a_len : N; a_w : N; a_h : N; a_mips : N; a_p : pixel_info; a_short : option N }.
Inductive layout := LTexture (t : texture) | LVolume (v : volume) | LArray (a : tex_array).

Inductive layout_error :=
| ZeroDimension | TooManyMipMaps | MissingDepth | InvalidCubeMapFaces | ArraySizeTooBig | DataLayoutTooBig.
Inductive lres (A : Type) := LOk (a : A) | LErr (e : layout_error).
Arguments LOk {A} a. Arguments LErr {A} e.

(* Texture::create_at_offset_0 *)
Definition tex_create (w h mips : N) (p : pixel_info) : lres texture :=
  match get_texture_len w h mips p with
  | None => LErr DataLayoutTooBig
  | Some len => LOk (mkTex w h mips p 0 (to_short_len len))
  end.

(* impl DataRegion for Texture; None = unwrap() panic / u64 overflow *)
Definition tex_data_len (t : texture) : option N :=
  match t_short t with
  | Some s => Some s
  | None => get_texture_len (t_w t) (t_h t) (t_mips t) (t_p t)
  end.
Definition unchecked_mul64 (a b : N) : option N := checked_mul64 a b.  (* plain `*`: overflow = panic/wrap *)
Definition unchecked_add64 (a b : N) : option N := checked_add64 a b.
Definition tex_data_offset (t : texture) : option N :=
  let? l := tex_data_len t in unchecked_mul64 (t_idx t) l.
Definition tex_data_end (t : texture) : option N :=
  let? l := tex_data_len t in unchecked_mul64 (t_idx t + 1) l.

(* SurfaceDescriptor::new with its two debug_assert!s *)
Definition surf_new (w h off len : N) : option surf :=
  if (len =? 0) then None else
  let? _ := checked_add64 off len in Some (mkSurf w h off len).

(* Texture::iter_mips, fully evaluated *)
Fixpoint iter_mips_from (p : pixel_info) (w h level : N) (n : nat) (off : N) : option (list surf) :=
  match n with
  | O => Some []
  | S n' =>
      let? len := surface_bytes p (mip_dim w level) (mip_dim h level) in
      let? s := surf_new (mip_dim w level) (mip_dim h level) off len in
      let? off' := unchecked_add64 off len in
      let? rest := iter_mips_from p w h (level + 1) n' off' in
      Some (s :: rest)
  end.
Definition tex_iter_mips (t : texture) : option (list surf) :=
  let? off := tex_data_offset t in
  iter_mips_from (t_p t) (t_w t) (t_h t) 0 (N.to_nat (t_mips t)) off.
Definition tex_get (t : texture) (level : N) : option (option surf) :=
  let? l := tex_iter_mips t in Some (nth_error l (N.to_nat level)).
Definition tex_main (t : texture) : option surf :=
  let? len := surface_bytes (t_p t) (t_w t) (t_h t) in
  let? off := tex_data_offset t in
  surf_new (t_w t) (t_h t) off len.

(* Volume *)
Definition vol_create (w h d mips : N) (p : pixel_info) : lres volume :=
  match get_volume_len w h d mips p with
  | None => LErr DataLayoutTooBig
  | Some _ => LOk (mkVol w h d mips p)
  end.
Definition vol_data_len (v : volume) : option N :=
  get_volume_len (vo_w v) (vo_h v) (vo_d v) (vo_mips v) (vo_p v).
(* VolumeDescriptor::new with its debug_assert!s *)
Definition vold_new (w h d off slice : N) : option vold :=
  if slice =? 0 then None else
  let? l := checked_mul64 slice d in
  let? _ := checked_add64 off l in Some (mkVold w h d off slice).
Fixpoint vol_iter_from (p : pixel_info) (w h d level : N) (n : nat) (off : N) : option (list vold) :=
  match n with
  | O => Some []
  | S n' =>
      let? sl := surface_bytes p (mip_dim w level) (mip_dim h level) in
      let? v := vold_new (mip_dim w level) (mip_dim h level) (mip_dim d level) off sl in
      let? m := unchecked_mul64 (mip_dim d level) sl in
      let? off' := unchecked_add64 off m in
      let? rest := vol_iter_from p w h d (level + 1) n' off' in
      Some (v :: rest)
  end.
Definition vol_iter_mips (v : volume) : option (list vold) :=
  vol_iter_from (vo_p v) (vo_w v) (vo_h v) (vo_d v) 0 (N.to_nat (vo_mips v)) 0.
Definition vol_get (v : volume) (level : N) : option (option vold) :=
  let? l := vol_iter_mips v in Some (nth_error l (N.to_nat level)).
Definition vold_data_len (vd : vold) : option N := unchecked_mul64 (vd_slice vd) (vd_d vd).

(* VolumeDescriptor::get_depth_slice / iter_depth_slices (struct literal: no debug asserts) *)
Definition depth_slice (vd : vold) (k : N) : option surf :=
  let? m := unchecked_mul64 k (vd_slice vd) in
  let? o := unchecked_add64 (vd_off vd) m in
  Some (mkSurf (vd_w vd) (vd_h vd) o (vd_slice vd)).
Definition get_depth_slice (vd : vold) (k : N) : option (option surf) :=
  if k <? vd_d vd then (let? s := depth_slice vd k in Some (Some s)) else Some None.
Fixpoint omap {A B} (f : A -> option B) (l : list A) : option (list B) :=
  match l with
  | [] => Some []
  | x :: l' => let? y := f x in let? r := omap f l' in Some (y :: r)
  end.
Definition iter_depth_slices (vd : vold) : option (list surf) :=
  omap (depth_slice vd) (nseq (N.to_nat (vd_d vd)) 0).

(* TextureArray *)
Definition arr_new (kind : array_kind) (array_len : N) (first : texture) : lres tex_array :=
  match tex_data_len first with
  | None => LErr DataLayoutTooBig   (* unreachable: first was just created *)
  | Some l =>
    match checked_mul64 l array_len with
    | None => LErr DataLayoutTooBig
    | Some _ => LOk (mkArr kind array_len (t_w first) (t_h first) (t_mips first) (t_p first) (t_short first))
    end
  end.
Definition arr_first (a : tex_array) : texture :=
  mkTex (a_w a) (a_h a) (a_mips a) (a_p a) 0 (a_short a).
Definition arr_get (a : tex_array) (i : N) : option texture :=
  if i <? a_len a then
    Some (mkTex (a_w a) (a_h a) (a_mips a) (a_p a) i (a_short a))
  else None.
Definition arr_iter (a : tex_array) : list texture :=
  map (fun i => mkTex (a_w a) (a_h a) (a_mips a) (a_p a) i (a_short a)) (nseq (N.to_nat (a_len a)) 0).
Definition arr_data_len (a : tex_array) : option N :=
  let? l := tex_data_len (arr_first a) in unchecked_mul64 l (a_len a).

Definition layout_data_len (L : layout) : option N :=
  match L with
  | LTexture t => tex_data_len t
  | LVolume v => vol_data_len v
  | LArray a => arr_data_len a
  end.

(* ---- the part of a header the layout depends on *)
Inductive res_dim := Tex1D | Tex2D | Tex3D.
Record lheader := mkLH {
  lh_dx10 : bool;
  lh_w : N; lh_h : N; lh_depth : option N;
  lh_mips : N;             (* NonZeroU32 *)
  lh_cube10 : bool;        (* DX10: misc_flag contains TEXTURE_CUBE *)
  lh_dim : res_dim;        (* DX10 *)
  lh_array : N;            (* DX10 *)
  lh_caps2 : N }.          (* DX9 *)

Definition CAPS2_CUBE_MAP : N := 512.          (* 0x200 *)
Definition CAPS2_VOLUME : N := 2097152.        (* 0x200000 *)
Definition has_bits (x m : N) : bool := N.land x m =? m.
Definition cube_faces (caps2 : N) : N := N.land (N.shiftr caps2 10) 63.
Fixpoint popcount6 (n : nat) (x : N) : N :=
  match n with O => 0 | S n' => (if N.testbit x (N.of_nat n') then 1 else 0) + popcount6 n' x end.
Definition count_faces (f : N) : N := popcount6 6 f.

Definition lbind {A B} (r : lres A) (f : A -> lres B) : lres B :=
  match r with LOk a => f a | LErr e => LErr e end.
Notation "'let!' x ':=' o 'in' k" := (lbind o (fun x => k))
  (at level 200, x pattern, o at level 100, k at level 200, right associativity).

Definition parse_dimension (d : N) : lres N := if d =? 0 then LErr ZeroDimension else LOk d.
Definition parse_mipmap_count (m : N) : lres N := if 255 <? m then LErr TooManyMipMaps else LOk m.

(* SurfaceLayoutInfo::from_header *)
Definition surface_info (h : lheader) : lres (N * N * N) :=
  let! w := parse_dimension (lh_w h) in
  let! hh := parse_dimension (lh_h h) in
  let! m := parse_mipmap_count (lh_mips h) in
  LOk (w, hh, m).
Definition volume_info (h : lheader) : lres (N * N * N * N) :=
  let! w := parse_dimension (lh_w h) in
  let! hh := parse_dimension (lh_h h) in
  let! d := match lh_depth h with None => LErr MissingDepth | Some d => parse_dimension d end in
  let! m := parse_mipmap_count (lh_mips h) in
  LOk (w, hh, d, m).
Definition create_array (w h m : N) (p : pixel_info) (kind : array_kind) (n : N) : lres layout :=
  let! first := tex_create w h m p in
  let! a := arr_new kind n first in LOk (LArray a).

(* DataLayout::from_header_with *)
Definition from_header_with (h : lheader) (p : pixel_info) : lres layout :=
  if lh_dx10 h then
    if lh_cube10 h then
      match lh_dim h with
      | Tex2D =>
        let! (w, hh, m) := surface_info h in
        match checked_mul32 (lh_array h) 6 with
        | None => LErr ArraySizeTooBig
        | Some faces => create_array w hh m p KCubeMaps faces
        end
      | _ => LErr InvalidCubeMapFaces
      end
    else
      match lh_dim h with
      | Tex3D =>
        let! (w, hh, d, m) := volume_info h in
        let! v := vol_create w hh d m p in LOk (LVolume v)
      | dim =>
        let! (w, hh, m) := surface_info h in
        let hh := match dim with Tex1D => 1 | _ => hh end in
        if lh_array h =? 1 then (let! t := tex_create w hh m p in LOk (LTexture t))
        else create_array w hh m p KTextures (lh_array h)
      end
  else
    if has_bits (lh_caps2 h) CAPS2_CUBE_MAP then
      if has_bits (lh_caps2 h) CAPS2_VOLUME then LErr InvalidCubeMapFaces else
      let! (w, hh, m) := surface_info h in
      let faces := cube_faces (lh_caps2 h) in
      let n := count_faces faces in
      create_array w hh m p (if n =? 6 then KCubeMaps else KPartial faces) n
    else if has_bits (lh_caps2 h) CAPS2_VOLUME then
      let! (w, hh, d, m) := volume_info h in
      let! v := vol_create w hh d m p in LOk (LVolume v)
    else
      let! (w, hh, m) := surface_info h in
      let! t := tex_create w hh m p in LOk (LTexture t).

(* ---- enumeration of all surfaces in file order (what Decoder / Encoder walk through) *)
Definition oconcat {A} (l : list (option (list A))) : option (list A) :=
  fold_right (fun x acc => let? a := x in let? b := acc in Some (a ++ b)) (Some []) l.
Definition flatten (L : layout) : option (list surf) :=
  match L with
  | LTexture t => tex_iter_mips t
  | LArray a => oconcat (map tex_iter_mips (arr_iter a))
  | LVolume v => let? vs := vol_iter_mips v in oconcat (map iter_depth_slices vs)
  end.
