(* Model of src/decode/bc.rs `blocks`: BC1 - BC5 block decoders at U8 and U16 precision.
   A block is a list of 8 / 16 bytes; a pixel is the list of its channel values. *)
From DDSV Require Import base.Machine model.Numeric.

Definition byte (l : list N) (i : nat) : N := nth i l 0.
Definition le16 (l : list N) (i : nat) : N := byte l i + 256 * byte l (S i).
Definition le24 (l : list N) (i : nat) : N := byte l i + 256 * byte l (S i) + 65536 * byte l (S (S i)).
Definition le32 (l : list N) (i : nat) : N := le16 l i + 65536 * le16 l (S (S i)).

Definition rgb8_of565 (u : N) : list N := [n5_n8 (r5_of u); n6_n8 (g6_of u); n5_n8 (b5_of u)].
Definition third_rgb8 (a b : N) : list N := [third5 (r5_of a) (r5_of b); third6 (g6_of a) (g6_of b); third5 (b5_of a) (b5_of b)].
Definition mid_rgb8 (a b : N) : list N := [mid5 (r5_of a) (r5_of b); mid6 (g6_of a) (g6_of b); mid5 (b5_of a) (b5_of b)].

Definition idx2 (indexes : N) (i : nat) : N := shr indexes (2 * N.of_nat i) mod 4.
Definition pixels_of_lut {A} (lut : list A) (d : A) (index_of : nat -> N) : list A :=
  map (fun i => nth (N.to_nat (index_of i)) lut d) (seq 0 16).

(* bc1_u8_rgba: mode by endpoint order; bc1_no_default_u8_rgba: always four colours *)
Definition bc1_lut (mode_select : bool) (c0 c1 : N) : list (list N) :=
  let p0 := rgb8_of565 c0 ++ [255] in
  let p1 := rgb8_of565 c1 ++ [255] in
  if negb mode_select || (c1 <? c0)
  then [p0; p1; third_rgb8 c0 c1 ++ [255]; third_rgb8 c1 c0 ++ [255]]
  else [p0; p1; mid_rgb8 c0 c1 ++ [255]; [0; 0; 0; 0]].
Definition bc1_u8 (mode_select : bool) (b : list N) : list (list N) :=
  pixels_of_lut (bc1_lut mode_select (le16 b 0) (le16 b 2)) [] (idx2 (le32 b 4)).

Definition set_alpha (px : list (list N)) (alpha : list N) : list (list N) :=
  map (fun pa => firstn 3 (fst pa) ++ [snd pa]) (combine px alpha).

(* BC2: explicit 4-bit alpha, low nibble first *)
Definition bc2_alpha (b : list N) : list N :=
  flat_map (fun i => [n4_n8 (byte b i mod 16); n4_n8 (byte b i / 16)]) (seq 0 8).
Definition bc2_u8 (b : list N) : list (list N) := set_alpha (bc1_u8 false (skipn 8 b)) (bc2_alpha b).

(* BC4: two endpoints, 3-bit indices in two 24-bit groups *)
Definition idx3 (b : list N) (i : nat) : N :=
  if (i <? 8)%nat then shr (le24 b 2) (3 * N.of_nat i) mod 8 else shr (le24 b 5) (3 * N.of_nat (i - 8)) mod 8.
Definition bc4u_lut (wide : bool) (c0 c1 : N) : list N :=
  let fb := if wide then n8_n16 else (fun x => x) in
  let f6 := if wide then bc4u_i6_u16 else bc4u_i6_u8 in
  let f4 := if wide then bc4u_i4_u16 else bc4u_i4_u8 in
  let one := if wide then 65535 else 255 in
  if c1 <? c0 then [fb c0; fb c1; f6 (c0 * 6 + c1); f6 (c0 * 5 + c1 * 2); f6 (c0 * 4 + c1 * 3); f6 (c0 * 3 + c1 * 4); f6 (c0 * 2 + c1 * 5); f6 (c0 + c1 * 6)]
  else [fb c0; fb c1; f4 (c0 * 4 + c1); f4 (c0 * 3 + c1 * 2); f4 (c0 * 2 + c1 * 3); f4 (c0 + c1 * 4); 0; one].
Definition bc4u (wide : bool) (b : list N) : list N :=
  pixels_of_lut (bc4u_lut wide (byte b 0) (byte b 1)) 0 (idx3 b).
Definition bc4s_lut (wide : bool) (r0 r1 : N) : list N :=
  let fb := if wide then s8_n16 else s8_n8 in
  let f6 := if wide then bc4s_i6_u16 else bc4s_i6_u8 in
  let f4 := if wide then bc4s_i4_u16 else bc4s_i4_u8 in
  let one := if wide then 65535 else 255 in
  let a := s8_norm r0 in let c := s8_norm r1 in
  if (i8_of r1 <? i8_of r0)%Z then [fb r0; fb r1; f6 (a * 6 + c); f6 (a * 5 + c * 2); f6 (a * 4 + c * 3); f6 (a * 3 + c * 4); f6 (a * 2 + c * 5); f6 (a + c * 6)]
  else [fb r0; fb r1; f4 (a * 4 + c); f4 (a * 3 + c * 2); f4 (a * 2 + c * 3); f4 (a + c * 4); 0; one].
Definition bc4s (wide : bool) (b : list N) : list N :=
  pixels_of_lut (bc4s_lut wide (byte b 0) (byte b 1)) 0 (idx3 b).

(* BC3: BC4 alpha + always-four-colour BC1 (after the repair of finding F7) *)
Definition bc3_u8 (b : list N) : list (list N) := set_alpha (bc1_u8 false (skipn 8 b)) (bc4u false b).

(* premultiplied alpha -> straight alpha *)
Definition to_straight (p : list N) : list N :=
  let a := nth 3 p 0 in let a' := if a =? 0 then 255 else a in
  map (fun c => N.min (c * 255 / a') 255) (firstn 3 p) ++ [a].
Definition rxgb (p : list N) : list N := [nth 3 p 0; nth 1 p 0; nth 2 p 0].

Definition bc5 (signed wide : bool) (b : list N) : list (list N) :=
  let f := if signed then bc4s wide else bc4u wide in
  let blue := if signed then (if wide then 32768 else 128) else 0 in      (* Norm::HALF / Norm::ZERO *)
  map (fun rg => [fst rg; snd rg; blue]) (combine (f b) (f (skipn 8 b))).

(* the decoders by format; U16 output of the BC1-3 family is the U8 result widened by n8::n16 *)
Inductive bcfmt := FBC1 | FBC2 | FBC2P | FBC3 | FBC3P | FRXGB | FBC4U | FBC4S | FBC5U | FBC5S.
Definition widen (wide : bool) (px : list (list N)) : list (list N) := if wide then map (map n8_n16) px else px.
Definition bc_decode (f : bcfmt) (rgb_only wide : bool) (b : list N) : list (list N) :=
  let strip := fun px => if rgb_only then map (firstn 3) px else px in
  match f with
  | FBC1 => widen wide (bc1_u8 true b)
  | FBC2 => widen wide (strip (bc2_u8 b))
  | FBC2P => widen wide (map to_straight (bc2_u8 b))
  | FBC3 => widen wide (strip (bc3_u8 b))
  | FBC3P => widen wide (map to_straight (bc3_u8 b))
  | FRXGB => widen wide (map rxgb (bc3_u8 b))
  | FBC4U => map (fun x => [x]) (bc4u wide b)
  | FBC4S => map (fun x => [x]) (bc4s wide b)
  | FBC5U => bc5 false wide b
  | FBC5S => bc5 true wide b
  end.
