(* Model of src/split.rs (get_fragment_height, SplitView::{new, len, get}) and of the order-preserving
   collection in src/encode/mod.rs encode_parallel - C14. *)
From DDSV Require Import base.Machine.

(* Dithering as a pair of booleans (colour, alpha); intersect = component-wise and *)
Definition dither_intersects (req sup : bool * bool) : bool := (fst req && fst sup) || (snd req && snd sup).

(* get_fragment_height: None = a single fragment.
   sh: the format's split height (0 = none); fp: preferred fragment size in pixels for the chosen quality
   (u64; u64::MAX for "entire image") *)
Definition fragment_height (w h : N) (sh : N) (local_dither : bool) (sup req : bool * bool) (fp : N) : option N :=
  if (w =? 0) || (h =? 0) then None else
  if sh =? 0 then None else
  if negb local_dither && dither_intersects req sup then None else
  let fp := N.max fp 1 in
  if w * h <=? fp then None else
  let f0 := (fp / w) / sh * sh in
  if U32 <=? f0 then None else
  Some (if f0 =? 0 then sh else f0).

Definition split_len (h : N) (fh : option N) : N :=
  match fh with Some f => div_ceil h f | None => 1 end.

(* SplitView::get: rows [start, end) of fragment i; None = panic (debug_assert / overflow) *)
Definition fragment_rows (h : N) (fh : option N) (i : N) : option (N * N) :=
  match fh with
  | None => Some (0, h)
  | Some f =>
      if U32 <=? i * f then None else                 (* index * full_fragment_height in u32 *)
      let start := i * f in
      let end_ := N.min (N.min (start + f) (U32 - 1)) h in   (* saturating_add, then min *)
      if negb (start <? h) then None else Some (start, end_)
  end.

(* encode_parallel: the fragments are encoded by an indexed parallel map, collected in index order and
   written sequentially; the result is a function of the index-ordered list only *)
Definition encode_parallel {A} (enc : N * N -> list A) (h : N) (fh : option N) : option (list A) :=
  let idx := nseq (N.to_nat (split_len h fh)) 0 in
  fold_right (fun i acc => match fragment_rows h fh i, acc with
                           | Some r, Some l => Some (enc r ++ l)
                           | _, _ => None end) (Some []) idx.
