(* Model of src/header.rs: RawHeader::{read, write}, Header::{from_raw, to_raw, read, write,
   fix_based_on_file_len}, Dx9PixelFormat::from_raw, Dx9Header::to_dx10, Dx10Header::to_dx9, constructors
   and builder methods; PixelInfo::from_header (src/pixel.rs) and Format::from_header (src/format.rs,
   src/detect.rs) over the regenerated tables of gen/GenHeader.v and gen/GenFormats.v.  C09, C18, C19. *)
From DDSV Require Import base.Machine model.Layout model.Formats model.HeaderTypes gen.GenFormats gen.GenHeader.

(* ---- constants of src/header.rs (bitflags) *)
Definition DDSD_CAPS : N := 1.        Definition DDSD_HEIGHT : N := 2.      Definition DDSD_WIDTH : N := 4.
Definition DDSD_PITCH : N := 8.       Definition DDSD_PIXEL_FORMAT : N := 4096.
Definition DDSD_MIPMAP_COUNT : N := 131072.   Definition DDSD_LINEAR_SIZE : N := 524288.   Definition DDSD_DEPTH : N := 8388608.
Definition DDSD_REQUIRED : N := 4103.           (* CAPS | HEIGHT | WIDTH | PIXEL_FORMAT *)
Definition CAPS_COMPLEX : N := 8.     Definition CAPS_MIPMAP : N := 4194304.   Definition CAPS_TEXTURE : N := 4096.
Definition CAPS2_ALL_FACES : N := 64512.        (* 0xFC00 *)
Definition PF_FOURCC : N := 4.
Definition MISC_TEXTURE_CUBE : N := 4.
Definition RAW_HEADER_SIZE : N := 124.   Definition RAW_PF_SIZE : N := 32.   Definition RAW_DX10_SIZE : N := 20.

Definition has (x m : N) : bool := N.land x m =? m.      (* bitflags contains *)

(* ---- raw header: 31 (+5) little-endian u32 words *)
Record raw_pf := mkRawPF { rp_size : N; rp_flags : N; rp_fourcc : N; rp_bits : N; rp_r : N; rp_g : N; rp_b : N; rp_a : N }.
Record raw_dx10 := mkRawDx10 { rd_format : N; rd_dim : N; rd_misc : N; rd_array : N; rd_misc2 : N }.
Record raw_header := mkRaw {
  rh_size : N; rh_flags : N; rh_height : N; rh_width : N; rh_pitch : N; rh_depth : N; rh_mips : N;
  rh_res1 : list N;                    (* 11 words *)
  rh_pf : raw_pf; rh_caps : N; rh_caps2 : N; rh_caps3 : N; rh_caps4 : N; rh_res2 : N;
  rh_dx10 : option raw_dx10 }.

(* RawHeader::read on a word stream; None = the reader ran dry (I/O error) *)
Definition raw_read (ws : list N) : option (raw_header * list N) :=
  match ws with
  | size :: flags :: height :: width :: pitch :: depth :: mips ::
    r0 :: r1 :: r2 :: r3 :: r4 :: r5 :: r6 :: r7 :: r8 :: r9 :: r10 ::
    psize :: pflags :: pcc :: pbits :: pr :: pg :: pb :: pa ::
    caps :: caps2 :: caps3 :: caps4 :: res2 :: rest =>
      let pf := mkRawPF psize pflags pcc pbits pr pg pb pa in
      let mk dx := mkRaw size flags height width pitch depth mips [r0; r1; r2; r3; r4; r5; r6; r7; r8; r9; r10]
                         pf caps caps2 caps3 caps4 res2 dx in
      if has pflags PF_FOURCC && (pcc =? FOURCC_DX10) then
        match rest with
        | f :: d :: m :: a :: m2 :: rest' => Some (mk (Some (mkRawDx10 f d m a m2)), rest')
        | _ => None
        end
      else Some (mk None, rest)
  | _ => None
  end.

Definition raw_write (r : raw_header) : list N :=
  let p := rh_pf r in
  [rh_size r; rh_flags r; rh_height r; rh_width r; rh_pitch r; rh_depth r; rh_mips r] ++
  map (fun i => nth i (rh_res1 r) 0) (seq 0 11) ++            (* self.reserved1[0..11]: a fixed-size array *)
  [rp_size p; rp_flags p; rp_fourcc p; rp_bits p; rp_r p; rp_g p; rp_b p; rp_a p;
   rh_caps r; rh_caps2 r; rh_caps3 r; rh_caps4 r; rh_res2 r] ++
  match rh_dx10 r with
  | Some d => [rd_format d; rd_dim d; rd_misc d; rd_array d; rd_misc2 d]
  | None => []
  end.

(* little-endian bytes <-> words *)
Definition word_bytes (w : N) : list N := [w mod 256; (w / 256) mod 256; (w / 65536) mod 256; (w / 16777216) mod 256].
Fixpoint words_of_bytes (bs : list N) : list N :=
  match bs with
  | b0 :: b1 :: b2 :: b3 :: r => (b0 + 256 * b1 + 65536 * b2 + 16777216 * b3) :: words_of_bytes r
  | _ => []
  end.
Definition bytes_of_words (ws : list N) : list N := flat_map word_bytes ws.

(* ---- parsed header *)
Inductive header :=
| HDx9 (height width : N) (depth : option N) (mips : N) (caps2 : N) (pf : pf9)
| HDx10 (height width : N) (depth : option N) (mips : N) (dxgi dim misc array alpha : N).

Inductive herr :=
| EInvalidMagic | EInvalidHeaderSize | EInvalidPixelFormatSize | EInvalidRgbBitCount | EInvalidDxgiFormat
| EInvalidResourceDimension | EInvalidAlphaMode | EInvalidArraySizeForTexture3D | EIoHeader.
Inductive hres (A : Type) := HOk (a : A) | HErr (e : herr).
Arguments HOk {A} a. Arguments HErr {A} e.

Definition h_height (h : header) : N := match h with HDx9 x _ _ _ _ _ | HDx10 x _ _ _ _ _ _ _ _ => x end.
Definition h_width (h : header) : N := match h with HDx9 _ x _ _ _ _ | HDx10 _ x _ _ _ _ _ _ _ => x end.
Definition h_depth (h : header) : option N := match h with HDx9 _ _ x _ _ _ | HDx10 _ _ x _ _ _ _ _ _ => x end.
Definition h_mips (h : header) : N := match h with HDx9 _ _ _ x _ _ | HDx10 _ _ _ x _ _ _ _ _ => x end.
Definition h_is_dx10 (h : header) : bool := match h with HDx10 _ _ _ _ _ _ _ _ _ => true | _ => false end.
Definition header_byte_len (h : header) : N := if h_is_dx10 h then RAW_HEADER_SIZE + RAW_DX10_SIZE else RAW_HEADER_SIZE.
Definition with_mips (h : header) (m : N) : header :=
  match h with
  | HDx9 a b c _ e f => HDx9 a b c m e f
  | HDx10 a b c _ e f g i j => HDx10 a b c m e f g i j
  end.

Definition valid_bits (n : N) : bool := (n =? 8) || (n =? 16) || (n =? 24) || (n =? 32).
Definition dxgi_lookup (code : N) : option dxgi_row := find (fun r => dx_code r =? code) dxgi_rows.

(* Dx9PixelFormat::from_raw *)
Definition pf_from_raw (permissive : bool) (p : raw_pf) : hres pf9 :=
  if negb (rp_size p =? RAW_PF_SIZE) && negb (permissive && ((rp_size p =? 0) || (rp_size p =? 24)))
  then HErr EInvalidPixelFormatSize else
  let flags :=
    if permissive && (rp_bits p =? 0) && negb (rp_fourcc p =? 0) && negb (has (rp_flags p) PF_FOURCC)
    then N.lor (rp_flags p) PF_FOURCC else rp_flags p in
  if has flags PF_FOURCC then HOk (PFFourCC (rp_fourcc p))
  else if valid_bits (rp_bits p) then HOk (PFMask flags (rp_bits p) (rp_r p) (rp_g p) (rp_b p) (rp_a p))
  else HErr EInvalidRgbBitCount.

(* Header::from_raw without the final fix_based_on_file_len *)
Definition from_raw_nofix (permissive : bool) (r : raw_header) : hres header :=
  if negb (rh_size r =? RAW_HEADER_SIZE) && negb (permissive && (rh_size r =? 24)) then HErr EInvalidHeaderSize else
  let depth := if has (rh_flags r) DDSD_DEPTH then Some (rh_depth r) else None in
  let m := if has (rh_flags r) DDSD_MIPMAP_COUNT || has (rh_caps r) CAPS_COMPLEX || has (rh_caps r) CAPS_MIPMAP
           then rh_mips r else 1 in
  let mips := if m =? 0 then 1 else m in
  match pf_from_raw permissive (rh_pf r) with
  | HErr e => HErr e
  | HOk pf =>
    match rh_dx10 r with
    | Some d =>
        match dxgi_lookup (rd_format d) with
        | None => HErr EInvalidDxgiFormat
        | Some _ =>
          if negb ((2 <=? rd_dim d) && (rd_dim d <=? 4)) then HErr EInvalidResourceDimension else
          let ra := N.land (rd_misc2 d) 7 in
          if negb (ra <=? 4) && negb permissive then HErr EInvalidAlphaMode else
          let alpha := if ra <=? 4 then ra else 0 in
          if (rd_dim d =? 4) && negb (rd_array d =? 1) && negb permissive then HErr EInvalidArraySizeForTexture3D else
          let array := if (rd_dim d =? 4) && negb (rd_array d =? 1) then 1 else rd_array d in
          HOk (HDx10 (rh_height r) (rh_width r) depth mips (rd_format d) (rd_dim d) (rd_misc d) array alpha)
        end
    | None => HOk (HDx9 (rh_height r) (rh_width r) depth mips (rh_caps2 r) pf)
    end
  end.

(* ---- pixel layout and format of a header (src/pixel.rs PixelInfo::from_header, src/format.rs Format::from_header) *)
Definition fmt_pi (id : N) : option pixel_info := option_map f_pi (find_fmt fmt_table id).
Definition fourcc_lookup (cc : N) : option fourcc_row := find (fun r => cc_code r =? cc) fourcc_rows.
Definition mask_matches (r : mask_row) (flags bits rr g b a : N) : bool :=
  (mk_flags r =? flags) && (mk_bits r =? bits) && (mk_r r =? rr) && (mk_g r =? g) && (mk_b r =? b) && (mk_a r =? a).
Definition mask_lookup (flags bits r g b a : N) : option mask_row :=
  find (fun row => mask_matches row flags bits r g b a) mask_rows.

Definition pixel_info_of_header (h : header) : option pixel_info :=
  match h with
  | HDx9 _ _ _ _ _ (PFFourCC cc) =>
      match fourcc_lookup cc with Some row => match cc_fmt row with Some f => fmt_pi f | None => None end | None => None end
  | HDx9 _ _ _ _ _ (PFMask _ bits _ _ _ _) => Some (Fixed (bits / 8))
  | HDx10 _ _ _ _ dxgi _ _ _ _ => match dxgi_lookup dxgi with Some row => dx_pi row | None => None end
  end.

(* format ids of the non-DXGI special cases, looked up by name position in gen/GenFormats.v *)
Definition FMT_BC2_PREMUL : N := 47.
Definition FMT_BC3_PREMUL : N := 49.
Definition format_of_header (h : header) : option N :=
  match h with
  | HDx9 _ _ _ _ _ (PFFourCC cc) => match fourcc_lookup cc with Some row => cc_fmt row | None => None end
  | HDx9 _ _ _ _ _ (PFMask flags bits r g b a) => option_map mk_fmt (mask_lookup flags bits r g b a)
  | HDx10 _ _ _ _ dxgi _ _ _ alpha =>
      match dxgi_lookup dxgi with
      | None => None
      | Some row =>
          if (alpha =? 2) && (dxgi =? 74) then Some FMT_BC2_PREMUL        (* BC2_UNORM premultiplied *)
          else if (alpha =? 2) && (dxgi =? 77) then Some FMT_BC3_PREMUL   (* BC3_UNORM premultiplied *)
          else dx_fmt row
      end
  end.

(* the part of a header DataLayout::from_header_with looks at *)
Definition lheader_of (h : header) : lheader :=
  match h with
  | HDx9 height width depth mips caps2 _ => mkLH false width height depth mips false Tex2D 0 caps2
  | HDx10 height width depth mips _ dim misc array _ =>
      mkLH true width height depth mips (has misc MISC_TEXTURE_CUBE)
           (if dim =? 2 then Tex1D else if dim =? 3 then Tex2D else Tex3D) array 0
  end.
Definition layout_len_of (h : header) (p : pixel_info) : option N :=
  match from_header_with (lheader_of h) p with
  | LOk L => layout_data_len L
  | LErr _ => None
  end.

(* ---- Header::to_raw *)
Definition to_raw (h : header) : raw_header :=
  let caps := if 1 <? h_mips h then N.lor CAPS_TEXTURE (N.lor CAPS_MIPMAP CAPS_COMPLEX) else CAPS_TEXTURE in
  let flags0 := N.lor DDSD_REQUIRED DDSD_MIPMAP_COUNT in
  let flags1 := match h_depth h with Some _ => N.lor flags0 DDSD_DEPTH | None => flags0 end in
  let '(pitch, flags) :=
    match pixel_info_of_header h with
    | Some (Fixed b) => if h_width h * b <? U32 then (h_width h * b, N.lor flags1 DDSD_PITCH) else (0, flags1)
    | Some p => match surface_bytes p (h_width h) (h_height h) with
                | Some s => if s <? U32 then (s, N.lor flags1 DDSD_LINEAR_SIZE) else (0, flags1)
                | None => (0, flags1)
                end
    | None => (0, flags1)
    end in
  let '(caps2, pf, dx) :=
    match h with
    | HDx9 _ _ _ _ c2 (PFFourCC cc) => (c2, mkRawPF RAW_PF_SIZE PF_FOURCC cc 0 0 0 0 0, None)
    | HDx9 _ _ _ _ c2 (PFMask f n r g b a) => (c2, mkRawPF RAW_PF_SIZE f 0 n r g b a, None)
    | HDx10 _ _ _ _ dxgi dim misc array alpha =>
        let c2 := N.lor (if dim =? 4 then CAPS2_VOLUME else 0)
                        (if has misc MISC_TEXTURE_CUBE then N.lor CAPS2_CUBE_MAP CAPS2_ALL_FACES else 0) in
        (c2, mkRawPF RAW_PF_SIZE PF_FOURCC FOURCC_DX10 0 0 0 0 0, Some (mkRawDx10 dxgi dim misc array alpha))
    end in
  mkRaw RAW_HEADER_SIZE flags (h_height h) (h_width h) pitch (match h_depth h with Some d => d | None => 1 end) (h_mips h)
        [0; 0; 0; 0; 0; 0; 0; 0; 0; 0; 0] pf caps caps2 0 0 0 dx.

(* ---- Header::fix_based_on_file_len (permissive parsing, C18) *)
Definition MAGIC_LEN : N := 4.
Definition max_mips (d : N) : N := N.log2 d + 1.     (* util::get_maximum_mipmap_count: 32 - leading_zeros, at least 1 *)
Definition test_len (p : pixel_info) (expected : N) (h : header) : bool :=
  match layout_len_of h p with Some l => l =? expected | None => false end.
Definition guesses (h : header) : list N :=
  let m := h_mips h in
  let mx := max_mips (N.max (N.max (h_width h) (h_height h)) (match h_depth h with Some d => d | None => 1 end)) in
  filter (fun g => negb (g =? 0)) [1; mx; m - 1; (if m + 1 <? U32 then m + 1 else U32 - 1)].
Definition fix_mips (test : header -> bool) (h : header) : header :=
  match find (fun g => test (with_mips h g)) (guesses h) with Some g => with_mips h g | None => h end.
Definition set_array (h : header) (n : N) : header :=
  match h with HDx10 a b c m f d mi _ al => HDx10 a b c m f d mi n al | _ => h end.
Definition h_array (h : header) : option N := match h with HDx10 _ _ _ _ _ _ _ n _ => Some n | _ => None end.
Definition is_cube6 (h : header) : bool :=
  match h with HDx10 _ _ _ _ _ d mi n _ => (n =? 6) && (d =? 3) && has mi MISC_TEXTURE_CUBE | _ => false end.

Definition fix_based_on_file_len (h : header) (file_len : option N) : header :=
  match file_len with
  | None => h
  | Some fl =>
    if fl <? MAGIC_LEN + header_byte_len h then h else
    let expected := fl - (MAGIC_LEN + header_byte_len h) in
    match pixel_info_of_header h with
    | None => h
    | Some p =>
      let test := test_len p expected in
      if test h then h else
      (* array_size 0 -> 1: kept even if the length still does not match *)
      let zero := (0 <? expected) && match h_array h with Some 0 => true | _ => false end in
      let h1 := if zero then set_array h 1 else h in
      if zero && test h1 then h1 else
      (* a single cube map written with array_size 6 *)
      if is_cube6 h1 && test (set_array h1 1) then set_array h1 1 else
      (* mip count guesses *)
      fix_mips test h1
    end
  end.

Definition from_raw (permissive : bool) (file_len : option N) (r : raw_header) : hres header :=
  match from_raw_nofix permissive r with
  | HErr e => HErr e
  | HOk h => HOk (if permissive then fix_based_on_file_len h file_len else h)
  end.

(* Header::read / Header::write on bytes *)
Definition MAGIC : list N := [68; 68; 83; 32].    (* "DDS " *)
Fixpoint list_eqb (a b : list N) : bool :=
  match a, b with [], [] => true | x :: a', y :: b' => (x =? y) && list_eqb a' b' | _, _ => false end.
Definition header_read (skip_magic permissive : bool) (file_len : option N) (bytes : list N) : hres header :=
  let body := if skip_magic then Some bytes
              else if (4 <=? N.of_nat (length bytes)) then
                     (if list_eqb (firstn 4 bytes) MAGIC then Some (skipn 4 bytes) else None)
                   else None in
  match body with
  | None => if skip_magic then HErr EIoHeader else if (4 <=? N.of_nat (length bytes)) then HErr EInvalidMagic else HErr EIoHeader
  | Some b =>
      match raw_read (words_of_bytes b) with
      | None => HErr EIoHeader
      | Some (r, _) => from_raw permissive file_len r
      end
  end.
Definition header_write (h : header) : list N := MAGIC ++ bytes_of_words (raw_write (to_raw h)).

(* ---- constructors and builders: Header::new_xxx, Dx9Header::new_xxx, Dx10Header::new_xxx, with_xxx *)
Definition pick_alpha (dxgi : N) : N := match dxgi_lookup dxgi with Some r => if dx_has_alpha r then 1 else 0 | None => 0 end.
Definition dx10_new_image (w h dxgi : N) : header := HDx10 h w None 1 dxgi 3 0 1 (pick_alpha dxgi).
Definition dx10_new_volume (w h d dxgi : N) : header := HDx10 h w (Some d) 1 dxgi 4 0 1 (pick_alpha dxgi).
Definition dx10_new_cube (w h dxgi : N) : header := HDx10 h w None 1 dxgi 3 MISC_TEXTURE_CUBE 1 (pick_alpha dxgi).
Definition dx9_new_image (w h : N) (pf : pf9) : header := HDx9 h w None 1 0 pf.
Definition dx9_new_volume (w h d : N) (pf : pf9) : header := HDx9 h w (Some d) 1 CAPS2_VOLUME pf.
Definition dx9_new_cube (w h : N) (pf : pf9) : header := HDx9 h w None 1 (N.lor CAPS2_CUBE_MAP CAPS2_ALL_FACES) pf.
Definition with_size (h : header) (w hh : N) : header :=
  match h with
  | HDx9 _ _ _ m c f => HDx9 hh w None m c f
  | HDx10 _ _ _ m f d mi n al => HDx10 hh w None m f d mi n al
  end.
Definition with_dimensions (h : header) (w hh : N) (d : option N) : header :=
  match h with
  | HDx9 _ _ _ m c f => HDx9 hh w d m c f
  | HDx10 _ _ _ m f dd mi n al => HDx10 hh w d m f dd mi n al
  end.
Definition with_mipmaps (h : header) : header :=
  with_mips h (max_mips (N.max (N.max (h_width h) (h_height h)) (match h_depth h with Some d => d | None => 1 end))).

(* ---- DX9 <-> DX10 conversion *)
Definition to_dx9_pf (dxgi alpha : N) : option pf9 :=
  match find (fun r => (fst (fst r) =? dxgi) && (snd (fst r) =? alpha)) to_dx9_rows with
  | Some r => snd r | None => None end.
Definition to_dx9 (h : header) : option header :=
  match h with
  | HDx9 _ _ _ _ _ _ => Some h
  | HDx10 hh w d m dxgi dim misc array alpha =>
      if negb (array =? 1) then None else
      if has misc MISC_TEXTURE_CUBE && negb (dim =? 3) then None else
      let caps2 := N.lor (if dim =? 4 then CAPS2_VOLUME else 0)
                         (if has misc MISC_TEXTURE_CUBE then N.lor CAPS2_CUBE_MAP CAPS2_ALL_FACES else 0) in
      match to_dx9_pf dxgi alpha with
      | Some pf => Some (HDx9 hh w d m caps2 pf)
      | None => None
      end
  end.
Definition dx9_alpha_mode (pf : pf9) : N :=
  match pf with PFFourCC cc => if (cc =? FOURCC_DXT2) || (cc =? FOURCC_DXT4) then 2 else 0 | _ => 0 end.
Definition to_dx10 (h : header) : option header :=
  match h with
  | HDx10 _ _ _ _ _ _ _ _ _ => Some h
  | HDx9 hh w d m caps2 pf =>
      let dxgi :=
        match pf with
        | PFFourCC cc =>
            if cc =? FOURCC_DXT2 then Some 74 else if cc =? FOURCC_DXT4 then Some 77
            else match fourcc_lookup cc with Some row => cc_dxgi row | None => None end
        | PFMask f n r g b a =>
            (* masked_to_dxgi: find_map over the rows: the first MATCHING row WITH a dxgi *)
            match find (fun row => mask_matches row f n r g b a && match mk_dxgi row with Some _ => true | None => false end) mask_rows with
            | Some row => mk_dxgi row | None => None end
        end in
      match dxgi with
      | None => None
      | Some dx =>
          if has caps2 CAPS2_CUBE_MAP && negb (has caps2 CAPS2_ALL_FACES) then None else
          Some (HDx10 hh w d m dx (if has caps2 CAPS2_VOLUME then 4 else 3)
                      (if has caps2 CAPS2_CUBE_MAP then MISC_TEXTURE_CUBE else 0) 1 (dx9_alpha_mode pf))
      end
  end.
