(* Record types of the per-format table that `ddsx dump` regenerates into gen/GenFormats.v on every
   run from the crate built from /repo (PixelInfo::from(format), Format::color, Format::encoding_support)
   and from a scan of /repo/src/decode/*.rs (specialised whole-image decoders).
   colour ids: channels * 3 + precision, channels Grayscale/Alpha/Rgb/Rgba = 0..3, precision U8/U16/F32 = 0..2 *)
From DDSV Require Import base.Machine model.Layout.

Record enc_support := mkEnc {
  e_mul_x : N; e_mul_y : N;              (* size multiple (1,1 = none) *)
  e_dither_color : N; e_dither_alpha : N; (* advertised dithering support, 0/1 *)
  e_local_dither : N;
  e_split_height : N }.                   (* 0 = none *)

Record fmt_row := mkFmt {
  f_id : N;
  f_pi : pixel_info;
  f_native : N;            (* native colour id *)
  f_fast : list N;         (* colour ids with a specialised whole-image decoder *)
  f_enc : option enc_support }.

Definition find_fmt (tbl : list fmt_row) (id : N) : option fmt_row :=
  find (fun r => f_id r =? id) tbl.
Definition color_channels (c : N) : N := c / 3.
Definition color_precision (c : N) : N := c mod 3.
Definition channel_count (ch : N) : N := if ch <? 2 then 1 else if ch =? 2 then 3 else 4.
Definition precision_bytes (p : N) : N := if p =? 0 then 1 else if p =? 1 then 2 else 4.
Definition color_bpp (c : N) : N := channel_count (color_channels c) * precision_bytes (color_precision c).
