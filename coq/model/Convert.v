(* The numeric conversions of src/color/formats.rs that the uncompressed decoders use, at the three output
   precisions.  Integer paths reuse model/Numeric.v (N); float paths use the executable IEEE model of
   model/Float.v.  An F32 result is represented by its bit pattern. *)
From Coq Require Import ZArith List Bool Lia.
From DDSV Require Import model.Float.
Import ListNotations.
Local Open Scope Z_scope.

Definition F (z : Z) : fl := f32_of_Z z.
Definition two_powi (k : Z) : fl := f32_of_bits (Z.shiftl (k + 127) 23).
Definition half_f : fl := f32_of_bits 1056964608.            (* 0.5 *)
Definition as_u8 (x : fl) : Z := to_unsigned 255 x.
Definition as_u16 (x : fl) : Z := to_unsigned 65535 x.
Definition as_u32 (x : fl) : Z := to_unsigned 4294967295 x.
(* decimal literal num / 10^6 as the nearest f32 *)
Definition lit6 (num : Z) : fl := f32_div (F num) (F 1000000).
Definition shr (x k : Z) : Z := Z.shiftr x k.

(* fp::n8 / fp::n16 *)
Definition fp_n8 (x : fl) : Z := as_u8 (f32_add (f32_mul x (F 255)) half_f).
Definition fp_n16 (x : fl) : Z := as_u16 (f32_add (f32_mul x (F 65535)) half_f).

(* nK::f32 = (x as f32 * K0) * (1 / (max * K0)) *)
Definition unorm_f32 (max k0 x : Z) : fl := f32_mul (f32_mul (F x) (F k0)) (f32_div (F 1) (f32_mul (F max) (F k0))).
Definition n1_f32 (x : Z) : fl := if x =? 0 then F 0 else F 1.
Definition n2_f32 (x : Z) : fl := f32_mul (F x) (f32_div (F 1) (F 3)).
Definition n4_f32 := unorm_f32 15 3.
Definition n5_f32 := unorm_f32 31 3.
Definition n6_f32 := unorm_f32 63 5.
Definition n8_f32 := unorm_f32 255 3.
Definition n10_f32 := unorm_f32 1023 85.
Definition n16_f32 (x : Z) : fl :=
  let c0 := f32_div (F 1) (F 65536) in
  let c1 := f32_div (f32_div (f32_div (f32_add (F 1) (F 65536)) (F 65536)) (F 65536)) (F 65536) in
  f32_add (f32_mul (F x) c0) (f32_mul (F x) c1).
Definition s8_norm (x : Z) : Z := Z.max 0 (((x + 128) mod 256) - 1).
Definition s16_norm (x : Z) : Z := Z.max 0 (((x + 32768) mod 65536) - 1).
Definition s8_uf32 (x : Z) : fl := unorm_f32 254 31 (s8_norm x).
Definition s16_uf32 (x : Z) : fl := unorm_f32 65534 73 (s16_norm x).
Definition xr10_f32 (x : Z) : fl := f32_div (F (x - 384)) (F 510).

(* integer UNORM / SNORM paths (the same formulas as model/Numeric.v, on Z) *)
Definition n1_n8 (x : Z) := if x =? 0 then 0 else 255.
Definition n1_n16 (x : Z) := if x =? 0 then 0 else 65535.
Definition n2_n8 (x : Z) := x * 85.
Definition n2_n16 (x : Z) := x * 21845.
Definition n4_n8 (x : Z) := x * 17.
Definition n4_n16 (x : Z) := x * 4369.
Definition n5_n8 (x : Z) := shr (x * 2108 + 92) 8.
Definition n5_n16 (x : Z) := shr (x * 138547200) 16.
Definition n6_n8 (x : Z) := shr (x * 1036 + 132) 8.
Definition n6_n16 (x : Z) := shr (x * 68173056 + 30976) 16.
Definition n8_n16 (x : Z) := x * 257.
Definition n10_n8 (x : Z) := shr (x * 16336 + 32656) 16.
Definition n10_n16 (x : Z) := shr (x * 4198340 + 32660) 16.
Definition n16_n8 (x : Z) := shr (x * 255 + 32895) 16.
Definition s8_n8 (x : Z) := shr (s8_norm x * 258 + 2) 8.
Definition s8_n16 (x : Z) := shr (s8_norm x * 16909064 + 32520) 16.
Definition s16_n8 (x : Z) := shr (s16_norm x * 65282 + 8388354) 24.
Definition s16_n16 (x : Z) := shr (s16_norm x * 65538 + 2) 16.
Definition xr10_c (x : Z) : Z := Z.min 510 (Z.max 0 (x - 384)).
Definition xr10_n8 (x : Z) := shr (xr10_c x + 1) 1.
Definition xr10_n16 (x : Z) := shr (xr10_c x * 8421376 + 65535) 16.

(* small floats with a 5-bit exponent: mbits mantissa bits, `sign` whether bit 15 is a sign (fp16) *)
Definition small_exp (mbits x : Z) : Z := shr x mbits mod 32.
Definition small_mant (mbits x : Z) : Z := x mod 2 ^ mbits.
Definition small_f32 (mbits : Z) (has_sign : bool) (x : Z) : fl :=
  let e := small_exp mbits x in let m := small_mant mbits x in
  let v := if e =? 0 then f32_mul (F m) (two_powi (- (14 + mbits)))
           else if negb (e =? 31) then f32_mul (f32_add (F m) (F (2 ^ mbits))) (two_powi (e - 15 - mbits))
           else if m =? 0 then Finf false else Fnan in
  if has_sign && Z.testbit x 15 then fneg v else v.
Definition small_norm (mbits : Z) (scale : Z) (e m : Z) : fl :=
  f32_add (f32_mul (f32_mul (f32_add (F m) (F (2 ^ mbits))) (two_powi (e - 15 - mbits))) (F scale)) half_f.
Definition fp16_n8 (x : Z) : Z :=
  let e := small_exp 10 x in let m := small_mant 10 x in
  let v := if negb (e =? 31) then as_u8 (small_norm 10 255 e m) else if m =? 0 then 255 else 0 in
  if Z.testbit x 15 then 0 else v.
Definition fp16_n16 (x : Z) : Z :=
  let e := small_exp 10 x in let m := small_mant 10 x in
  let v := if e =? 0 then as_u16 (f32_add (f32_mul (F m) (f32_div (F 65535) (F 16777216))) half_f)
           else if negb (e =? 31) then as_u16 (small_norm 10 65535 e m) else if m =? 0 then 65535 else 0 in
  if Z.testbit x 15 then 0 else v.
Definition fp11_n8 (x : Z) : Z :=
  let e := small_exp 6 x in let m := small_mant 6 x in
  if negb (e =? 31) then as_u8 (small_norm 6 255 e m) else if m =? 0 then 255 else 0.
Definition fp11_n16 (x : Z) : Z :=
  let e := small_exp 6 x in let m := small_mant 6 x in
  if e =? 0 then shr (m + 7) 4 else if negb (e =? 31) then as_u16 (small_norm 6 65535 e m) else if m =? 0 then 65535 else 0.
Definition fp10_n8 (x : Z) : Z :=
  let e := small_exp 5 x in let m := small_mant 5 x in
  if negb (e =? 31) then as_u8 (small_norm 5 255 e m) else if m =? 0 then 255 else 0.
Definition fp10_n16 (x : Z) : Z :=
  let e := small_exp 5 x in let m := small_mant 5 x in
  if e =? 0 then shr (m + 3) 3 else if negb (e =? 31) then as_u16 (small_norm 5 65535 e m) else if m =? 0 then 65535 else 0.

(* R9G9B9E5 *)
Definition rgb9995 (prec : Z) (w : Z) : list Z :=
  let r := w mod 512 in let g := shr w 9 mod 512 in let b := shr w 18 mod 512 in let e := shr w 27 mod 32 in
  let f := two_powi (e - 24) in
  if prec =? 2 then map (fun m => f32_bits (f32_mul (F m) f)) [r; g; b]
  else let scale := if prec =? 0 then 255 else 65535 in
       let f' := f32_mul f (F scale) in
       if prec =? 0 then map (fun m => to_unsigned scale (f32_add (f32_mul (F m) f') half_f)) [r; g; b]
       else (* 16 bit: the product is computed in f64 (repair of finding F12) *)
            map (fun m => to_unsigned scale (f64_add (f64_mul (f64_of_Z m) (f32_to_f64 f')) (f64_of_bits 4602678819172646912))) [r; g; b].

(* BT.601 limited range YUV -> RGB *)
Definition yuv_rgb_f (c d e : fl) : list fl :=
  let k := lit6 1164383 in
  [ f32_add (f32_mul k c) (f32_mul (lit6 1596027) e);
    f32_sub (f32_sub (f32_mul k c) (f32_mul (lit6 391762) d)) (f32_mul (lit6 812968) e);
    f32_add (f32_mul k c) (f32_mul (lit6 2017232) d) ].
Definition clamp01 (x : fl) : fl := fclamp x (F 0) (F 1).
Definition yuv_f32 (yoff coff max : Z) (y u v : Z) : list fl :=
  let c := f32_sub (F y) (F yoff) in let d := f32_sub (F u) (F coff) in let e := f32_sub (F v) (F coff) in
  map (fun x => clamp01 (f32_mul x (f32_div (F 1) (F max)))) (yuv_rgb_f c d e).
Definition yuv8_n8 (y u v : Z) : list Z :=
  let c := f32_sub (F y) (F 16) in let d := f32_sub (F u) (F 128) in let e := f32_sub (F v) (F 128) in
  map (fun x => as_u8 (f32_add x half_f)) (yuv_rgb_f c d e).
(* bits: 8, 10 or 16; prec 0 / 1 / 2 *)
Definition yuv (bits prec : Z) (y u v : Z) : list Z :=
  let '(yoff, coff, max) := if bits =? 8 then (16, 128, 255) else if bits =? 10 then (64, 512, 1023) else (4096, 32768, 65535) in
  if (bits =? 8) && (prec =? 0) then yuv8_n8 y u v
  else let f := yuv_f32 yoff coff max y u v in
       if prec =? 0 then map fp_n8 f else if prec =? 1 then map fp_n16 f else map f32_bits f.
