(* Model of the I/O and allocation behaviour of dds::decode / dds::decode_rect (C06, C07, and the
   script layer of C01): src/decode/mod.rs (check_likely_overflow, decode, decode_rect::inner),
   src/decode/decoder.rs (DecodeContext::{reserve_bytes, alloc, alloc_read_buffer, read_into},
   DecoderSet::{decode, decode_rect}), src/decode/read_write.rs (for_each_pixel[_rect]_untyped,
   for_each_block[_rect]_untyped, for_each_bi_planar[_rect], UntypedLineBuffer, read_exact_image),
   src/util.rs (io_skip_exact).

   A decode is modelled in two layers: the *script* - the list of effects (allocation of n bytes,
   skip of n bytes, read of n bytes) the code performs, a function of the format's geometry, the
   surface size, the rectangle and whether a specialised whole-image fast path applies - and an
   interpreter that runs a script against an abstract reader (position, length, optional fault
   offset) and a memory budget.  Pixel values are not part of this layer. *)
From DDSV Require Import base.Machine model.Layout.

Inductive eff := EAlloc (n : N) | ESkip (n : N) | ERead (n : N).

(* UntypedLineBuffer::new: (64 KiB / bytes_per_line).clamp(1, height) lines *)
Definition TARGET_BUFFER_SIZE : N := 65536.
Definition line_buffer_len (bpl height : N) : N :=
  N.min (N.max (TARGET_BUFFER_SIZE / bpl) 1) height * bpl.

(* the reads of a line buffer over `height` lines of bpl bytes: batches of lines_in_buffer lines *)
Fixpoint line_reads (fuel : nat) (lines_in_buf bpl remaining : N) : list eff :=
  match fuel with
  | O => []
  | S f => if remaining =? 0 then [] else
           let k := N.min lines_in_buf remaining in
           ERead (k * bpl) :: line_reads f lines_in_buf bpl (remaining - k)
  end.

Definition is_empty (w h : N) : bool := (w =? 0) || (h =? 0).

(* whole-surface decode; fast = a specialised decoder (read_exact_image) applies for this colour *)
Definition script_full (p : pixel_info) (fast : bool) (W H : N) : list eff :=
  if is_empty W H then [] else
  match p with
  | Fixed enc =>
      if fast then [ERead (W * H * enc)]
      else [EAlloc (line_buffer_len (W * enc) H); ERead (W * enc * H)]
  | Block bpb bw bh =>
      let bpl := div_ceil W bw * bpb in
      let hb := div_ceil H bh in
      [EAlloc (line_buffer_len bpl hb); ERead (bpl * hb)]
  | BiPlanar e1 e2 sx sy =>
      let p1 := W * e1 * H in
      let uvl := div_ceil W sx * e2 in
      let uvh := div_ceil H sy in
      [EAlloc p1; EAlloc (line_buffer_len uvl uvh); ERead p1; ERead (uvl * uvh)]
  end.

(* one Read per row, a Skip between rows *)
Fixpoint pixel_rows (n : nat) (row gap : N) : list eff :=
  match n with
  | O => []
  | S O => [ERead row]
  | S n' => ERead row :: ESkip gap :: pixel_rows n' row gap
  end.

(* rectangle (ox, oy, w, h) of a W x H surface; requires ox + w <= W, oy + h <= H, w, h >= 1 *)
Definition script_rect (p : pixel_info) (W H ox oy w h : N) : list eff :=
  match p with
  | Fixed enc =>
      let bpr := W * enc in
      let before := ox * enc in
      let after := (W - ox - w) * enc in
      [EAlloc (w * enc); ESkip (bpr * oy + before)] ++ pixel_rows (N.to_nat h) (w * enc) (before + after)
        ++ [ESkip (after + (H - oy - h) * bpr)]
  | Block bpb bw bh =>
      let bpl := div_ceil W bw * bpb in
      let before := oy / bh in
      let to_read := div_ceil (h + oy) bh - before in
      let after := div_ceil H bh - before - to_read in
      [EAlloc (line_buffer_len bpl to_read); ESkip (bpl * before); ERead (bpl * to_read); ESkip (bpl * after)]
  | BiPlanar e1 e2 sx sy =>
      let p1bpl := W * e1 in
      let p1 := p1bpl * h in
      let uv_before := oy / sy in
      let uv_after := div_ceil H sy - div_ceil (oy + h) sy in
      let uv_lines := div_ceil H sy - uv_before - uv_after in
      let uvl := div_ceil W sx * e2 in
      [EAlloc p1; EAlloc (line_buffer_len uvl uv_lines);
       ESkip (p1bpl * oy); ERead p1; ESkip (p1bpl * (H - oy - h));
       ESkip (uv_before * uvl); ERead (uvl * uv_lines); ESkip (uv_after * uvl)]
  end.

Inductive outcome := OOk | OMem | OIo | ORectOOB.

(* check_likely_overflow *)
Definition likely_overflow (p : pixel_info) (W H : N) : bool :=
  match surface_bytes p W H with
  | Some b => I64MAX <? b
  | None => true
  end.

Inductive request :=
| RFull (W H : N) (fast : bool)
| RRect (W H ox oy w h : N).

(* the effects a request performs, or the error it is refused with before any effect *)
Definition plan (p : pixel_info) (rq : request) : outcome * list eff :=
  match rq with
  | RFull W H fast =>
      if likely_overflow p W H then (OMem, []) else (OOk, script_full p fast W H)
  | RRect W H ox oy w h =>
      if likely_overflow p W H then (OMem, []) else
      if negb ((ox + w <=? W) && (oy + h <=? H)) then (ORectOOB, []) else
      if is_empty w h then
        (OOk, [ESkip (match surface_bytes p W H with Some b => b | None => U64 - 1 end)])
      else (OOk, script_rect p W H ox oy w h)
  end.

(* ---- interpreter: an in-memory reader (seeking past the end is allowed, reading is not) *)
Record reader := mkReader { r_pos : N; r_len : N; r_fault : option N }.

Record rstate := mkRS { s_out : outcome; s_limit : N; s_rd : reader; s_trace : list eff (* executed, newest first *) }.

Definition step (st : rstate) (e : eff) : rstate :=
  match s_out st with
  | OOk =>
    let rd := s_rd st in
    match e with
    | EAlloc n =>
        if s_limit st <? n then mkRS OMem (s_limit st) rd (s_trace st)
        else mkRS OOk (s_limit st - n) rd (e :: s_trace st)
    | ESkip n =>
        if n =? 0 then st
        else if I64MAX <? n then mkRS OIo (s_limit st) rd (s_trace st)
        else if U64 <=? r_pos rd + n then mkRS OIo (s_limit st) rd (s_trace st)
        else mkRS OOk (s_limit st) (mkReader (r_pos rd + n) (r_len rd) (r_fault rd)) (e :: s_trace st)
    | ERead n =>
        if n =? 0 then st else
        let faulty := match r_fault rd with Some k => k <? r_pos rd + n | None => false end in
        if faulty || (r_len rd <? r_pos rd + n) then mkRS OIo (s_limit st) rd (s_trace st)
        else mkRS OOk (s_limit st) (mkReader (r_pos rd + n) (r_len rd) (r_fault rd)) (e :: s_trace st)
    end
  | _ => st
  end.

Definition run_script (s : list eff) (limit : N) (rd : reader) : rstate :=
  fold_left step s (mkRS OOk limit rd []).

Definition decode_run (p : pixel_info) (rq : request) (limit : N) (rd : reader) : rstate :=
  match plan p rq with
  | (OOk, s) => run_script s limit rd
  | (o, _) => mkRS o limit rd []
  end.

(* ---- observables *)
Definition allocs (t : list eff) : list N :=
  flat_map (fun e => match e with EAlloc n => if n =? 0 then [] else [n] | _ => [] end) t.
Definition sum_allocs (t : list eff) : N := fold_right N.add 0 (allocs t).
Definition moved (t : list eff) : N :=
  fold_right (fun e acc => match e with ESkip n | ERead n => n + acc | _ => acc end) 0 t.
(* reader effects with adjacent reads merged, adjacent skips merged (std may split a read_exact,
   and the line buffer's batches are adjacent reads) *)
Fixpoint coalesce (t : list eff) : list eff :=
  match t with
  | [] => []
  | EAlloc _ :: r => coalesce r
  | ESkip a :: r => match coalesce r with ESkip b :: r' => ESkip (a + b) :: r' | r' => ESkip a :: r' end
  | ERead a :: r => match coalesce r with ERead b :: r' => ERead (a + b) :: r' | r' => ERead a :: r' end
  end.
