(* Model of src/decode/bc6.rs: BC6H_UF16 / BC6H_SF16 blocks to 16 RGB pixels of half-float bit patterns.
   All arithmetic is the i32 arithmetic of the code on Z (no intermediate leaves the i32 range: proved where
   used); `>>` on negative values is the arithmetic shift (floor).  The bit layout of the ten two-region modes
   is regenerated from the consume! sequences of the source (gen/GenBC6.v); partitions from gen/GenBC.v. *)
From DDSV Require Import base.Machine model.BC7 gen.GenBC gen.GenBC6 spec.SpecBC7Tables spec.SpecBC6Tables.
Local Open Scope Z_scope.

Definition ztake (n : Z) (s : Z) : Z * Z := (s mod 2 ^ n, s / 2 ^ n).
(* BitStream::consume_bits_rev: the bits in reverse order (for count >= 2) *)
Fixpoint rev_bits (k : nat) (x : Z) : Z := match k with O => 0 | S k' => (x mod 2) * 2 ^ Z.of_nat k' + rev_bits k' (x / 2) end.
Definition ztake_rev (n : Z) (s : Z) : Z * Z := let v := fst (ztake n s) in ((if 2 <=? n then rev_bits (Z.to_nat n) v else v), snd (ztake n s)).

Definition sign_extend (x bits : Z) : Z := if 2 ^ (bits - 1) <=? x then x - 2 ^ bits else x.

Definition unquantize (signed : bool) (c bits : Z) : Z :=
  if negb signed then
    if 15 <=? bits then c else if c =? 0 then 0 else if c =? 2 ^ bits - 1 then 65535 else Z.shiftr (c * 65536 + 32768) bits
  else
    if 16 <=? bits then c else
    let s := c <? 0 in let m := Z.abs c in
    let u := if m =? 0 then 0 else if 2 ^ (bits - 1) - 1 <=? m then 32767 else Z.shiftr (m * 32768 + 16384) (bits - 1) in
    if s then - u else u.
Definition finish_unquantize (signed : bool) (c : Z) : Z :=
  if negb signed then (Z.shiftr (c * 31) 6) mod 65536
  else let v := if c <? 0 then - (Z.shiftr ((- c) * 31) 5) else Z.shiftr (c * 31) 5 in
       (if v <? 0 then Z.lor 32768 (- v) else v) mod 65536.
Definition weights3 : list Z := [0; 9; 18; 27; 37; 46; 55; 64].
Definition weights4 : list Z := [0; 4; 9; 13; 17; 21; 26; 30; 34; 38; 43; 47; 51; 55; 60; 64].
(* palette of one region: endpoints a, b (three components each), precision bits *)
Definition palette (signed : bool) (ws : list Z) (a b : list Z) (bits : Z) : list (list Z) :=
  let ua := map (fun c => unquantize signed c bits) a in let ub := map (fun c => unquantize signed c bits) b in
  map (fun w => map (fun p => finish_unquantize signed (Z.shiftr (fst p * (64 - w) + snd p * w + 32) 6)) (combine ua ub)) ws.

Definition zero_block : list (list Z) := repeat [0; 0; 0] 16.

(* one-region modes: code 0..3 = 10_10, 11_9, 12_8, 16_4 *)
Definition decode_one (indices : N -> list N -> N -> list N * N) (signed : bool) (code : Z) (s0 : Z) : list (list Z) :=
  let a0 := nth (Z.to_nat code) [10; 11; 12; 16] 10 in let b0 := 20 - a0 in let ext := a0 - 10 in
  let ar := ztake 10 s0 in let ag := ztake 10 (snd ar) in let ab := ztake 10 (snd ag) in
  let br := ztake b0 (snd ab) in let er := ztake_rev ext (snd br) in
  let bg := ztake b0 (snd er) in let eg := ztake_rev ext (snd bg) in
  let bb := ztake b0 (snd eg) in let eb := ztake_rev ext (snd bb) in
  let a := [fst ar + fst er * 1024; fst ag + fst eg * 1024; fst ab + fst eb * 1024] in
  let b := [fst br; fst bg; fst bb] in
  let idx := fst (indices 4%N [0%N] (Z.to_N (snd eb))) in
  let transformed := negb (code =? 0) in
  let a' := if signed then map (fun c => sign_extend c a0) a else a in
  let b1 := if transformed || signed then map (fun c => sign_extend c b0) b else b in
  let b2 := if transformed then map (fun p => let v := (fst p + snd p) mod 2 ^ a0 in if signed then sign_extend v a0 else v) (combine a' b1) else b1 in
  let pal := palette signed weights4 a' b2 a0 in
  map (fun i => nth (N.to_nat (nth i idx 0%N)) pal [0; 0; 0]) (seq 0 16).

(* two-region modes: a0 bits and the delta bits (r, g, b) per mode code *)
Definition two_params (code : Z) : Z * (Z * Z * Z) :=
  if code =? 0 then (10, (5, 5, 5)) else if code =? 1 then (7, (6, 6, 6)) else if code =? 2 then (11, (5, 4, 4))
  else if code =? 6 then (11, (4, 5, 4)) else if code =? 10 then (11, (4, 4, 5)) else if code =? 14 then (9, (5, 5, 5))
  else if code =? 18 then (8, (6, 5, 5)) else if code =? 22 then (8, (5, 6, 5)) else if code =? 26 then (8, (5, 5, 6)) else (6, (6, 6, 6)).
(* reading the fields: comp ep ch accumulates value << shift *)
Fixpoint read_fields (fs : list (N * N * N * N)) (s : Z) (acc : N -> N -> Z) : (N -> N -> Z) * Z :=
  match fs with
  | [] => (acc, s)
  | (ch, ep, sh, n) :: fs' =>
      let v := ztake (Z.of_N n) s in
      read_fields fs' (snd v) (fun e c => if (e =? ep)%N && (c =? ch)%N then acc e c + fst v * 2 ^ Z.of_N sh else acc e c)
  end.
Definition decode_two (indices : N -> list N -> N -> list N * N) (signed : bool) (fields_table : list (N * list (N * N * N * N))) (p2 : list (list N * list N)) (code : Z) (s0 : Z) : list (list Z) :=
  match find (fun r => (fst r =? Z.to_N code)%N) fields_table with
  | None => zero_block
  | Some row =>
    let '(a0, (dr, dg, db)) := two_params code in
    let rf := read_fields (snd row) s0 (fun _ _ => 0) in
    let comp := fun e => [fst rf e 0%N; fst rf e 1%N; fst rf e 2%N] in
    let part := ztake 5 (snd rf) in
    let prow := nth (Z.to_nat (fst part)) p2 ([], []) in
    let idx := fst (indices 3%N (0%N :: snd prow) (Z.to_N (snd part))) in
    let transformed := negb (code =? 30) in
    let se3 := fun l => match l with [r; g; b] => [sign_extend r dr; sign_extend g dg; sign_extend b db] | _ => l end in
    let w := if signed then map (fun c => sign_extend c a0) (comp 0%N) else comp 0%N in
    let ext := fun l => if transformed || signed then se3 l else l in
    let x := ext (comp 1%N) in let y := ext (comp 2%N) in let z := ext (comp 3%N) in
    let tr := fun l => if transformed then map (fun p => let v := (fst p + snd p) mod 2 ^ a0 in if signed then sign_extend v a0 else v) (combine l w) else l in
    let pal0 := palette signed weights3 w (tr x) a0 in
    let pal1 := palette signed weights3 (tr y) (tr z) a0 in
    map (fun i => nth (N.to_nat (nth i idx 0%N)) (if (nth i (fst prow) 0 =? 0)%N then pal0 else pal1) [0; 0; 0]) (seq 0 16)
  end.

Definition bc6_decode_with (indices : N -> list N -> N -> list N * N) (fields_table : list (N * list (N * N * N * N))) (p2 : list (list N * list N)) (signed : bool) (block : list N) : list (list Z) :=
  let s := Z.of_N (le128 block) in
  let low2 := s mod 4 in
  if low2 =? 0 then decode_two indices signed fields_table p2 0 (s / 4)
  else if low2 =? 1 then decode_two indices signed fields_table p2 1 (s / 4)
  else let high3 := (s / 4) mod 8 in
       if low2 =? 2 then decode_two indices signed fields_table p2 (high3 * 4 + 2) (s / 32)
       else if 4 <=? high3 then zero_block       (* reserved modes 10011, 10111, 11011, 11111 *)
       else decode_one indices signed (high3 mod 4) (s / 32).
Definition bc6_model : bool -> list N -> list (list Z) := bc6_decode_with impl_indices bc6_two_fields partition2.
(* the same decoder over the specification's frozen tables and the sequential index reader of the BC7 specification model *)
Definition bc6_spec : bool -> list N -> list (list Z) := bc6_decode_with spec_indices spec_bc6_two_fields spec_partition2.

