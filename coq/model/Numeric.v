(* Integer numeric conversions of src/color/formats.rs (modules n1..n16, s8, s16, xr10, B5G6R5, B5G5R5A1)
   and the BC4 interpolation finalisers of src/decode/bc.rs.  u8/u16/u32 values are N; every intermediate
   value is small enough that no wrap occurs (proved where the functions are used). *)
From DDSV Require Import base.Machine.

Definition shr (x k : N) : N := x / 2 ^ k.

(* n-bit UNORM -> 8 / 16 bit UNORM *)
Definition n1_n8 (x : N) : N := if x =? 0 then 0 else 255.
Definition n1_n16 (x : N) : N := if x =? 0 then 0 else 65535.
Definition n2_n8 (x : N) : N := x * 85.
Definition n2_n16 (x : N) : N := x * 21845.
Definition n4_n8 (x : N) : N := x * 17.
Definition n4_n16 (x : N) : N := x * 4369.
Definition n5_n8 (x : N) : N := shr (x * 2108 + 92) 8.
Definition n5_n16 (x : N) : N := shr (x * 138547200) 16.
Definition n6_n8 (x : N) : N := shr (x * 1036 + 132) 8.
Definition n6_n16 (x : N) : N := shr (x * 68173056 + 30976) 16.
Definition n8_n16 (x : N) : N := x * 257.
Definition n10_n8 (x : N) : N := shr (x * 16336 + 32656) 16.
Definition n10_n16 (x : N) : N := shr (x * 4198340 + 32660) 16.
Definition n16_n8 (x : N) : N := shr (x * 255 + 32895) 16.

(* SNORM: both minimum codes map to -1 *)
Definition s8_norm (x : N) : N := ((x + 128) mod 256) - 1.             (* wrapping_add(128).saturating_sub(1): 0..254 *)
Definition s8_n8 (x : N) : N := shr (s8_norm x * 258 + 2) 8.
Definition s8_n16 (x : N) : N := shr (s8_norm x * 16909064 + 32520) 16.
Definition s16_norm (x : N) : N := ((x + 32768) mod 65536) - 1.
Definition s16_n8 (x : N) : N := shr (s16_norm x * 65282 + 8388354) 24.
Definition s16_n16 (x : N) : N := shr (s16_norm x * 65538 + 2) 16.
(* i8 comparison red0 as i8 > red1 as i8 *)
Definition i8_of (x : N) : Z := if x <? 128 then Z.of_N x else Z.of_N x - 256.

(* XR bias: 10-bit 2.8 fixed point with bias 0x180 *)
Definition xr10_n8 (x : N) : N := let c := N.min (x - 384) 510 in shr (c + 1) 1.
Definition xr10_n16 (x : N) : N := let c := N.min (x - 384) 510 in shr (c * 8421376 + 65535) 16.

(* B5G6R5 *)
Definition r5_of (u : N) : N := shr u 11 mod 32.
Definition g6_of (u : N) : N := shr u 5 mod 64.
Definition b5_of (u : N) : N := u mod 32.
(* nearest RGB8 of 2/3 a + 1/3 b, per channel width *)
Definition third5 (a b : N) : N := shr ((a * 2 + b) * 351 + 61) 7.
Definition third6 (a b : N) : N := shr ((a * 2 + b) * 2763 + 1039) 11.
Definition mid5 (a b : N) : N := shr ((a + b) * 1053 + 125) 8.
Definition mid6 (a b : N) : N := shr ((a + b) * 4145 + 1019) 11.

(* BC4 finalisers (src/decode/bc.rs BC4uOperations / BC4sOperations) *)
Definition bc4u_i6_u8 (i : N) : N := shr (i * 9360 + 32160) 16.
Definition bc4u_i4_u8 (i : N) : N := shr (i * 13104 + 30288) 16.
Definition bc4u_i6_u16 (i : N) : N := shr (i * 2406112 + 28064) 16.
Definition bc4u_i4_u16 (i : N) : N := shr (i * 3368544 + 34368) 16.
Definition bc4s_i6_u8 (i : N) : N := (i * 255 + 889) / 1778.
Definition bc4s_i4_u8 (i : N) : N := (i * 255 + 635) / 1270.
Definition bc4s_i6_u16 (i : N) : N := (i * 65535 + 889) / 1778.
Definition bc4s_i4_u16 (i : N) : N := (i * 65535 + 635) / 1270.
