(* Model of src/encoder.rs (Encoder::write_surface_impl, finish) over the iterator model of
   model/DecoderSM.v - C11 / C10.  The encode call itself is abstracted: given a surface of the right
   size it is refused before the first byte when the operation is already cancelled or when the size
   is not a multiple of the format's size multiple (InvalidSize), and otherwise writes exactly the
   surface's layout length (C10's byte accounting, checked on the implementation after every call).
   EPanic = unwrap / debug_assert / overflow. *)
From DDSV Require Import base.Machine model.Layout model.DecoderSM.

Record encoder := mkEncoder {
  e_layout : layout; e_it : iter; e_bytes : N; e_generate : bool;
  e_mul : N * N }.      (* the format's size multiple (1,1 = none) *)

Inductive enc_err := XTooManySurfaces | XUnexpectedSurfaceSize | XCancelled | XInvalidSize | XMissingSurfaces.
Inductive enc_op :=
| EWrite (wrong_size : bool) (cancelled : bool)
| EToggle
| EFinish.
Inductive eres := EOk (e : encoder) | EErr (x : enc_err) (e : encoder) | EPanic.

Definition layout_mipmaps (L : layout) : N :=
  match L with LTexture t => t_mips t | LVolume v => vo_mips v | LArray a => a_mips a end.
Definition layout_is_volume (L : layout) : bool := match L with LVolume _ => true | _ => false end.

Definition bad_size (mul : N * N) (si : sinfo) : bool :=
  negb ((si_w si mod fst mul =? 0) && (si_h si mod snd mul =? 0)).

(* mipmap generation: the sizes are gathered with a look-ahead copy of the iterator (no effect), then
   each mipmap is encoded and only then passed; the first level the format refuses stops the loop *)
Fixpoint gen_loop (fuel : nat) (mul : N * N) (it : iter) (bytes : N) : option (iter * N * option enc_err) :=
  match fuel with
  | O => None
  | S f =>
      match iter_current it with
      | None => None
      | Some None => Some (it, bytes, None)
      | Some (Some si) =>
          if si_level si =? 0 then Some (it, bytes, None) else
          if bad_size mul si then Some (it, bytes, Some XInvalidSize) else
          match iter_advance it with
          | None => None
          | Some it' => gen_loop f mul it' (bytes + si_len si)
          end
      end
  end.

Definition enc_write (e : encoder) (wrong_size cancelled : bool) : eres :=
  match iter_current (e_it e) with
  | None => EPanic
  | Some None => EErr XTooManySurfaces e
  | Some (Some si) =>
      if wrong_size then EErr XUnexpectedSurfaceSize e else
      let togen := if e_generate e && negb (layout_is_volume (e_layout e))
                   then layout_mipmaps (e_layout e) - (si_level si + 1) else 0 in
      if cancelled then EErr XCancelled e else
      if bad_size (e_mul e) si then EErr XInvalidSize e else
      match iter_advance (e_it e) with
      | None => EPanic
      | Some it1 =>
          if togen =? 0 then EOk (mkEncoder (e_layout e) it1 (e_bytes e + si_len si) (e_generate e) (e_mul e))
          else match gen_loop 256 (e_mul e) it1 (e_bytes e + si_len si) with
               | None => EPanic
               | Some (it2, b2, None) => EOk (mkEncoder (e_layout e) it2 b2 (e_generate e) (e_mul e))
               | Some (it2, b2, Some x) => EErr x (mkEncoder (e_layout e) it2 b2 (e_generate e) (e_mul e))
               end
      end
  end.

Definition enc_finish (e : encoder) : eres :=
  match iter_current (e_it e) with
  | None => EPanic
  | Some None => EOk e
  | Some (Some _) => EErr XMissingSurfaces e
  end.

Definition enc_step (e : encoder) (op : enc_op) : eres :=
  match op with
  | EWrite ws c => enc_write e ws c
  | EToggle => EOk (mkEncoder (e_layout e) (e_it e) (e_bytes e) (negb (e_generate e)) (e_mul e))
  | EFinish => enc_finish e
  end.

Definition enc_init (L : layout) (header_len : N) (generate : bool) (mul : N * N) : encoder :=
  mkEncoder L (iter_new L) header_len generate mul.
