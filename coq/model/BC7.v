(* Model of src/decode/bc7.rs and the BitStream / Indexes helpers of src/decode/bcn_util.rs.
   The 128-bit block is one N (u128::from_le_bytes); consuming n bits is (s mod 2^n, s / 2^n).
   The decoder is written once, table-driven over the mode description, and parameterised by the three
   helpers in which the implementation deviates from the textbook formulation (endpoint expansion,
   index extraction, interpolation); `bc7_model` instantiates it with the implementation's helpers,
   `bc7_spec` with the specification's.  The partition / anchor tables are regenerated from
   src/bcn_data.rs into gen/GenBC.v. *)
From DDSV Require Import base.Machine model.Numeric gen.GenBC spec.SpecBC7Tables.

Definition le128 (b : list N) : N := fold_right (fun x acc => x + 256 * acc) 0 b.
Definition take (n s : N) : N * N := (s mod 2 ^ n, s / 2 ^ n).
Fixpoint take_k (k : nat) (n s : N) : list N * N :=
  match k with O => ([], s) | S k' => let v := fst (take n s) in let r := take_k k' n (snd (take n s)) in (v :: fst r, snd r) end.

(* trailing zeros of the low byte (u8::trailing_zeros gives 8 for 0) *)
Fixpoint tz (fuel : nat) (x : N) : N :=
  match fuel with O => 0 | S f => if x mod 2 =? 1 then 0 else 1 + tz f (x / 2) end.

(* per-mode description: subsets, partition bits, rotation bits, index-selection bits, colour bits, alpha bits,
   per-endpoint p-bit, shared (per-subset) p-bit, index bits, secondary index bits *)
Record b7mode := { m_ns : nat; m_pb : N; m_rb : N; m_isb : N; m_cb : N; m_ab : N; m_epb : bool; m_spb : bool; m_ib : N; m_ib2 : N }.
Definition b7modes : list b7mode := [
  {| m_ns := 3; m_pb := 4; m_rb := 0; m_isb := 0; m_cb := 4; m_ab := 0; m_epb := true;  m_spb := false; m_ib := 3; m_ib2 := 0 |};
  {| m_ns := 2; m_pb := 6; m_rb := 0; m_isb := 0; m_cb := 6; m_ab := 0; m_epb := false; m_spb := true;  m_ib := 3; m_ib2 := 0 |};
  {| m_ns := 3; m_pb := 6; m_rb := 0; m_isb := 0; m_cb := 5; m_ab := 0; m_epb := false; m_spb := false; m_ib := 2; m_ib2 := 0 |};
  {| m_ns := 2; m_pb := 6; m_rb := 0; m_isb := 0; m_cb := 7; m_ab := 0; m_epb := true;  m_spb := false; m_ib := 2; m_ib2 := 0 |};
  {| m_ns := 1; m_pb := 0; m_rb := 2; m_isb := 1; m_cb := 5; m_ab := 6; m_epb := false; m_spb := false; m_ib := 2; m_ib2 := 3 |};
  {| m_ns := 1; m_pb := 0; m_rb := 2; m_isb := 0; m_cb := 7; m_ab := 8; m_epb := false; m_spb := false; m_ib := 2; m_ib2 := 2 |};
  {| m_ns := 1; m_pb := 0; m_rb := 0; m_isb := 0; m_cb := 7; m_ab := 7; m_epb := true;  m_spb := false; m_ib := 4; m_ib2 := 0 |};
  {| m_ns := 2; m_pb := 6; m_rb := 0; m_isb := 0; m_cb := 5; m_ab := 5; m_epb := true;  m_spb := false; m_ib := 2; m_ib2 := 0 |} ].

(* ---- the implementation's helpers ---- *)
(* promote: number <<= 8 - bits (in u8); number |= number >> bits.  8-bit values are returned unchanged. *)
Definition promote (x bits : N) : N :=
  if 8 <=? bits then x else let n1 := (x * 2 ^ (8 - bits)) mod 256 in N.lor n1 (n1 / 2 ^ bits).
(* Indexes::decompress_single_index on a u64 *)
Definition decompress1 (bits c idx : N) : N :=
  let mask := 2 ^ bits - 1 in
  let keepc := idx * bits in
  let keep := c mod 2 ^ keepc in
  let c1 := ((c / 2 ^ keepc) * 2) mod 2 ^ 64 in
  let first := N.land c1 mask in
  let c2 := N.lor (c1 - first) (first / 2) in           (* (c & !mask) | (first >> 1) *)
  N.lor ((c2 * 2 ^ keepc) mod 2 ^ 64) keep.
Definition impl_indices (bits : N) (anchors : list N) (s : N) : list N * N :=
  let n := 16 * bits - N.of_nat (length anchors) in
  let u := fold_left (decompress1 bits) anchors (fst (take n s)) in
  (map (fun i => (u / 2 ^ (N.of_nat i * bits)) mod 2 ^ bits) (seq 0 16), snd (take n s)).
Definition weights_x4 (bits : N) : list N :=
  if bits =? 2 then bc7_weights2_x4 else if bits =? 3 then bc7_weights3_x4 else bc7_weights4_x4.
Definition impl_interp (bits e0 e1 idx : N) : N :=
  let w := nth (N.to_nat idx) (weights_x4 bits) 0 in ((256 - w) * e0 + w * e1 + 128) / 256.

(* ---- the specification's helpers ---- *)
Definition spec_expand (x bits : N) : N :=
  if 8 <=? bits then x else N.lor (x * 2 ^ (8 - bits)) (x / 2 ^ (2 * bits - 8)).
Fixpoint spec_indices_from (bits : N) (anchors : list N) (i : nat) (k : nat) (s : N) : list N * N :=
  match k with O => ([], s) | S k' =>
    let w := if existsb (N.eqb (N.of_nat i)) anchors then bits - 1 else bits in
    let r := spec_indices_from bits anchors (S i) k' (snd (take w s)) in (fst (take w s) :: fst r, snd r) end.
Definition spec_indices (bits : N) (anchors : list N) (s : N) : list N * N := spec_indices_from bits anchors 0 16 s.
Definition spec_weights (bits : N) : list N :=
  if bits =? 2 then [0; 21; 43; 64] else if bits =? 3 then [0; 9; 18; 27; 37; 46; 55; 64]
  else [0; 4; 9; 13; 17; 21; 26; 30; 34; 38; 43; 47; 51; 55; 60; 64].
Definition spec_interp (bits e0 e1 idx : N) : N :=
  let w := nth (N.to_nat idx) (spec_weights bits) 0 in ((64 - w) * e0 + w * e1 + 32) / 64.

Section Skeleton.
  Variables P2 P3 : list (list N * list N).       (* partition tables for 2 and 3 subsets *)
  Variable expand : N -> N -> N.
  Variable indices : N -> list N -> N -> list N * N.
  Variable interp : N -> N -> N -> N -> N.

  Definition partition_row (ns : nat) (pid : N) : list N * list N :=
    match ns with
    | 2%nat => nth (N.to_nat pid) P2 ([], [])
    | 3%nat => nth (N.to_nat pid) P3 ([], [])
    | _ => (repeat 0 16, [])
    end.
  (* p-bit applied to a raw endpoint value *)
  Definition with_p (v p : N) : N := N.lor (v * 2) p.

  Definition decode_mode (m : b7mode) (s0 : N) : list (list N) :=
    let ne := (2 * m_ns m)%nat in
    let pid := fst (take (m_pb m) s0) in let s1 := snd (take (m_pb m) s0) in
    let rot := fst (take (m_rb m) s1) in let s2 := snd (take (m_rb m) s1) in
    let isb := fst (take (m_isb m) s2) in let s3 := snd (take (m_isb m) s2) in
    let r := take_k ne (m_cb m) s3 in
    let g := take_k ne (m_cb m) (snd r) in
    let b := take_k ne (m_cb m) (snd g) in
    let a := if m_ab m =? 0 then (repeat 255 ne, snd b) else take_k ne (m_ab m) (snd b) in
    let np := if m_epb m then ne else if m_spb m then m_ns m else 0%nat in
    let ps := take_k np 1 (snd a) in
    let pbit := fun i => if m_epb m then nth i (fst ps) 0 else nth (i / 2) (fst ps) 0 in
    let has_p := m_epb m || m_spb m in
    let cbits := if has_p then m_cb m + 1 else m_cb m in
    let abits := if has_p then m_ab m + 1 else m_ab m in
    let chan := fun (raw : list N) (bits : N) (i : nat) =>
      expand (if has_p then with_p (nth i raw 0) (pbit i) else nth i raw 0) bits in
    let endpoint := fun i => [chan (fst r) cbits i; chan (fst g) cbits i; chan (fst b) cbits i;
                              if m_ab m =? 0 then 255 else chan (fst a) abits i] in
    let prow := partition_row (m_ns m) pid in
    let anchors := 0 :: snd prow in
    let i1 := indices (m_ib m) anchors (snd ps) in
    let i2 := if m_ib2 m =? 0 then (fst i1, snd i1) else indices (m_ib2 m) [0] (snd i1) in
    (* index selection: with isb set the colour uses the secondary indices and the alpha the primary ones *)
    let cbits_i := if isb =? 0 then m_ib m else m_ib2 m in
    let abits_i := if m_ib2 m =? 0 then m_ib m else if isb =? 0 then m_ib2 m else m_ib m in
    let cidx := if isb =? 0 then fst i1 else fst i2 in
    let aidx := if m_ib2 m =? 0 then fst i1 else if isb =? 0 then fst i2 else fst i1 in
    map (fun p =>
      let ss := N.to_nat (nth p (fst prow) 0) in
      let e0 := endpoint (2 * ss)%nat in let e1 := endpoint (2 * ss + 1)%nat in
      let ci := nth p cidx 0 in let ai := nth p aidx 0 in
      let px := [interp cbits_i (nth 0 e0 0) (nth 0 e1 0) ci; interp cbits_i (nth 1 e0 0) (nth 1 e1 0) ci;
                 interp cbits_i (nth 2 e0 0) (nth 2 e1 0) ci; interp abits_i (nth 3 e0 0) (nth 3 e1 0) ai] in
      let sw := fun k => [if k =? 0 then nth 3 px 0 else nth 0 px 0; if k =? 1 then nth 3 px 0 else nth 1 px 0;
                          if k =? 2 then nth 3 px 0 else nth 2 px 0; nth (N.to_nat k) px 0] in
      if rot =? 0 then px else sw (rot - 1)) (seq 0 16).

  Definition bc7_decode (block : list N) : list (list N) :=
    let s := le128 block in
    let mode := tz 8 (s mod 256) in
    match nth_error b7modes (N.to_nat mode) with
    | Some m => decode_mode m (s / 2 ^ (mode + 1))
    | None => repeat [0; 0; 0; 0] 16          (* reserved mode: transparent black *)
    end.
End Skeleton.

Definition bc7_model : list N -> list (list N) := bc7_decode partition2 partition3 promote impl_indices impl_interp.
Definition bc7_spec : list N -> list (list N) := bc7_decode spec_partition2 spec_partition3 spec_expand spec_indices spec_interp.
