(* C05 / C06: line-by-line model of UntypedLineBuffer (src/decode/read_write.rs): a buffer of `lines_in_buffer` lines is
   refilled from the reader whenever it is exhausted (min(lines in the buffer, lines left on disk) lines per read_exact), and
   next_line hands out the lines of the buffer one after the other.  `lb_lines` is the sequence of lines next_line returns
   until it returns None, together with the reader position; the reads it performs are the batches of DecodeScript.line_reads. *)
From Coq Require Import ZArith List Bool Lia Arith.
From DDSV Require Import model.Crop.
Import ListNotations.

Section LineBuffer.
Variables (bpl lines_in_buffer : nat).

(* state: buffer contents (the bytes filled by the last read), index of the next line inside it, lines left on disk, reader position *)
Record lbstate := mkLB { lb_buf : list Z; lb_next : nat; lb_on_disk : nat; lb_pos : nat }.

Definition lb_next_line (data : list Z) (st : lbstate) : option (list Z) * lbstate :=
  let st1 := if length (lb_buf st) <=? lb_next st * bpl                                  (* current_line_start >= buf_filled *)
             then if lb_on_disk st =? 0 then st
                  else let k := Nat.min lines_in_buffer (lb_on_disk st) in
                       mkLB (slice (lb_pos st) (k * bpl) data) 0 (lb_on_disk st - k) (lb_pos st + k * bpl)   (* read_exact *)
             else st in
  if length (lb_buf st1) <=? lb_next st1 * bpl then (None, st1)
  else (Some (slice (lb_next st1 * bpl) bpl (lb_buf st1)), mkLB (lb_buf st1) (S (lb_next st1)) (lb_on_disk st1) (lb_pos st1)).

Fixpoint lb_run (fuel : nat) (data : list Z) (st : lbstate) : list (list Z) * lbstate :=
  match fuel with
  | O => ([], st)
  | S f => match lb_next_line data st with
           | (None, st') => ([], st')
           | (Some l, st') => let r := lb_run f data st' in (l :: fst r, snd r)
           end
  end.
(* UntypedLineBuffer::new + repeated next_line: `height` lines starting at reader position `pos` *)
Definition lb_lines (height pos : nat) (data : list Z) : list (list Z) * nat :=
  let r := lb_run (S height) data (mkLB [] 0 height pos) in (fst r, lb_pos (snd r)).
End LineBuffer.
