(* C12 / C10 / C14: line-by-line model of the chunking of the uncompressed encoders:

     encode::write_util::for_each_chunk            -> fec_contiguous (slice::chunks over the whole image) and
                                                      fec_rows (the fill / flush loop over the rows of a view with padding)
     encode::sub_sampled::process_subsample        -> subsample_blocks (full blocks, last partial block padded with the last pixel)
     encode::sub_sampled::uncompressed_universal_subsample -> subsample_row (chunks of 512 / bw * bw pixels per row)

   Pixels (already converted to f32 RGBA by as_rgba_f32, which is per pixel) are an abstract type X; the encoder of one
   block of bw pixels is the parameter `fblk`. *)
From Coq Require Import List Bool Lia Arith.
Import ListNotations.

Section EncChunks.
Variables (X Y : Type).

(* slice::chunks(n) *)
Fixpoint chunks_fuel (fuel n : nat) (l : list X) : list (list X) :=
  match fuel with
  | O => []
  | S f => match l with [] => [] | _ => firstn n l :: chunks_fuel f n (skipn n l) end
  end.
Definition chunks (n : nat) (l : list X) : list (list X) := chunks_fuel (length l) n l.

(* ---- for_each_chunk: the buffers handed to process_chunk *)
Definition fec_contiguous (n : nat) (rows : list (list X)) : list (list X) := chunks n (concat rows).
(* the non-contiguous path: state = (pixels in the buffer, chunks flushed so far) *)
Fixpoint fec_row (fuel n : nat) (row fill : list X) (out : list (list X)) : list X * list (list X) :=
  match fuel with
  | O => (fill, out)
  | S f => match row with
           | [] => (fill, out)
           | _ => let st := if length fill =? n then ([], out ++ [fill]) else (fill, out) in       (* buffer full: flush *)
                  let wp := Nat.min (length row) (n - length (fst st)) in
                  fec_row f n (skipn wp row) (fst st ++ firstn wp row) (snd st)
           end
  end.
Definition fec_rows (n : nat) (rows : list (list X)) : list (list X) :=
  let st := fold_left (fun st row => fec_row (length row) n row (fst st) (snd st)) rows ([], []) in
  if length (fst st) =? 0 then snd st else snd st ++ [fst st].                                     (* flush the rest *)

(* ---- process_subsample: bw pixels per encoded block, the last block padded with the last pixel *)
Variables (bw : nat) (fblk : list X -> Y) (dX : X).
Definition subsample_blocks (data : list X) : list Y :=
  let full := length data / bw in
  let rest := length data - full * bw in
  map (fun k => fblk (firstn bw (skipn (k * bw) data))) (seq 0 full)
  ++ (if rest =? 0 then [] else [fblk (skipn (full * bw) data ++ repeat (last data dX) (bw - rest))]).
(* uncompressed_universal_subsample: one row, chunks of bufpx / bw * bw pixels *)
Definition subsample_row (bufpx : nat) (row : list X) : list Y :=
  concat (map subsample_blocks (chunks (bufpx / bw * bw) row)).
End EncChunks.
