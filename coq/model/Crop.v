(* C05: what "the same pixel, however it is asked for" means.  An image is a list of rows, a row a list of
   pixels, a pixel a list of channels, a channel its bytes as stored in the output buffer (so the same
   definitions serve the three precisions).  The documented channel mapping of src/color/ch.rs and
   convert_channels, rectangle cropping, and the placement of rows in an output buffer with a row pitch. *)
From Coq Require Import ZArith List Bool Lia.
Import ListNotations.
Local Open Scope Z_scope.

Definition chan := list Z.
Definition pixel := list chan.

(* channel layouts: 0 Grayscale, 1 Alpha, 2 Rgb, 3 Rgba.  one / zero are Norm::ONE / Norm::ZERO of the precision *)
Definition chcount (c : Z) : nat := if c =? 0 then 1 else if c =? 1 then 1 else if c =? 2 then 3 else 4.
Definition to_rgba (one zero : chan) (from : Z) (p : pixel) : pixel :=
  let c := fun i => nth i p zero in
  if from =? 0 then [c 0%nat; c 0%nat; c 0%nat; one]
  else if from =? 1 then [zero; zero; zero; c 0%nat]
  else if from =? 2 then [c 0%nat; c 1%nat; c 2%nat; one]
  else [c 0%nat; c 1%nat; c 2%nat; c 3%nat].
Definition from_rgba (zero : chan) (to : Z) (p : pixel) : pixel :=
  let c := fun i => nth i p zero in
  if to =? 0 then [c 0%nat] else if to =? 1 then [c 3%nat] else if to =? 2 then [c 0%nat; c 1%nat; c 2%nat]
  else [c 0%nat; c 1%nat; c 2%nat; c 3%nat].
(* convert_channels, case by case as in the source *)
Definition chmap (one zero : chan) (from to : Z) (p : pixel) : pixel :=
  let c := fun i => nth i p zero in
  if from =? to then p
  else if ((from =? 0) || (from =? 2)) && (to =? 1) then [one]
  else if (from =? 1) && (to =? 0) then [zero]
  else if (from =? 1) && (to =? 2) then [zero; zero; zero]
  else if (from =? 0) && (to =? 2) then [c 0%nat; c 0%nat; c 0%nat]
  else if (from =? 0) && (to =? 3) then [c 0%nat; c 0%nat; c 0%nat; one]
  else if (from =? 1) && (to =? 3) then [zero; zero; zero; c 0%nat]
  else if (from =? 2) && (to =? 0) then [c 0%nat]
  else if (from =? 2) && (to =? 3) then [c 0%nat; c 1%nat; c 2%nat; one]
  else if (from =? 3) && (to =? 0) then [c 0%nat]
  else if (from =? 3) && (to =? 1) then [c 3%nat]
  else [c 0%nat; c 1%nat; c 2%nat].

Definition image := list (list pixel).
Definition slice {A} (start len : nat) (l : list A) : list A := firstn len (skipn start l).
Definition crop (x y w h : nat) (img : image) : image := map (slice x w) (slice y h img).
Definition map_px (f : pixel -> pixel) (img : image) : image := map (map f) img.
Definition px_at (img : image) (x y : nat) : pixel := nth x (nth y img []) [].

(* an output buffer: bytes; row r of the view starts at offset + r * pitch; a row of pixels is stored flat *)
Definition row_bytes (r : list pixel) : list Z := concat (concat r).
Fixpoint overwrite (buf : list Z) (at_ : nat) (data : list Z) {struct at_} : list Z :=
  match at_, buf with
  | O, _ => data ++ skipn (length data) buf
  | S k, b :: buf' => b :: overwrite buf' k data
  | S k, [] => []
  end.
Fixpoint blit (buf : list Z) (offset pitch : nat) (rows : list (list pixel)) : list Z :=
  match rows with
  | [] => buf
  | r :: rs => blit (overwrite buf offset (row_bytes r)) (offset + pitch) pitch rs
  end.

(* block-compressed images: blocks of bw x bh pixels in row-major block order; pixel (x, y) is entry
   (y mod bh) * bw + (x mod bw) of the decoded block (x / bw, y / bh) *)
Definition block_image (bw bh : nat) (dec : list Z -> list pixel) (bytes_per_block : nat) (w h : nat) (data : list Z) : image :=
  let bcols := ((w + bw - 1) / bw)%nat in
  map (fun y => map (fun x =>
        let bi := ((y / bh) * bcols + x / bw)%nat in
        nth ((y mod bh) * bw + x mod bw)%nat (dec (slice (bi * bytes_per_block) bytes_per_block data)) [])
      (seq 0 w)) (seq 0 h).
