(* Model of the uncompressed, packed, sub-sampled and bi-planar decoders (src/decode/uncompressed.rs,
   sub_sampled.rs, bi_planar.rs) at the native channel layout of each format and the three precisions
   (0 = U8, 1 = U16, 2 = F32 as bit pattern).  Formats are numbered as in the harness's FORMATS list
   (ids 0..44).  An image is decoded to the flat list of its channel values, row-major. *)
From Coq Require Import ZArith List Bool Lia.
From DDSV Require Import model.Float model.Convert.
Import ListNotations.
Local Open Scope Z_scope.

Inductive ckind := KN1 | KN2 | KN4 | KN5 | KN6 | KN8 | KN10 | KN16 | KS8 | KS16 | KF16 | KF11 | KF10 | KF32 | KXR.

Definition f16_bits (x : Z) : Z :=
  (* fp16::f32 negates the value for the sign bit: a negative NaN keeps the sign *)
  if (small_exp 10 x =? 31) && negb (small_mant 10 x =? 0) then (if Z.testbit x 15 then 4290772992 else 2143289344)
  else f32_bits (small_f32 10 true x).
Definition scalar (k : ckind) (prec : Z) (x : Z) : Z :=
  match k with
  | KN1 => if prec =? 0 then n1_n8 x else if prec =? 1 then n1_n16 x else f32_bits (n1_f32 x)
  | KN2 => if prec =? 0 then n2_n8 x else if prec =? 1 then n2_n16 x else f32_bits (n2_f32 x)
  | KN4 => if prec =? 0 then n4_n8 x else if prec =? 1 then n4_n16 x else f32_bits (n4_f32 x)
  | KN5 => if prec =? 0 then n5_n8 x else if prec =? 1 then n5_n16 x else f32_bits (n5_f32 x)
  | KN6 => if prec =? 0 then n6_n8 x else if prec =? 1 then n6_n16 x else f32_bits (n6_f32 x)
  | KN8 => if prec =? 0 then x else if prec =? 1 then n8_n16 x else f32_bits (n8_f32 x)
  | KN10 => if prec =? 0 then n10_n8 x else if prec =? 1 then n10_n16 x else f32_bits (n10_f32 x)
  | KN16 => if prec =? 0 then n16_n8 x else if prec =? 1 then x else f32_bits (n16_f32 x)
  | KS8 => if prec =? 0 then s8_n8 x else if prec =? 1 then s8_n16 x else f32_bits (s8_uf32 x)
  | KS16 => if prec =? 0 then s16_n8 x else if prec =? 1 then s16_n16 x else f32_bits (s16_uf32 x)
  | KF16 => if prec =? 0 then fp16_n8 x else if prec =? 1 then fp16_n16 x else f16_bits x
  | KF11 => if prec =? 0 then fp11_n8 x else if prec =? 1 then fp11_n16 x else f32_bits (small_f32 6 false x)
  | KF10 => if prec =? 0 then fp10_n8 x else if prec =? 1 then fp10_n16 x else f32_bits (small_f32 5 false x)
  | KF32 => if prec =? 0 then fp_n8 (f32_of_bits x) else if prec =? 1 then fp_n16 (f32_of_bits x) else x
  | KXR => if prec =? 0 then xr10_n8 x else if prec =? 1 then xr10_n16 x else f32_bits (xr10_f32 x)
  end.
Definition dzero (prec : Z) : Z := 0.
Definition dhalf (prec : Z) : Z := if prec =? 0 then 128 else if prec =? 1 then 32768 else 1056964608.

Definition byte (b : list Z) (i : nat) : Z := nth i b 0.
Definition u16 (b : list Z) (i : nat) : Z := byte b i + 256 * byte b (S i).
Definition u32 (b : list Z) (i : nat) : Z := u16 b i + 65536 * u16 b (S (S i)).
Definition fld (w sh bits : Z) : Z := Z.shiftr w sh mod 2 ^ bits.

(* element size in bytes and pixels per element (1 for pixels, 2 for 2x1 macro pixels, 8 for R1) *)
Definition elem_bytes (f : Z) : Z :=
  nth (Z.to_nat f) [3;3;4;4;4;4;2;2;2;2;1;1;2;2;1;2;2;4;4;8;8;4;4;4;2;4;8;4;8;12;16;4;4;4;8; 1;4;4;4;4;8;8] 0.
Definition channels_of (f : Z) : Z :=
  nth (Z.to_nat f) [3;3;4;4;4;3;3;4;4;4;1;1;3;3;1;1;1;3;3;4;4;4;3;3;1;3;4;1;3;3;4;4;4;4;4; 1;3;3;3;3;3;3; 3;3;3] 0.

(* the pixels of one element *)
Definition element (f prec : Z) (b : list Z) : list (list Z) :=
  let s := fun k x => scalar k prec x in
  match f with
  | 0 => [[s KN8 (byte b 0); s KN8 (byte b 1); s KN8 (byte b 2)]]
  | 1 => [[s KN8 (byte b 2); s KN8 (byte b 1); s KN8 (byte b 0)]]
  | 2 => [map (s KN8) (firstn 4 b)]
  | 3 => [map (s KS8) (firstn 4 b)]
  | 4 => [[s KN8 (byte b 2); s KN8 (byte b 1); s KN8 (byte b 0); s KN8 (byte b 3)]]
  | 5 => [[s KN8 (byte b 2); s KN8 (byte b 1); s KN8 (byte b 0)]]
  | 6 => let w := u16 b 0 in [[s KN5 (fld w 11 5); s KN6 (fld w 5 6); s KN5 (fld w 0 5)]]
  | 7 => let w := u16 b 0 in [[s KN5 (fld w 10 5); s KN5 (fld w 5 5); s KN5 (fld w 0 5); s KN1 (fld w 15 1)]]
  | 8 => let w := u16 b 0 in [[s KN4 (fld w 8 4); s KN4 (fld w 4 4); s KN4 (fld w 0 4); s KN4 (fld w 12 4)]]
  | 9 => let w := u16 b 0 in [[s KN4 (fld w 12 4); s KN4 (fld w 8 4); s KN4 (fld w 4 4); s KN4 (fld w 0 4)]]
  | 10 => [[s KS8 (byte b 0)]]
  | 11 => [[s KN8 (byte b 0)]]
  | 12 => [[s KN8 (byte b 0); s KN8 (byte b 1); dzero prec]]
  | 13 => [[s KS8 (byte b 0); s KS8 (byte b 1); dhalf prec]]
  | 14 => [[s KN8 (byte b 0)]]
  | 15 => [[s KN16 (u16 b 0)]]
  | 16 => [[s KS16 (u16 b 0)]]
  | 17 => [[s KN16 (u16 b 0); s KN16 (u16 b 2); dzero prec]]
  | 18 => [[s KS16 (u16 b 0); s KS16 (u16 b 2); dhalf prec]]
  | 19 => [[s KN16 (u16 b 0); s KN16 (u16 b 2); s KN16 (u16 b 4); s KN16 (u16 b 6)]]
  | 20 => [[s KS16 (u16 b 0); s KS16 (u16 b 2); s KS16 (u16 b 4); s KS16 (u16 b 6)]]
  | 21 => let w := u32 b 0 in [[s KN10 (fld w 0 10); s KN10 (fld w 10 10); s KN10 (fld w 20 10); s KN2 (fld w 30 2)]]
  | 22 => let w := u32 b 0 in [[s KF11 (fld w 0 11); s KF11 (fld w 11 11); s KF10 (fld w 22 10)]]
  | 23 => [rgb9995 prec (u32 b 0)]
  | 24 => [[s KF16 (u16 b 0)]]
  | 25 => [[s KF16 (u16 b 0); s KF16 (u16 b 2); dzero prec]]
  | 26 => [[s KF16 (u16 b 0); s KF16 (u16 b 2); s KF16 (u16 b 4); s KF16 (u16 b 6)]]
  | 27 => [[s KF32 (u32 b 0)]]
  | 28 => [[s KF32 (u32 b 0); s KF32 (u32 b 4); dzero prec]]
  | 29 => [[s KF32 (u32 b 0); s KF32 (u32 b 4); s KF32 (u32 b 8)]]
  | 30 => [[s KF32 (u32 b 0); s KF32 (u32 b 4); s KF32 (u32 b 8); s KF32 (u32 b 12)]]
  | 31 => let w := u32 b 0 in [[s KXR (fld w 0 10); s KXR (fld w 10 10); s KXR (fld w 20 10); s KN2 (fld w 30 2)]]
  | 32 => [yuv 8 prec (byte b 2) (byte b 1) (byte b 0) ++ [s KN8 (byte b 3)]]
  | 33 => let w := u32 b 0 in [yuv 10 prec (fld w 10 10) (fld w 0 10) (fld w 20 10) ++ [s KN2 (fld w 30 2)]]
  | 34 => [yuv 16 prec (u16 b 2) (u16 b 0) (u16 b 4) ++ [s KN16 (u16 b 6)]]
  | 35 => map (fun i => [s KN1 (fld (byte b 0) (7 - Z.of_nat i) 1)]) (seq 0 8)
  | 36 => [[s KN8 (byte b 0); s KN8 (byte b 1); s KN8 (byte b 2)]; [s KN8 (byte b 0); s KN8 (byte b 3); s KN8 (byte b 2)]]
  | 37 => [[s KN8 (byte b 1); s KN8 (byte b 0); s KN8 (byte b 3)]; [s KN8 (byte b 1); s KN8 (byte b 2); s KN8 (byte b 3)]]
  | 38 => [yuv 8 prec (byte b 1) (byte b 0) (byte b 2); yuv 8 prec (byte b 3) (byte b 0) (byte b 2)]
  | 39 => [yuv 8 prec (byte b 0) (byte b 1) (byte b 3); yuv 8 prec (byte b 2) (byte b 1) (byte b 3)]
  | 40 => let q := fun i => Z.shiftr (u16 b i) 6 in [yuv 10 prec (q 0%nat) (q 2%nat) (q 6%nat); yuv 10 prec (q 4%nat) (q 2%nat) (q 6%nat)]
  | 41 => [yuv 16 prec (u16 b 0) (u16 b 2) (u16 b 6); yuv 16 prec (u16 b 4) (u16 b 2) (u16 b 6)]
  | _ => []
  end.
Definition px_per_elem (f : Z) : Z := if f =? 35 then 8 else if (36 <=? f) && (f <=? 41) then 2 else 1.

Fixpoint chunks (fuel : nat) (n : nat) (l : list Z) : list (list Z) :=
  match fuel with O => [] | S fu => match l with [] => [] | _ => firstn n l :: chunks fu n (skipn n l) end end.

Definition cdiv (a b : Z) : Z := (a + b - 1) / b.

(* one row of a pixel / macro-pixel format: the first w pixels of the decoded elements *)
Definition decode_row (f prec w : Z) (row : list Z) : list Z :=
  let eb := Z.to_nat (elem_bytes f) in
  concat (firstn (Z.to_nat w) (flat_map (element f prec) (chunks (length row) eb row))).
Definition row_bytes (f w : Z) : Z := cdiv w (px_per_elem f) * elem_bytes f.

(* bi-planar: plane 1 has w*h luma elements, plane 2 has ceil(w/2)*ceil(h/2) chroma pairs *)
Definition biplanar (f prec w h : Z) (data : list Z) : list Z :=
  let es := if f =? 42 then 1%nat else 2%nat in
  let rd := fun (l : list Z) (i : nat) => if f =? 42 then byte l i else if f =? 43 then Z.shiftr (u16 l (2 * i)) 6 else u16 l (2 * i) in
  let p1 := firstn (Z.to_nat (w * h) * es) data in
  let p2 := skipn (Z.to_nat (w * h) * es) data in
  let cw := cdiv w 2 in
  let bits := if f =? 42 then 8 else if f =? 43 then 10 else 16 in
  flat_map (fun y => flat_map (fun x =>
      let ci := Z.to_nat ((Z.of_nat y / 2) * cw + Z.of_nat x / 2) in
      yuv bits prec (rd p1 (y * Z.to_nat w + x)%nat) (rd p2 (2 * ci)%nat) (rd p2 (2 * ci + 1)%nat))
    (seq 0 (Z.to_nat w))) (seq 0 (Z.to_nat h)).

Definition decode_image (f prec w h : Z) (data : list Z) : list Z :=
  if 42 <=? f then biplanar f prec w h data
  else let rb := Z.to_nat (row_bytes f w) in
       flat_map (decode_row f prec w) (firstn (Z.to_nat h) (chunks (length data) rb data)).
Definition image_bytes (f w h : Z) : Z :=
  if 42 <=? f then (if f =? 42 then 1 else 2) * (w * h + 2 * (cdiv w 2 * cdiv h 2)) else row_bytes f w * h.
