(* C12: 16-bit inputs into narrower UNORM / SNORM fields get the nearest code (all 65536 values).  Two inputs
   miss the exactly nearest code by double rounding in f32 - 45772 into 10 bits (714.49997 -> 715) and 43733 into
   SNORM8 (169.49998 -> 170); the error there is 0.50003 of a step, which the property's comparison at 16-bit
   precision cannot see (|n10_n16 715 - 45772| = 32 <= 32.03).  They are stated with a slack of 4 / 131070 of a step. *)
From Coq Require Import ZArith List Bool Lia.
From DDSV Require Import model.Float model.Convert model.Encode spec.SpecNum proofs.EncodeProofsB.
Local Open Scope Z_scope.
Lemma t_q16 : forallb (fun x => let b := b16 x in
  nearestb (n8_from b) (x * 255) 65535 && nearest_slackb (n10_from b) (x * 1023) 65535 4 && (nearestb (n10_from b) (x * 1023) 65535 || (x =? 45772)) && nearestb (n5_from b) (x * 31) 65535 &&
  nearestb (n6_from b) (x * 63) 65535 && nearestb (n4_from b) (x * 15) 65535 && nearestb (n2_from b) (x * 3) 65535 &&
  nearest_slackb (s8_norm (s8_from b)) (x * 254) 65535 4 && (nearestb (s8_norm (s8_from b)) (x * 254) 65535 || (x =? 43733)) && nearestb (s16_norm (s16_from b)) (x * 65534) 65535) (zrange 65536) = true.
Proof. vm_compute. reflexivity. Qed.
Theorem quantise_u16 x : 0 <= x < 65536 ->
  nearest (n8_from (b16 x)) (x * 255) 65535 /\ nearest_slack (n10_from (b16 x)) (x * 1023) 65535 4 /\ (x <> 45772 -> nearest (n10_from (b16 x)) (x * 1023) 65535) /\
  nearest (n5_from (b16 x)) (x * 31) 65535 /\
  nearest (n6_from (b16 x)) (x * 63) 65535 /\ nearest (n4_from (b16 x)) (x * 15) 65535 /\ nearest (n2_from (b16 x)) (x * 3) 65535 /\
  nearest_slack (s8_norm (s8_from (b16 x))) (x * 254) 65535 4 /\ (x <> 43733 -> nearest (s8_norm (s8_from (b16 x))) (x * 254) 65535) /\
  nearest (s16_norm (s16_from (b16 x))) (x * 65534) 65535.
Proof.
  intros Hx. pose proof (zsweep _ _ t_q16 x Hx) as H. cbv beta zeta in H.
  apply andb_prop in H; destruct H as [H H10]. apply andb_prop in H; destruct H as [H H9]. apply andb_prop in H; destruct H as [H H8].
  apply andb_prop in H; destruct H as [H H7]. apply andb_prop in H; destruct H as [H H6]. apply andb_prop in H; destruct H as [H H5]. apply andb_prop in H; destruct H as [H H4].
  apply andb_prop in H; destruct H as [H H3]. apply andb_prop in H; destruct H as [H1 H2].
  split; [apply nearestb_spec; exact H1|]. split; [apply nearest_slackb_spec; exact H2|].
  split; [intros Hn; apply orb_prop in H3; destruct H3 as [H3|H3]; [apply nearestb_spec; exact H3|apply Z.eqb_eq in H3; contradiction]|].
  split; [apply nearestb_spec; exact H4|]. split; [apply nearestb_spec; exact H5|]. split; [apply nearestb_spec; exact H6|]. split; [apply nearestb_spec; exact H7|].
  split; [apply nearest_slackb_spec; exact H8|].
  split; [intros Hn; apply orb_prop in H9; destruct H9 as [H9|H9]; [apply nearestb_spec; exact H9|apply Z.eqb_eq in H9; contradiction]|].
  apply nearestb_spec; exact H10.
Qed.
