(* C09: headers survive serialisation.  Proofs about model/Header.v. *)
From DDSV Require Import base.Machine model.Layout model.Formats model.HeaderTypes gen.GenFormats gen.GenHeader model.Header.

(* ------------------------------------------------------------ bytes <-> words *)
Lemma word_of_word_bytes w : w < U32 ->
  w mod 256 + 256 * ((w / 256) mod 256) + 65536 * ((w / 65536) mod 256) + 16777216 * ((w / 16777216) mod 256) = w.
Proof. intros H. unfold U32 in H. lia. Qed.

Lemma words_of_bytes_of_words ws : Forall (fun w => w < U32) ws -> words_of_bytes (bytes_of_words ws) = ws.
Proof.
  induction 1 as [|w ws Hw _ IH]; [reflexivity|].
  unfold bytes_of_words in *. cbn [flat_map word_bytes app words_of_bytes]. rewrite IH.
  f_equal. apply word_of_word_bytes. exact Hw.
Qed.

Lemma word_bytes_of_bytes b0 b1 b2 b3 : b0 < 256 -> b1 < 256 -> b2 < 256 -> b3 < 256 ->
  word_bytes (b0 + 256 * b1 + 65536 * b2 + 16777216 * b3) = [b0; b1; b2; b3].
Proof. intros. unfold word_bytes. repeat f_equal; lia. Qed.

Lemma bytes_of_words_of_bytes : forall k bs, length bs = (4 * k)%nat -> Forall (fun b => b < 256) bs ->
  bytes_of_words (words_of_bytes bs) = bs.
Proof.
  induction k as [|k IH]; intros bs Hl Hb.
  - destruct bs; [reflexivity|discriminate].
  - destruct bs as [|b0 [|b1 [|b2 [|b3 r]]]]; try (cbn in Hl; lia).
    inversion Hb as [|? ? H0 Hb1]; subst. inversion Hb1 as [|? ? H1 Hb2]; subst.
    inversion Hb2 as [|? ? H2 Hb3]; subst. inversion Hb3 as [|? ? H3 Hb4]; subst.
    cbn [words_of_bytes]. unfold bytes_of_words in *. cbn [flat_map].
    rewrite word_bytes_of_bytes by assumption. cbn [app]. rewrite IH; [reflexivity| |assumption].
    cbn [length] in Hl. lia.
Qed.
Lemma words_lt_U32 : forall bs, Forall (fun b => b < 256) bs -> Forall (fun w => w < U32) (words_of_bytes bs).
Proof.
  fix IH 1. intros bs Hb. destruct bs as [|b0 [|b1 [|b2 [|b3 r]]]]; try constructor.
  - inversion Hb as [|? ? H0 Hb1]; subst. inversion Hb1 as [|? ? H1 Hb2]; subst.
    inversion Hb2 as [|? ? H2 Hb3]; subst. inversion Hb3 as [|? ? H3 Hb4]; subst. unfold U32. lia.
  - apply IH. inversion Hb as [|? ? H0 Hb1]; subst. inversion Hb1 as [|? ? H1 Hb2]; subst.
    inversion Hb2 as [|? ? H2 Hb3]; subst. inversion Hb3 as [|? ? H3 Hb4]; subst. exact Hb4.
Qed.

(* ------------------------------------------------------------ raw header *)
Definition dx10_marker (r : raw_header) : bool := has (rp_flags (rh_pf r)) PF_FOURCC && (rp_fourcc (rh_pf r) =? FOURCC_DX10).

Theorem raw_read_write ws r rest : raw_read ws = Some (r, rest) -> ws = raw_write r ++ rest.
Proof.
  unfold raw_read.
  do 31 (destruct ws as [|? ws]; [discriminate|]).
  destruct (has _ PF_FOURCC && (_ =? FOURCC_DX10)).
  - do 5 (destruct ws as [|? ws]; [discriminate|]). intros H. injection H as <- <-. reflexivity.
  - intros H. injection H as <- <-. reflexivity.
Qed.

Theorem raw_write_read r rest : length (rh_res1 r) = 11%nat ->
  (match rh_dx10 r with Some _ => dx10_marker r = true | None => dx10_marker r = false end) ->
  raw_read (raw_write r ++ rest) = Some (r, rest).
Proof.
  intros Hl Hm. destruct r as [size flags height width pitch depth mips res1 pf caps caps2 caps3 caps4 res2 dx].
  cbn [rh_res1] in Hl. do 11 (destruct res1 as [|? res1]; [discriminate|]). destruct res1; [|discriminate].
  destruct pf as [ps pfl pcc pb pr pg pbb pa]. unfold dx10_marker in Hm. cbn [rh_pf rp_flags rp_fourcc rh_dx10] in Hm.
  unfold raw_write. cbn [rh_size rh_flags rh_height rh_width rh_pitch rh_depth rh_mips rh_res1 rh_pf rh_caps rh_caps2 rh_caps3 rh_caps4 rh_res2 rh_dx10
                         rp_size rp_flags rp_fourcc rp_bits rp_r rp_g rp_b rp_a map seq nth app].
  unfold raw_read. destruct dx as [[f d m a m2]|]; rewrite Hm; reflexivity.
Qed.

(* ------------------------------------------------------------ bit tests *)
Lemma has_lor_l a b m : has a m = true -> has (N.lor a b) m = true.
Proof.
  unfold has. intros H. apply N.eqb_eq in H. apply N.eqb_eq. apply N.bits_inj. intros k.
  pose proof (f_equal (fun x => N.testbit x k) H) as Hk. cbv beta in Hk. rewrite N.land_spec in Hk.
  rewrite N.land_spec, N.lor_spec.
  destruct (N.testbit a k), (N.testbit b k), (N.testbit m k); cbn in *; congruence.
Qed.
Lemma land_alpha a : a <= 4 -> N.land a 7 = a.
Proof. intros H. assert (a = 0 \/ a = 1 \/ a = 2 \/ a = 3 \/ a = 4) as [->|[->|[->|[->| ->]]]] by lia; reflexivity. Qed.

(* ------------------------------------------------------------ well-formed headers *)
Definition wf_pf (p : pf9) : Prop :=
  match p with
  | PFFourCC cc => cc <> FOURCC_DX10
  | PFMask f n _ _ _ _ => valid_bits n = true /\ has f PF_FOURCC = false
  end.
Definition wf_header (h : header) : Prop :=
  1 <= h_mips h /\
  match h with
  | HDx9 _ _ _ _ _ pf => wf_pf pf
  | HDx10 _ _ _ _ dxgi dim _ array alpha =>
      dxgi_lookup dxgi <> None /\ 2 <= dim <= 4 /\ alpha <= 4 /\ (dim = 4 -> array = 1)
  end.

(* the flags written by to_raw: whatever the pixel info, DEPTH and MIPMAP_COUNT are decided by the header alone *)
Lemma to_raw_fields h :
  let r := to_raw h in
  rh_size r = RAW_HEADER_SIZE /\ rh_height r = h_height h /\ rh_width r = h_width h /\ rh_mips r = h_mips h /\
  has (rh_flags r) DDSD_MIPMAP_COUNT = true /\
  has (rh_flags r) DDSD_DEPTH = (match h_depth h with Some _ => true | None => false end) /\
  rh_depth r = (match h_depth h with Some d => d | None => 1 end) /\
  length (rh_res1 r) = 11%nat.
Proof.
  unfold to_raw.
  set (fl := match pixel_info_of_header h with
             | Some (Fixed b) => _ | Some p => _ | None => _ end).
  assert (Hfl : exists x, (x = 0 \/ x = DDSD_PITCH \/ x = DDSD_LINEAR_SIZE) /\
      snd fl = N.lor (match h_depth h with Some _ => N.lor (N.lor DDSD_REQUIRED DDSD_MIPMAP_COUNT) DDSD_DEPTH
                                         | None => N.lor DDSD_REQUIRED DDSD_MIPMAP_COUNT end) x).
  { unfold fl. destruct (pixel_info_of_header h) as [[b|bb bw bh|e1 e2 sx sy]|].
    - destruct (h_width h * b <? U32); cbn [snd]; [exists DDSD_PITCH|exists 0]; (split; [tauto|]); [reflexivity|]. rewrite N.lor_0_r. reflexivity.
    - destruct (surface_bytes _ _ _) as [s|]; [destruct (s <? U32)|]; cbn [snd];
        [exists DDSD_LINEAR_SIZE|exists 0|exists 0]; (split; [tauto|]); rewrite ?N.lor_0_r; reflexivity.
    - destruct (surface_bytes _ _ _) as [s|]; [destruct (s <? U32)|]; cbn [snd];
        [exists DDSD_LINEAR_SIZE|exists 0|exists 0]; (split; [tauto|]); rewrite ?N.lor_0_r; reflexivity.
    - exists 0. split; [tauto|]. cbn [snd]. rewrite N.lor_0_r. reflexivity. }
  destruct fl as [pitch flags]. cbn [snd] in Hfl. destruct Hfl as [x [Hx ->]].
  destruct h as [hh w d m c2 [cc|f n r g b a]|hh w d m dx dim misc arr al];
    cbn [h_height h_width h_depth h_mips rh_size rh_height rh_width rh_mips rh_flags rh_depth rh_res1 length];
    (repeat split; try reflexivity);
    destruct d; destruct Hx as [->|[->| ->]]; vm_compute; reflexivity.
Qed.

Lemma to_raw_pf_dx h :
  rh_pf (to_raw h) =
    match h with
    | HDx9 _ _ _ _ _ (PFFourCC cc) => mkRawPF RAW_PF_SIZE PF_FOURCC cc 0 0 0 0 0
    | HDx9 _ _ _ _ _ (PFMask f n r g b a) => mkRawPF RAW_PF_SIZE f 0 n r g b a
    | HDx10 _ _ _ _ _ _ _ _ _ => mkRawPF RAW_PF_SIZE PF_FOURCC FOURCC_DX10 0 0 0 0 0
    end /\
  rh_dx10 (to_raw h) = match h with HDx10 _ _ _ _ dxgi dim misc array alpha => Some (mkRawDx10 dxgi dim misc array alpha) | _ => None end /\
  (forall hh w d m c2 pf, h = HDx9 hh w d m c2 pf -> rh_caps2 (to_raw h) = c2).
Proof.
  unfold to_raw. destruct (match pixel_info_of_header h with Some (Fixed b) => _ | Some p => _ | None => _ end) as [pitch flags].
  destruct h as [hh w d m c2 [cc|f n r g b a]|hh w d m dx dim misc arr al]; cbn [rh_pf rh_dx10 rh_caps2];
    (split; [reflexivity|split; [reflexivity|]]); intros; try discriminate; congruence.
Qed.

(* write then parse is the identity on well-formed headers: strict, and permissive without a file length *)
Theorem from_raw_to_raw h permissive : wf_header h -> from_raw permissive None (to_raw h) = HOk h.
Proof.
  intros [Hm Hwf]. unfold from_raw.
  assert (Hn : from_raw_nofix permissive (to_raw h) = HOk h).
  { unfold from_raw_nofix.
    destruct (to_raw_fields h) as [Hs [Hh [Hw [Hmi [Hfm [Hfd [Hd _]]]]]]].
    destruct (to_raw_pf_dx h) as [Hpf [Hdx Hc2]].
    rewrite Hs, N.eqb_refl. cbn [negb andb]. rewrite Hfm. cbn [orb]. rewrite Hmi, Hfd, Hh, Hw, Hd, Hpf, Hdx.
    replace (h_mips h =? 0) with false by (symmetry; apply N.eqb_neq; lia).
    destruct h as [hh w d m c2 [cc|f n r g b a]|hh w d m dx dim misc arr al]; cbn [h_height h_width h_depth h_mips wf_pf] in *.
    - unfold pf_from_raw. cbn [rp_size rp_flags rp_fourcc rp_bits]. rewrite N.eqb_refl. cbn [negb andb].
      replace (has PF_FOURCC PF_FOURCC) with true by reflexivity. rewrite !andb_false_r.
      replace (has PF_FOURCC PF_FOURCC) with true by reflexivity. rewrite (Hc2 _ _ _ _ _ _ eq_refl). destruct d; reflexivity.
    - destruct Hwf as [Hb Hf]. unfold pf_from_raw. cbn [rp_size rp_flags rp_fourcc rp_bits rp_r rp_g rp_b rp_a]. rewrite N.eqb_refl. cbn [negb andb].
      rewrite N.eqb_refl. cbn [negb]. rewrite !andb_false_r. cbn [andb]. rewrite Hf, Hb. rewrite (Hc2 _ _ _ _ _ _ eq_refl). destruct d; reflexivity.
    - destruct Hwf as [Hl [Hdim [Hal Harr]]]. unfold pf_from_raw. cbn [rp_size rp_flags rp_fourcc rp_bits]. rewrite N.eqb_refl. cbn [negb andb].
      replace (has PF_FOURCC PF_FOURCC) with true by reflexivity. rewrite !andb_false_r.
      replace (has PF_FOURCC PF_FOURCC) with true by reflexivity.
      cbn [rd_format rd_dim rd_misc rd_array rd_misc2]. destruct (dxgi_lookup dx); [|congruence].
      replace ((2 <=? dim) && (dim <=? 4)) with true by (symmetry; apply andb_true_intro; split; apply N.leb_le; lia). cbn [negb].
      rewrite land_alpha by exact Hal. replace (al <=? 4) with true by (symmetry; apply N.leb_le; exact Hal). cbn [negb andb].
      destruct (N.eqb_spec dim 4) as [E|E]; cbn [andb].
      + rewrite (Harr E). cbn [N.eqb negb andb]. destruct d; reflexivity.
      + destruct d; reflexivity. }
  rewrite Hn. destruct permissive; reflexivity.
Qed.

(* ------------------------------------------------------------ byte level: Header::write then Header::read *)
Definition fields_u32 (h : header) : Prop :=
  h_height h < U32 /\ h_width h < U32 /\ h_mips h < U32 /\ (forall d, h_depth h = Some d -> d < U32) /\
  match h with
  | HDx9 _ _ _ _ c2 (PFFourCC cc) => c2 < U32 /\ cc < U32
  | HDx9 _ _ _ _ c2 (PFMask f n r g b a) => c2 < U32 /\ f < U32 /\ n < U32 /\ r < U32 /\ g < U32 /\ b < U32 /\ a < U32
  | HDx10 _ _ _ _ dxgi dim misc array alpha => dxgi < U32 /\ dim < U32 /\ misc < U32 /\ array < U32 /\ alpha < U32
  end.

Lemma lor_lt a b n : a < 2 ^ n -> b < 2 ^ n -> N.lor a b < 2 ^ n.
Proof.
  intros Ha Hb. destruct (N.eq_dec a 0) as [->|Ha0]; [rewrite N.lor_0_l; exact Hb|].
  destruct (N.eq_dec b 0) as [->|Hb0]; [rewrite N.lor_0_r; exact Ha|].
  assert (Hne : N.lor a b <> 0) by (intros E; apply N.lor_eq_0_iff in E; tauto).
  apply N.log2_lt_pow2; [lia|]. rewrite N.log2_lor. apply N.max_lub_lt; apply N.log2_lt_pow2; lia.
Qed.

Lemma to_raw_words_u32 h : fields_u32 h -> Forall (fun w => w < U32) (raw_write (to_raw h)).
Proof.
  intros [Hh [Hw [Hm [Hd Hrest]]]].
  assert (HU : U32 = 2 ^ 32) by reflexivity.
  unfold to_raw.
  set (fl := match pixel_info_of_header h with Some (Fixed b) => _ | Some p => _ | None => _ end).
  assert (Hfl : fst fl < U32 /\ snd fl < U32).
  { assert (Hbase : (match h_depth h with Some _ => N.lor (N.lor DDSD_REQUIRED DDSD_MIPMAP_COUNT) DDSD_DEPTH
                                        | None => N.lor DDSD_REQUIRED DDSD_MIPMAP_COUNT end) < U32)
      by (destruct (h_depth h); vm_compute; reflexivity).
    unfold fl. destruct (pixel_info_of_header h) as [[b|bb bw bh|e1 e2 sx sy]|]; cbn [fst snd].
    - destruct (N.ltb_spec (h_width h * b) U32); cbn [fst snd]; split; try assumption; try (unfold U32; lia).
      rewrite HU in *. apply lor_lt; [assumption|vm_compute; reflexivity].
    - destruct (surface_bytes _ _ _) as [s|]; [destruct (N.ltb_spec s U32)|]; cbn [fst snd]; split; try assumption; try (unfold U32; lia).
      rewrite HU in *. apply lor_lt; [assumption|vm_compute; reflexivity].
    - destruct (surface_bytes _ _ _) as [s|]; [destruct (N.ltb_spec s U32)|]; cbn [fst snd]; split; try assumption; try (unfold U32; lia).
      rewrite HU in *. apply lor_lt; [assumption|vm_compute; reflexivity].
    - split; [unfold U32; lia|assumption]. }
  destruct fl as [pitch flags]. cbn [fst snd] in Hfl. destruct Hfl as [Hp Hf].
  assert (Hcaps : (if 1 <? h_mips h then N.lor CAPS_TEXTURE (N.lor CAPS_MIPMAP CAPS_COMPLEX) else CAPS_TEXTURE) < U32)
    by (destruct (1 <? h_mips h); vm_compute; reflexivity).
  assert (Hdd : (match h_depth h with Some d => d | None => 1 end) < U32)
    by (destruct (h_depth h) as [d|]; [apply Hd; reflexivity|vm_compute; reflexivity]).
  assert (C : forall x, (x = 0 \/ x = RAW_HEADER_SIZE \/ x = RAW_PF_SIZE \/ x = PF_FOURCC \/ x = FOURCC_DX10) -> x < U32)
    by (intros x [->|[->|[->|[->| ->]]]]; vm_compute; reflexivity).
  destruct h as [hh w d m c2 [cc|f n r g b a]|hh w d m dx dim misc arr al]; cbn [h_height h_width h_depth h_mips] in *;
    unfold raw_write;
    cbn [rh_size rh_flags rh_height rh_width rh_pitch rh_depth rh_mips rh_res1 rh_pf rh_caps rh_caps2 rh_caps3 rh_caps4 rh_res2 rh_dx10
         rp_size rp_flags rp_fourcc rp_bits rp_r rp_g rp_b rp_a rd_format rd_dim rd_misc rd_array rd_misc2 map seq nth app].
  - destruct Hrest as [? ?]. repeat constructor; try assumption; try (apply C; tauto).
  - destruct Hrest as [? [? [? [? [? [? ?]]]]]]. repeat constructor; try assumption; try (apply C; tauto).
  - destruct Hrest as [? [? [? [? ?]]]].
    assert (Hc2 : N.lor (if dim =? 4 then CAPS2_VOLUME else 0) (if has misc MISC_TEXTURE_CUBE then N.lor CAPS2_CUBE_MAP CAPS2_ALL_FACES else 0) < U32)
      by (destruct (dim =? 4); destruct (has misc MISC_TEXTURE_CUBE); vm_compute; reflexivity).
    repeat constructor; try assumption; try (apply C; tauto).
Qed.

Lemma to_raw_marker h : wf_header h ->
  match rh_dx10 (to_raw h) with Some _ => dx10_marker (to_raw h) = true | None => dx10_marker (to_raw h) = false end.
Proof.
  intros [_ Hwf]. destruct (to_raw_pf_dx h) as [Hpf [Hdx _]]. rewrite Hdx. unfold dx10_marker. rewrite Hpf.
  destruct h as [hh w d m c2 [cc|f n r g b a]|hh w d m dx dim misc arr al]; cbn [rp_flags rp_fourcc wf_pf] in *.
  - replace (has PF_FOURCC PF_FOURCC) with true by reflexivity. cbn [andb]. apply N.eqb_neq. exact Hwf.
  - destruct Hwf as [_ ->]. reflexivity.
  - replace (has PF_FOURCC PF_FOURCC) with true by reflexivity. rewrite N.eqb_refl. reflexivity.
Qed.

Lemma skipn_magic l : skipn 4 (MAGIC ++ l) = l /\ firstn 4 (MAGIC ++ l) = MAGIC.
Proof. split; reflexivity. Qed.

Theorem read_write_id h permissive : wf_header h -> fields_u32 h ->
  header_read false permissive None (header_write h) = HOk h.
Proof.
  intros Hwf Hf. unfold header_read, header_write.
  replace (4 <=? N.of_nat (length (MAGIC ++ bytes_of_words (raw_write (to_raw h))))) with true
    by (symmetry; apply N.leb_le; rewrite app_length; cbn [length MAGIC]; lia).
  destruct (skipn_magic (bytes_of_words (raw_write (to_raw h)))) as [-> ->].
  replace (list_eqb MAGIC MAGIC) with true by reflexivity.
  rewrite words_of_bytes_of_words by (apply to_raw_words_u32; exact Hf).
  pose proof (raw_write_read (to_raw h) [] (proj2 (proj2 (proj2 (proj2 (proj2 (proj2 (proj2 (to_raw_fields h)))))))) (to_raw_marker h Hwf)) as R.
  rewrite app_nil_r in R. rewrite R. apply from_raw_to_raw. exact Hwf.
Qed.

(* written length: magic + 124 (+20) bytes *)
Theorem written_len h : N.of_nat (length (header_write h)) = MAGIC_LEN + header_byte_len h.
Proof.
  unfold header_write. rewrite app_length. unfold bytes_of_words.
  assert (L : forall ws, length (flat_map word_bytes ws) = (4 * length ws)%nat)
    by (induction ws as [|w ws IH]; [reflexivity|cbn [flat_map]; rewrite app_length, IH; cbn [word_bytes length]; lia]).
  rewrite L. destruct (to_raw_pf_dx h) as [_ [Hdx _]].
  unfold raw_write. rewrite !app_length, map_length, seq_length. rewrite Hdx. cbn [length MAGIC].
  unfold header_byte_len, MAGIC_LEN, RAW_HEADER_SIZE, RAW_DX10_SIZE. destruct h; cbn [h_is_dx10 length]; lia.
Qed.

(* ------------------------------------------------------------ everything strict parsing returns is well-formed *)
Lemma Forall_skipn {A} (P : A -> Prop) n : forall l, Forall P l -> Forall P (skipn n l).
Proof. induction n as [|n IH]; intros l H; [exact H|]. destruct l; [constructor|]. cbn [skipn]. apply IH. inversion H; assumption. Qed.

Lemma raw_read_marker ws r rest : raw_read ws = Some (r, rest) ->
  match rh_dx10 r with Some _ => dx10_marker r = true | None => dx10_marker r = false end.
Proof.
  unfold raw_read.
  do 31 (destruct ws as [|? ws]; [discriminate|]).
  destruct (has _ PF_FOURCC && (_ =? FOURCC_DX10)) eqn:E.
  - do 5 (destruct ws as [|? ws]; [discriminate|]). intros H. injection H as <- <-. exact E.
  - intros H. injection H as <- <-. exact E.
Qed.

Lemma from_raw_nofix_wf r h : Forall (fun w => w < U32) (raw_write r) ->
  match rh_dx10 r with Some _ => dx10_marker r = true | None => dx10_marker r = false end ->
  from_raw_nofix false r = HOk h -> wf_header h /\ fields_u32 h.
Proof.
  intros Hws Hmark. unfold from_raw_nofix.
  destruct r as [size flags height width pitch depth mips res1 [ps pfl pcc pb pr pg pbb pa] caps caps2 caps3 caps4 res2 dx].
  unfold dx10_marker in Hmark. cbn [rh_pf rp_flags rp_fourcc rh_dx10] in Hmark.
  cbn [rh_size rh_flags rh_height rh_width rh_depth rh_mips rh_pf rh_caps rh_caps2 rh_dx10].
  unfold raw_write in Hws.
  cbn [rh_size rh_flags rh_height rh_width rh_pitch rh_depth rh_mips rh_res1 rh_pf rh_caps rh_caps2 rh_caps3 rh_caps4 rh_res2 rh_dx10
       rp_size rp_flags rp_fourcc rp_bits rp_r rp_g rp_b rp_a] in Hws.
  apply Forall_app in Hws. destruct Hws as [H7 Hws]. apply Forall_app in Hws. destruct Hws as [_ Hws].
  apply Forall_app in Hws. destruct Hws as [H13 Hdxw].
  inversion H7 as [|? ? _ H7a]; subst. inversion H7a as [|? ? _ H7b]; subst. inversion H7b as [|? ? Hhe H7c]; subst.
  inversion H7c as [|? ? Hwi H7d]; subst. inversion H7d as [|? ? _ H7e]; subst. inversion H7e as [|? ? Hde H7f]; subst.
  inversion H7f as [|? ? Hmi _]; subst.
  inversion H13 as [|? ? _ Ha]; subst. inversion Ha as [|? ? Hfl Hb]; subst. inversion Hb as [|? ? Hcc Hc]; subst.
  inversion Hc as [|? ? Hbi Hd]; subst. inversion Hd as [|? ? Hr He]; subst. inversion He as [|? ? Hg Hf]; subst.
  inversion Hf as [|? ? Hbb Hg']; subst. inversion Hg' as [|? ? Haa Hh]; subst. inversion Hh as [|? ? _ Hi]; subst.
  inversion Hi as [|? ? Hc2 _]; subst.
  destruct (negb (size =? RAW_HEADER_SIZE) && negb (false && (size =? 24))); [discriminate|].
  set (dep := if has flags DDSD_DEPTH then Some depth else None).
  set (m0 := if has flags DDSD_MIPMAP_COUNT || has caps CAPS_COMPLEX || has caps CAPS_MIPMAP then mips else 1).
  set (mm := if m0 =? 0 then 1 else m0).
  assert (Hmm : 1 <= mm < U32).
  { assert (Hm0 : m0 < U32) by (unfold m0; destruct (has flags DDSD_MIPMAP_COUNT || has caps CAPS_COMPLEX || has caps CAPS_MIPMAP); [assumption|unfold U32; lia]).
    unfold mm. destruct (N.eqb_spec m0 0); [unfold U32; lia|lia]. }
  assert (Hdep : forall d, dep = Some d -> d < U32) by (unfold dep; intros d E; destruct (has flags DDSD_DEPTH); [injection E as <-; assumption|discriminate]).
  unfold pf_from_raw. cbn [rp_size rp_flags rp_fourcc rp_bits rp_r rp_g rp_b rp_a andb].
  destruct (negb (ps =? RAW_PF_SIZE) && negb false); [discriminate|].
  destruct (has pfl PF_FOURCC) eqn:Efc.
  - (* FourCC *) cbn [andb] in Hmark.
    destruct dx as [[f d mi a m2]|].
    + cbn [rd_format rd_dim rd_misc rd_array rd_misc2].
      inversion Hdxw as [|? ? Hf1 Hd1]; subst. inversion Hd1 as [|? ? Hf2 Hd2]; subst. inversion Hd2 as [|? ? Hf3 Hd3]; subst.
      inversion Hd3 as [|? ? Hf4 Hd4]; subst. 
      destruct (dxgi_lookup f) eqn:El; [|discriminate].
      destruct ((2 <=? d) && (d <=? 4)) eqn:Ed; cbn [negb]; [|discriminate]. cbn [andb].
      destruct (N.leb_spec (N.land m2 7) 4) as [Hal|Hal]; cbn [negb]; [|discriminate].
      destruct ((d =? 4) && negb (a =? 1)) eqn:Ea; cbn [negb andb]; [discriminate|].
      intros E. injection E as <-. split.
      * split; [cbn [h_mips]; lia|]. split; [congruence|]. apply andb_prop in Ed. destruct Ed as [E1 E2]. apply N.leb_le in E1, E2.
        split; [lia|]. split; [exact Hal|]. intros E4. rewrite E4 in Ea. cbn [N.eqb andb] in Ea.
        destruct (N.eqb_spec a 1); [assumption|discriminate].
      * unfold fields_u32. cbn [h_height h_width h_mips h_depth]. repeat split; try assumption; try lia. unfold U32 in *. lia.
    + intros E. injection E as <-. split.
      * split; [cbn [h_mips]; lia|]. cbn [wf_pf]. apply N.eqb_neq. exact Hmark.
      * unfold fields_u32. cbn [h_height h_width h_mips h_depth]. repeat split; try assumption; lia.
  - (* mask *) cbn [andb] in Hmark. destruct dx as [d|]; [discriminate Hmark|].
    destruct (valid_bits pb) eqn:Evb; [|discriminate]. intros E. injection E as <-. split.
    + split; [cbn [h_mips]; lia|]. cbn [wf_pf]. split; assumption.
    + unfold fields_u32. cbn [h_height h_width h_mips h_depth]. repeat split; try assumption; lia.
Qed.

Theorem parsed_is_wf skip bytes h : Forall (fun b => b < 256) bytes ->
  header_read skip false None bytes = HOk h -> wf_header h /\ fields_u32 h.
Proof.
  intros Hb. unfold header_read.
  set (body := if skip then Some bytes else _).
  assert (Hbody : forall b, body = Some b -> Forall (fun x => x < 256) b).
  { unfold body. destruct skip; intros b E; [injection E as <-; exact Hb|].
    destruct (4 <=? N.of_nat (length bytes)); [|discriminate]. destruct (list_eqb _ _); [|discriminate].
    injection E as <-. exact (Forall_skipn _ 4 bytes Hb). }
  destruct body as [b|]; [|destruct skip; [discriminate|destruct (4 <=? _); discriminate]].
  specialize (Hbody b eq_refl). pose proof (words_lt_U32 b Hbody) as Hws.
  destruct (raw_read (words_of_bytes b)) as [[r rest]|] eqn:Er; [|discriminate].
  pose proof (raw_read_write _ _ _ Er) as Ew. rewrite Ew in Hws. apply Forall_app in Hws. destruct Hws as [Hws _].
  pose proof (raw_read_marker _ _ _ Er) as Hmark.
  unfold from_raw. destruct (from_raw_nofix false r) as [h'|e] eqn:En; [|discriminate].
  intros E. injection E as <-. eapply from_raw_nofix_wf; eassumption.
Qed.

(* parsing is a normalisation: write(parse(x)) parses to the same header again *)
Theorem parse_normalises skip bytes h : Forall (fun b => b < 256) bytes ->
  header_read skip false None bytes = HOk h ->
  header_read false false None (header_write h) = HOk h.
Proof. intros Hb H. destruct (parsed_is_wf skip bytes h Hb H) as [Hwf Hf]. apply read_write_id; assumption. Qed.

(* ------------------------------------------------------------ raw header: bit-for-bit on bytes *)
Theorem raw_bytes_roundtrip bs k r rest : Forall (fun b => b < 256) bs -> length bs = (4 * k)%nat ->
  raw_read (words_of_bytes bs) = Some (r, rest) ->
  bytes_of_words (raw_write r) ++ bytes_of_words rest = bs.
Proof.
  intros Hb Hl Hr. pose proof (raw_read_write _ _ _ Hr) as E.
  unfold bytes_of_words. rewrite <- flat_map_app. rewrite <- E. apply (bytes_of_words_of_bytes k); assumption.
Qed.

(* ------------------------------------------------------------ constructors and builders *)
Lemma wf_dx10_new_image w h dxgi : dxgi_lookup dxgi <> None -> wf_header (dx10_new_image w h dxgi).
Proof.
  intros H. unfold dx10_new_image, wf_header. cbn [h_mips]. split; [lia|]. split; [exact H|]. split; [lia|].
  split; [unfold pick_alpha; destruct (dxgi_lookup dxgi) as [r|]; [destruct (dx_has_alpha r)|]; lia|]. intros; lia.
Qed.
Lemma wf_dx10_new_volume w h d dxgi : dxgi_lookup dxgi <> None -> wf_header (dx10_new_volume w h d dxgi).
Proof.
  intros H. unfold dx10_new_volume, wf_header. cbn [h_mips]. split; [lia|]. split; [exact H|]. split; [lia|].
  split; [unfold pick_alpha; destruct (dxgi_lookup dxgi) as [r|]; [destruct (dx_has_alpha r)|]; lia|]. reflexivity.
Qed.
Lemma wf_dx10_new_cube w h dxgi : dxgi_lookup dxgi <> None -> wf_header (dx10_new_cube w h dxgi).
Proof.
  intros H. unfold dx10_new_cube, wf_header. cbn [h_mips]. split; [lia|]. split; [exact H|]. split; [lia|].
  split; [unfold pick_alpha; destruct (dxgi_lookup dxgi) as [r|]; [destruct (dx_has_alpha r)|]; lia|]. intros; lia.
Qed.
Lemma wf_dx9_new w h d pf : wf_pf pf ->
  wf_header (dx9_new_image w h pf) /\ wf_header (dx9_new_volume w h d pf) /\ wf_header (dx9_new_cube w h pf).
Proof. intros H. unfold wf_header. cbn [h_mips dx9_new_image dx9_new_volume dx9_new_cube]. repeat split; try lia; exact H. Qed.
(* the size / dimension / mipmap builders keep a header well-formed (mip counts are NonZeroU32) *)
Lemma wf_with_size h w hh : wf_header h -> wf_header (with_size h w hh).
Proof. intros [A B]. destruct h; cbn [with_size wf_header h_mips] in *; split; assumption. Qed.
Lemma wf_with_dimensions h w hh d : wf_header h -> wf_header (with_dimensions h w hh d).
Proof. intros [A B]. destruct h; cbn [with_dimensions wf_header h_mips] in *; split; assumption. Qed.
Lemma wf_with_mips h m : 1 <= m -> wf_header h -> wf_header (with_mips h m).
Proof. intros Hm [A B]. destruct h; cbn [with_mips wf_header h_mips] in *; split; assumption. Qed.
Lemma wf_with_mipmaps h : wf_header h -> wf_header (with_mipmaps h).
Proof. intros H. unfold with_mipmaps. apply wf_with_mips; [unfold max_mips; lia|exact H]. Qed.

(* ------------------------------------------------------------ DX9 <-> DX10 conversion *)
Lemma to_dx9_fields h h' : to_dx9 h = Some h' ->
  h_height h' = h_height h /\ h_width h' = h_width h /\ h_depth h' = h_depth h /\ h_mips h' = h_mips h.
Proof.
  destruct h as [hh w d m c2 pf|hh w d m dx dim misc arr al]; cbn [to_dx9].
  - intros E. injection E as <-. auto.
  - destruct (negb (arr =? 1)); [discriminate|]. destruct (has misc MISC_TEXTURE_CUBE && negb (dim =? 3)); [discriminate|].
    destruct (to_dx9_pf dx al); [|discriminate]. intros E. injection E as <-. cbn. auto.
Qed.
Lemma to_dx10_fields h h' : to_dx10 h = Some h' ->
  h_height h' = h_height h /\ h_width h' = h_width h /\ h_depth h' = h_depth h /\ h_mips h' = h_mips h.
Proof.
  destruct h as [hh w d m c2 pf|hh w d m dx dim misc arr al]; cbn [to_dx10].
  - destruct (match pf with PFFourCC _ => _ | PFMask _ _ _ _ _ _ => _ end) as [dx|]; [|discriminate].
    destruct (has c2 CAPS2_CUBE_MAP && negb (has c2 CAPS2_ALL_FACES)); [discriminate|]. intros E. injection E as <-. cbn. auto.
  - intros E. injection E as <-. auto.
Qed.

(* the pixel layout is preserved by both conversions: finite facts about the implementation's current tables *)
Definition dx9_pi (pf : pf9) : option pixel_info := pixel_info_of_header (HDx9 1 1 None 1 0 pf).
Definition dx10_pi (dxgi : N) : option pixel_info := pixel_info_of_header (HDx10 1 1 None 1 dxgi 3 0 1 0).
Theorem to_dx9_table_pixel_info :
  forallb (fun row => match snd row with
                      | Some pf => match dx9_pi pf, dx10_pi (fst (fst row)) with
                                   | Some a, Some b => pi_eqb a b | _, _ => false end
                      | None => true end) to_dx9_rows = true.
Proof. vm_compute. reflexivity. Qed.
Theorem to_dx10_table_pixel_info_fourcc :
  forallb (fun row => match cc_dxgi row with
                      | Some dx => match dx9_pi (PFFourCC (cc_code row)), dx10_pi dx with
                                   | Some a, Some b => pi_eqb a b | _, _ => false end
                      | None => true end) fourcc_rows = true.
Proof. vm_compute. reflexivity. Qed.
Theorem to_dx10_table_pixel_info_mask :
  forallb (fun row => match mk_dxgi row with
                      | Some dx => match dx10_pi dx with Some b => pi_eqb (Fixed (mk_bits row / 8)) b | None => false end
                      | None => true end) mask_rows = true.
Proof. vm_compute. reflexivity. Qed.

(* the data layout is preserved for 2D textures, cube maps and volumes *)
Theorem to_dx9_layout h h' p : to_dx9 h = Some h' ->
  (match h with HDx10 _ _ _ _ _ dim _ _ _ => dim = 3 \/ dim = 4 | _ => True end) ->
  from_header_with (lheader_of h') p = from_header_with (lheader_of h) p.
Proof.
  destruct h as [hh w d m c2 pf|hh w d m dx dim misc arr al]; cbn [to_dx9].
  - intros E _. injection E as <-. reflexivity.
  - destruct (N.eqb_spec arr 1) as [->|]; cbn [negb]; [|discriminate].
    destruct (has misc MISC_TEXTURE_CUBE) eqn:Ec; cbn [andb].
    + destruct (N.eqb_spec dim 3) as [->|]; cbn [negb]; [|discriminate].
      destruct (to_dx9_pf dx al); [|discriminate]. intros E _. injection E as <-.
      unfold lheader_of. rewrite Ec. cbn [N.eqb]. unfold from_header_with.
      cbn [lh_dx10 lh_cube10 lh_dim lh_array lh_caps2].
      replace (has (N.lor 0 (N.lor CAPS2_CUBE_MAP CAPS2_ALL_FACES)) CAPS2_CUBE_MAP) with true by reflexivity.
      replace (has (N.lor 0 (N.lor CAPS2_CUBE_MAP CAPS2_ALL_FACES)) CAPS2_VOLUME) with false by reflexivity.
      replace (count_faces (cube_faces (N.lor 0 (N.lor CAPS2_CUBE_MAP CAPS2_ALL_FACES)))) with 6 by reflexivity.
      replace (checked_mul32 1 6) with (Some 6) by reflexivity.
      unfold surface_info. cbn [lh_w lh_h lh_mips N.eqb]. reflexivity.
    + destruct (to_dx9_pf dx al); [|discriminate]. intros E [->| ->]; injection E as <-;
        unfold lheader_of; rewrite Ec; cbn [N.eqb]; unfold from_header_with;
        cbn [lh_dx10 lh_cube10 lh_dim lh_array lh_caps2 N.eqb].
      * replace (has (N.lor 0 0) CAPS2_CUBE_MAP) with false by reflexivity.
        replace (has (N.lor 0 0) CAPS2_VOLUME) with false by reflexivity.
        unfold surface_info. cbn [lh_w lh_h lh_mips]. reflexivity.
      * replace (has (N.lor CAPS2_VOLUME 0) CAPS2_CUBE_MAP) with false by reflexivity.
        replace (has (N.lor CAPS2_VOLUME 0) CAPS2_VOLUME) with true by reflexivity.
        unfold volume_info. cbn [lh_w lh_h lh_mips lh_depth]. reflexivity.
Qed.
