(* C13 / C10: the block gathering of the BC encoders (model/EncBlocks.v) never invents a pixel - every position of every
   block, padding included, holds a pixel of the image - so a surface of one colour yields only blocks of that colour
   (also for partial edge blocks), and a surface yields ceil(w / bw) * ceil(h / bh) blocks. *)
From Coq Require Import List Bool Lia Arith.
From DDSV Require Import model.EncBlocks.
Import ListNotations.

Lemma In_firstn {X} (l : list X) n x : In x (firstn n l) -> In x l.
Proof. revert n. induction l as [|a l IH]; intros n H; destruct n; simpl in *; try tauto. destruct H; [left; assumption | right; eapply IH; eassumption]. Qed.
Lemma In_skipn {X} (l : list X) n x : In x (skipn n l) -> In x l.
Proof. revert n. induction l as [|a l IH]; intros n H; destruct n; simpl in *; try tauto. right. eapply IH; eassumption. Qed.
Lemma In_last {X} (l : list X) d : l <> [] -> In (last l d) l.
Proof. induction l as [|a l IH]; intros H; [contradiction|]. destruct l as [|b l]; [left; reflexivity|]. right. apply IH. discriminate. Qed.
Lemma In_hd {X} (l : list X) d : l <> [] -> In (hd d l) l.
Proof. destruct l; [contradiction|]. intros _. left. reflexivity. Qed.
Lemma cdiv_split a b : 1 <= b -> (a + b - 1) / b = a / b + (if a mod b =? 0 then 0 else 1).
Proof.
  intros Hb. pose proof (Nat.div_mod a b ltac:(lia)) as E. pose proof (Nat.mod_upper_bound a b ltac:(lia)) as Hm.
  destruct (a mod b =? 0) eqn:E0; [apply Nat.eqb_eq in E0 | apply Nat.eqb_neq in E0].
  - symmetry. rewrite Nat.add_0_r. apply (Nat.div_unique (a + b - 1) b (a / b) (b - 1)); lia.
  - symmetry. apply (Nat.div_unique (a + b - 1) b (a / b + 1) (a mod b - 1)); [lia|]. rewrite Nat.mul_add_distr_l. lia.
Qed.

Section Proofs.
Variables (X : Type) (bw bh : nat) (d : X).
Hypothesis Hbw : 1 <= bw.
Hypothesis Hbh : 1 <= bh.
Variables (w : nat) (img : list (list X)).
Hypothesis Hw : 1 <= w.
Hypothesis Hrows : Forall (fun r => length r = w) img.

Lemma buffer_rows_in_image buf row : In buf (row_buffers X bh img) -> In row buf -> In row img.
Proof.
  unfold row_buffers. intros Hb Hr. apply in_app_or in Hb. destruct Hb as [Hb|Hb].
  - apply in_map_iff in Hb. destruct Hb as (k & <- & _). unfold group in Hr. apply In_firstn, In_skipn in Hr. exact Hr.
  - destruct (length img mod bh =? 0) eqn:E0; [contradiction|]. apply Nat.eqb_neq in E0. destruct Hb as [<-|[]].
    set (part := skipn (length img / bh * bh) img) in *.
    assert (Hne : part <> []).
    { intros Hn. assert (Hl : length part = 0) by (rewrite Hn; reflexivity). unfold part in Hl. rewrite skipn_length in Hl.
      pose proof (Nat.div_mod (length img) bh ltac:(lia)). lia. }
    apply in_app_or in Hr. destruct Hr as [Hr|Hr]; [eapply In_skipn; exact Hr|].
    apply repeat_spec in Hr. subst row. eapply In_skipn. apply In_hd. exact Hne.
Qed.

(* no position of any block - padding included - holds anything but a pixel of the image *)
Theorem blocks_hold_image_pixels blk brow px : In blk (image_blocks X bw bh d w img) -> In brow blk -> In px brow -> In px (concat img).
Proof.
  unfold image_blocks. intros Hb Hr Hp. apply in_flat_map in Hb. destruct Hb as (buf & Hbuf & Hb).
  assert (Hsrc : exists row, In row buf /\ In px row).
  { unfold line_blocks in Hb. apply in_app_or in Hb. destruct Hb as [Hb|Hb].
    - apply in_map_iff in Hb. destruct Hb as (bi & <- & _). unfold full_block in Hr. apply in_map_iff in Hr. destruct Hr as (row & <- & Hrow).
      exists row. split; [assumption|]. eapply In_skipn, In_firstn. exact Hp.
    - destruct (w mod bw =? 0) eqn:E0; [contradiction|]. apply Nat.eqb_neq in E0. destruct Hb as [<-|[]].
      unfold partial_block in Hr. apply in_map_iff in Hr. destruct Hr as (row & <- & Hrow). exists row. split; [assumption|].
      set (part := firstn (w - w / bw * bw) (skipn (w / bw * bw) row)) in *.
      assert (Hlen : length row = w).
      { rewrite Forall_forall in Hrows. apply Hrows. eapply buffer_rows_in_image; eassumption. }
      assert (Hne : part <> []).
      { intros Hn. assert (Hl : length part = 0) by (rewrite Hn; reflexivity). unfold part in Hl. rewrite firstn_length, skipn_length, Hlen in Hl.
        pose proof (Nat.div_mod w bw ltac:(lia)). lia. }
      apply in_app_or in Hp. destruct Hp as [Hp|Hp]; [eapply In_skipn, In_firstn; exact Hp|].
      apply repeat_spec in Hp. subst px. eapply In_skipn, In_firstn. apply In_last. exact Hne. }
  destruct Hsrc as (row & Hrow & Hpx). apply in_concat. exists row. split; [|assumption]. eapply buffer_rows_in_image; eassumption.
Qed.

(* a surface of one colour gives blocks of that colour only, partial edge blocks included *)
Theorem constant_image_constant_blocks c : (forall row px, In row img -> In px row -> px = c) ->
  forall blk brow px, In blk (image_blocks X bw bh d w img) -> In brow blk -> In px brow -> px = c.
Proof.
  intros Hc blk brow px Hb Hr Hp. pose proof (blocks_hold_image_pixels blk brow px Hb Hr Hp) as Hin.
  apply in_concat in Hin. destruct Hin as (row & Hrow & Hpx). eapply Hc; eassumption.
Qed.

(* the number of blocks is the one the layout declares *)
Theorem block_count : length (image_blocks X bw bh d w img) = (w + bw - 1) / bw * ((length img + bh - 1) / bh).
Proof.
  unfold image_blocks.
  assert (Hline : forall buf, length (line_blocks X bw d w buf) = (w + bw - 1) / bw).
  { intros buf. unfold line_blocks. rewrite app_length, map_length, seq_length, cdiv_split by assumption. destruct (w mod bw =? 0); reflexivity. }
  assert (Hflat : forall l : list (list (list X)), length (flat_map (line_blocks X bw d w) l) = length l * ((w + bw - 1) / bw)).
  { induction l as [|b l IH]; [reflexivity|]. cbn [flat_map length]. rewrite app_length, Hline, IH. lia. }
  rewrite Hflat. unfold row_buffers. rewrite app_length, map_length, seq_length, (cdiv_split (length img) bh) by assumption.
  destruct (length img mod bh =? 0); cbn [length]; lia.
Qed.
End Proofs.

(* ---- exact positions: position (i, j) of block (bx, by) holds pixel (min(bx*bw + j, w - 1), y) of the surface, where y is
   by*bh + i if that row exists and the FIRST row of the incomplete group otherwise *)
Lemma nth_firstn_lt {X} (l : list X) n i d : i < n -> nth i (firstn n l) d = nth i l d.
Proof. revert n i. induction l as [|a l IH]; intros n i H; destruct n, i; simpl; try lia; try reflexivity. apply IH. lia. Qed.
Lemma nth_skipn_add {X} (l : list X) n i d : nth i (skipn n l) d = nth (n + i) l d.
Proof. revert n. induction l as [|a l IH]; intros n; destruct n; simpl; try reflexivity; [destruct i; reflexivity|apply IH]. Qed.
Lemma nth_repeat_in {X} (x : X) n i dd : i < n -> nth i (repeat x n) dd = x.
Proof. revert i. induction n as [|n IH]; intros i H; [lia|]. destruct i; [reflexivity|]. cbn [repeat nth]. apply IH. lia. Qed.
Lemma nth_flat_map_uniform {X Y} (f : X -> list Y) k (l : list X) a b d dx : (forall x, length (f x) = k) -> a < length l -> b < k ->
  nth (a * k + b) (flat_map f l) d = nth b (f (nth a l dx)) d.
Proof.
  intros Hk. revert a. induction l as [|x l IH]; intros a Ha Hb; [simpl in Ha; lia|]. cbn [flat_map].
  destruct a as [|a].
  - cbn [Nat.mul Nat.add nth]. apply app_nth1. rewrite Hk. assumption.
  - rewrite app_nth2 by (rewrite Hk; nia). rewrite Hk. replace (S a * k + b - k) with (a * k + b) by nia. cbn [nth]. apply IH; [simpl in Ha; lia|assumption].
Qed.

Section Positions.
Variables (X : Type) (bw bh : nat) (d : X).
Hypothesis Hbw : 1 <= bw.
Hypothesis Hbh : 1 <= bh.
Variables (w : nat) (img : list (list X)).
Hypothesis Hw : 1 <= w.
Hypothesis Hrows : Forall (fun r => length r = w) img.
Notation h := (length img).
Notation cw := ((w + bw - 1) / bw).
Notation chh := ((length img + bh - 1) / bh).

Lemma line_blocks_length buf : length (line_blocks X bw d w buf) = cw.
Proof. unfold line_blocks. rewrite app_length, map_length, seq_length, cdiv_split by assumption. destruct (w mod bw =? 0); reflexivity. Qed.
Lemma row_buffers_length : length (row_buffers X bh img) = chh.
Proof. unfold row_buffers. rewrite app_length, map_length, seq_length, (cdiv_split h bh) by assumption. destruct (h mod bh =? 0); reflexivity. Qed.

Definition src_row (by_ i : nat) : nat := if by_ * bh + i <? h then by_ * bh + i else by_ * bh.
Definition src_col (bx j : nat) : nat := if bx * bw + j <? w then bx * bw + j else w - 1.

Lemma buffer_row by_ i : by_ < chh -> i < bh -> nth i (nth by_ (row_buffers X bh img) []) [] = nth (src_row by_ i) img [].
Proof.
  intros Hby Hi. unfold row_buffers, src_row.
  pose proof (Nat.div_mod h bh ltac:(lia)) as E. pose proof (Nat.mod_upper_bound h bh ltac:(lia)) as Hm.
  rewrite (cdiv_split h bh) in Hby by assumption.
  destruct (Nat.lt_ge_cases by_ (h / bh)) as [Hfull|Hpart].
  - rewrite app_nth1 by (rewrite map_length, seq_length; assumption).
    rewrite (nth_indep _ [] (group X bh 0 img)) by (rewrite map_length, seq_length; assumption).
    rewrite (map_nth (fun k => group X bh k img)), seq_nth by assumption. cbn [Nat.add]. unfold group.
    rewrite nth_firstn_lt, nth_skipn_add by assumption.
    replace (by_ * bh + i <? h) with true by (symmetry; apply Nat.ltb_lt; nia). reflexivity.
  - destruct (h mod bh =? 0) eqn:E0; [apply Nat.eqb_eq in E0; lia|]. apply Nat.eqb_neq in E0.
    assert (by_ = h / bh) by lia. subst by_.
    rewrite app_nth2 by (rewrite map_length, seq_length; lia). rewrite map_length, seq_length, Nat.sub_diag. cbn [nth].
    set (part := skipn (h / bh * bh) img).
    assert (Hpl : length part = h mod bh) by (unfold part; rewrite skipn_length; lia).
    destruct (Nat.lt_ge_cases i (h mod bh)) as [Hin|Hout].
    + rewrite app_nth1 by lia. unfold part. rewrite nth_skipn_add.
      replace (h / bh * bh + i <? h) with true by (symmetry; apply Nat.ltb_lt; lia). reflexivity.
    + rewrite app_nth2 by lia. rewrite nth_repeat_in by lia.
      replace (h / bh * bh + i <? h) with false by (symmetry; apply Nat.ltb_ge; lia).
      assert (Hhd : hd [] part = nth 0 part []) by (destruct part; reflexivity).
      rewrite Hhd. unfold part. rewrite nth_skipn_add, Nat.add_0_r. reflexivity.
Qed.

Lemma buffer_length by_ : by_ < chh -> length (nth by_ (row_buffers X bh img) []) = bh.
Proof.
  intros Hby. unfold row_buffers.
  pose proof (Nat.div_mod h bh ltac:(lia)) as E. pose proof (Nat.mod_upper_bound h bh ltac:(lia)) as Hm.
  rewrite (cdiv_split h bh) in Hby by assumption.
  destruct (Nat.lt_ge_cases by_ (h / bh)) as [Hfull|Hpart].
  - rewrite app_nth1 by (rewrite map_length, seq_length; assumption).
    rewrite (nth_indep _ [] (group X bh 0 img)) by (rewrite map_length, seq_length; assumption).
    rewrite (map_nth (fun k => group X bh k img)), seq_nth by assumption. unfold group. rewrite firstn_length, skipn_length. nia.
  - destruct (h mod bh =? 0) eqn:E0; [apply Nat.eqb_eq in E0; lia|]. apply Nat.eqb_neq in E0.
    assert (by_ = h / bh) by lia. subst by_.
    rewrite app_nth2 by (rewrite map_length, seq_length; lia). rewrite map_length, seq_length, Nat.sub_diag. cbn [nth].
    rewrite app_length, repeat_length, skipn_length. lia.
Qed.
Lemma last_nth_pred (l : list X) : last l d = nth (length l - 1) l d.
Proof.
  induction l as [|a l IH]; [reflexivity|]. destruct l as [|b l]; [reflexivity|].
  change (last (a :: b :: l) d) with (last (b :: l) d). rewrite IH. cbn [length Nat.sub]. rewrite Nat.sub_0_r. reflexivity.
Qed.

Theorem block_pixel by_ bx i j : by_ < chh -> bx < cw -> i < bh -> j < bw ->
  nth j (nth i (nth (by_ * cw + bx) (image_blocks X bw bh d w img) []) []) d = nth (src_col bx j) (nth (src_row by_ i) img []) d.
Proof.
  intros Hby Hbx Hi Hj. unfold image_blocks.
  rewrite (nth_flat_map_uniform (line_blocks X bw d w) cw _ by_ bx [] []); [|apply line_blocks_length|rewrite row_buffers_length; assumption|assumption].
  set (buf := nth by_ (row_buffers X bh img) []).
  assert (Hbl : length buf = bh) by (apply buffer_length; assumption).
  assert (Hrow : nth i buf [] = nth (src_row by_ i) img []) by (apply buffer_row; assumption).
  assert (Hsr : src_row by_ i < h).
  { unfold src_row. pose proof (Nat.div_mod h bh ltac:(lia)) as E. rewrite (cdiv_split h bh) in Hby by assumption.
    destruct (by_ * bh + i <? h) eqn:El; [apply Nat.ltb_lt in El; lia|]. apply Nat.ltb_ge in El.
    destruct (h mod bh =? 0) eqn:E0; [apply Nat.eqb_eq in E0; nia|]. apply Nat.eqb_neq in E0. nia. }
  assert (Hlen : length (nth (src_row by_ i) img []) = w).
  { rewrite Forall_forall in Hrows. apply Hrows. apply nth_In. assumption. }
  pose proof (Nat.div_mod w bw ltac:(lia)) as Ew. pose proof (Nat.mod_upper_bound w bw ltac:(lia)) as Hmw.
  rewrite (cdiv_split w bw) in Hbx by assumption.
  unfold line_blocks, src_col.
  destruct (Nat.lt_ge_cases bx (w / bw)) as [Hfull|Hpart].
  - rewrite app_nth1 by (rewrite map_length, seq_length; assumption).
    rewrite (nth_indep _ [] (full_block X bw 0 buf)) by (rewrite map_length, seq_length; assumption).
    rewrite (map_nth (fun bi => full_block X bw bi buf)), seq_nth by assumption. cbn [Nat.add]. unfold full_block.
    rewrite (nth_indep _ [] ((fun row => firstn bw (skipn (bx * bw) row)) [])) by (rewrite map_length; lia).
    rewrite (map_nth (fun row => firstn bw (skipn (bx * bw) row))). rewrite Hrow.
    rewrite nth_firstn_lt, nth_skipn_add by assumption.
    replace (bx * bw + j <? w) with true by (symmetry; apply Nat.ltb_lt; nia). reflexivity.
  - destruct (w mod bw =? 0) eqn:E0; [apply Nat.eqb_eq in E0; lia|]. apply Nat.eqb_neq in E0.
    assert (bx = w / bw) by lia. subst bx.
    rewrite app_nth2 by (rewrite map_length, seq_length; lia). rewrite map_length, seq_length, Nat.sub_diag. cbn [nth].
    unfold partial_block.
    set (g := fun row : list X => let part := firstn (w - w / bw * bw) (skipn (w / bw * bw) row) in part ++ repeat (last part d) (bw - (w - w / bw * bw))).
    rewrite (nth_indep _ [] (g [])) by (rewrite map_length; lia). rewrite (map_nth g). rewrite Hrow. unfold g. cbv zeta.
    set (row := nth (src_row by_ i) img []) in *.
    set (part := firstn (w - w / bw * bw) (skipn (w / bw * bw) row)).
    assert (Hpl : length part = w - w / bw * bw) by (unfold part; rewrite firstn_length, skipn_length, Hlen; lia).
    destruct (Nat.lt_ge_cases j (w - w / bw * bw)) as [Hin|Hout].
    + rewrite app_nth1 by lia. unfold part. rewrite nth_firstn_lt, nth_skipn_add by assumption.
      replace (w / bw * bw + j <? w) with true by (symmetry; apply Nat.ltb_lt; lia). reflexivity.
    + rewrite app_nth2 by lia. rewrite nth_repeat_in by lia. rewrite last_nth_pred, Hpl. unfold part.
      rewrite nth_firstn_lt, nth_skipn_add by lia.
      replace (w / bw * bw + j <? w) with false by (symmetry; apply Nat.ltb_ge; lia). f_equal. lia.
Qed.
End Positions.

Lemma skipn_app_exact {Y} (a b : list Y) n : n <= length a -> skipn n (a ++ b) = skipn n a ++ b.
Proof. intros H. rewrite skipn_app. replace (n - length a) with 0 by lia. reflexivity. Qed.
Lemma skipn_app_past {Y} (a b : list Y) n : length a <= n -> skipn n (a ++ b) = skipn (n - length a) b.
Proof. intros H. rewrite skipn_app. rewrite (skipn_all2 a) by assumption. reflexivity. Qed.
Lemma firstn_app_within {Y} (a b : list Y) n : n <= length a -> firstn n (a ++ b) = firstn n a.
Proof. intros H. rewrite firstn_app. replace (n - length a) with 0 by lia. rewrite firstn_O, app_nil_r. reflexivity. Qed.

(* ---- fragments (C14): gathering the blocks of the first k * bh rows and of the rest separately gives the blocks of the
   whole surface - the block encoders see the same blocks whether a surface is encoded at once or in fragments whose
   heights are multiples of the block height *)
Section Fragments.
Variables (X : Type) (bw bh : nat) (d : X).
Hypothesis Hbh : 1 <= bh.
Theorem row_buffers_app (a b : list (list X)) k : length a = k * bh -> row_buffers X bh (a ++ b) = row_buffers X bh a ++ row_buffers X bh b.
Proof.
  intros Ha. unfold row_buffers. rewrite app_length, Ha.
  assert (Hq : (k * bh + length b) / bh = k + length b / bh) by (rewrite Nat.add_comm, Nat.div_add by lia; lia).
  assert (Hr : (k * bh + length b) mod bh = length b mod bh) by (rewrite Nat.add_comm, Nat.mod_add by lia; reflexivity).
  rewrite Hq, Hr. rewrite Nat.div_mul, Nat.mod_mul by lia. cbn [Nat.eqb]. rewrite app_nil_r.
  rewrite seq_app, map_app, <- app_assoc. f_equal; [|f_equal].
  - apply map_ext_in. intros i Hi. apply in_seq in Hi. unfold group.
    rewrite skipn_app_exact by (rewrite Ha; nia). apply firstn_app_within. rewrite skipn_length, Ha. nia.
  - cbn [Nat.add].
    assert (Hs : seq k (length b / bh) = map (Nat.add k) (seq 0 (length b / bh))).
    { clear. generalize (length b / bh) as n. intros n. revert k. induction n as [|n IH]; intros k; [reflexivity|]. cbn [seq map]. rewrite Nat.add_0_r. f_equal.
      rewrite (IH (S k)), <- seq_shift, map_map. apply map_ext. intros x. lia. }
    rewrite Hs, map_map. apply map_ext. intros t. unfold group. f_equal.
    rewrite skipn_app_past by (rewrite Ha; nia). f_equal. rewrite Ha. nia.
  - destruct (length b mod bh =? 0); [reflexivity|]. f_equal.
    rewrite skipn_app_past by (rewrite Ha; nia). replace ((k + length b / bh) * bh - length a) with (length b / bh * bh) by (rewrite Ha; nia). reflexivity.
Qed.
Theorem image_blocks_app w (a b : list (list X)) k : length a = k * bh ->
  image_blocks X bw bh d w (a ++ b) = image_blocks X bw bh d w a ++ image_blocks X bw bh d w b.
Proof. intros Ha. unfold image_blocks. rewrite (row_buffers_app a b k Ha). apply flat_map_app. Qed.
End Fragments.
