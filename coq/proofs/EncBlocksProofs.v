(* C13 / C10: the block gathering of the BC encoders (model/EncBlocks.v) never invents a pixel - every position of every
   block, padding included, holds a pixel of the image - so a surface of one colour yields only blocks of that colour
   (also for partial edge blocks), and a surface yields ceil(w / bw) * ceil(h / bh) blocks. *)
From Coq Require Import List Bool Lia Arith.
From DDSV Require Import model.EncBlocks.
Import ListNotations.

Lemma In_firstn {X} (l : list X) n x : In x (firstn n l) -> In x l.
Proof. revert n. induction l as [|a l IH]; intros n H; destruct n; simpl in *; try tauto. destruct H; [left; assumption | right; eapply IH; eassumption]. Qed.
Lemma In_skipn {X} (l : list X) n x : In x (skipn n l) -> In x l.
Proof. revert n. induction l as [|a l IH]; intros n H; destruct n; simpl in *; try tauto. right. eapply IH; eassumption. Qed.
Lemma In_last {X} (l : list X) d : l <> [] -> In (last l d) l.
Proof. induction l as [|a l IH]; intros H; [contradiction|]. destruct l as [|b l]; [left; reflexivity|]. right. apply IH. discriminate. Qed.
Lemma In_hd {X} (l : list X) d : l <> [] -> In (hd d l) l.
Proof. destruct l; [contradiction|]. intros _. left. reflexivity. Qed.
Lemma cdiv_split a b : 1 <= b -> (a + b - 1) / b = a / b + (if a mod b =? 0 then 0 else 1).
Proof.
  intros Hb. pose proof (Nat.div_mod a b ltac:(lia)) as E. pose proof (Nat.mod_upper_bound a b ltac:(lia)) as Hm.
  destruct (a mod b =? 0) eqn:E0; [apply Nat.eqb_eq in E0 | apply Nat.eqb_neq in E0].
  - symmetry. rewrite Nat.add_0_r. apply (Nat.div_unique (a + b - 1) b (a / b) (b - 1)); lia.
  - symmetry. apply (Nat.div_unique (a + b - 1) b (a / b + 1) (a mod b - 1)); [lia|]. rewrite Nat.mul_add_distr_l. lia.
Qed.

Section Proofs.
Variables (X : Type) (bw bh : nat) (d : X).
Hypothesis Hbw : 1 <= bw.
Hypothesis Hbh : 1 <= bh.
Variables (w : nat) (img : list (list X)).
Hypothesis Hw : 1 <= w.
Hypothesis Hrows : Forall (fun r => length r = w) img.

Lemma buffer_rows_in_image buf row : In buf (row_buffers X bh img) -> In row buf -> In row img.
Proof.
  unfold row_buffers. intros Hb Hr. apply in_app_or in Hb. destruct Hb as [Hb|Hb].
  - apply in_map_iff in Hb. destruct Hb as (k & <- & _). unfold group in Hr. apply In_firstn, In_skipn in Hr. exact Hr.
  - destruct (length img mod bh =? 0) eqn:E0; [contradiction|]. apply Nat.eqb_neq in E0. destruct Hb as [<-|[]].
    set (part := skipn (length img / bh * bh) img) in *.
    assert (Hne : part <> []).
    { intros Hn. assert (Hl : length part = 0) by (rewrite Hn; reflexivity). unfold part in Hl. rewrite skipn_length in Hl.
      pose proof (Nat.div_mod (length img) bh ltac:(lia)). lia. }
    apply in_app_or in Hr. destruct Hr as [Hr|Hr]; [eapply In_skipn; exact Hr|].
    apply repeat_spec in Hr. subst row. eapply In_skipn. apply In_hd. exact Hne.
Qed.

(* no position of any block - padding included - holds anything but a pixel of the image *)
Theorem blocks_hold_image_pixels blk brow px : In blk (image_blocks X bw bh d w img) -> In brow blk -> In px brow -> In px (concat img).
Proof.
  unfold image_blocks. intros Hb Hr Hp. apply in_flat_map in Hb. destruct Hb as (buf & Hbuf & Hb).
  assert (Hsrc : exists row, In row buf /\ In px row).
  { unfold line_blocks in Hb. apply in_app_or in Hb. destruct Hb as [Hb|Hb].
    - apply in_map_iff in Hb. destruct Hb as (bi & <- & _). unfold full_block in Hr. apply in_map_iff in Hr. destruct Hr as (row & <- & Hrow).
      exists row. split; [assumption|]. eapply In_skipn, In_firstn. exact Hp.
    - destruct (w mod bw =? 0) eqn:E0; [contradiction|]. apply Nat.eqb_neq in E0. destruct Hb as [<-|[]].
      unfold partial_block in Hr. apply in_map_iff in Hr. destruct Hr as (row & <- & Hrow). exists row. split; [assumption|].
      set (part := firstn (w - w / bw * bw) (skipn (w / bw * bw) row)) in *.
      assert (Hlen : length row = w).
      { rewrite Forall_forall in Hrows. apply Hrows. eapply buffer_rows_in_image; eassumption. }
      assert (Hne : part <> []).
      { intros Hn. assert (Hl : length part = 0) by (rewrite Hn; reflexivity). unfold part in Hl. rewrite firstn_length, skipn_length, Hlen in Hl.
        pose proof (Nat.div_mod w bw ltac:(lia)). lia. }
      apply in_app_or in Hp. destruct Hp as [Hp|Hp]; [eapply In_skipn, In_firstn; exact Hp|].
      apply repeat_spec in Hp. subst px. eapply In_skipn, In_firstn. apply In_last. exact Hne. }
  destruct Hsrc as (row & Hrow & Hpx). apply in_concat. exists row. split; [|assumption]. eapply buffer_rows_in_image; eassumption.
Qed.

(* a surface of one colour gives blocks of that colour only, partial edge blocks included *)
Theorem constant_image_constant_blocks c : (forall row px, In row img -> In px row -> px = c) ->
  forall blk brow px, In blk (image_blocks X bw bh d w img) -> In brow blk -> In px brow -> px = c.
Proof.
  intros Hc blk brow px Hb Hr Hp. pose proof (blocks_hold_image_pixels blk brow px Hb Hr Hp) as Hin.
  apply in_concat in Hin. destruct Hin as (row & Hrow & Hpx). eapply Hc; eassumption.
Qed.

(* the number of blocks is the one the layout declares *)
Theorem block_count : length (image_blocks X bw bh d w img) = (w + bw - 1) / bw * ((length img + bh - 1) / bh).
Proof.
  unfold image_blocks.
  assert (Hline : forall buf, length (line_blocks X bw d w buf) = (w + bw - 1) / bw).
  { intros buf. unfold line_blocks. rewrite app_length, map_length, seq_length, cdiv_split by assumption. destruct (w mod bw =? 0); reflexivity. }
  assert (Hflat : forall l : list (list (list X)), length (flat_map (line_blocks X bw d w) l) = length l * ((w + bw - 1) / bw)).
  { induction l as [|b l IH]; [reflexivity|]. cbn [flat_map length]. rewrite app_length, Hline, IH. lia. }
  rewrite Hflat. unfold row_buffers. rewrite app_length, map_length, seq_length, (cdiv_split (length img) bh) by assumption.
  destruct (length img mod bh =? 0); cbn [length]; lia.
Qed.
End Proofs.
