(* C15: the float-to-integer casts and the clamp are total and in range for EVERY float, including NaN, the
   infinities, negative zero and subnormals. *)
From Coq Require Import ZArith List Bool Lia.
From DDSV Require Import model.Float model.Convert.
Local Open Scope Z_scope.

Theorem to_unsigned_range emax x : 0 <= emax -> 0 <= to_unsigned emax x <= emax.
Proof.
  intros H. destruct x as [s|s| |s m e]; cbn [to_unsigned]; try lia; destruct s; try lia.
  destruct (0 <=? e) eqn:E.
  - apply Z.leb_le in E. pose proof (Z.shiftl_nonneg (Zpos m) e). lia.
  - assert (0 <= Z.shiftr (Z.pos m) (- e)) by (apply Z.shiftr_nonneg; lia). lia.
Qed.

(* clamp_0_1 of src/util.rs: value.max(0.0).min(1.0) *)
Definition clamp_0_1 (x : fl) : fl := fmin (fmax x (F 0)) (F 1).
Lemma pow2_pos k : 0 <= k -> 0 < 2 ^ k. Proof. intros. apply Z.pow_pos_nonneg; lia. Qed.
Lemma fcmp_fin_fin s m e t n f :
  fcmp (Ffin s m e) (Ffin t n f) = Some (Z.compare (signed s (Zpos m) * 2 ^ (e - Z.min e f)) (signed t (Zpos n) * 2 ^ (f - Z.min e f))).
Proof. reflexivity. Qed.
Lemma fcmp_fin_zero s m e z : fcmp (Ffin s m e) (Fz z) = Some (Z.compare (signed s (Zpos m) * 2 ^ (e - Z.min e 0)) (0 * 2 ^ (0 - Z.min e 0))).
Proof. reflexivity. Qed.
Lemma fcmp_zero_fin s m e z : fcmp (Fz z) (Ffin s m e) = Some (Z.compare (0 * 2 ^ (0 - Z.min 0 e)) (signed s (Zpos m) * 2 ^ (e - Z.min 0 e))).
Proof. reflexivity. Qed.
Lemma flt_fin_zero s m e : flt (Ffin s m e) (Fz false) = s.
Proof.
  unfold flt. rewrite fcmp_fin_zero. rewrite Z.mul_0_l.
  pose proof (pow2_pos (e - Z.min e 0) ltac:(lia)) as Hp. set (P := 2 ^ (e - Z.min e 0)) in *.
  destruct s; unfold signed.
  - destruct (Z.compare_spec (- Z.pos m * P) 0); try reflexivity; nia.
  - destruct (Z.compare_spec (Z.pos m * P) 0); try reflexivity; nia.
Qed.
Theorem clamp_0_1_total x : let c := clamp_0_1 x in
  is_nan c = false /\ fle (F 0) c = true /\ fle c (F 1) = true.
Proof.
  cbv zeta. unfold clamp_0_1. change (F 0) with (Fz false). change (F 1) with (Ffin false 8388608 (-23)).
  destruct x as [s|s| |s m e].
  - destruct s; vm_compute; auto.
  - destruct s; vm_compute; auto.
  - vm_compute; auto.
  - assert (Efm : fmax (Ffin s m e) (Fz false) = if s then Fz false else Ffin s m e).
    { unfold fmax. cbn [is_nan]. rewrite flt_fin_zero. reflexivity. }
    rewrite Efm. destruct s; [vm_compute; auto|].
    assert (Efn : fmin (Ffin false m e) (Ffin false 8388608 (-23)) =
                  if flt (Ffin false 8388608 (-23)) (Ffin false m e) then Ffin false 8388608 (-23) else Ffin false m e) by reflexivity.
    rewrite Efn.
    destruct (flt (Ffin false 8388608 (-23)) (Ffin false m e)) eqn:E; [vm_compute; auto|].
    split; [reflexivity|]. split.
    + unfold fle. rewrite fcmp_zero_fin, Z.mul_0_l. unfold signed.
      pose proof (pow2_pos (e - Z.min 0 e) ltac:(lia)) as Hp. set (P := 2 ^ (e - Z.min 0 e)) in *.
      destruct (Z.compare_spec 0 (Z.pos m * P)); try reflexivity; nia.
    + unfold flt in E. rewrite fcmp_fin_fin in E. unfold fle. rewrite fcmp_fin_fin. unfold signed in *.
      rewrite (Z.min_comm e (-23)).
      set (A := 8388608 * 2 ^ (-23 - Z.min (-23) e)) in *. set (B := Z.pos m * 2 ^ (e - Z.min (-23) e)) in *.
      destruct (Z.compare_spec A B); try discriminate; destruct (Z.compare_spec B A); try reflexivity; lia.
Qed.
