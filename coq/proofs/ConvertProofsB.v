(* C04: 16-bit UNORM -> F32 is the correctly rounded quotient x / 65535, for all 65536 inputs *)
From Coq Require Import ZArith List Bool Lia.
From DDSV Require Import model.Float model.Convert spec.SpecNum proofs.ConvertProofsA.
Local Open Scope Z_scope.
Lemma t_n16_f32 : forallb (fun x => f32_bits (n16_f32 x) =? cr x 65535) (zrange 65536) = true.
Proof. vm_compute. reflexivity. Qed.
Theorem n16_f32_correctly_rounded x : 0 <= x < 65536 -> f32_bits (n16_f32 x) = cr x 65535.
Proof. intros Hx. apply Z.eqb_eq. exact (zsweep _ _ t_n16_f32 x Hx). Qed.
