(* C03: BC1 - BC5 decoding equals the specification. *)
From DDSV Require Import base.Machine model.Numeric model.BCdec spec.SpecBC.

Definition range (n : nat) : list N := map N.of_nat (seq 0 n).
Lemma range_In n x : (N.to_nat x < n)%nat -> In x (range n).
Proof. intros H. unfold range. apply in_map_iff. exists (N.to_nat x). split; [lia|]. apply in_seq. lia. Qed.
Lemma sweep (P : N -> bool) (n : N) : forallb P (range (N.to_nat n)) = true -> forall x, x < n -> P x = true.
Proof. intros H x Hx. rewrite forallb_forall in H. apply H. apply range_In. lia. Qed.
Lemma sweep2 (P : N -> N -> bool) (n : N) : forallb (fun a => forallb (P a) (range (N.to_nat n))) (range (N.to_nat n)) = true ->
  forall a b, a < n -> b < n -> P a b = true.
Proof. intros H a b Ha Hb. pose proof (sweep _ n H a Ha) as H1. cbv beta in H1. exact (sweep _ n H1 b Hb). Qed.

(* ---- finite facts (by computation over every value of the domain) *)
Lemma t_n5 : forallb (fun x => nearestb (n5_n8 x) (x * 255) 31) (range 32) = true. Proof. vm_compute. reflexivity. Qed.
Lemma t_n6 : forallb (fun x => nearestb (n6_n8 x) (x * 255) 63) (range 64) = true. Proof. vm_compute. reflexivity. Qed.
Lemma t_third5 : forallb (fun a => forallb (fun b => nearestb (third5 a b) ((2 * a + b) * 255) 93) (range 32)) (range 32) = true. Proof. vm_compute. reflexivity. Qed.
Lemma t_third6 : forallb (fun a => forallb (fun b => nearestb (third6 a b) ((2 * a + b) * 255) 189) (range 64)) (range 64) = true. Proof. vm_compute. reflexivity. Qed.
Lemma t_mid5 : forallb (fun a => forallb (fun b => nearestb (mid5 a b) ((a + b) * 255) 62) (range 32)) (range 32) = true. Proof. vm_compute. reflexivity. Qed.
Lemma t_mid6 : forallb (fun a => forallb (fun b => nearestb (mid6 a b) ((a + b) * 255) 126) (range 64)) (range 64) = true. Proof. vm_compute. reflexivity. Qed.
Lemma t_bc4u_6_8 : forallb (fun i => nearestb (bc4u_i6_u8 i) (i * 255) 1785) (range 1786) = true. Proof. vm_compute. reflexivity. Qed.
Lemma t_bc4u_4_8 : forallb (fun i => nearestb (bc4u_i4_u8 i) (i * 255) 1275) (range 1276) = true. Proof. vm_compute. reflexivity. Qed.
Lemma t_bc4u_6_16 : forallb (fun i => nearestb (bc4u_i6_u16 i) (i * 65535) 1785) (range 1786) = true. Proof. vm_compute. reflexivity. Qed.
Lemma t_bc4u_4_16 : forallb (fun i => nearestb (bc4u_i4_u16 i) (i * 65535) 1275) (range 1276) = true. Proof. vm_compute. reflexivity. Qed.
Lemma t_s8 : forallb (fun x => (s8_norm x =? snorm8_level x) && nearestb (s8_n8 x) (s8_norm x * 255) 254 && nearestb (s8_n16 x) (s8_norm x * 65535) 254) (range 256) = true.
Proof. vm_compute. reflexivity. Qed.

(* generic facts *)
Lemma nearest_div_round num den : 0 < den -> nearest ((num + den / 2) / den) num den.
Proof.
  intros Hd. unfold nearest. pose proof (N.div_mod (num + den / 2) den ltac:(lia)) as E. pose proof (N.mod_lt (num + den / 2) den ltac:(lia)) as L.
  pose proof (N.div_mod den 2 ltac:(lia)) as E2. pose proof (N.mod_lt den 2 ltac:(lia)) as L2.
  set (q := (num + den / 2) / den) in *. set (r := (num + den / 2) mod den) in *. set (hq := den / 2) in *. set (hr := den mod 2) in *. nia.
Qed.
Lemma field_bounds u : r5_of u < 32 /\ g6_of u < 64 /\ b5_of u < 32.
Proof. unfold r5_of, g6_of, b5_of. repeat split; apply N.mod_lt; discriminate. Qed.

(* ---- BC1 palette: every channel of every palette entry is the exact interpolation rounded to nearest *)
Theorem bc1_palette_spec mode_select c0 c1 :
  let four := negb mode_select || (c1 <? c0) in
  exists p0 p1 p2 p3, bc1_lut mode_select c0 c1 = [p0; p1; p2; p3] /\
    (forall (ch : nat) max (f : N -> N), (ch = 0%nat /\ max = 31 /\ f = r5_of) \/ (ch = 1%nat /\ max = 63 /\ f = g6_of) \/ (ch = 2%nat /\ max = 31 /\ f = b5_of) ->
       bc1_channel_spec max (f c0) (f c1) four (nth ch p0 0) (nth ch p1 0) (nth ch p2 0) (nth ch p3 0)) /\
    nth 3 p0 0 = 255 /\ nth 3 p1 0 = 255 /\ nth 3 p2 0 = 255 /\ nth 3 p3 0 = (if four then 255 else 0).
Proof.
  cbv zeta. unfold bc1_lut.
  destruct (field_bounds c0) as [Hr0 [Hg0 Hb0]]. destruct (field_bounds c1) as [Hr1 [Hg1 Hb1]].
  assert (N5 : forall x, x < 32 -> nearest (n5_n8 x) (x * 255) 31) by (intros x Hx; apply nearestb_spec; exact (sweep _ 32 t_n5 x Hx)).
  assert (N6 : forall x, x < 64 -> nearest (n6_n8 x) (x * 255) 63) by (intros x Hx; apply nearestb_spec; exact (sweep _ 64 t_n6 x Hx)).
  assert (T5 : forall a b, a < 32 -> b < 32 -> nearest (third5 a b) ((2 * a + b) * 255) (3 * 31)) by (intros a b Ha Hb; apply nearestb_spec; exact (sweep2 _ 32 t_third5 a b Ha Hb)).
  assert (T6 : forall a b, a < 64 -> b < 64 -> nearest (third6 a b) ((2 * a + b) * 255) (3 * 63)) by (intros a b Ha Hb; apply nearestb_spec; exact (sweep2 _ 64 t_third6 a b Ha Hb)).
  assert (M5 : forall a b, a < 32 -> b < 32 -> nearest (mid5 a b) ((a + b) * 255) (2 * 31)) by (intros a b Ha Hb; apply nearestb_spec; exact (sweep2 _ 32 t_mid5 a b Ha Hb)).
  assert (M6 : forall a b, a < 64 -> b < 64 -> nearest (mid6 a b) ((a + b) * 255) (2 * 63)) by (intros a b Ha Hb; apply nearestb_spec; exact (sweep2 _ 64 t_mid6 a b Ha Hb)).
  assert (Sw : forall a b, 2 * a + b = 2 * a + b) by reflexivity.
  destruct (negb mode_select || (c1 <? c0)).
  - eexists _, _, _, _. split; [reflexivity|]. split; [|cbn; auto].
    intros ch max f [[-> [-> ->]]|[[-> [-> ->]]|[-> [-> ->]]]]; unfold bc1_channel_spec; cbn [nth rgb8_of565 third_rgb8 app].
    + split; [auto|]. split; [auto|]. split; [auto|]. replace (r5_of c0 + 2 * r5_of c1) with (2 * r5_of c1 + r5_of c0) by lia. auto.
    + split; [auto|]. split; [auto|]. split; [auto|]. replace (g6_of c0 + 2 * g6_of c1) with (2 * g6_of c1 + g6_of c0) by lia. auto.
    + split; [auto|]. split; [auto|]. split; [auto|]. replace (b5_of c0 + 2 * b5_of c1) with (2 * b5_of c1 + b5_of c0) by lia. auto.
  - eexists _, _, _, _. split; [reflexivity|]. split; [|cbn; auto].
    intros ch max f [[-> [-> ->]]|[[-> [-> ->]]|[-> [-> ->]]]]; unfold bc1_channel_spec; cbn [nth rgb8_of565 mid_rgb8 app];
      (split; [auto|]; split; [auto|]; split; [auto|reflexivity]).
Qed.

Lemma nth_map' {A B} (f : A -> B) l d d' i : (i < length l)%nat -> nth i (map f l) d = f (nth i l d').
Proof. intros H. rewrite (nth_indep _ d (f d')) by (rewrite map_length; exact H). apply map_nth. Qed.

(* pixel i of a BC1 block is the palette entry selected by bits 2i, 2i+1 of the little-endian index word *)
Theorem bc1_pixels mode_select b i : (i < 16)%nat ->
  nth i (bc1_u8 mode_select b) [] =
  nth (N.to_nat ((le32 b 4 / 4 ^ N.of_nat i) mod 4)) (bc1_lut mode_select (le16 b 0) (le16 b 2)) [].
Proof.
  intros Hi. unfold bc1_u8, pixels_of_lut. rewrite (nth_map' _ _ _ 0%nat) by (rewrite seq_length; exact Hi).
  rewrite seq_nth by exact Hi. unfold idx2, shr. cbn [Nat.add].
  replace (2 ^ (2 * N.of_nat i)) with (4 ^ N.of_nat i) by (rewrite N.pow_mul_r; reflexivity). reflexivity.
Qed.

(* ---- BC4 palettes *)
Theorem bc4u_palette_spec (wide : bool) c0 c1 : c0 < 256 -> c1 < 256 ->
  bc4_palette_spec 255 (if wide then 65535 else 255) c0 c1 (c1 <? c0) (bc4u_lut wide c0 c1).
Proof.
  intros H0 H1.
  assert (I68 : forall i, i <= 1785 -> nearest (bc4u_i6_u8 i) (i * 255) 1785) by (intros i Hi; apply nearestb_spec; exact (sweep _ 1786 t_bc4u_6_8 i ltac:(lia))).
  assert (I48 : forall i, i <= 1275 -> nearest (bc4u_i4_u8 i) (i * 255) 1275) by (intros i Hi; apply nearestb_spec; exact (sweep _ 1276 t_bc4u_4_8 i ltac:(lia))).
  assert (I616 : forall i, i <= 1785 -> nearest (bc4u_i6_u16 i) (i * 65535) 1785) by (intros i Hi; apply nearestb_spec; exact (sweep _ 1786 t_bc4u_6_16 i ltac:(lia))).
  assert (I416 : forall i, i <= 1275 -> nearest (bc4u_i4_u16 i) (i * 65535) 1275) by (intros i Hi; apply nearestb_spec; exact (sweep _ 1276 t_bc4u_4_16 i ltac:(lia))).
  assert (E8 : forall x, nearest x (x * 255) 255) by (intros x; unfold nearest; lia).
  assert (E16 : forall x, nearest (n8_n16 x) (x * 65535) 255) by (intros x; unfold nearest, n8_n16; lia).
  unfold bc4u_lut, bc4_palette_spec.
  destruct wide; destruct (c1 <? c0); repeat match goal with |- _ /\ _ => split end; auto;
    try reflexivity;
    change (7 * 255) with 1785; change (5 * 255) with 1275;
    match goal with |- nearest (?f ?i) (?n * ?m) ?d => replace n with i by lia end;
    first [apply I68; lia|apply I48; lia|apply I616; lia|apply I416; lia].
Qed.

Theorem bc4s_palette_spec (wide : bool) r0 r1 : r0 < 256 -> r1 < 256 ->
  bc4_palette_spec 254 (if wide then 65535 else 255) (snorm8_level r0) (snorm8_level r1) (i8_of r1 <? i8_of r0)%Z (bc4s_lut wide r0 r1).
Proof.
  intros H0 H1.
  assert (S : forall x, x < 256 -> s8_norm x = snorm8_level x /\ s8_norm x <= 254 /\ nearest (s8_n8 x) (s8_norm x * 255) 254 /\ nearest (s8_n16 x) (s8_norm x * 65535) 254).
  { intros x Hx. pose proof (sweep _ 256 t_s8 x Hx) as H. cbv beta in H. apply andb_prop in H. destruct H as [H C]. apply andb_prop in H. destruct H as [A B].
    apply N.eqb_eq in A. apply nearestb_spec in B, C. split; [exact A|]. split; [|split; assumption].
    unfold s8_norm. pose proof (N.mod_lt (x + 128) 256 ltac:(lia)). lia. }
  destruct (S r0 H0) as [A0 [B0 [C0 D0]]]. destruct (S r1 H1) as [A1 [B1 [C1 D1]]].
  rewrite <- A0, <- A1. set (a := s8_norm r0) in *. set (c := s8_norm r1) in *.
  unfold bc4s_lut, bc4_palette_spec. fold a c.
  assert (R6 : forall i omax, nearest ((i * omax + 889) / 1778) (i * omax) (7 * 254)) by (intros; change 889 with (1778 / 2); apply nearest_div_round; lia).
  assert (R4 : forall i omax, nearest ((i * omax + 635) / 1270) (i * omax) (5 * 254)) by (intros; change 635 with (1270 / 2); apply nearest_div_round; lia).
  destruct wide; destruct (i8_of r1 <? i8_of r0)%Z; repeat match goal with |- _ /\ _ => split end; auto;
    try reflexivity;
    unfold bc4s_i6_u8, bc4s_i4_u8, bc4s_i6_u16, bc4s_i4_u16;
    match goal with |- nearest ((?i * ?m + _) / _) (?n * ?m) _ => replace n with i by lia end; first [apply R6|apply R4].
Qed.

(* pixel i of a BC4 block is the palette entry selected by bits 3i.. of the two 24-bit index groups *)
Theorem bc4_pixels lut b i : (i < 16)%nat ->
  nth i (pixels_of_lut lut 0 (idx3 b)) 0 =
  nth (N.to_nat (if (i <? 8)%nat then (le24 b 2 / 8 ^ N.of_nat i) mod 8 else (le24 b 5 / 8 ^ N.of_nat (i - 8)) mod 8)) lut 0.
Proof.
  intros Hi. unfold pixels_of_lut. rewrite (nth_map' _ _ _ 0%nat) by (rewrite seq_length; exact Hi).
  rewrite seq_nth by exact Hi. unfold idx3, shr. cbn [Nat.add].
  destruct (i <? 8)%nat; [replace (2 ^ (3 * N.of_nat i)) with (8 ^ N.of_nat i) by (rewrite N.pow_mul_r; reflexivity)|replace (2 ^ (3 * N.of_nat (i - 8))) with (8 ^ N.of_nat (i - 8)) by (rewrite N.pow_mul_r; reflexivity)]; reflexivity.
Qed.

(* BC2 explicit alpha: 4-bit UNORM, exact in 8 bits; BC2 / BC3 colour is always four-colour *)
Theorem bc2_alpha_exact x : x < 16 -> n4_n8 x * 15 = x * 255.
Proof. intros H. unfold n4_n8. lia. Qed.
Theorem bc23_always_four_colour c0 c1 : bc1_lut false c0 c1 = [rgb8_of565 c0 ++ [255]; rgb8_of565 c1 ++ [255]; third_rgb8 c0 c1 ++ [255]; third_rgb8 c1 c0 ++ [255]].
Proof. reflexivity. Qed.
(* the 16-bit output of the BC1-3 family is the 8-bit value widened exactly: x * 257 = x / 255 * 65535 *)
Theorem widen_exact x : n8_n16 x * 255 = x * 65535.
Proof. unfold n8_n16. lia. Qed.
