(* Round-to-nearest-even on a binary floating-point grid, at the level of integers: a non-negative value is an
   integer v in units of 2^-B; the grid spacing at v is 2^u with u = max(log2 v - (prec-1), umin).  Facts needed
   for the monotonicity of the float pipelines (C04 / C12): RNE at a fixed spacing is monotone and never crosses
   a multiple of the spacing; the variable-spacing rounding is monotone. *)
From Coq Require Import ZArith Lia Bool.
Local Open Scope Z_scope.

Definition rne (u v : Z) : Z :=
  if u <=? 0 then v else
  let q := v / 2 ^ u in let r := v mod 2 ^ u in let half := 2 ^ (u - 1) in
  let up := (half <? r) || ((r =? half) && Z.odd q) in
  (if up then q + 1 else q) * 2 ^ u.

Lemma pow2_pos k : 0 <= k -> 0 < 2 ^ k. Proof. intros. apply Z.pow_pos_nonneg; lia. Qed.
Lemma pow2_half u : 0 < u -> 2 ^ u = 2 * 2 ^ (u - 1).
Proof. intros H. replace u with (1 + (u - 1)) at 1 by lia. rewrite Z.pow_add_r by lia. reflexivity. Qed.

(* the result is a multiple of 2^u within half a spacing of v; written with the quotient *)
Lemma rne_cases u v : 0 < u -> 0 <= v ->
  let q := v / 2 ^ u in (rne u v = q * 2 ^ u \/ (rne u v = (q + 1) * 2 ^ u /\ q * 2 ^ u < v)) /\ q * 2 ^ u <= v < (q + 1) * 2 ^ u.
Proof.
  intros Hu Hv. cbv zeta. unfold rne. replace (u <=? 0) with false by (symmetry; apply Z.leb_gt; lia).
  pose proof (pow2_pos u ltac:(lia)) as Hp. pose proof (pow2_pos (u - 1) ltac:(lia)) as Hh.
  pose proof (Z.div_mod v (2 ^ u) ltac:(lia)) as E. pose proof (Z.mod_pos_bound v (2 ^ u) Hp) as Hr.
  set (q := v / 2 ^ u) in *. set (r := v mod 2 ^ u) in *. cbv zeta.
  split; [|nia].
  destruct ((2 ^ (u - 1) <? r) || ((r =? 2 ^ (u - 1)) && Z.odd q)) eqn:U; [right|left; reflexivity].
  split; [reflexivity|]. assert (0 < r).
  { apply orb_true_iff in U. destruct U as [U|U]; [apply Z.ltb_lt in U; lia|]. apply andb_true_iff in U. destruct U as [U _]. apply Z.eqb_eq in U. lia. }
  nia.
Qed.
(* rounding never crosses a multiple of the spacing *)
Lemma rne_ge_multiple u v g : 0 < u -> 0 <= v -> g * 2 ^ u <= v -> g * 2 ^ u <= rne u v.
Proof.
  intros Hu Hv Hg. pose proof (pow2_pos u ltac:(lia)) as Hp.
  destruct (rne_cases u v Hu Hv) as [[E|[E _]] [A B]]; rewrite E; set (P := 2 ^ u) in *; set (q := v / P) in *;
    assert (g < q + 1) by (apply (Z.mul_lt_mono_pos_r P); lia); nia.
Qed.
Lemma rne_le_multiple u v g : 0 < u -> 0 <= v -> v <= g * 2 ^ u -> rne u v <= g * 2 ^ u.
Proof.
  intros Hu Hv Hg. pose proof (pow2_pos u ltac:(lia)) as Hp.
  destruct (rne_cases u v Hu Hv) as [[E|[E S]] [A B]]; rewrite E; set (P := 2 ^ u) in *; set (q := v / P) in *.
  - nia.
  - (* rounded up: then v is not a multiple, so q + 1 <= g *)
    assert (q < g) by (apply (Z.mul_lt_mono_pos_r P); lia). nia.
Qed.
Lemma rne_exact u g : 0 <= g -> rne u (g * 2 ^ u) = g * 2 ^ u.
Proof.
  intros Hg. unfold rne. destruct (Z.leb_spec u 0) as [|Hu]; [reflexivity|].
  pose proof (pow2_pos u ltac:(lia)) as Hp. rewrite Z.div_mul by lia. rewrite Z.mod_mul by lia.
  pose proof (pow2_pos (u - 1) ltac:(lia)) as Hh.
  replace (2 ^ (u - 1) <? 0) with false by (symmetry; apply Z.ltb_ge; lia).
  replace (0 =? 2 ^ (u - 1)) with false by (symmetry; apply Z.eqb_neq; lia). reflexivity.
Qed.
(* monotone at a fixed spacing *)
Lemma rne_mono u v w : 0 <= v -> v <= w -> rne u v <= rne u w.
Proof.
  intros Hv Hw. destruct (Z.leb_spec u 0) as [Hu|Hu]; [unfold rne; replace (u <=? 0) with true by (symmetry; apply Z.leb_le; lia); lia|].
  pose proof (pow2_pos u ltac:(lia)) as Hp.
  destruct (rne_cases u v Hu Hv) as [Ev [Av Bv]]. destruct (rne_cases u w Hu ltac:(lia)) as [Ew [Aw Bw]].
  set (qv := v / 2 ^ u) in *. set (qw := w / 2 ^ u) in *.
  assert (Hq : qv <= qw) by (apply Z.div_le_mono; lia).
  destruct (Z.eq_dec qv qw) as [Eq|Nq].
  - (* same cell: compare the decisions *)
    unfold rne. replace (u <=? 0) with false by (symmetry; apply Z.leb_gt; lia). fold qv qw. rewrite <- Eq.
    assert (Hr : v mod 2 ^ u <= w mod 2 ^ u).
    { pose proof (Z.div_mod v (2 ^ u) ltac:(lia)). pose proof (Z.div_mod w (2 ^ u) ltac:(lia)). fold qv in H. fold qw in H0. rewrite <- Eq in H0. lia. }
    set (rv := v mod 2 ^ u) in *. set (rw := w mod 2 ^ u) in *. set (h := 2 ^ (u - 1)) in *.
    destruct ((h <? rv) || ((rv =? h) && Z.odd qv)) eqn:Uv; [|destruct ((h <? rw) || ((rw =? h) && Z.odd qv)); nia].
    replace ((h <? rw) || ((rw =? h) && Z.odd qv)) with true; [lia|]. symmetry.
    apply orb_true_iff in Uv. destruct Uv as [Uv|Uv].
    + apply Z.ltb_lt in Uv. apply orb_true_iff. left. apply Z.ltb_lt. lia.
    + apply andb_true_iff in Uv. destruct Uv as [U1 U2]. apply Z.eqb_eq in U1. apply orb_true_iff.
      destruct (Z.eq_dec rw h) as [->|Hne]; [right; rewrite Z.eqb_refl, U2; reflexivity|left; apply Z.ltb_lt; lia].
  - (* different cells: (qv + 1) * 2^u separates them *)
    assert (rne u v <= (qv + 1) * 2 ^ u) by (destruct Ev as [-> | [-> _]]; nia).
    assert ((qv + 1) * 2 ^ u <= rne u w) by (apply rne_ge_multiple; try lia; nia). lia.
Qed.

(* ---- the floating-point grid: spacing exponent of a value *)
Section Grid.
  Variables (prec umin : Z).           (* prec bits of significand; umin = exponent of the smallest spacing, >= 0 here *)
  Hypothesis Hprec : 1 < prec.
  Hypothesis Humin : 0 <= umin.
  Definition uexp (v : Z) : Z := Z.max (Z.log2 v - (prec - 1)) umin.
  Definition rnd (v : Z) : Z := rne (uexp v) v.

  Lemma uexp_mono v w : 0 < v -> v <= w -> uexp v <= uexp w.
  Proof. intros Hv Hw. unfold uexp. pose proof (Z.log2_le_mono v w Hw). lia. Qed.
  Lemma rnd_mono v w : 0 <= v -> v <= w -> rnd v <= rnd w.
  Proof.
    intros Hv Hw. destruct (Z.eq_dec v 0) as [->|Hv0].
    - (* rnd 0 = 0 <= anything non-negative *)
      unfold rnd. assert (E0 : rne (uexp 0) 0 = 0).
      { unfold rne. destruct (uexp 0 <=? 0); [reflexivity|]. rewrite Z.div_0_l, Z.mod_0_l by (apply Z.pow_nonzero; unfold uexp; lia).
        unfold uexp. cbn [Z.log2]. set (u := Z.max (0 - (prec - 1)) umin).
        destruct (Z.leb_spec u 0); [|]. 
        + replace (2 ^ (u - 1)) with 0 by (symmetry; apply Z.pow_neg_r; lia). cbn. reflexivity.
        + pose proof (pow2_pos (u - 1) ltac:(lia)). replace (2 ^ (u - 1) <? 0) with false by (symmetry; apply Z.ltb_ge; lia).
          replace (0 =? 2 ^ (u - 1)) with false by (symmetry; apply Z.eqb_neq; lia). reflexivity. }
      rewrite E0. unfold rne. destruct (uexp w <=? 0) eqn:Eu; [lia|]. apply Z.leb_gt in Eu.
      pose proof (pow2_pos (uexp w) ltac:(lia)). pose proof (Z.div_pos w (2 ^ uexp w) ltac:(lia) ltac:(lia)).
      destruct ((2 ^ (uexp w - 1) <? w mod 2 ^ uexp w) || _); nia.
    - assert (Hvp : 0 < v) by lia.
      pose proof (uexp_mono v w Hvp Hw) as Hu. unfold rnd.
      destruct (Z.eq_dec (uexp v) (uexp w)) as [E|Ne]; [rewrite E; apply rne_mono; lia|].
      (* different spacings: P = 2^(uexp w + prec - 1) is a multiple of both and lies between v and w *)
      assert (Huw : umin < uexp w) by (unfold uexp in *; lia).
      assert (Elog : uexp w = Z.log2 w - (prec - 1)) by (unfold uexp in *; lia).
      set (uv := uexp v) in *. set (uw := uexp w) in *.
      set (P := 2 ^ (uw + prec - 1)).
      assert (HPw : P <= w).
      { unfold P. replace (uw + prec - 1) with (Z.log2 w) by lia. apply Z.log2_spec. lia. }
      assert (HvP : v < P).
      { unfold P. assert (Z.log2 v < uw + prec - 1) by (unfold uv, uexp in *; lia). apply Z.log2_lt_pow2; lia. }
      assert (Huv0 : 0 <= uv) by (unfold uv, uexp; lia).
      assert (EPv : P = 2 ^ (uw + prec - 1 - uv) * 2 ^ uv) by (unfold P; rewrite <- Z.pow_add_r by lia; f_equal; lia).
      assert (EPw : P = 2 ^ (prec - 1) * 2 ^ uw) by (unfold P; rewrite <- Z.pow_add_r by lia; f_equal; lia).
      assert (A : rne uv v <= P).
      { destruct (Z.eq_dec uv 0) as [E0|N0]; [unfold rne; rewrite E0; cbn; lia|]. rewrite EPv. apply rne_le_multiple; lia. }
      assert (Bw : P <= rne uw w).
      { rewrite EPw. apply rne_ge_multiple; lia. }
      lia.
  Qed.
  (* representable values (multiples of their own spacing) are fixed points *)
  Lemma rnd_exact v : 0 <= v -> v mod 2 ^ uexp v = 0 -> rnd v = v.
  Proof.
    intros Hv Hm. unfold rnd. assert (Hu : 0 <= uexp v) by (unfold uexp; lia).
    pose proof (pow2_pos (uexp v) Hu). pose proof (Z.div_mod v (2 ^ uexp v) ltac:(lia)) as E. rewrite Hm, Z.add_0_r in E.
    rewrite E at 2. rewrite Z.mul_comm. rewrite rne_exact by (apply Z.div_pos; lia). lia.
  Qed.
End Grid.
