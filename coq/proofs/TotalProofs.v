(* C01: a full decode of a truncated surface, or one during which the reader fails, does not end in Ok. *)
From DDSV Require Import base.Machine model.Layout model.DecodeScript spec.SpecLayout proofs.LayoutProofs proofs.ScriptProofs.

Definition noskip (e : eff) : Prop := match e with ESkip n => n = 0 | _ => True end.
Definition reads_ok (rd : reader) : Prop :=
  r_pos rd <= r_len rd /\ match r_fault rd with Some k => r_pos rd <= k | None => True end.

(* a skip-free script that ends Ok either read nothing or ends inside the data and before the fault offset *)
Lemma run_noskip_within s : Forall noskip s -> forall st, s_out (fold_left step s st) = OOk ->
  moved_all s = 0 \/ reads_ok (s_rd (fold_left step s st)).
Proof.
  induction s as [|e s IH] using rev_ind; intros Hs st Hok; [left; reflexivity|].
  apply Forall_app in Hs. destruct Hs as [Hs He]. inversion He as [|? ? He1 _]; subst.
  rewrite fold_left_app in *. cbn [fold_left] in *.
  set (st1 := fold_left step s st) in *.
  destruct (step_ok_account st1 e Hok) as [Hok1 _].
  assert (Em : moved_all (s ++ [e]) = moved_all s + match e with ESkip n | ERead n => n | _ => 0 end).
  { unfold moved_all. rewrite fold_right_app. cbn [fold_right]. clear. induction s as [|x s IHs]; cbn [fold_right]; [destruct e; lia|]. destruct x; lia. }
  rewrite Em. specialize (IH Hs st Hok1). fold st1 in IH.
  unfold step in *. rewrite Hok1 in *. destruct e as [n|n|n].
  - (* alloc: reader unchanged *)
    destruct (s_limit st1 <? n); [discriminate|]. cbn [s_rd]. destruct IH as [IH|IH]; [left; lia|right; exact IH].
  - cbn in He1. subst n. cbn [N.eqb]. destruct IH as [IH|IH]; [left; lia|right; exact IH].
  - destruct (N.eqb_spec n 0) as [->|Hn]; [destruct IH as [IH|IH]; [left; lia|right; exact IH]|].
    right. destruct (match r_fault (s_rd st1) with Some k => k <? r_pos (s_rd st1) + n | None => false end || (r_len (s_rd st1) <? r_pos (s_rd st1) + n)) eqn:E; [discriminate|].
    apply orb_false_elim in E. destruct E as [E1 E2]. apply N.ltb_ge in E2. cbn [s_rd]. unfold reads_ok. cbn [r_pos r_len r_fault].
    split; [exact E2|]. destruct (r_fault (s_rd st1)) as [k|]; [apply N.ltb_ge in E1; exact E1|exact I].
Qed.

Lemma script_full_noskip p fast W H : Forall noskip (script_full p fast W H).
Proof.
  unfold script_full. destruct (is_empty W H); [constructor|].
  destruct p; [destruct fast|..]; repeat constructor.
Qed.

(* the statement: whole-surface decode of a non-empty surface from a reader that cannot supply all its bytes *)
Theorem full_decode_short_or_faulty p fast W H limit rd : wf_pixel_info p -> 1 <= spec_len p W H ->
  (r_len rd < r_pos rd + spec_len p W H \/ exists k, r_fault rd = Some k /\ k < r_pos rd + spec_len p W H) ->
  s_out (decode_run p (RFull W H fast) limit rd) <> OOk.
Proof.
  intros Hp Hlen Hshort Hok.
  pose proof (consumes_exactly p (RFull W H fast) limit rd Hp Hok) as Hpos. cbn [rq_size fst snd] in Hpos.
  unfold decode_run, plan in *. destruct (likely_overflow p W H); [discriminate|].
  unfold run_script in *.
  destruct (run_ok_account _ _ Hok) as [_ [Hacc _]]. cbn [s_rd] in Hacc.
  destruct (run_noskip_within _ (script_full_noskip p fast W H) _ Hok) as [Hz|[Hin Hf]].
  - rewrite Hacc in Hpos. lia.
  - (* the reader's length and fault offset never change *)
    assert (Hinv : r_len (s_rd (fold_left step (script_full p fast W H) (mkRS OOk limit rd []))) = r_len rd /\
                   r_fault (s_rd (fold_left step (script_full p fast W H) (mkRS OOk limit rd []))) = r_fault rd).
    { clear - Hok. revert Hok. generalize (script_full p fast W H). intros s.
      assert (G : forall st, s_out (fold_left step s st) = OOk -> r_len (s_rd (fold_left step s st)) = r_len (s_rd st) /\ r_fault (s_rd (fold_left step s st)) = r_fault (s_rd st)).
      { induction s as [|e s IH]; intros st H0; cbn [fold_left] in *; [split; reflexivity|].
        destruct (IH _ H0) as [A B]. destruct (run_ok_account s _ H0) as [H1 _]. destruct (step_ok_account st e H1) as [_ [_ [_ [C D]]]]. split; congruence. }
      intros H0. exact (G _ H0). }
    destruct Hinv as [Il If]. rewrite Il in Hin. rewrite If in Hf. rewrite Hpos in *.
    destruct Hshort as [Hs|[k [Ek Hk]]]; [lia|]. rewrite Ek in Hf. lia.
Qed.

(* ---- every quantity a full-decode script names (allocation sizes, read lengths) is at most the surface's byte
   length, hence below 2^63 once check_likely_overflow has passed: no u64 arithmetic of the script can wrap *)
Definition eff_size (e : eff) : N := match e with EAlloc n | ESkip n | ERead n => n end.
Theorem full_script_sizes p fast W H : wf_pixel_info p -> likely_overflow p W H = false ->
  Forall (fun e => eff_size e <= spec_len p W H /\ spec_len p W H <= I64MAX) (script_full p fast W H).
Proof.
  intros Hp Hov. unfold likely_overflow in Hov. rewrite surface_bytes_spec in Hov.
  destruct (spec_len p W H <? U64) eqn:EU; [|discriminate]. apply N.ltb_ge in Hov.
  unfold script_full. destruct (is_empty W H) eqn:Ee; [constructor|].
  unfold is_empty in Ee. apply orb_false_elim in Ee. destruct Ee as [EW EH]. apply N.eqb_neq in EW, EH.
  destruct p as [enc|bpb bw bh|e1 e2 sx sy]; cbn [spec_len wf_pixel_info] in *.
  - pose proof (line_buffer_bounds (W * enc) H ltac:(nia) ltac:(lia)) as LB.
    destruct fast; repeat constructor; cbn [eff_size]; try lia; try nia.
  - destruct Hp as [Hb [Hw Hh]].
    assert (1 <= div_ceil W bw) by (apply div_ceil_pos; lia). assert (1 <= div_ceil H bh) by (apply div_ceil_pos; lia).
    pose proof (line_buffer_bounds (div_ceil W bw * bpb) (div_ceil H bh) ltac:(nia) ltac:(lia)) as LB.
    repeat constructor; cbn [eff_size]; try lia; try nia.
  - destruct Hp as [H1 [H2 [H3 [Hsx Hsy]]]].
    assert (1 <= div_ceil W sx) by (apply div_ceil_pos; lia). assert (1 <= div_ceil H sy) by (apply div_ceil_pos; lia).
    assert (LB : line_buffer_len (div_ceil W sx * e2) (div_ceil H sy) <= div_ceil W sx * e2 * div_ceil H sy).
    { destruct (N.eq_dec e2 0) as [->|Hne]; [unfold line_buffer_len; rewrite N.mul_0_r; cbn; lia|].
      pose proof (line_buffer_bounds (div_ceil W sx * e2) (div_ceil H sy) ltac:(nia) ltac:(lia)). lia. }
    repeat constructor; cbn [eff_size]; try lia; try nia.
Qed.
