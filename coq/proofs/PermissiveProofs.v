(* C18: permissive parsing repairs known writer bugs and never harms a consistent file. *)
From DDSV Require Import base.Machine model.Layout model.Formats model.HeaderTypes gen.GenFormats gen.GenHeader model.Header proofs.HeaderProofs.

(* ------------------------------------------------------------ strict success implies the same permissive parse *)
Lemma pf_strict_permissive p pf : pf_from_raw false p = HOk pf -> pf_from_raw true p = HOk pf.
Proof.
  unfold pf_from_raw. cbn [andb].
  destruct (N.eqb_spec (rp_size p) RAW_PF_SIZE) as [Es|Es]; cbn [negb andb]; [|discriminate].
  destruct (has (rp_flags p) PF_FOURCC) eqn:Ef.
  - rewrite !andb_false_r. rewrite Ef. auto.
  - destruct (valid_bits (rp_bits p)) eqn:Ev; [|discriminate].
    (* a valid bit count is not 0, so the missing-FourCC-flag leniency does not apply *)
    assert (Hb : (rp_bits p =? 0) = false).
    { unfold valid_bits in Ev. destruct (N.eqb_spec (rp_bits p) 0) as [E0|]; [rewrite E0 in Ev; discriminate|reflexivity]. }
    rewrite Hb. cbn [andb]. rewrite Ef. auto.
Qed.

Lemma nofix_strict_permissive r h : from_raw_nofix false r = HOk h -> from_raw_nofix true r = HOk h.
Proof.
  unfold from_raw_nofix. cbn [andb].
  destruct (N.eqb_spec (rh_size r) RAW_HEADER_SIZE) as [Esz|Esz]; cbn [negb andb]; [|discriminate].
  destruct (pf_from_raw false (rh_pf r)) as [pf|e] eqn:Ep; [|discriminate].
  rewrite (pf_strict_permissive _ _ Ep).
  destruct (rh_dx10 r) as [d|]; [|auto].
  destruct (dxgi_lookup (rd_format d)); [|auto].
  destruct (negb ((2 <=? rd_dim d) && (rd_dim d <=? 4))); [auto|].
  destruct (N.leb_spec (N.land (rd_misc2 d) 7) 4); cbn [negb andb]; [|discriminate].
  destruct ((rd_dim d =? 4) && negb (rd_array d =? 1)); cbn [negb andb]; [discriminate|auto].
Qed.

Theorem no_len_is_noop r h : from_raw false None r = HOk h -> from_raw true None r = HOk h.
Proof.
  unfold from_raw. destruct (from_raw_nofix false r) as [h0|e] eqn:E; [|discriminate].
  intros H. injection H as <-. rewrite (nofix_strict_permissive _ _ E). reflexivity.
Qed.

(* the data length the file leaves for the layout *)
Definition expected_len (h : header) (fl : N) : N := fl - (MAGIC_LEN + header_byte_len h).
Definition consistent (h : header) (fl : N) : Prop :=
  MAGIC_LEN + header_byte_len h <= fl /\
  match pixel_info_of_header h with
  | Some p => layout_len_of h p = Some (expected_len h fl)
  | None => True
  end.

Theorem consistent_file_unchanged r h fl : from_raw false None r = HOk h -> consistent h fl ->
  from_raw true (Some fl) r = HOk h.
Proof.
  unfold from_raw. destruct (from_raw_nofix false r) as [h0|e] eqn:E; [|discriminate].
  intros H. injection H as <-. rewrite (nofix_strict_permissive _ _ E). intros [Hfl Hc].
  f_equal. unfold fix_based_on_file_len.
  destruct (N.ltb_spec fl (MAGIC_LEN + header_byte_len h0)); [lia|].
  destruct (pixel_info_of_header h0) as [p|]; [|reflexivity].
  unfold test_len. fold (expected_len h0 fl). rewrite Hc, N.eqb_refl. reflexivity.
Qed.

(* ------------------------------------------------------------ what a repair can produce *)
Lemma fix_mips_cases test h : fix_mips test h = h \/ test (fix_mips test h) = true.
Proof.
  unfold fix_mips. destruct (find _ (guesses h)) as [g|] eqn:E; [|left; reflexivity].
  right. apply find_some in E. apply E.
Qed.

(* the result of fix_based_on_file_len is the header itself, or the header with array_size 0 -> 1, or a
   header whose layout length equals the file's data length exactly *)
Theorem repair_is_length_exact h fl :
  let h' := fix_based_on_file_len h (Some fl) in
  h' = h \/
  (h_array h = Some 0 /\ h' = set_array h 1) \/
  (exists p, pixel_info_of_header h = Some p /\ MAGIC_LEN + header_byte_len h <= fl /\
             layout_len_of h' p = Some (expected_len h fl)).
Proof.
  cbv zeta. unfold fix_based_on_file_len.
  destruct (N.ltb_spec fl (MAGIC_LEN + header_byte_len h)) as [|Hfl]; [left; reflexivity|].
  destruct (pixel_info_of_header h) as [p|] eqn:Ep; [|left; reflexivity].
  fold (expected_len h fl).
  assert (Ht : forall x, test_len p (expected_len h fl) x = true -> layout_len_of x p = Some (expected_len h fl)).
  { intros x. unfold test_len. destruct (layout_len_of x p) as [l|]; [|discriminate]. intros E. apply N.eqb_eq in E. congruence. }
  destruct (test_len p (expected_len h fl) h) eqn:T0; [left; reflexivity|].
  set (zero := (0 <? expected_len h fl) && match h_array h with Some 0 => true | _ => false end).
  set (h1 := if zero then set_array h 1 else h).
  assert (Hz : zero = true -> h_array h = Some 0) by (unfold zero; destruct (h_array h) as [[|?]|]; rewrite ?andb_false_r; try discriminate; reflexivity).
  destruct (zero && test_len p (expected_len h fl) h1) eqn:T1.
  - apply andb_prop in T1. destruct T1 as [Z T1]. right. right. exists p. repeat split; auto.
  - destruct (is_cube6 h1 && test_len p (expected_len h fl) (set_array h1 1)) eqn:T2.
    + apply andb_prop in T2. destruct T2 as [_ T2]. right. right. exists p. repeat split; auto.
    + destruct (fix_mips_cases (test_len p (expected_len h fl)) h1) as [E|E].
      * rewrite E. unfold h1. destruct zero eqn:Z; [right; left; split; [apply Hz; reflexivity|reflexivity]|left; reflexivity].
      * right. right. exists p. repeat split; auto.
Qed.

(* ------------------------------------------------------------ each known defect is repaired *)
Lemma set_array_get h k n : h_array h = Some k -> h_array (set_array h n) = Some n.
Proof. destruct h; [discriminate|reflexivity]. Qed.
Lemma set_array_back h k n : h_array h = Some k -> set_array (set_array h n) k = h.
Proof. destruct h; [discriminate|]. cbn. intros E. injection E as ->. reflexivity. Qed.
Lemma set_array_kind h n : pixel_info_of_header (set_array h n) = pixel_info_of_header h /\ header_byte_len (set_array h n) = header_byte_len h.
Proof. destruct h; split; reflexivity. Qed.
Lemma with_mips_kind h m : pixel_info_of_header (with_mips h m) = pixel_info_of_header h /\ header_byte_len (with_mips h m) = header_byte_len h /\
  h_array (with_mips h m) = h_array h /\ with_mips (with_mips h m) (h_mips h) = h /\
  h_width (with_mips h m) = h_width h /\ h_height (with_mips h m) = h_height h /\ h_depth (with_mips h m) = h_depth h /\ h_mips (with_mips h m) = m.
Proof. destruct h as [? ? ? ? ? [?|? ? ? ? ? ?]|]; repeat split; reflexivity. Qed.

Section Defects.
  Variables (h0 : header) (p : pixel_info) (fl : N).
  Hypothesis Hp : pixel_info_of_header h0 = Some p.
  Hypothesis Hfl : MAGIC_LEN + header_byte_len h0 <= fl.
  Hypothesis Hgood : layout_len_of h0 p = Some (expected_len h0 fl).

  Let E := expected_len h0 fl.

  (* a defect that keeps the pixel format and the header kind *)
  Definition same_kind (h : header) : Prop :=
    pixel_info_of_header h = Some p /\ header_byte_len h = header_byte_len h0.

  Lemma repaired_or_found h : same_kind h ->
    test_len p E h = false ->
    let zero := (0 <? E) && match h_array h with Some 0 => true | _ => false end in
    let h1 := if zero then set_array h 1 else h in
    (zero = true /\ test_len p E h1 = true) \/
    (is_cube6 h1 = true /\ test_len p E (set_array h1 1) = true) \/
    (exists g, In g (guesses h1) /\ test_len p E (with_mips h1 g) = true) ->
    layout_len_of (fix_based_on_file_len h (Some fl)) p = Some E.
  Proof.
    intros [Hpk Hbl] T0 zero h1 Hcases.
    assert (Ht : forall x, test_len p E x = true -> layout_len_of x p = Some E).
    { intros x. unfold test_len. destruct (layout_len_of x p) as [l|]; [|discriminate]. intros Eq. apply N.eqb_eq in Eq. congruence. }
    unfold fix_based_on_file_len. rewrite Hbl. destruct (N.ltb_spec fl (MAGIC_LEN + header_byte_len h0)); [lia|].
    rewrite Hpk. unfold expected_len in E. fold E. rewrite T0. fold zero. fold h1.
    destruct (zero && test_len p E h1) eqn:T1; [apply andb_prop in T1; apply Ht; tauto|].
    destruct (is_cube6 h1 && test_len p E (set_array h1 1)) eqn:T2; [apply andb_prop in T2; apply Ht; tauto|].
    destruct Hcases as [[Z T]|[[C T]|[g [Hg T]]]].
    - rewrite Z, T in T1. discriminate.
    - rewrite C, T in T2. discriminate.
    - apply Ht. unfold fix_mips. destruct (find _ (guesses h1)) as [g'|] eqn:Ef.
      + apply find_some in Ef. apply Ef.
      + exfalso. pose proof (find_none _ _ Ef g Hg) as N. cbv beta in N. congruence.
  Qed.

  (* array_size 0 written for a single element *)
  Theorem repairs_array_zero : h_array h0 = Some 1 -> 0 < E ->
    test_len p E (set_array h0 0) = false ->
    layout_len_of (fix_based_on_file_len (set_array h0 0) (Some fl)) p = Some E.
  Proof.
    intros Ha He T0. destruct (set_array_kind h0 0) as [K1 K2].
    apply repaired_or_found; [split; [rewrite K1; exact Hp|exact K2]|exact T0|].
    left. rewrite (set_array_get h0 1 0 Ha). replace (0 <? E) with true by (symmetry; apply N.ltb_lt; exact He). cbn [andb].
    split; [reflexivity|]. rewrite (set_array_back h0 1 0 Ha). unfold test_len. rewrite Hgood. apply N.eqb_refl.
  Qed.

  (* a single cube map written with array_size 6 *)
  Theorem repairs_cube_six : is_cube6 (set_array h0 6) = true -> h_array h0 = Some 1 ->
    test_len p E (set_array h0 6) = false ->
    layout_len_of (fix_based_on_file_len (set_array h0 6) (Some fl)) p = Some E.
  Proof.
    intros Hc Ha T0. destruct (set_array_kind h0 6) as [K1 K2].
    apply repaired_or_found; [split; [rewrite K1; exact Hp|exact K2]|exact T0|].
    rewrite (set_array_get h0 1 6 Ha). rewrite andb_false_r. right. left. split; [exact Hc|].
    rewrite (set_array_back h0 1 6 Ha). unfold test_len. rewrite Hgood. apply N.eqb_refl.
  Qed.

  (* a wrong mip count: off by one, dropped (declared 1), or a full chain declared *)
  Theorem repairs_mip_count m : test_len p E (with_mips h0 m) = false ->
    h_array h0 <> Some 0 ->
    In (h_mips h0) (guesses (with_mips h0 m)) ->
    layout_len_of (fix_based_on_file_len (with_mips h0 m) (Some fl)) p = Some E.
  Proof.
    intros T0 Harr Hin. destruct (with_mips_kind h0 m) as [K1 [K2 [K3 [K4 _]]]].
    apply repaired_or_found; [split; [rewrite K1; exact Hp|exact K2]|exact T0|].
    rewrite K3.
    assert (Hz : match h_array h0 with Some 0 => true | _ => false end = false) by (destruct (h_array h0) as [[|?]|]; try reflexivity; congruence).
    rewrite Hz, andb_false_r. right. right. exists (h_mips h0). split; [exact Hin|].
    rewrite K4. unfold test_len. rewrite Hgood. apply N.eqb_refl.
  Qed.
End Defects.

(* which original mip counts the four guesses reach *)
Lemma guesses_reach h0 m m0 : 1 <= m0 -> m < U32 - 1 ->
  (m0 = 1 \/ m0 = m - 1 \/ m0 = m + 1 \/
   m0 = max_mips (N.max (N.max (h_width h0) (h_height h0)) (match h_depth h0 with Some d => d | None => 1 end))) ->
  h_mips h0 = m0 -> In m0 (guesses (with_mips h0 m)).
Proof.
  intros H1 Hm Hc Hh. unfold guesses. destruct (with_mips_kind h0 m) as [_ [_ [_ [_ [-> [-> [-> ->]]]]]]].
  apply filter_In. split; [|apply negb_true_iff; apply N.eqb_neq; lia].
  replace (m + 1 <? U32) with true by (symmetry; apply N.ltb_lt; lia).
  cbn [In]. destruct Hc as [->|[->|[->| ->]]]; tauto.
Qed.


(* ------------------------------------------------------------ leniencies of from_raw in permissive mode *)
Definition set_size (r : raw_header) (s : N) : raw_header :=
  mkRaw s (rh_flags r) (rh_height r) (rh_width r) (rh_pitch r) (rh_depth r) (rh_mips r) (rh_res1 r) (rh_pf r)
        (rh_caps r) (rh_caps2 r) (rh_caps3 r) (rh_caps4 r) (rh_res2 r) (rh_dx10 r).
Definition set_pf (r : raw_header) (p : raw_pf) : raw_header :=
  mkRaw (rh_size r) (rh_flags r) (rh_height r) (rh_width r) (rh_pitch r) (rh_depth r) (rh_mips r) (rh_res1 r) p
        (rh_caps r) (rh_caps2 r) (rh_caps3 r) (rh_caps4 r) (rh_res2 r) (rh_dx10 r).
Definition set_dx10 (r : raw_header) (d : raw_dx10) : raw_header :=
  mkRaw (rh_size r) (rh_flags r) (rh_height r) (rh_width r) (rh_pitch r) (rh_depth r) (rh_mips r) (rh_res1 r) (rh_pf r)
        (rh_caps r) (rh_caps2 r) (rh_caps3 r) (rh_caps4 r) (rh_res2 r) (Some d).

(* header size 24 instead of 124 *)
Theorem lenient_header_size r h : from_raw_nofix false r = HOk h -> from_raw_nofix true (set_size r 24) = HOk h.
Proof.
  intros H. apply nofix_strict_permissive in H. revert H. unfold from_raw_nofix. cbn [set_size rh_size rh_flags rh_height rh_width rh_depth rh_mips rh_pf rh_caps rh_caps2 rh_dx10 andb].
  destruct (negb (rh_size r =? RAW_HEADER_SIZE) && negb (rh_size r =? 24)); [discriminate|].
  replace (negb (24 =? RAW_HEADER_SIZE) && negb (24 =? 24)) with false by reflexivity. auto.
Qed.
(* pixel format size 0 or 24 instead of 32 *)
Theorem lenient_pf_size r h s : s = 0 \/ s = 24 -> from_raw_nofix false r = HOk h ->
  from_raw_nofix true (set_pf r (mkRawPF s (rp_flags (rh_pf r)) (rp_fourcc (rh_pf r)) (rp_bits (rh_pf r)) (rp_r (rh_pf r)) (rp_g (rh_pf r)) (rp_b (rh_pf r)) (rp_a (rh_pf r)))) = HOk h.
Proof.
  intros Hs H. apply nofix_strict_permissive in H. revert H. unfold from_raw_nofix.
  cbn [set_pf rh_size rh_flags rh_height rh_width rh_depth rh_mips rh_pf rh_caps rh_caps2 rh_dx10].
  destruct (negb (rh_size r =? RAW_HEADER_SIZE) && negb (true && (rh_size r =? 24))); [auto|].
  assert (Hpf : forall pf, pf_from_raw true (rh_pf r) = HOk pf ->
     pf_from_raw true (mkRawPF s (rp_flags (rh_pf r)) (rp_fourcc (rh_pf r)) (rp_bits (rh_pf r)) (rp_r (rh_pf r)) (rp_g (rh_pf r)) (rp_b (rh_pf r)) (rp_a (rh_pf r))) = HOk pf).
  { intros pf. unfold pf_from_raw. cbn [rp_size rp_flags rp_fourcc rp_bits rp_r rp_g rp_b rp_a andb].
    destruct (negb (rp_size (rh_pf r) =? RAW_PF_SIZE) && negb ((rp_size (rh_pf r) =? 0) || (rp_size (rh_pf r) =? 24))); [discriminate|].
    replace (negb (s =? RAW_PF_SIZE) && negb ((s =? 0) || (s =? 24))) with false by (destruct Hs as [-> | ->]; reflexivity). auto. }
  destruct (pf_from_raw true (rh_pf r)) as [pf|e] eqn:Ep; [|discriminate]. rewrite (Hpf pf eq_refl). auto.
Qed.
(* invalid alpha mode: read as Unknown *)
Theorem lenient_alpha_mode r d h m2 : rh_dx10 r = Some d -> 4 < N.land m2 7 ->
  from_raw_nofix true (set_dx10 r (mkRawDx10 (rd_format d) (rd_dim d) (rd_misc d) (rd_array d) 0)) = HOk h ->
  from_raw_nofix true (set_dx10 r (mkRawDx10 (rd_format d) (rd_dim d) (rd_misc d) (rd_array d) m2)) = HOk h.
Proof.
  intros Hd Ha. unfold from_raw_nofix. cbn [set_dx10 rh_size rh_flags rh_height rh_width rh_depth rh_mips rh_pf rh_caps rh_caps2 rh_dx10 rd_format rd_dim rd_misc rd_array rd_misc2].
  destruct (negb (rh_size r =? RAW_HEADER_SIZE) && negb (true && (rh_size r =? 24))); [auto|].
  destruct (pf_from_raw true (rh_pf r)); [|auto]. destruct (dxgi_lookup (rd_format d)); [|auto].
  destruct (negb ((2 <=? rd_dim d) && (rd_dim d <=? 4))); [auto|].
  replace (N.land 0 7 <=? 4) with true by reflexivity. replace (N.land m2 7 <=? 4) with false by (symmetry; apply N.leb_gt; exact Ha).
  cbn [negb andb]. auto.
Qed.
(* Texture3D with array_size <> 1: read as 1 *)
Theorem lenient_array_3d r d h a : rh_dx10 r = Some d -> rd_dim d = 4 ->
  from_raw_nofix true (set_dx10 r (mkRawDx10 (rd_format d) 4 (rd_misc d) 1 (rd_misc2 d))) = HOk h ->
  from_raw_nofix true (set_dx10 r (mkRawDx10 (rd_format d) 4 (rd_misc d) a (rd_misc2 d))) = HOk h.
Proof.
  intros Hd Hdim. unfold from_raw_nofix. cbn [set_dx10 rh_size rh_flags rh_height rh_width rh_depth rh_mips rh_pf rh_caps rh_caps2 rh_dx10 rd_format rd_dim rd_misc rd_array rd_misc2].
  destruct (negb (rh_size r =? RAW_HEADER_SIZE) && negb (true && (rh_size r =? 24))); [auto|].
  destruct (pf_from_raw true (rh_pf r)); [|auto]. destruct (dxgi_lookup (rd_format d)); [|auto].
  cbn [N.eqb N.leb negb andb]. replace ((2 <=? 4) && (4 <=? 4)) with true by reflexivity. cbn [negb].
  destruct (negb (N.land (rd_misc2 d) 7 <=? 4) && false); [auto|].
  replace (4 =? 4) with true by reflexivity. replace (1 =? 1) with true by reflexivity. cbn [andb negb].
  destruct (N.eqb_spec a 1) as [->|Hne]; cbn [negb andb]; auto.
Qed.
(* missing FourCC flag (bit count 0, FourCC given): the flag is restored *)
Theorem lenient_fourcc_flag cc flags : cc <> 0 -> has flags PF_FOURCC = false ->
  pf_from_raw true (mkRawPF RAW_PF_SIZE flags cc 0 0 0 0 0) = HOk (PFFourCC cc).
Proof.
  intros Hcc Hf. unfold pf_from_raw. cbn [rp_size rp_flags rp_fourcc rp_bits rp_r rp_g rp_b rp_a].
  replace (RAW_PF_SIZE =? RAW_PF_SIZE) with true by reflexivity. replace (0 =? 0) with true by reflexivity.
  replace (cc =? 0) with false by (symmetry; apply N.eqb_neq; exact Hcc). rewrite Hf. cbn [negb andb].
  assert (H : has (N.lor flags PF_FOURCC) PF_FOURCC = true) by (rewrite N.lor_comm; apply has_lor_l; reflexivity).
  rewrite H. reflexivity.
Qed.
