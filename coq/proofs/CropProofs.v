(* C05: laws of cropping, channel mapping and buffer placement; locality of block decoding. *)
From Coq Require Import ZArith List Bool Lia.
From DDSV Require Import base.Machine model.Layout model.DecodeScript model.Crop.
Import ListNotations.
Local Open Scope Z_scope.

(* ---- channel mapping: every conversion is the conversion through RGBA; identity is the identity *)
Definition valid_ch (c : Z) : Prop := c = 0 \/ c = 1 \/ c = 2 \/ c = 3.
Theorem chmap_via_rgba one zero from to p : valid_ch from -> valid_ch to -> length p = chcount from ->
  chmap one zero from to p = from_rgba zero to (to_rgba one zero from p).
Proof.
  intros Hf Ht Hl.
  destruct Hf as [ -> | [ -> | [ -> | -> ] ] ]; destruct Ht as [ -> | [ -> | [ -> | -> ] ] ]; cbn in Hl;
    repeat (destruct p as [|? p]; cbn in Hl; try lia); reflexivity.
Qed.
Theorem chmap_id one zero c p : chmap one zero c c p = p.
Proof. unfold chmap. rewrite Z.eqb_refl. reflexivity. Qed.
Theorem chmap_length one zero from to p : valid_ch from -> valid_ch to -> length p = chcount from -> length (chmap one zero from to p) = chcount to.
Proof.
  intros Hf Ht Hl. destruct Hf as [ -> | [ -> | [ -> | -> ] ] ]; destruct Ht as [ -> | [ -> | [ -> | -> ] ] ]; cbn in *; try exact Hl; reflexivity.
Qed.

(* ---- cropping *)
Lemma nth_firstn' {A} (l : list A) : forall n i d, (i < n)%nat -> nth i (firstn n l) d = nth i l d.
Proof. induction l as [|a l IH]; intros n i d H; [rewrite firstn_nil; reflexivity|]. destruct n; [lia|]. destruct i; cbn; [reflexivity|]. apply IH. lia. Qed.
Lemma nth_skipn' {A} (l : list A) : forall n i d, nth i (skipn n l) d = nth (n + i) l d.
Proof. induction l as [|a l IH]; intros n i d; [rewrite skipn_nil; destruct i, n; reflexivity|]. destruct n; [reflexivity|]. cbn. apply IH. Qed.
Lemma nth_slice {A} (l : list A) s n i d : (i < n)%nat -> nth i (slice s n l) d = nth (s + i) l d.
Proof.
  intros Hi. unfold slice. destruct (Nat.lt_ge_cases (s + i) (length l)) as [Hl|Hl].
  - rewrite nth_firstn' by exact Hi. rewrite nth_skipn'. reflexivity.
  - rewrite (nth_overflow l) by exact Hl. apply nth_overflow. rewrite firstn_length, skipn_length. lia.
Qed.
Theorem crop_pixel img x y w h i j : (i < w)%nat -> (j < h)%nat -> (y + j < length img)%nat ->
  px_at (crop x y w h img) i j = px_at img (x + i) (y + j).
Proof.
  intros Hi Hj Hl. unfold px_at, crop.
  assert (Es : slice x w (@nil pixel) = []) by (unfold slice; rewrite skipn_nil, firstn_nil; reflexivity).
  rewrite <- Es at 1. rewrite (map_nth (slice x w)).
  rewrite (nth_slice (nth j (slice y h img) []) x w i) by exact Hi. rewrite (nth_slice img y h j) by exact Hj. reflexivity.
Qed.
Lemma skipn_skipn' {A} (l : list A) : forall a b, skipn a (skipn b l) = skipn (b + a) l.
Proof. induction l as [|x l IH]; intros a b; [rewrite !skipn_nil; reflexivity|]. destruct b; [reflexivity|]. cbn [skipn Nat.add]. apply IH. Qed.
Lemma slice_map {A B} (f : A -> B) l s n : slice s n (map f l) = map f (slice s n l).
Proof. unfold slice. rewrite skipn_map, firstn_map. reflexivity. Qed.
Lemma slice_slice {A} (l : list A) s1 n1 s2 n2 : (s2 + n2 <= n1)%nat -> slice s2 n2 (slice s1 n1 l) = slice (s1 + s2) n2 l.
Proof.
  intros H. unfold slice. rewrite skipn_firstn_comm, firstn_firstn. replace (Nat.min n2 (n1 - s2)) with n2 by lia.
  rewrite skipn_skipn'. reflexivity.
Qed.
Theorem crop_crop img x1 y1 w1 h1 x2 y2 w2 h2 : (x2 + w2 <= w1)%nat -> (y2 + h2 <= h1)%nat ->
  crop x2 y2 w2 h2 (crop x1 y1 w1 h1 img) = crop (x1 + x2) (y1 + y2) w2 h2 img.
Proof.
  intros Hx Hy. unfold crop.
  assert (E : slice y2 h2 (map (slice x1 w1) (slice y1 h1 img)) = map (slice x1 w1) (slice y2 h2 (slice y1 h1 img))).
  { apply slice_map. }
  rewrite E, map_map, slice_slice by exact Hy. apply map_ext. intros r. apply slice_slice. exact Hx.
Qed.
(* a per-pixel function (channel mapping, precision-wise conversion) commutes with cropping *)
Theorem crop_map_px f img x y w h : crop x y w h (map_px f img) = map_px f (crop x y w h img).
Proof.
  unfold crop, map_px. rewrite slice_map, !map_map. apply map_ext. intros r. apply slice_map.
Qed.

(* ---- buffer placement *)
Lemma overwrite_length buf at_ data : (at_ + length data <= length buf)%nat -> length (overwrite buf at_ data) = length buf.
Proof.
  revert buf. induction at_ as [|k IH]; intros buf H; cbn [overwrite].
  - rewrite app_length, skipn_length. lia.
  - destruct buf as [|b buf]; cbn [length] in *; [lia|]. rewrite IH by lia. reflexivity.
Qed.
Lemma overwrite_nth buf at_ data i d : (at_ + length data <= length buf)%nat ->
  nth i (overwrite buf at_ data) d = if ((at_ <=? i) && (i <? at_ + length data))%nat then nth (i - at_) data d else nth i buf d.
Proof.
  revert buf i. induction at_ as [|k IH]; intros buf i H; cbn [overwrite].
  - cbn [Nat.leb andb Nat.add]. rewrite Nat.sub_0_r. destruct (Nat.ltb_spec i (length data)) as [L|L].
    + apply app_nth1. exact L.
    + rewrite app_nth2 by exact L. rewrite nth_skipn'. f_equal. lia.
  - destruct buf as [|b buf]; cbn [length] in H; [lia|]. destruct i as [|i]; [reflexivity|]. cbn [nth].
    rewrite IH by lia. cbn [Nat.leb Nat.add Nat.sub]. destruct (k <=? i)%nat; cbn [andb]; [|reflexivity].
    change (S i <? S (k + length data))%nat with (i <? k + length data)%nat. reflexivity.
Qed.
(* a byte that no addressed row covers keeps its previous value; the buffer keeps its length *)
Definition covered (offset pitch rowlen nrows i : nat) : Prop := exists r, (r < nrows)%nat /\ (offset + r * pitch <= i < offset + r * pitch + rowlen)%nat.
Theorem blit_outside rows : forall buf offset pitch rowlen i d,
  (forall r, In r rows -> length (row_bytes r) = rowlen) -> (rowlen <= pitch \/ length rows <= 1)%nat ->
  (offset + (length rows - 1) * pitch + rowlen <= length buf \/ rows = [])%nat ->
  ~ covered offset pitch rowlen (length rows) i -> nth i (blit buf offset pitch rows) d = nth i buf d.
Proof.
  induction rows as [|r rs IH]; intros buf offset pitch rowlen i d Hlen Hp Hfit Hnc; cbn [blit]; [reflexivity|].
  assert (Hr : length (row_bytes r) = rowlen) by (apply Hlen; left; reflexivity).
  assert (Hfit0 : (offset + rowlen <= length buf)%nat).
  { destruct Hfit as [Hfit|Hfit]; [|discriminate]. cbn [length] in Hfit. nia. }
  destruct rs as [|r2 rs'].
  - cbn [blit]. rewrite overwrite_nth by lia. rewrite Hr.
    destruct ((offset <=? i) && (i <? offset + rowlen))%nat eqn:E; [|reflexivity].
    exfalso. apply Hnc. exists 0%nat. apply andb_prop in E. destruct E as [E1 E2]. apply Nat.leb_le in E1. apply Nat.ltb_lt in E2. cbn [length]. lia.
  - assert (Hpp : (rowlen <= pitch)%nat) by (destruct Hp as [Hp|Hp]; [exact Hp|cbn [length] in Hp; lia]).
    rewrite (IH _ _ _ rowlen).
    + rewrite overwrite_nth by lia. rewrite Hr.
      destruct ((offset <=? i) && (i <? offset + rowlen))%nat eqn:E; [|reflexivity].
      exfalso. apply Hnc. exists 0%nat. apply andb_prop in E. destruct E as [E1 E2]. apply Nat.leb_le in E1. apply Nat.ltb_lt in E2. cbn [length]. lia.
    + intros r' Hr'. apply Hlen. right. exact Hr'.
    + left. exact Hpp.
    + left. rewrite overwrite_length by lia. destruct Hfit as [Hfit|Hfit]; [|discriminate]. cbn [length] in *. nia.
    + intros [q [Hq1 Hq2]]. apply Hnc. exists (S q). cbn [length] in *. split; [lia|nia].
Qed.
(* the addressed bytes do not depend on what the buffer held before (two buffers of the same length) *)
Theorem blit_covered rows : forall buf1 buf2 offset pitch rowlen i d,
  (forall r, In r rows -> length (row_bytes r) = rowlen) -> (rowlen <= pitch \/ length rows <= 1)%nat -> length buf1 = length buf2 ->
  (offset + (length rows - 1) * pitch + rowlen <= length buf1 \/ rows = [])%nat ->
  covered offset pitch rowlen (length rows) i -> nth i (blit buf1 offset pitch rows) d = nth i (blit buf2 offset pitch rows) d.
Proof.
  induction rows as [|r rs IH]; intros buf1 buf2 offset pitch rowlen i d Hlen Hp Hl Hfit Hc; cbn [blit].
  - destruct Hc as [q [Hq _]]. cbn [length] in Hq. lia.
  - assert (Hr : length (row_bytes r) = rowlen) by (apply Hlen; left; reflexivity).
    assert (Hfit0 : (offset + rowlen <= length buf1)%nat).
    { destruct Hfit as [Hfit|Hfit]; [|discriminate]. cbn [length] in Hfit. nia. }
    destruct rs as [|r2 rs'].
    + cbn [blit]. rewrite !overwrite_nth by lia. rewrite Hr. destruct Hc as [q [Hq1 Hq2]]. cbn [length] in Hq1. assert (q = 0)%nat by lia. subst q.
      replace ((offset <=? i) && (i <? offset + rowlen))%nat with true; [reflexivity|]. symmetry. apply andb_true_intro. split; [apply Nat.leb_le|apply Nat.ltb_lt]; lia.
    + assert (Hpp : (rowlen <= pitch)%nat) by (destruct Hp as [Hp|Hp]; [exact Hp|cbn [length] in Hp; lia]).
      assert (Hlen' : forall r', In r' (r2 :: rs') -> length (row_bytes r') = rowlen) by (intros r' Hr'; apply Hlen; right; exact Hr').
      assert (Hfit' : (offset + pitch + (length (r2 :: rs') - 1) * pitch + rowlen <= length buf1)%nat).
      { destruct Hfit as [Hfit|Hfit]; [|discriminate]. cbn [length] in *. nia. }
      destruct Hc as [q [Hq1 Hq2]]. destruct q as [|q].
      * (* row 0: later rows do not touch it *)
        rewrite !(blit_outside (r2 :: rs') _ _ _ rowlen) by
          (try exact Hlen'; try (left; exact Hpp); try (left; rewrite overwrite_length by lia; lia);
           intros [q' [Hq'1 Hq'2]]; nia).
        rewrite !overwrite_nth by lia. rewrite Hr.
        replace ((offset <=? i) && (i <? offset + rowlen))%nat with true; [reflexivity|]. symmetry. apply andb_true_intro. split; [apply Nat.leb_le|apply Nat.ltb_lt]; lia.
      * apply (IH _ _ _ _ rowlen); try assumption.
        -- left. exact Hpp.
        -- rewrite !overwrite_length by lia. exact Hl.
        -- left. rewrite overwrite_length by lia. exact Hfit'.
        -- exists q. cbn [length] in *. split; [lia|nia].
Qed.

(* ---- block formats: a pixel depends only on the bytes of the block that contains it *)
Theorem block_pixel_local bw bh dec bpb w h d1 d2 x y : (x < w)%nat -> (y < h)%nat ->
  let bi := ((y / bh) * ((w + bw - 1) / bw) + x / bw)%nat in
  slice (bi * bpb) bpb d1 = slice (bi * bpb) bpb d2 ->
  px_at (block_image bw bh dec bpb w h d1) x y = px_at (block_image bw bh dec bpb w h d2) x y.
Proof.
  intros Hx Hy bi E. unfold px_at, block_image.
  assert (N : forall (f : nat -> list pixel), nth y (map f (seq 0 h)) [] = f y).
  { intros f. rewrite (nth_indep _ [] (f 0%nat)) by (rewrite map_length, seq_length; exact Hy). rewrite map_nth, seq_nth by exact Hy. reflexivity. }
  rewrite !N.
  assert (M : forall (f : nat -> pixel), nth x (map f (seq 0 w)) [] = f x).
  { intros f. rewrite (nth_indep _ [] (f 0%nat)) by (rewrite map_length, seq_length; exact Hx). rewrite map_nth, seq_nth by exact Hx. reflexivity. }
  rewrite !M. fold bi. rewrite E. reflexivity.
Qed.

(* ---- the bytes a rect decode reads (the effect script of C06, model/DecodeScript.v) are those of the blocks that
   hold the rectangle: block rows  oy / bh .. div_ceil (oy + h) bh - 1  contain every pixel row of the rectangle, and
   each of them contains at least one *)
Local Open Scope N_scope.
Definition dceil (a b : N) : N := (a + b - 1) / b.
Theorem rect_block_rows_cover oy h bh y : 1 <= bh -> 1 <= h -> oy <= y < oy + h ->
  oy / bh <= y / bh < dceil (oy + h) bh.
Proof.
  intros Hb Hh Hy. unfold dceil. split; [apply N.div_le_mono; lia|].
  apply N.div_lt_upper_bound; [lia|].
  pose proof (N.div_mod (oy + h + bh - 1) bh ltac:(lia)) as E. pose proof (N.mod_lt (oy + h + bh - 1) bh ltac:(lia)) as R.
  set (q := (oy + h + bh - 1) / bh) in *. set (r := (oy + h + bh - 1) mod bh) in *. nia.
Qed.
Theorem rect_block_rows_minimal oy h bh k : 1 <= bh -> 1 <= h -> oy / bh <= k < dceil (oy + h) bh ->
  exists y, oy <= y < oy + h /\ y / bh = k.
Proof.
  intros Hb Hh [Hk1 Hk2]. unfold dceil in Hk2.
  (* the first row of block row k that is at or after oy *)
  exists (N.max oy (k * bh)).
  pose proof (N.div_mod oy bh ltac:(lia)) as E0. pose proof (N.mod_lt oy bh ltac:(lia)) as R0.
  pose proof (N.div_mod (oy + h + bh - 1) bh ltac:(lia)) as E1. pose proof (N.mod_lt (oy + h + bh - 1) bh ltac:(lia)) as R1.
  set (q0 := oy / bh) in *. set (r0 := oy mod bh) in *. set (q1 := (oy + h + bh - 1) / bh) in *. set (r1 := (oy + h + bh - 1) mod bh) in *.
  split.
  - split; [lia|]. destruct (N.max_spec oy (k * bh)) as [[_ ->]|[_ ->]]; [nia|lia].
  - destruct (N.max_spec oy (k * bh)) as [[Hlt ->]|[Hge ->]].
    + rewrite N.div_mul by lia. reflexivity.
    + (* oy >= k * bh and q0 <= k: so q0 = k *)
      assert (q0 = k) by nia. subst k. reflexivity.
Qed.
Local Close Scope N_scope.

(* the rect script of a block format (C06's model of for_each_block_rect_untyped) reads exactly those block rows *)
Theorem block_rect_script_rows bpb bw bh W H ox oy w h :
  script_rect (Block bpb bw bh) W H ox oy w h =
  let bpl := (div_ceil W bw * bpb)%N in let before := (oy / bh)%N in let to_read := (div_ceil (h + oy) bh - before)%N in
  [EAlloc (line_buffer_len bpl to_read); ESkip (bpl * before); ERead (bpl * to_read); ESkip (bpl * (div_ceil H bh - before - to_read))].
Proof. reflexivity. Qed.
