(* C04 / C12: the float model's rounding is the integer-level round-to-nearest-even of proofs/RoundInt.v, hence
   monotone; consequences for the quantisers x -> (x * max + 0.5) as integer. *)
From Coq Require Import ZArith List Bool Lia.
From DDSV Require Import model.Float model.Convert model.Encode proofs.RoundInt.
Import ListNotations.
Local Open Scope Z_scope.

Definition B : Z := 300.
Definition UMIN : Z := 151.                      (* emin + B for binary32 *)
(* value of a non-negative float in units of 2^-B *)
Definition fv (x : fl) : Z := match x with Ffin false m e => Zpos m * 2 ^ (e + B) | _ => 0 end.
Definition rnd32 (v : Z) : Z := rnd 24 UMIN v.

(* non-negative floats: zero, or a finite positive value with a 24-bit significand and exponent in [-149, K] *)
Definition nwf (K : Z) (x : fl) : Prop :=
  match x with Fz _ => True | Ffin false m e => -149 <= e <= K /\ Zpos m < 2 ^ 24 | _ => False end.
Lemma nwf_weaken K K' x : K <= K' -> nwf K x -> nwf K' x.
Proof. intros H. destruct x as [| | |[] m e]; cbn [nwf]; try tauto. intros [A C]. split; lia. Qed.

Lemma log2_scaled M k : 0 < M -> 0 <= k -> Z.log2 (M * 2 ^ k) = Z.log2 M + k.
Proof. intros HM Hk. rewrite <- Z.shiftl_mul_pow2 by lia. rewrite Z.log2_shiftl by lia. reflexivity. Qed.

Lemma round_me_rnd_wf M E : 0 < M -> - B <= E -> Z.log2 M + E < 127 ->
  fv (round_me 24 (-149) 104 false M E) = rnd32 (M * 2 ^ (E + B)) /\
  nwf (Z.max (-148) (Z.log2 M + E - 22)) (round_me 24 (-149) 104 false M E).
Proof.
  intros HM HE Hov. unfold round_me, round_sticky. replace (M <=? 0) with false by (symmetry; apply Z.leb_gt; lia).
  set (bits := Z.log2 M + 1). set (shift := Z.max (bits - 24) (-149 - E)).
  assert (Hk : 0 <= E + B) by (unfold B in *; lia).
  pose proof (pow2_pos (E + B) Hk) as HpK.
  assert (Hlog : Z.log2 (M * 2 ^ (E + B)) = Z.log2 M + (E + B)) by (apply log2_scaled; lia).
  assert (Hu : uexp 24 UMIN (M * 2 ^ (E + B)) = shift + (E + B)).
  { unfold uexp. rewrite Hlog. unfold shift, bits, UMIN, B. lia. }
  unfold rnd32, rnd. rewrite Hu.
  destruct (Z.leb_spec shift 0) as [Hs|Hs].
  - (* exactly representable *)
    set (l := Z.min (24 - bits) (E - -149)).
    assert (Hl : 0 <= l) by (unfold l, shift in *; lia).
    assert (He' : E - l <= 104) by (unfold l, bits in *; lia).
    replace (104 <? E - l) with false by (symmetry; apply Z.ltb_ge; lia).
    rewrite Z.shiftl_mul_pow2 by lia. pose proof (pow2_pos l Hl).
    assert (Hml : M * 2 ^ l < 2 ^ 24).
    { destruct (Z.log2_spec M HM) as [_ Hlt]. pose proof (Z.log2_nonneg M).
      assert (2 ^ Z.succ (Z.log2 M) * 2 ^ l <= 2 ^ 24) by (rewrite <- Z.pow_add_r by lia; apply Z.pow_le_mono_r; unfold l, bits; lia). nia. }
    split; [|cbn [nwf]; rewrite Z2Pos.id by nia; split; [unfold l, shift, bits in *; lia|exact Hml]].
    cbn [fv]. rewrite Z2Pos.id by nia.
    assert (Eval : M * 2 ^ l * 2 ^ (E - l + B) = M * 2 ^ (E + B)).
    { rewrite <- Z.mul_assoc, <- Z.pow_add_r by (unfold l, B in *; lia). f_equal. f_equal. lia. }
    rewrite Eval.
    destruct (Z.leb_spec (shift + (E + B)) 0) as [Hu0|Hu0]; [unfold rne; replace (shift + (E + B) <=? 0) with true by (symmetry; apply Z.leb_le; lia); reflexivity|].
    assert (Esplit : M * 2 ^ (E + B) = (M * 2 ^ (- shift)) * 2 ^ (shift + (E + B))).
    { rewrite <- Z.mul_assoc, <- Z.pow_add_r by lia. f_equal. f_equal. lia. }
    rewrite Esplit at 2. rewrite rne_exact by (pose proof (pow2_pos (- shift) ltac:(lia)); nia). lia.
  - (* rounding *)
    assert (Hu0 : 0 < shift + (E + B)) by lia.
    pose proof (pow2_pos shift ltac:(lia)) as HpS. pose proof (pow2_pos (shift - 1) ltac:(lia)) as HpH.
    rewrite Z.shiftr_div_pow2 by lia. set (q := M / 2 ^ shift).
    rewrite (Z.shiftl_mul_pow2 q shift) by lia. rewrite (Z.shiftl_mul_pow2 1 (shift - 1)) by lia. rewrite Z.mul_1_l.
    assert (Hq0 : 0 <= q) by (apply Z.div_pos; lia).
    pose proof (Z.div_mod M (2 ^ shift) ltac:(lia)) as EM. fold q in EM.
    assert (Er : M - q * 2 ^ shift = M mod 2 ^ shift) by lia. rewrite Er. set (r := M mod 2 ^ shift).
    (* the same decision on the scaled value *)
    unfold rne. replace (shift + (E + B) <=? 0) with false by (symmetry; apply Z.leb_gt; lia).
    assert (Epow : 2 ^ (shift + (E + B)) = 2 ^ shift * 2 ^ (E + B)) by (apply Z.pow_add_r; lia).
    assert (Ediv : M * 2 ^ (E + B) / 2 ^ (shift + (E + B)) = q).
    { rewrite Epow. rewrite Z.div_mul_cancel_r by lia. reflexivity. }
    assert (Emod : (M * 2 ^ (E + B)) mod 2 ^ (shift + (E + B)) = r * 2 ^ (E + B)).
    { rewrite Epow. rewrite Z.mul_mod_distr_r by lia. reflexivity. }
    assert (Ehalf : 2 ^ (shift + (E + B) - 1) = 2 ^ (shift - 1) * 2 ^ (E + B)).
    { rewrite <- Z.pow_add_r by lia. f_equal. lia. }
    rewrite Ediv, Emod, Ehalf.
    assert (Elt : (2 ^ (shift - 1) * 2 ^ (E + B) <? r * 2 ^ (E + B)) = (2 ^ (shift - 1) <? r)).
    { destruct (Z.ltb_spec (2 ^ (shift - 1)) r); [apply Z.ltb_lt|apply Z.ltb_ge]; nia. }
    assert (Eeq : (r * 2 ^ (E + B) =? 2 ^ (shift - 1) * 2 ^ (E + B)) = (r =? 2 ^ (shift - 1))).
    { destruct (Z.eqb_spec r (2 ^ (shift - 1))) as [->|Hne]; [apply Z.eqb_refl|apply Z.eqb_neq; nia]. }
    rewrite Elt, Eeq. change (false || Z.odd q) with (Z.odd q).
    set (up := (2 ^ (shift - 1) <? r) || ((r =? 2 ^ (shift - 1)) && Z.odd q)).
    set (q' := if up then q + 1 else q).
    assert (Hq' : 0 <= q') by (unfold q'; destruct up; lia).
    destruct (Z.eqb_spec q' 0) as [E0|N0]; [split; [cbn [fv]; rewrite E0; lia|exact I]|].
    replace (Z.shiftl 1 24) with 16777216 by reflexivity. replace (Z.shiftl 1 (24 - 1)) with 8388608 by reflexivity.
    assert (Hqb : q < 16777216).
    { unfold q. apply Z.div_lt_upper_bound; [lia|]. destruct (Z.log2_spec M HM) as [_ Hlt].
      assert (2 ^ Z.succ (Z.log2 M) <= 2 ^ shift * 16777216).
      { change 16777216 with (2 ^ 24). rewrite <- Z.pow_add_r by lia. apply Z.pow_le_mono_r; [lia|]. unfold shift, bits. lia. }
      lia. }
    assert (Hq'b : q' <= 16777216) by (unfold q'; destruct up; lia).
    destruct (Z.eqb_spec q' 16777216) as [E24|N24].
    + assert (He2 : E + shift + 1 <= 104) by (unfold shift, bits in *; lia).
      replace (104 <? E + shift + 1) with false by (symmetry; apply Z.ltb_ge; lia).
      split; [|cbn [nwf]; split; [unfold shift, bits in *; lia|reflexivity]].
      cbn [fv]. change (Z.pos (Z.to_pos 8388608)) with 8388608. rewrite E24.
      replace (E + shift + 1 + B) with (1 + (shift + (E + B))) by lia. rewrite Z.pow_add_r by lia. lia.
    + assert (He2 : E + shift <= 104) by (unfold shift, bits in *; lia).
      replace (104 <? E + shift) with false by (symmetry; apply Z.ltb_ge; lia).
      split; [|cbn [nwf]; rewrite Z2Pos.id by lia; split; [unfold shift, bits in *; lia|change (2 ^ 24) with 16777216; lia]].
      cbn [fv]. rewrite Z2Pos.id by lia. f_equal. f_equal. lia.
Qed.
Lemma round_me_rnd M E : 0 < M -> - B <= E -> Z.log2 M + E < 127 ->
  fv (round_me 24 (-149) 104 false M E) = rnd32 (M * 2 ^ (E + B)).
Proof. intros. apply round_me_rnd_wf; assumption. Qed.

(* ---- non-negative well-formed floats and the operations the quantisers use *)
Lemma rnd32_0 : rnd32 0 = 0.
Proof. vm_compute. reflexivity. Qed.
Lemma fv_nonneg x : 0 <= fv x.
Proof. destruct x as [| | |[] m e]; cbn [fv]; try lia; pose proof (Z.pow_nonneg 2 (e + B) ltac:(lia)); nia. Qed.

(* multiplication by a positive constant c = n * 2^f: value and shape *)
Lemma fmul_const x n f : nwf 16 x -> -151 <= f <= 0 -> Zpos n < 2 ^ 24 ->
  fv (f32_mul x (Ffin false n f)) = rnd32 (fv x * (Zpos n * 2 ^ (f + B)) / 2 ^ B) /\ nwf 41 (f32_mul x (Ffin false n f)).
Proof.
  intros Hx Hf Hn. destruct x as [s| | |[] m e]; try contradiction.
  - cbn [f32_mul fmul fv nwf]. rewrite Z.mul_0_l, Z.div_0_l by (apply Z.pow_nonzero; unfold B; lia). rewrite rnd32_0. split; [reflexivity|exact I].
  - destruct Hx as [He Hm]. unfold f32_mul, fmul. cbn [xorb].
    assert (Hl : Z.log2 (Z.pos m * Z.pos n) < 48).
    { apply Z.log2_lt_pow2; [lia|]. change (2 ^ 48) with (2 ^ 24 * 2 ^ 24). nia. }
    pose proof (Z.log2_nonneg (Z.pos m * Z.pos n)).
    destruct (round_me_rnd_wf (Z.pos m * Z.pos n) (e + f) ltac:(lia) ltac:(unfold B; lia) ltac:(lia)) as [R W].
    split; [|eapply nwf_weaken; [|exact W]; lia].
    rewrite R. f_equal. cbn [fv].
    assert (E1 : 2 ^ (e + f + B) * 2 ^ B = 2 ^ (e + B) * 2 ^ (f + B)) by (rewrite <- !Z.pow_add_r by (unfold B; lia); f_equal; lia).
    pose proof (pow2_pos B ltac:(unfold B; lia)) as HB.
    apply Z.div_unique_exact; [apply Z.pow_nonzero; unfold B; lia|].
    replace (Z.pos m * 2 ^ (e + B) * (Z.pos n * 2 ^ (f + B))) with (Z.pos m * Z.pos n * (2 ^ (e + B) * 2 ^ (f + B))) by ring.
    rewrite <- E1. ring.
Qed.
(* addition of a positive constant *)
Lemma fadd_const y n f : nwf 41 y -> -149 <= f <= 0 -> Zpos n < 2 ^ 24 ->
  fv (f32_add y (Ffin false n f)) = rnd32 (fv y + Zpos n * 2 ^ (f + B)) /\ nwf 45 (f32_add y (Ffin false n f)).
Proof.
  intros Hy Hf Hn. destruct y as [s| | |[] m e]; try contradiction.
  - (* 0 + c = c, and c is representable *)
    cbn [f32_add fadd fv]. rewrite Z.add_0_l. split; [|cbn [nwf]; split; lia].
    assert (Hl : Z.log2 (Z.pos n) < 24) by (apply Z.log2_lt_pow2; lia). pose proof (Z.log2_nonneg (Z.pos n)).
    rewrite <- (round_me_rnd (Zpos n) f ltac:(lia) ltac:(unfold B; lia) ltac:(lia)).
    unfold round_me, round_sticky. replace (Z.pos n <=? 0) with false by reflexivity.
    set (bits := Z.log2 (Z.pos n) + 1).
    replace (Z.max (bits - 24) (-149 - f) <=? 0) with true by (symmetry; apply Z.leb_le; unfold bits; lia).
    set (l := Z.min (24 - bits) (f - -149)). assert (0 <= l) by (unfold l, bits; lia).
    replace (104 <? f - l) with false by (symmetry; apply Z.ltb_ge; lia).
    cbn [fv]. rewrite Z.shiftl_mul_pow2 by lia. pose proof (pow2_pos l ltac:(lia)). rewrite Z2Pos.id by nia.
    rewrite <- Z.mul_assoc, <- Z.pow_add_r by (unfold B; lia). f_equal. f_equal. lia.
  - destruct Hy as [He Hm]. unfold f32_add, fadd. cbn [signed].
    set (e0 := Z.min e f).
    rewrite !Z.shiftl_mul_pow2 by (unfold e0; lia).
    pose proof (pow2_pos (e - e0) ltac:(unfold e0; lia)). pose proof (pow2_pos (f - e0) ltac:(unfold e0; lia)).
    set (v := Z.pos m * 2 ^ (e - e0) + Z.pos n * 2 ^ (f - e0)).
    assert (Hv : 0 < v) by (unfold v; nia).
    replace (v =? 0) with false by (symmetry; apply Z.eqb_neq; lia).
    replace (v <? 0) with false by (symmetry; apply Z.ltb_ge; lia). rewrite Z.abs_eq by lia.
    assert (Hl : Z.log2 v + e0 < 67).
    { assert (Hs : v * 2 ^ (e0 + 149) < 2 ^ 216).
      { unfold v. rewrite Z.mul_add_distr_r. rewrite <- !Z.mul_assoc, <- !Z.pow_add_r by (unfold e0; lia).
        replace (e - e0 + (e0 + 149)) with (e + 149) by lia. replace (f - e0 + (e0 + 149)) with (f + 149) by lia.
        assert (2 ^ (e + 149) <= 2 ^ 190) by (apply Z.pow_le_mono_r; lia). assert (2 ^ (f + 149) <= 2 ^ 190) by (apply Z.pow_le_mono_r; lia).
        change (2 ^ 216) with (2 ^ 24 * (4 * 2 ^ 190)). nia. }
      assert (Z.log2 (v * 2 ^ (e0 + 149)) < 216) by (apply Z.log2_lt_pow2; [pose proof (pow2_pos (e0 + 149) ltac:(unfold e0; lia)); nia|exact Hs]).
      rewrite log2_scaled in H1 by (unfold e0; lia). lia. }
    pose proof (Z.log2_nonneg v).
    destruct (round_me_rnd_wf v e0 Hv ltac:(unfold e0, B; lia) ltac:(lia)) as [R W].
    split; [|eapply nwf_weaken; [|exact W]; lia].
    rewrite R. f_equal. cbn [fv]. unfold v.
    rewrite Z.mul_add_distr_r. rewrite <- !Z.mul_assoc, <- !Z.pow_add_r by (unfold e0, B; lia).
    f_equal; f_equal; f_equal; lia.
Qed.
(* the saturating cast: floor of the value, capped *)
Lemma to_unsigned_fv K limit y : nwf K y -> 0 <= limit -> to_unsigned limit y = Z.min limit (fv y / 2 ^ B).
Proof.
  intros Hy Hl. destruct y as [s| | |[] m e]; try contradiction.
  - cbn [to_unsigned fv]. rewrite Z.div_0_l by (apply Z.pow_nonzero; unfold B; lia). lia.
  - destruct Hy as [He Hm]. cbn [to_unsigned fv]. f_equal.
    destruct (Z.leb_spec 0 e).
    + rewrite Z.shiftl_mul_pow2 by lia. rewrite Z.pow_add_r by (unfold B; lia). rewrite Z.mul_assoc, Z.div_mul by (apply Z.pow_nonzero; unfold B; lia). reflexivity.
    + rewrite Z.shiftr_div_pow2 by lia. replace (2 ^ B) with (2 ^ (e + B) * 2 ^ (- e)) by (rewrite <- Z.pow_add_r by (unfold B; lia); f_equal; lia).
      rewrite (Z.mul_comm (Z.pos m)). rewrite Z.div_mul_cancel_l by (apply Z.pow_nonzero; unfold B; lia). reflexivity.
Qed.

(* ---- the quantiser x -> (x * max + 0.5) as integer, at the integer level *)
Definition qI (C limit a : Z) : Z := Z.min limit (rnd32 (rnd32 (a * C / 2 ^ B) + 2 ^ (B - 1)) / 2 ^ B).
Lemma rnd32_mono v w : 0 <= v -> v <= w -> rnd32 v <= rnd32 w.
Proof. apply rnd_mono; unfold UMIN; lia. Qed.
Lemma rnd32_nonneg v : 0 <= v -> 0 <= rnd32 v.
Proof. intros H. rewrite <- rnd32_0. apply rnd32_mono; lia. Qed.
Lemma qI_mono C limit a a' : 0 <= C -> 0 <= a -> a <= a' -> qI C limit a <= qI C limit a'.
Proof.
  intros HC Ha Hle. unfold qI. pose proof (pow2_pos B ltac:(unfold B; lia)) as HB.
  assert (H1 : a * C / 2 ^ B <= a' * C / 2 ^ B) by (apply Z.div_le_mono; [lia|nia]).
  assert (H0 : 0 <= a * C / 2 ^ B) by (apply Z.div_pos; [nia|lia]).
  pose proof (rnd32_mono _ _ H0 H1) as H2. pose proof (rnd32_nonneg _ H0) as H3.
  pose proof (pow2_pos (B - 1) ltac:(unfold B; lia)) as HH.
  assert (H4 : rnd32 (rnd32 (a * C / 2 ^ B) + 2 ^ (B - 1)) <= rnd32 (rnd32 (a' * C / 2 ^ B) + 2 ^ (B - 1))) by (apply rnd32_mono; lia).
  assert (H5 : rnd32 (rnd32 (a * C / 2 ^ B) + 2 ^ (B - 1)) / 2 ^ B <= rnd32 (rnd32 (a' * C / 2 ^ B) + 2 ^ (B - 1)) / 2 ^ B) by (apply Z.div_le_mono; lia).
  lia.
Qed.
(* the model's quantiser is qI on the value of its argument *)
Lemma q_is_qI max limit x n f : F max = Ffin false n f -> -151 <= f <= 0 -> Zpos n < 2 ^ 24 -> 0 <= limit -> nwf 16 x ->
  Encode.q max limit x = qI (Zpos n * 2 ^ (f + B)) limit (fv x).
Proof.
  intros EF Hf Hn Hl Hx. unfold Encode.q, qI. rewrite EF.
  destruct (fmul_const x n f Hx Hf Hn) as [M1 W1].
  change half_f with (Ffin false 8388608 (-24)).
  destruct (fadd_const (f32_mul x (Ffin false n f)) 8388608 (-24) W1 ltac:(lia) ltac:(reflexivity)) as [A1 W2].
  rewrite (to_unsigned_fv 45 limit _ W2 Hl). rewrite A1, M1.
  replace (Z.pos 8388608 * 2 ^ (-24 + B)) with (2 ^ (B - 1)) by (unfold B; reflexivity). reflexivity.
Qed.
Theorem q_mono max limit x y n f : F max = Ffin false n f -> -151 <= f <= 0 -> Zpos n < 2 ^ 24 -> 0 <= limit ->
  nwf 16 x -> nwf 16 y -> fv x <= fv y -> Encode.q max limit x <= Encode.q max limit y.
Proof.
  intros EF Hf Hn Hl Hx Hy Hle. rewrite (q_is_qI max limit x n f), (q_is_qI max limit y n f) by assumption.
  apply qI_mono; [pose proof (pow2_pos (f + B) ltac:(unfold B; lia)); nia|apply fv_nonneg|exact Hle].
Qed.

(* ---- bit patterns: positive patterns below 2^40 are well-formed and ordered like their values *)
Definition LIM : Z := 1400897536.           (* 0x53800000 = 2^40 as an f32 *)
Lemma of_bits_shape b : 0 <= b < LIM ->
  f32_of_bits b = (if b / 8388608 =? 0 then (if b mod 8388608 =? 0 then Fz false else Ffin false (Z.to_pos (b mod 8388608)) (-149))
                   else Ffin false (Z.to_pos (b mod 8388608 + 8388608)) (b / 8388608 - 1 + -149)).
Proof.
  intros Hb. unfold f32_of_bits, of_bits.
  replace (Z.testbit b (8 + 24 - 1)) with false.
  2:{ symmetry. apply Z.bits_above_log2; [lia|]. destruct (Z.eq_dec b 0) as [->|]; [cbn; lia|]. apply Z.log2_lt_pow2; [lia|]. unfold LIM in Hb. change (2 ^ (8 + 24 - 1)) with 2147483648. lia. }
  change (24 - 1) with 23. rewrite Z.shiftr_div_pow2 by lia. change (2 ^ 23) with 8388608. change (Z.shiftl 1 8) with 256. change (Z.shiftl 1 23) with 8388608.
  assert (Hq : 0 <= b / 8388608 < 167) by (unfold LIM in Hb; split; [apply Z.div_pos; lia|apply Z.div_lt_upper_bound; lia]).
  rewrite (Z.mod_small (b / 8388608) 256) by lia.
  replace (b / 8388608 =? 256 - 1) with false by (symmetry; apply Z.eqb_neq; lia). reflexivity.
Qed.
Lemma of_bits_nwf b : 0 <= b < LIM -> nwf 16 (f32_of_bits b).
Proof.
  intros Hb. rewrite of_bits_shape by exact Hb. pose proof (Z.mod_pos_bound b 8388608 ltac:(lia)) as Hr.
  assert (Hq : 0 <= b / 8388608 < 167) by (unfold LIM in Hb; split; [apply Z.div_pos; lia|apply Z.div_lt_upper_bound; lia]).
  destruct (Z.eqb_spec (b / 8388608) 0); [destruct (Z.eqb_spec (b mod 8388608) 0)|]; cbn [nwf]; try exact I;
    rewrite Z2Pos.id by lia; change (2 ^ 24) with 16777216; lia.
Qed.
Lemma fv_of_bits b : 0 <= b < LIM ->
  fv (f32_of_bits b) = if b / 8388608 =? 0 then (b mod 8388608) * 2 ^ (-149 + B) else (b mod 8388608 + 8388608) * 2 ^ (b / 8388608 - 150 + B).
Proof.
  intros Hb. rewrite of_bits_shape by exact Hb. pose proof (Z.mod_pos_bound b 8388608 ltac:(lia)) as Hr.
  destruct (Z.eqb_spec (b / 8388608) 0); [destruct (Z.eqb_spec (b mod 8388608) 0) as [E|E]|]; cbn [fv].
  - rewrite E. reflexivity.
  - rewrite Z2Pos.id by lia. reflexivity.
  - rewrite Z2Pos.id by lia. f_equal. f_equal. lia.
Qed.
Theorem fv_bits_mono b b' : 0 <= b -> b <= b' -> b' < LIM -> fv (f32_of_bits b) <= fv (f32_of_bits b').
Proof.
  intros H0 Hle Hlim. rewrite !fv_of_bits by lia.
  pose proof (Z.div_mod b 8388608 ltac:(lia)) as E1. pose proof (Z.div_mod b' 8388608 ltac:(lia)) as E2.
  pose proof (Z.mod_pos_bound b 8388608 ltac:(lia)) as R1. pose proof (Z.mod_pos_bound b' 8388608 ltac:(lia)) as R2.
  assert (Hq : b / 8388608 <= b' / 8388608) by (apply Z.div_le_mono; lia).
  assert (Hq0 : 0 <= b / 8388608) by (apply Z.div_pos; lia).
  assert (Hq1 : b' / 8388608 < 167) by (unfold LIM in Hlim; apply Z.div_lt_upper_bound; lia).
  set (x := b / 8388608) in *. set (x' := b' / 8388608) in *. set (r := b mod 8388608) in *. set (r' := b' mod 8388608) in *.
  destruct (Z.eqb_spec x 0) as [Ex|Nx]; destruct (Z.eqb_spec x' 0) as [Ex'|Nx'].
  - assert (r <= r') by lia. pose proof (pow2_pos (-149 + B) ltac:(unfold B; lia)). nia.
  - (* subnormal below normal *)
    assert (2 ^ (-149 + B) <= 2 ^ (x' - 150 + B)) by (apply Z.pow_le_mono_r; unfold B; lia).
    pose proof (pow2_pos (-149 + B) ltac:(unfold B; lia)). nia.
  - lia.
  - destruct (Z.eq_dec x x') as [Exx|Nxx].
    + rewrite <- Exx. assert (r <= r') by lia. pose proof (pow2_pos (x - 150 + B) ltac:(unfold B; lia)). nia.
    + assert (Hp : 2 * 2 ^ (x - 150 + B) <= 2 ^ (x' - 150 + B)).
      { replace (2 * 2 ^ (x - 150 + B)) with (2 ^ (x + 1 - 150 + B)) by (rewrite <- Z.pow_succ_r by (unfold B; lia); f_equal; lia). apply Z.pow_le_mono_r; unfold B; lia. }
      pose proof (pow2_pos (x - 150 + B) ltac:(unfold B; lia)). nia.
Qed.

(* ---- comparison and x.min(1.0) on non-negative floats *)
Lemma flt_fv K x y : nwf K x -> nwf K y -> flt x y = (fv x <? fv y).
Proof.
  intros Hx Hy. destruct x as [s| | |[] m e]; destruct y as [t| | |[] n f]; try contradiction.
  - reflexivity.
  - destruct Hy as [Hf _]. unfold flt, fcmp. cbn [signed fv]. rewrite Z.mul_0_l.
    pose proof (pow2_pos (f - Z.min 0 f) ltac:(lia)). pose proof (pow2_pos (f + B) ltac:(unfold B; lia)).
    destruct (Z.compare_spec 0 (Z.pos n * 2 ^ (f - Z.min 0 f))); nia.
  - destruct Hx as [He _]. unfold flt, fcmp. cbn [signed fv]. rewrite Z.mul_0_l.
    pose proof (pow2_pos (e - Z.min e 0) ltac:(lia)). pose proof (pow2_pos (e + B) ltac:(unfold B; lia)).
    destruct (Z.compare_spec (Z.pos m * 2 ^ (e - Z.min e 0)) 0); nia.
  - destruct Hx as [He _]. destruct Hy as [Hf _]. unfold flt, fcmp. cbn [signed fv].
    set (e0 := Z.min e f).
    assert (E1 : Z.pos m * 2 ^ (e + B) = Z.pos m * 2 ^ (e - e0) * 2 ^ (e0 + B)) by (rewrite <- Z.mul_assoc, <- Z.pow_add_r by (unfold e0, B; lia); f_equal; f_equal; lia).
    assert (E2 : Z.pos n * 2 ^ (f + B) = Z.pos n * 2 ^ (f - e0) * 2 ^ (e0 + B)) by (rewrite <- Z.mul_assoc, <- Z.pow_add_r by (unfold e0, B; lia); f_equal; f_equal; lia).
    rewrite E1, E2. pose proof (pow2_pos (e0 + B) ltac:(unfold e0, B; lia)) as HP.
    set (a := Z.pos m * 2 ^ (e - e0)). set (c := Z.pos n * 2 ^ (f - e0)). set (P := 2 ^ (e0 + B)) in *.
    destruct (Z.compare_spec a c); symmetry; [apply Z.ltb_ge|apply Z.ltb_lt|apply Z.ltb_ge]; nia.
Qed.
Lemma fmin1_fv x : nwf 16 x -> fv (fmin1 x) = Z.min (fv x) (fv (F 1)) /\ nwf 16 (fmin1 x).
Proof.
  intros Hx. assert (H1 : nwf 16 (F 1)) by (vm_compute; split; [split; discriminate|reflexivity]).
  unfold fmin1, fmin. assert (Hn : is_nan x = false) by (destruct x as [| | |[] ? ?]; try contradiction; reflexivity).
  rewrite Hn. change (is_nan (F 1)) with false. rewrite (flt_fv 16 (F 1) x H1 Hx).
  destruct (Z.ltb_spec (fv (F 1)) (fv x)); split; try assumption; lia.
Qed.
Theorem q_min1_mono max limit x y n f : F max = Ffin false n f -> -151 <= f <= 0 -> Zpos n < 2 ^ 24 -> 0 <= limit ->
  nwf 16 x -> nwf 16 y -> fv x <= fv y -> Encode.q max limit (fmin1 x) <= Encode.q max limit (fmin1 y).
Proof.
  intros EF Hf Hn Hl Hx Hy Hle. destruct (fmin1_fv x Hx) as [Vx Wx]. destruct (fmin1_fv y Hy) as [Vy Wy].
  apply (q_mono max limit _ _ n f); try assumption. rewrite Vx, Vy. lia.
Qed.
