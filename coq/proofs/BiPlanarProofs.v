(* C05 / C04: the bi-planar code paths of src/decode/read_write.rs (model/BiPlanarPath.v) pair every pixel with the
   plane-2 element of its own sx x sy cell, and the rectangle path computes the crop of the full decode - for every
   element size, sub-sampling, per-pixel conversion, conversion-buffer size, surface, rectangle and data. *)
From Coq Require Import ZArith List Bool Lia Arith.
From DDSV Require Import model.Crop model.RectPath model.BiPlanarPath proofs.CropProofs proofs.RectPathProofs.
Import ListNotations.

Lemma seq_shift_map m n : seq m n = map (Nat.add m) (seq 0 n).
Proof.
  revert m. induction n as [|n IH]; intros m; [reflexivity|]. cbn [seq map]. rewrite Nat.add_0_r. f_equal.
  rewrite (IH (S m)), <- seq_shift, map_map. apply map_ext. intros a. lia.
Qed.
Lemma map_seq_blocks {X} (F : nat -> X) k n :
  concat (map (fun m => map (fun i => F (m * k + i)) (seq 0 k)) (seq 0 n)) = map F (seq 0 (n * k)).
Proof.
  induction n as [|n IH]; [reflexivity|].
  rewrite seq_S, map_app, concat_app, IH. cbn [map concat Nat.add]. rewrite app_nil_r.
  replace (S n * k) with (n * k + k) by lia. rewrite seq_app, map_app. f_equal.
  cbn [Nat.add]. rewrite (seq_shift_map (n * k) k), map_map. reflexivity.
Qed.
Lemma div_add_cancel a b k : 1 <= k -> (a * k + b) / k = a + b / k.
Proof. intros. rewrite Nat.add_comm, Nat.div_add by lia. lia. Qed.
Lemma slice_skipn {X} (l : list X) a s n : slice s n (skipn a l) = slice (a + s) n l.
Proof. unfold slice. rewrite skipn_skipn'. reflexivity. Qed.

Section Proofs.
Variables (A B : Type).
Variables (e1 e2 sx sy : nat) (gpx : list Z -> list Z -> nat -> A) (cv : A -> B).
Hypothesis He1 : 1 <= e1.
Hypothesis He2 : 1 <= e2.
Hypothesis Hsx : 1 <= sx.
Hypothesis Hsy : 1 <= sy.

(* the contract of a ProcessBiPlanarFn: pixel x of the range meets plane-2 element (offset + x) / sx *)
Definition bpfn_ok (f : bpfn A) : Prop := forall p1 p2 offset width y, offset < sx ->
  f p1 p2 offset width y = map (fun x => gpx (el e1 p1 x) (el e2 p2 ((offset + x) / sx)) y) (seq 0 width).

Theorem bp_row_ok : bpfn_ok (bp_row A e1 e2 sx gpx).
Proof.
  intros p1 p2 offset width y Hoff. unfold bp_row.
  set (w0 := if offset =? 0 then 0 else Nat.min (sx - offset) width).
  set (s2 := if offset =? 0 then 0 else 1).
  set (width' := width - w0). set (full := width' / sx).
  pose proof (Nat.div_mod width' sx ltac:(lia)) as E. pose proof (Nat.mod_upper_bound width' sx ltac:(lia)) as Hm. fold full in E.
  assert (Hw0 : w0 <= width) by (unfold w0; destruct (offset =? 0); lia).
  assert (Hsplit : width = w0 + (full * sx + (width' - full * sx))) by (unfold width'; lia).
  replace (seq 0 width) with (seq 0 (w0 + (full * sx + (width' - full * sx)))) by (f_equal; lia).
  rewrite seq_app, map_app, seq_app, map_app. cbn [Nat.add].
  assert (Hs2 : width' <> 0 -> offset + w0 = s2 * sx).
  { unfold width', w0, s2. destruct (offset =? 0) eqn:E0; [apply Nat.eqb_eq in E0; lia|]. apply Nat.eqb_neq in E0. lia. }
  f_equal; [|f_equal].
  - apply map_ext_in. intros x Hx. apply in_seq in Hx. f_equal. f_equal. symmetry. apply Nat.div_small.
    unfold w0 in Hx. destruct (offset =? 0); lia.
  - rewrite (seq_shift_map w0 (full * sx)), map_map.
    rewrite <- (map_seq_blocks (fun x => gpx (el e1 p1 (w0 + x)) (el e2 p2 ((offset + (w0 + x)) / sx)) y) sx full).
    f_equal. apply map_ext_in. intros m Hmm. apply in_seq in Hmm. apply map_ext_in. intros i Hi. apply in_seq in Hi.
    assert (width' <> 0) by nia.
    assert (Hd : (offset + (w0 + (m * sx + i))) / sx = s2 + m).
    { rewrite Nat.add_assoc, (Hs2 ltac:(assumption)).
      replace (s2 * sx + (m * sx + i)) with ((s2 + m) * sx + i) by lia. rewrite div_add_cancel, Nat.div_small by lia. lia. }
    rewrite Hd. replace (w0 + (m * sx + i)) with (w0 + m * sx + i) by lia. reflexivity.
  - rewrite (seq_shift_map (w0 + full * sx) _), map_map. apply map_ext_in. intros i Hi. apply in_seq in Hi.
    assert (width' <> 0) by lia.
    assert (Hd : (offset + (w0 + full * sx + i)) / sx = s2 + full).
    { replace (offset + (w0 + full * sx + i)) with (offset + w0 + (full * sx + i)) by lia.
      rewrite (Hs2 ltac:(assumption)). replace (s2 * sx + (full * sx + i)) with ((s2 + full) * sx + i) by lia.
      rewrite div_add_cancel, Nat.div_small by lia. lia. }
    rewrite Hd. reflexivity.
Qed.

(* ---- process_bi_planar *)
Variable f : bpfn A.
Hypothesis Hf : bpfn_ok f.

Lemma el_slice e l a n x : 1 <= e -> x < n -> el e (slice (a * e) (n * e) l) x = el e l (a + x).
Proof. intros He Hx. unfold el. rewrite slice_of_slice. f_equal; nia. Qed.

Definition rowG (p1 p2 : list Z) (offset y : nat) : nat -> A := fun x => gpx (el e1 p1 x) (el e2 p2 ((offset + x) / sx)) y.

Definition bcall_ok (width offset : nat) (c : bcall) : Prop :=
  b_off c < sx /\ b_p1 c = b_col c /\ b_col c + b_n c <= width /\
  forall x, x < b_n c -> (b_off c + x) / sx < b_n2 c /\ b_p2 c + (b_off c + x) / sx = (offset + (b_col c + x)) / sx.

Lemma bcall_row_spec p1 p2 width offset y c : bcall_ok width offset c ->
  bcall_row A B e1 e2 cv f p1 p2 y c = slice (0 + b_col c) (b_n c) (map cv (map (rowG p1 p2 offset y) (seq 0 width))).
Proof.
  intros (Hoff & Hp1 & Hfit & Hx). unfold bcall_row. rewrite Hf by assumption.
  rewrite !slice_map, slice_seq by lia. cbn [Nat.add]. rewrite (seq_shift_map (b_col c) (b_n c)), !map_map.
  apply map_ext_in. intros x Hin. apply in_seq in Hin. destruct (Hx x ltac:(lia)) as [H1 H2]. unfold rowG. f_equal. f_equal.
  - rewrite el_slice by lia. rewrite Hp1. reflexivity.
  - rewrite el_slice by lia. rewrite H2. reflexivity.
Qed.

Lemma bp_calls_ok conv bufpx width offset : offset < sx -> 1 <= width -> (conv = true -> sx <= bufpx) ->
  Forall (bcall_ok width offset) (bp_calls sx conv bufpx width offset)
  /\ tiles (map (fun c => (b_col c, b_n c)) (bp_calls sx conv bufpx width offset)) 0 width.
Proof.
  intros Hoff Hw Hbuf0. unfold bp_calls. destruct conv; cbn [negb].
  2:{ split; [|cbn; lia]. constructor; [|constructor]. unfold bcall_ok. cbn [b_off b_p1 b_col b_n b_p2 b_n2].
      repeat split; try lia. pose proof (cdiv_mul_ge (offset + width) sx Hsx).
      apply Nat.div_lt_upper_bound; [lia|]. nia. }
  pose proof (Hbuf0 eq_refl) as Hbuf. clear Hbuf0.
  set (pcs := bufpx - bufpx mod sx).
  assert (Hpcs : pcs = bufpx / sx * sx). { unfold pcs. pose proof (Nat.div_mod bufpx sx ltac:(lia)). lia. }
  assert (Hm1 : 1 <= bufpx / sx). { apply Nat.div_le_lower_bound; lia. }
  assert (Hpcs1 : sx <= pcs) by nia.
  set (ow := if offset =? 0 then 0 else Nat.min (sx - offset) width).
  set (s2 := if offset =? 0 then 0 else 1).
  set (w' := width - ow).
  assert (How : ow <= width) by (unfold ow; destruct (offset =? 0); lia).
  split.
  - apply Forall_app. split.
    + destruct (offset =? 0) eqn:E0; [constructor|]. apply Nat.eqb_neq in E0. constructor; [|constructor].
      unfold bcall_ok. cbn [b_off b_p1 b_col b_n b_p2 b_n2]. split; [lia|]. split; [reflexivity|]. split; [lia|].
      intros x Hx. split; [rewrite Nat.div_small; lia | reflexivity].
    + apply Forall_forall. intros c Hc. apply in_map_iff in Hc. destruct Hc as (k & <- & Hk). apply in_seq in Hk.
      assert (Hcs : k * pcs < w').
      { destruct (Nat.eq_dec w' 0) as [E|E]; [rewrite E, cdiv_0 in Hk by lia; lia|].
        pose proof (cdiv_mul_lt w' pcs ltac:(lia) ltac:(lia)). nia. }
      assert (Hdiv : k * pcs / sx = k * (bufpx / sx)). { rewrite Hpcs, Nat.mul_assoc. apply Nat.div_mul. lia. }
      assert (Hkp : k * (bufpx / sx) * sx = k * pcs) by (rewrite Hpcs; lia).
      assert (Hs2 : offset + ow = s2 * sx).
      { unfold ow, s2, w' in *. destruct (offset =? 0) eqn:E0; [apply Nat.eqb_eq in E0; lia|]. apply Nat.eqb_neq in E0. lia. }
      unfold bcall_ok. cbn [b_off b_p1 b_col b_n b_p2 b_n2]. rewrite Hdiv. cbn [Nat.add].
      split; [lia|]. split; [reflexivity|]. split; [unfold w' in *; lia|]. intros x Hx.
      assert (Hce : k * pcs + x < Nat.min (k * pcs + pcs) w') by lia.
      assert (Hq : (k * pcs + x) / sx = k * (bufpx / sx) + x / sx) by (rewrite <- Hkp; apply div_add_cancel; lia).
      split.
      * pose proof (cdiv_mul_ge (Nat.min (k * pcs + pcs) w') sx Hsx) as Hge.
        assert ((k * pcs + x) / sx < cdiv (Nat.min (k * pcs + pcs) w') sx) by (apply Nat.div_lt_upper_bound; [lia|]; nia).
        lia.
      * replace (offset + (ow + k * pcs + x)) with (s2 * sx + (k * pcs + x)) by lia.
        rewrite div_add_cancel by lia. lia.
  - rewrite map_app, map_map. cbn [b_col b_n].
    apply (tiles_app _ _ 0 width ow).
    + unfold ow. destruct (offset =? 0) eqn:E0; cbn; lia.
    + exact How.
    + pose proof (chunk_tiles ow pcs w' ltac:(lia) (cdiv w' pcs) 0 ltac:(lia)) as Ht.
      cbn [Nat.mul] in Ht. rewrite Nat.sub_0_r, Nat.add_0_r in Ht. cbn [Nat.add]. unfold w' in *. apply Ht. reflexivity.
Qed.

Theorem bp_line_spec conv bufpx p1 p2 width offset y : offset < sx -> 1 <= width -> (conv = true -> sx <= bufpx) ->
  bp_line A B e1 e2 sx cv f conv bufpx p1 p2 width offset y = Some (map cv (map (rowG p1 p2 offset y) (seq 0 width))).
Proof.
  intros Hoff Hw Hbuf. destruct (bp_calls_ok conv bufpx width offset Hoff Hw Hbuf) as [Hok Ht].
  set (L := map cv (map (rowG p1 p2 offset y) (seq 0 width))).
  assert (HL : length L = width) by (unfold L; rewrite !map_length, seq_length; reflexivity).
  unfold bp_line, place_exact.
  assert (Hmap : map (fun c => (b_col c, bcall_row A B e1 e2 cv f p1 p2 y c)) (bp_calls sx conv bufpx width offset)
               = map (fun cn => (fst cn, slice (0 + fst cn) (snd cn) L)) (map (fun c => (b_col c, b_n c)) (bp_calls sx conv bufpx width offset))).
  { rewrite map_map. apply map_ext_in. intros c Hc. cbn [fst snd]. f_equal. apply (bcall_row_spec p1 p2 width offset y c).
    rewrite Forall_forall in Hok. apply Hok. assumption. }
  rewrite Hmap, (place_slices L 0 _ 0 width Ht) by lia. cbn [Nat.add].
  rewrite slice_length, HL, Nat.sub_0_r, Nat.min_id, Nat.eqb_refl, slice_all by lia. reflexivity.
Qed.

(* ---- the uv-line loops *)
Definition in_range (lo hi Y : nat) : bool := (lo <=? Y) && (Y <? hi).
Lemma filter_above lo hi a n : hi <= a -> filter (in_range lo hi) (seq a n) = [].
Proof.
  revert a. induction n as [|n IH]; intros a Ha; [reflexivity|]. cbn [seq filter]. unfold in_range at 1.
  replace (a <? hi) with false by (symmetry; apply Nat.ltb_ge; lia). rewrite andb_false_r. apply IH. lia.
Qed.

Lemma bp_inner_spec lo hi j : lo < hi -> forall n yo y,
  fst (bp_inner n yo y lo hi j) = map (fun Y => (Y - lo, j, yo + (Y - y))) (filter (in_range lo hi) (seq y n))
  /\ (y + n <= hi -> snd (bp_inner n yo y lo hi j) = y + n)
  /\ (hi <= snd (bp_inner n yo y lo hi j) \/ snd (bp_inner n yo y lo hi j) = y + n).
Proof.
  intros Hlh. induction n as [|n IH]; intros yo y.
  - cbn. repeat split; lia.
  - cbn [bp_inner seq filter]. unfold in_range at 1.
    destruct (y <? lo) eqn:E1.
    + apply Nat.ltb_lt in E1. replace (lo <=? y) with false by (symmetry; apply Nat.leb_gt; lia). cbn [andb].
      destruct (IH (S yo) (S y)) as (H1 & H2 & H3). repeat split.
      * rewrite H1. apply map_ext_in. intros Y HY. apply filter_In in HY. destruct HY as [HY _]. apply in_seq in HY. f_equal. lia.
      * intros. rewrite H2 by lia. lia.
      * destruct H3; [left; assumption | right; lia].
    + apply Nat.ltb_ge in E1. replace (lo <=? y) with true by (symmetry; apply Nat.leb_le; lia). cbn [andb].
      destruct (hi <=? y) eqn:E2.
      * apply Nat.leb_le in E2. replace (y <? hi) with false by (symmetry; apply Nat.ltb_ge; lia). cbn [fst snd].
        repeat split; try lia.
        rewrite (filter_above lo hi (S y) n) by lia. reflexivity.
      * apply Nat.leb_gt in E2. replace (y <? hi) with true by (symmetry; apply Nat.ltb_lt; lia).
        destruct (IH (S yo) (S y)) as (H1 & H2 & H3). cbn [fst snd map]. repeat split.
        -- f_equal; [f_equal; lia|]. rewrite H1. apply map_ext_in. intros Y HY. apply filter_In in HY. destruct HY as [HY _]. apply in_seq in HY. f_equal. lia.
        -- intros. rewrite H2 by lia. lia.
        -- destruct H3; [left; assumption | right; lia].
Qed.

Lemma filter_range lo hi : forall m a, filter (in_range lo hi) (seq a m) = seq (Nat.max a lo) (Nat.min (a + m) hi - Nat.max a lo).
Proof.
  induction m as [|m IH]; intros a.
  - cbn [seq filter]. replace (Nat.min (a + 0) hi - Nat.max a lo) with 0 by lia. reflexivity.
  - cbn [seq filter]. rewrite IH. unfold in_range.
    destruct (lo <=? a) eqn:E1; [apply Nat.leb_le in E1 | apply Nat.leb_gt in E1]; cbn [andb].
    + destruct (a <? hi) eqn:E2; [apply Nat.ltb_lt in E2 | apply Nat.ltb_ge in E2].
      * replace (Nat.max a lo) with a by lia. replace (Nat.min (a + S m) hi - a) with (S (Nat.min (S a + m) hi - Nat.max (S a) lo)) by lia.
        cbn [seq]. f_equal. f_equal. lia.
      * replace (Nat.min (S a + m) hi - Nat.max (S a) lo) with 0 by lia. replace (Nat.min (a + S m) hi - Nat.max a lo) with 0 by lia. reflexivity.
    + replace (Nat.max (S a) lo) with (Nat.max a lo) by lia. replace (S a + m) with (a + S m) by lia. reflexivity.
Qed.

Definition emit_of (lo ub : nat) (Y : nat) : nat * nat * nat := (Y - lo, Y / sy - ub, Y mod sy).

Lemma bp_outer_spec lo hi ub : lo < hi -> forall n j0 y, (y = (ub + j0) * sy \/ (hi <= y /\ hi <= (ub + j0) * sy)) ->
  bp_outer sy (seq j0 n) y lo hi = map (emit_of lo ub) (filter (in_range lo hi) (seq ((ub + j0) * sy) (n * sy))).
Proof.
  intros Hlh. induction n as [|n IH]; intros j0 y Hst; [reflexivity|].
  cbn [seq bp_outer]. destruct (bp_inner_spec lo hi j0 Hlh sy 0 y) as (H1 & H2 & H3).
  replace (S n * sy) with (sy + n * sy) by lia. rewrite seq_app, filter_app, map_app.
  replace ((ub + j0) * sy + sy) with ((ub + S j0) * sy) by lia.
  destruct Hst as [Hlive | [Hd1 Hd2]].
  - subst y. rewrite H1. f_equal.
    + apply map_ext_in. intros Y HY. apply filter_In in HY. destruct HY as [HY _]. apply in_seq in HY. unfold emit_of. f_equal; [f_equal|].
      * symmetry. assert (Y / sy = ub + j0); [|lia]. symmetry. apply Nat.div_unique with (r := Y - (ub + j0) * sy); lia.
      * cbn [Nat.add]. apply Nat.mod_unique with (q := ub + j0); lia.
    + apply IH. destruct (Nat.le_gt_cases ((ub + j0) * sy + sy) hi) as [Hle|Hgt].
      * left. rewrite H2 by lia. lia.
      * destruct H3 as [H3|H3]; [right; split; lia | left; lia].
  - rewrite H1, !(filter_above lo hi) by lia. cbn [map app]. rewrite IH; [|right; split; [destruct H3; lia | lia]].
    rewrite (filter_above lo hi) by lia. reflexivity.
Qed.

Theorem bp_rect_emits_spec H oy h : oy + h <= H -> 1 <= h ->
  bp_rect_emits sy H oy h = map (fun r => (r, (oy + r) / sy - oy / sy, (oy + r) mod sy)) (seq 0 h).
Proof.
  intros Hfit Hh. unfold bp_rect_emits.
  pose proof (Nat.div_mod oy sy ltac:(lia)) as Eoy. pose proof (Nat.mod_upper_bound oy sy ltac:(lia)) as Hmod.
  assert (Hmono : cdiv (oy + h) sy <= cdiv H sy) by (unfold cdiv; apply Nat.div_le_mono; lia).
  pose proof (cdiv_mul_ge (oy + h) sy Hsy) as Hge.
  assert (Hub : oy / sy < cdiv (oy + h) sy). { assert (~ cdiv (oy + h) sy <= oy / sy) by nia. lia. }
  replace (cdiv H sy - oy / sy - (cdiv H sy - cdiv (oy + h) sy)) with (cdiv (oy + h) sy - oy / sy) by lia.
  rewrite (bp_outer_spec oy (oy + h) (oy / sy) ltac:(lia) _ 0 _) by (left; lia).
  rewrite filter_range. rewrite Nat.add_0_r.
  replace (Nat.max (oy / sy * sy) oy) with oy by lia.
  replace (Nat.min (oy / sy * sy + (cdiv (oy + h) sy - oy / sy) * sy) (oy + h) - oy) with h by nia.
  rewrite (seq_shift_map oy h), map_map. apply map_ext. intros r. unfold emit_of. f_equal. f_equal. lia.
Qed.
Theorem bp_full_emits_spec H : 1 <= H -> bp_full_emits sy H = map (fun r => (r, r / sy, r mod sy)) (seq 0 H).
Proof.
  intros HH. unfold bp_full_emits. pose proof (cdiv_mul_ge H sy Hsy) as Hge.
  rewrite (bp_outer_spec 0 H 0 ltac:(lia) _ 0 _) by (left; lia).
  rewrite filter_range. cbn [Nat.add Nat.mul Nat.max]. replace (Nat.min (cdiv H sy * sy) H - 0) with H by lia.
  apply map_ext. intros r. unfold emit_of. rewrite !Nat.sub_0_r. reflexivity.
Qed.

(* ---- a whole surface / rectangle *)
Lemma place_singletons {X} (g : nat -> X) : forall n a, place (map (fun r => (r, [g r])) (seq a n)) a = Some (map g (seq a n)).
Proof.
  induction n as [|n IH]; intros a; [reflexivity|]. cbn [seq map place]. rewrite Nat.eqb_refl. cbn [length].
  replace (a + 1) with (S a) by lia. rewrite IH. reflexivity.
Qed.

Variables (W H : nat) (data : list Z).
Hypothesis HW : 1 <= W.
Hypothesis Hdata : length data = W * e1 * H + cdiv W sx * e2 * cdiv H sy.
Notation spec := (bp_spec_image A B e1 e2 sx sy gpx cv W H data).
Definition srow (Y : nat) : list B :=
  map (fun x => cv (gpx (el e1 data (Y * W + x)) (el e2 (skipn (W * e1 * H) data) ((Y / sy) * cdiv W sx + x / sx)) (Y mod sy))) (seq 0 W).

(* one output row: plane-1 bytes [p1at, p1at + w * e1) of the surface, the plane-2 elements of uv line Y / sy from
   element ox / sx on *)
Lemma row_spec conv bufpx ox w Y p1 p2 : ox + w <= W -> 1 <= w -> Y < H -> (conv = true -> sx <= bufpx) ->
  p1 = slice ((Y * W + ox) * e1) (w * e1) data ->
  p2 = slice ((ox / sx) * e2) ((cdiv (ox + w) sx - ox / sx) * e2) (slice (W * e1 * H + (Y / sy) * (cdiv W sx * e2)) (cdiv W sx * e2) data) ->
  bp_line A B e1 e2 sx cv f conv bufpx p1 p2 w (ox mod sx) (Y mod sy) = Some (slice ox w (srow Y)).
Proof.
  intros Hox Hw HY Hbuf -> ->.
  pose proof (Nat.div_mod ox sx ltac:(lia)) as Eox. pose proof (Nat.mod_upper_bound ox sx ltac:(lia)) as Hmod.
  rewrite bp_line_spec by (assumption || lia). f_equal.
  unfold srow. rewrite slice_map, slice_seq by lia. cbn [Nat.add]. rewrite (seq_shift_map ox w), !map_map.
  apply map_ext_in. intros x Hx. apply in_seq in Hx. unfold rowG. f_equal. f_equal.
  - rewrite el_slice by lia. f_equal. lia.
  - assert (Hsum : cdiv (ox + w) sx = cdiv (ox mod sx + w) sx + ox / sx).
    { rewrite Eox at 1. unfold cdiv. replace (sx * (ox / sx) + ox mod sx + w + sx - 1) with (ox mod sx + w + sx - 1 + ox / sx * sx) by lia.
      apply Nat.div_add. lia. }
    assert (Hk : (ox mod sx + x) / sx < cdiv (ox + w) sx - ox / sx).
    { rewrite Hsum. replace (cdiv (ox mod sx + w) sx + ox / sx - ox / sx) with (cdiv (ox mod sx + w) sx) by lia.
      pose proof (cdiv_mul_ge (ox mod sx + w) sx Hsx). apply Nat.div_lt_upper_bound; [lia|]. nia. }
    rewrite el_slice by lia.
    assert (Hi : ox / sx + (ox mod sx + x) / sx = (ox + x) / sx).
    { rewrite Eox at 3. replace (sx * (ox / sx) + ox mod sx + x) with (ox / sx * sx + (ox mod sx + x)) by lia. rewrite div_add_cancel by lia. reflexivity. }
    rewrite Hi.
    assert (Hcol : (ox + x) / sx < cdiv W sx).
    { pose proof (cdiv_mul_ge W sx Hsx). apply Nat.div_lt_upper_bound; [lia|]. nia. }
    unfold el. rewrite slice_of_slice, slice_skipn. f_equal; nia.
Qed.

Theorem bp_rect_is_crop conv bufpx ox oy w h : ox + w <= W -> oy + h <= H -> 1 <= w -> 1 <= h -> (conv = true -> sx <= bufpx) ->
  bp_rect_image A B e1 e2 sx sy cv f conv bufpx W H ox oy w h data = Some (crop_of ox oy w h spec).
Proof.
  intros Hox Hoy Hw Hh Hbuf. unfold bp_rect_image. rewrite bp_rect_emits_spec by assumption. rewrite map_map.
  rewrite (sequence_map_some (fun r => (r, [slice ox w (srow (oy + r))]))).
  - unfold place_exact. rewrite (place_singletons (fun r => slice ox w (srow (oy + r))) h 0).
    rewrite map_length, seq_length, Nat.eqb_refl. f_equal.
    unfold crop_of, bp_spec_image. rewrite slice_map, slice_seq by lia. cbn [Nat.add]. rewrite (seq_shift_map oy h), !map_map. reflexivity.
  - intros r Hr. apply in_seq in Hr.
    pose proof (Nat.div_mod oy sy ltac:(lia)) as Eoy.
    assert (Hdiv : oy / sy <= (oy + r) / sy) by (apply Nat.div_le_mono; lia).
    rewrite (row_spec conv bufpx ox w (oy + r)); try assumption; try lia; try reflexivity.
    + rewrite slice_of_slice. f_equal; [nia|].
      assert ((r * W + ox + w) * e1 <= W * h * e1) by (apply Nat.mul_le_mono_r; nia). nia.
    + f_equal. f_equal. generalize (cdiv W sx * e2) as U. intros U.
      replace ((oy + r) / sy * U) with ((oy / sy + ((oy + r) / sy - oy / sy)) * U) by (f_equal; lia).
      rewrite Nat.mul_add_distr_r. lia.
Qed.

Theorem bp_full_is_spec conv bufpx : 1 <= H -> (conv = true -> sx <= bufpx) ->
  bp_full_image A B e1 e2 sx sy cv f conv bufpx W H data = Some spec.
Proof.
  intros HH Hbuf. unfold bp_full_image. rewrite bp_full_emits_spec by assumption. rewrite map_map.
  rewrite (sequence_map_some (fun r => (r, [srow r]))).
  - unfold place_exact. rewrite (place_singletons srow H 0). rewrite map_length, seq_length, Nat.eqb_refl. reflexivity.
  - intros r Hr. apply in_seq in Hr.
    pose proof (row_spec conv bufpx 0 W r _ _ ltac:(lia) HW ltac:(lia) Hbuf eq_refl eq_refl) as Hrow.
    rewrite Nat.div_0_l, Nat.mod_0_l in Hrow by lia. cbn [Nat.add Nat.mul] in Hrow. rewrite Nat.sub_0_r in Hrow.
    assert (Hp1 : slice (r * (W * e1)) (W * e1) (slice 0 (W * e1 * H) data) = slice ((r * W + 0) * e1) (W * e1) data).
    { rewrite slice_of_slice. f_equal; [nia|]. assert ((r * W + W) * e1 <= W * H * e1) by (apply Nat.mul_le_mono_r; nia). nia. }
    rewrite Hp1.
    assert (Hp2 : slice (W * e1 * H + r / sy * (cdiv W sx * e2)) (cdiv W sx * e2) data
                = slice 0 (cdiv W sx * e2) (slice (W * e1 * H + r / sy * (cdiv W sx * e2)) (cdiv W sx * e2) data)).
    { symmetry. apply slice_all. rewrite slice_length. lia. }
    rewrite Hp2, Hrow. rewrite slice_all by (unfold srow; rewrite map_length, seq_length; lia). reflexivity.
Qed.
End Proofs.

Lemma bp_row_ok' (A : Type) (e1 e2 sx : nat) (gpx : list Z -> list Z -> nat -> A) : 1 <= e1 -> 1 <= e2 -> 1 <= sx ->
  bpfn_ok A e1 e2 sx gpx (bp_row A e1 e2 sx gpx).
Proof. intros. apply (bp_row_ok A A e1 e2 sx 1 gpx (fun x => x)); auto. Qed.

Lemma bi_planar_pairing (A B : Type) (e1 e2 sx sy : nat) (gpx : list Z -> list Z -> nat -> A) (cv : A -> B) :
  1 <= e1 -> 1 <= e2 -> 1 <= sx -> 1 <= sy ->
  forall (W H : nat) (data : list Z), 1 <= W -> length data = W * e1 * H + cdiv W sx * e2 * cdiv H sy ->
  forall (conv : bool) (bufpx : nat), 1 <= H -> (conv = true -> sx <= bufpx) ->
  bp_full_image A B e1 e2 sx sy cv (bp_row A e1 e2 sx gpx) conv bufpx W H data = Some (bp_spec_image A B e1 e2 sx sy gpx cv W H data).
Proof. intros. apply bp_full_is_spec; auto. apply bp_row_ok'; auto. Qed.

Lemma sub_sampled_2x1_pairing (A B : Type) (bpb : nat) (dec : list Z -> list A) (cv : A -> B) : 1 <= bpb -> (forall b, length (dec b) = 2 * 1) ->
  forall (conv : bool) (bbpp W H : nat) (data : list Z) x y d, (conv = true -> 1 <= bbpp /\ 2 * 1 * bbpp <= 3072) ->
  1 <= W -> 1 <= H -> length data = cdiv W 2 * bpb * cdiv H 1 -> x < W -> y < H ->
  exists img, full_image A B 2 1 bpb cv (p2x1_row A dec) conv 3072 bbpp W H data = Some img /\
    nth x (nth y img []) (cv d) = cv (nth (x mod 2) (dec (slice ((y * cdiv W 2 + x / 2) * bpb) bpb data)) d).
Proof.
  intros Hb Hdec conv bbpp W H data x y d Hbuf HW HH Hdata Hx Hy.
  exists (spec_image A B 2 1 bpb dec cv W H data). split.
  - apply (full_image_is_spec A B 2 1 bpb dec cv); auto. apply p2x1_row_ok. assumption.
  - rewrite (spec_image_pixel A B 2 1 bpb dec cv) by (auto; lia). rewrite Nat.mod_1_r, Nat.div_1_r. reflexivity.
Qed.
