(* C04: 16-bit SNORM -> F32 is the correctly rounded quotient level / 65534, for all 65536 inputs *)
From Coq Require Import ZArith List Bool Lia.
From DDSV Require Import model.Float model.Convert spec.SpecNum proofs.ConvertProofsA.
Local Open Scope Z_scope.
Lemma t_s16_uf32 : forallb (fun x => f32_bits (s16_uf32 x) =? cr (s16_norm x) 65534) (zrange 65536) = true.
Proof. vm_compute. reflexivity. Qed.
Theorem s16_uf32_correctly_rounded x : 0 <= x < 65536 -> f32_bits (s16_uf32 x) = cr (s16_norm x) 65534.
Proof. intros Hx. apply Z.eqb_eq. exact (zsweep _ _ t_s16_uf32 x Hx). Qed.
