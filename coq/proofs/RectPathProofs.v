(* C05: the block code paths of src/decode/read_write.rs (model/RectPath.v) compute the crop of the full decode.
   For every block size, block decoder, channel conversion, surface size, rectangle, conversion-buffer size and
   data: the rectangle path returns exactly crop(rect, full decode), the full path returns the full decode, and
   in both every call's placement tiles the output (the model's `place` checks never fail). *)
From Coq Require Import ZArith List Bool Lia Arith.
From DDSV Require Import model.Crop model.RectPath proofs.CropProofs.
Import ListNotations.

(* ---------- lists *)
Lemma slice_length {X} (l : list X) s n : length (slice s n l) = Nat.min n (length l - s).
Proof. unfold slice. rewrite firstn_length, skipn_length. reflexivity. Qed.
Lemma slice_nil {X} s n : @slice X s n [] = [].
Proof. unfold slice. rewrite skipn_nil. apply firstn_nil. Qed.
Lemma slice_0 {X} (l : list X) n : slice 0 n l = firstn n l.
Proof. reflexivity. Qed.
Lemma slice_zero_len {X} (l : list X) s : slice s 0 l = [].
Proof. reflexivity. Qed.
Lemma slice_all {X} (l : list X) n : length l <= n -> slice 0 n l = l.
Proof. intros. unfold slice. simpl. apply firstn_all2. assumption. Qed.
Lemma slice_trunc {X} (l : list X) s n : slice s n l = slice s (Nat.min n (length l - s)) l.
Proof.
  unfold slice. destruct (Nat.le_ge_cases n (length l - s)) as [Hle|Hge].
  - rewrite Nat.min_l by assumption. reflexivity.
  - rewrite Nat.min_r by assumption. rewrite !firstn_all2; try reflexivity; rewrite skipn_length; lia.
Qed.
Lemma firstn_plus {X} (k : list X) n m : firstn (n + m) k = firstn n k ++ firstn m (skipn n k).
Proof. revert k. induction n as [|n IH]; intros k; [reflexivity|]. destruct k as [|x k]; [simpl; rewrite firstn_nil; reflexivity|]. simpl. f_equal. apply IH. Qed.
Lemma slice_app_consec {X} (l : list X) s n m : slice s n l ++ slice (s + n) m l = slice s (n + m) l.
Proof. unfold slice. rewrite firstn_plus, skipn_skipn'. reflexivity. Qed.
Lemma firstn_slice {X} (l : list X) s n k : firstn k (slice s n l) = slice s (Nat.min k n) l.
Proof. unfold slice. apply firstn_firstn. Qed.
Lemma slice_of_slice {X} (l : list X) s1 n1 s2 n2 : slice s2 n2 (slice s1 n1 l) = slice (s1 + s2) (Nat.min n2 (n1 - s2)) l.
Proof.
  destruct (Nat.le_ge_cases s2 n1) as [Hle|Hge].
  - rewrite (slice_trunc (slice s1 n1 l) s2 n2), slice_length.
    rewrite slice_slice by lia. rewrite (slice_trunc l (s1 + s2) (Nat.min n2 (n1 - s2))).
    f_equal. lia.
  - replace (n1 - s2) with 0 by lia. rewrite Nat.min_0_r, slice_zero_len.
    unfold slice at 1. rewrite skipn_all2; [apply firstn_nil|]. rewrite slice_length. lia.
Qed.
Lemma slice_app_l {X} (a b : list X) s n : s <= length a -> slice s n (a ++ b) = slice s n a ++ firstn (n - (length a - s)) b.
Proof.
  intros Hs. unfold slice. rewrite skipn_app. replace (s - length a) with 0 by lia. simpl.
  rewrite firstn_app, skipn_length. reflexivity.
Qed.

Lemma concat_map_uniform_length {X Y} (g : X -> list Y) k (l : list X) : (forall x, length (g x) = k) -> length (concat (map g l)) = length l * k.
Proof. intros Hg. induction l as [|x l IH]; simpl; [reflexivity|]. rewrite app_length, Hg, IH. lia. Qed.
Lemma skipn_concat_uniform {X Y} (g : X -> list Y) k (l : list X) s : (forall x, length (g x) = k) ->
  skipn (s * k) (concat (map g l)) = concat (map g (skipn s l)).
Proof.
  intros Hg. revert l. induction s as [|s IH]; intros l; [reflexivity|].
  destruct l as [|x l]; [simpl; apply skipn_nil|]. simpl map. simpl concat.
  replace (S s * k) with (length (g x) + s * k) by (rewrite Hg; lia).
  rewrite <- skipn_skipn', skipn_app, Nat.sub_diag, skipn_all. simpl. apply IH.
Qed.
Lemma firstn_concat_uniform {X Y} (g : X -> list Y) k (l : list X) n : (forall x, length (g x) = k) ->
  firstn (n * k) (concat (map g l)) = concat (map g (firstn n l)).
Proof.
  intros Hg. revert l. induction n as [|n IH]; intros l; [reflexivity|].
  destruct l as [|x l]; [simpl; apply firstn_nil|]. simpl map. simpl concat.
  replace (S n * k) with (length (g x) + n * k) by (rewrite Hg; lia).
  rewrite firstn_app_2. f_equal. apply IH.
Qed.
Lemma slice_concat_uniform {X Y} (g : X -> list Y) k (l : list X) s n : (forall x, length (g x) = k) ->
  slice (s * k) (n * k) (concat (map g l)) = concat (map g (slice s n l)).
Proof. intros Hg. unfold slice. rewrite (skipn_concat_uniform g k) by assumption. apply firstn_concat_uniform. assumption. Qed.

(* ---------- arithmetic of div_ceil *)
Lemma cdiv_0 b : 1 <= b -> cdiv 0 b = 0.
Proof. intros. unfold cdiv. apply Nat.div_small. lia. Qed.
Lemma cdiv_add b a : 1 <= b -> cdiv (a + b) b = S (cdiv a b).
Proof. intros. unfold cdiv. replace (a + b + b - 1) with (a + b - 1 + 1 * b) by lia. rewrite Nat.div_add by lia. lia. Qed.
Lemma cdiv_small a b : 1 <= a <= b -> cdiv a b = 1.
Proof.
  intros. unfold cdiv. replace (a + b - 1) with (a - 1 + 1 * b) by lia. rewrite Nat.div_add by lia.
  rewrite Nat.div_small by lia. reflexivity.
Qed.
Lemma cdiv_mul_ge a b : 1 <= b -> a <= cdiv a b * b.
Proof.
  intros. unfold cdiv. pose proof (Nat.div_mod (a + b - 1) b ltac:(lia)) as E.
  pose proof (Nat.mod_upper_bound (a + b - 1) b ltac:(lia)). nia.
Qed.
Lemma cdiv_mul_lt a b : 1 <= b -> 1 <= a -> (cdiv a b - 1) * b < a.
Proof.
  intros. unfold cdiv. pose proof (Nat.div_mod (a + b - 1) b ltac:(lia)) as E.
  pose proof (Nat.mod_upper_bound (a + b - 1) b ltac:(lia)). nia.
Qed.
Lemma cdiv_pos a b : 1 <= b -> 1 <= a -> 1 <= cdiv a b.
Proof. intros. pose proof (cdiv_mul_ge a b ltac:(lia)). destruct (cdiv a b); lia. Qed.
Lemma cdiv_unique a b q : 1 <= b -> (q - 1) * b < a <= q * b -> 1 <= a -> cdiv a b = q.
Proof.
  intros Hb [Hlo Hhi] Ha. pose proof (cdiv_mul_ge a b Hb). pose proof (cdiv_mul_lt a b Hb Ha).
  assert (~ cdiv a b < q) by nia. assert (~ q < cdiv a b) by nia. lia.
Qed.

Section Proofs.
Variables (A B : Type).
Variables (bw bh bpb : nat) (dec : list Z -> list A) (cv : A -> B).
Hypothesis Hbw : 1 <= bw.
Hypothesis Hbh : 1 <= bh.
Hypothesis Hbpb : 1 <= bpb.
Hypothesis Hdec : forall b, length (dec b) = bw * bh.

Notation full_row := (full_row A bw dec).
Notation X y := (fun b => slice (y * bw) bw (dec b)).

Lemma X_length y b : y < bh -> length (slice (y * bw) bw (dec b)) = bw.
Proof. intros Hy. rewrite slice_length, Hdec. nia. Qed.
Lemma full_row_length y blocks : y < bh -> length (full_row y blocks) = length blocks * bw.
Proof. intros Hy. unfold RectPath.full_row. apply concat_map_uniform_length. intros b. apply X_length. assumption. Qed.
Lemma full_row_cons y b bs : full_row y (b :: bs) = slice (y * bw) bw (dec b) ++ full_row y bs.
Proof. reflexivity. Qed.
Lemma full_row_slice y blocks s n : y < bh -> full_row y (slice s n blocks) = slice (s * bw) (n * bw) (full_row y blocks).
Proof. intros Hy. unfold RectPath.full_row. symmetry. apply slice_concat_uniform. intros b. apply X_length. assumption. Qed.

(* a ProcessBlocksFn is correct when row y of its output is the row of the decoded blocks without the first
   `woff` pixels, `width` pixels long *)
Definition rowfn_ok (f : rowfn A) : Prop := forall blocks width woff y,
  woff < bw -> 1 <= width -> length blocks = cdiv (woff + width) bw -> y < bh ->
  f blocks width woff y = slice woff width (full_row y blocks).

(* ---- general_process_blocks *)
Lemma gpb_go_later y width woff : woff < bw -> y < bh -> forall blocks bi, 1 <= bi ->
  gpb_go A bw dec y width woff bi blocks = firstn (width + woff - bi * bw) (full_row y blocks).
Proof.
  intros Hwo Hy blocks. induction blocks as [|b bs IH]; intros bi Hbi.
  - simpl. rewrite firstn_nil. reflexivity.
  - cbn [gpb_go]. replace (bi =? 0) with false by (symmetry; apply Nat.eqb_neq; lia).
    rewrite IH by lia. rewrite full_row_cons, firstn_app, X_length by assumption.
    rewrite firstn_slice. f_equal; f_equal; nia.
Qed.
Lemma first_block_step y b bs width woff : woff < bw -> y < bh ->
  slice (y * bw + woff) (Nat.min (bw - woff) width) (dec b) ++ firstn (width + woff - bw) (full_row y bs)
  = slice woff width (full_row y (b :: bs)).
Proof.
  intros Hwo Hy. rewrite full_row_cons, slice_app_l by (rewrite X_length by assumption; lia).
  rewrite X_length by assumption. rewrite slice_of_slice. f_equal.
  - f_equal. lia.
  - f_equal. lia.
Qed.
Lemma gpb_row_spec blocks width woff y : woff < bw -> y < bh ->
  gpb_row A bw dec blocks width woff y = slice woff width (full_row y blocks).
Proof.
  intros Hwo Hy. unfold gpb_row. destruct blocks as [|b bs].
  - cbn [gpb_go]. unfold RectPath.full_row. cbn [map concat]. rewrite slice_nil. reflexivity.
  - cbn [gpb_go Nat.eqb]. rewrite gpb_go_later by (assumption || lia).
    replace (Nat.min (Nat.min (bw - woff) width) (width + woff - 0 * bw)) with (Nat.min (bw - woff) width) by lia.
    replace (width + woff - 1 * bw) with (width + woff - bw) by lia.
    apply first_block_step; assumption.
Qed.
Theorem gpb_row_ok : rowfn_ok (gpb_row A bw dec).
Proof. intros blocks width woff y Hwo _ _ Hy. apply gpb_row_spec; assumption. Qed.

(* ---- "full blocks, then the partial last block" (the 4x4 fast path, the 2x1 helper) *)
Lemma full_then_partial y blocks w : y < bh -> length blocks = cdiv w bw ->
  concat (map (fun b => slice (y * bw) bw (dec b)) (firstn (w / bw) blocks))
  ++ (if w mod bw =? 0 then [] else slice (y * bw) (w - w / bw * bw) (dec (nth (w / bw) blocks [])))
  = firstn w (full_row y blocks).
Proof.
  intros Hy Hlen. pose proof (Nat.div_mod w bw ltac:(lia)) as E. pose proof (Nat.mod_upper_bound w bw ltac:(lia)) as Hm.
  destruct (w mod bw =? 0) eqn:Em.
  - apply Nat.eqb_eq in Em. rewrite app_nil_r.
    assert (length blocks = w / bw).
    { rewrite Hlen. destruct (Nat.eq_dec w 0) as [->|]; [rewrite cdiv_0, Nat.div_0_l by lia; reflexivity|].
      apply cdiv_unique; nia. }
    rewrite firstn_all2 by lia. rewrite firstn_all2; [reflexivity|]. rewrite full_row_length by assumption.
    rewrite H. rewrite Em, Nat.add_0_r in E. rewrite Nat.mul_comm. lia.
  - apply Nat.eqb_neq in Em.
    assert (Hw1 : 1 <= w). { destruct w; [rewrite Nat.mod_0_l in Em by lia; lia|lia]. }
    assert (Hl : length blocks = S (w / bw)).
    { rewrite Hlen. apply cdiv_unique; [lia| |lia]. simpl. rewrite Nat.sub_0_r. nia. }
    rewrite <- (firstn_skipn (w / bw) blocks) at 3.
    assert (Hs : skipn (w / bw) blocks = [nth (w / bw) blocks []]).
    { clear - Hl. revert Hl. generalize (w / bw) as n. intros n. revert blocks. induction n as [|n IH]; intros blocks Hl.
      - destruct blocks as [|b [|c r]]; simpl in Hl; try lia. reflexivity.
      - destruct blocks as [|b r]; simpl in Hl; [lia|]. simpl. apply IH. lia. }
    rewrite Hs. unfold RectPath.full_row. rewrite map_app, concat_app. simpl concat. rewrite app_nil_r.
    assert (Hcl : length (concat (map (fun b => slice (y * bw) bw (dec b)) (firstn (w / bw) blocks))) = w / bw * bw).
    { rewrite (concat_map_uniform_length _ bw) by (intros; apply X_length; assumption). rewrite firstn_length. lia. }
    rewrite firstn_app, Hcl. rewrite (firstn_all2 (n:=w)) by (rewrite Hcl; nia).
    f_equal. rewrite firstn_slice. f_equal. nia.
Qed.
End Proofs.

(* ---- process_4x4_blocks_helper: width offset first, then the aligned fast path or the general loop *)
Section P44.
Variables (A : Type) (dec : list Z -> list A).
Hypothesis Hdec : forall b, length (dec b) = 4 * 4.
Theorem p44_row_ok fast : rowfn_ok A 4 4 dec (p44_row A 4 dec fast).
Proof.
  intros blocks width woff y Hwo Hw Hlen Hy. unfold p44_row.
  destruct (woff =? 0) eqn:E0.
  - apply Nat.eqb_eq in E0. subst woff. cbn [app]. destruct fast.
    + unfold fast44_row. rewrite (full_then_partial A 4 4 1 dec ltac:(lia) ltac:(lia) ltac:(lia) Hdec y blocks width Hy Hlen). reflexivity.
    + apply (gpb_row_spec A 4 4 1 dec); (assumption || lia).
  - apply Nat.eqb_neq in E0. unfold hwo.
    destruct (Nat.min (4 - woff) width =? 0) eqn:Ep; [apply Nat.eqb_eq in Ep; lia|]. clear Ep.
    destruct blocks as [|b bs]; [pose proof (cdiv_pos (woff + width) 4 ltac:(lia) ltac:(lia)); cbn [length] in Hlen; lia|].
    cbn [firstn skipn].
    assert (Hbs : length bs = cdiv (width - Nat.min (4 - woff) width) 4).
    { cbn [length] in Hlen. destruct (Nat.le_gt_cases width (4 - woff)) as [Hle|Hgt].
      - rewrite cdiv_small in Hlen by lia. replace (width - Nat.min (4 - woff) width) with 0 by lia. rewrite cdiv_0 by lia. lia.
      - replace (woff + width) with (width - Nat.min (4 - woff) width + 4) in Hlen by lia. rewrite cdiv_add in Hlen by lia. lia. }
    rewrite (gpb_row_spec A 4 4 1 dec ltac:(lia) ltac:(lia) ltac:(lia) Hdec) by (assumption || lia).
    assert (Hsecond : (if fast then fast44_row A dec bs (width - Nat.min (4 - woff) width) y
                       else gpb_row A 4 dec bs (width - Nat.min (4 - woff) width) 0 y)
                      = firstn (width + woff - 4) (full_row A 4 dec y bs)).
    { replace (width + woff - 4) with (width - Nat.min (4 - woff) width) by lia. destruct fast.
      - unfold fast44_row. rewrite (full_then_partial A 4 4 1 dec ltac:(lia) ltac:(lia) ltac:(lia) Hdec y bs _ Hy Hbs). reflexivity.
      - rewrite (gpb_row_spec A 4 4 1 dec ltac:(lia) ltac:(lia) ltac:(lia) Hdec) by (assumption || lia). reflexivity. }
    rewrite Hsecond. rewrite <- (first_block_step A 4 4 1 dec ltac:(lia) ltac:(lia) ltac:(lia) Hdec y b bs width woff Hwo Hy).
    f_equal. unfold full_row. cbn [map concat]. rewrite app_nil_r, slice_of_slice. f_equal; lia.
Qed.
End P44.

(* ---- process_2x1_blocks_helper *)
Section P2x1.
Variables (A : Type) (dec : list Z -> list A).
Hypothesis Hdec : forall b, length (dec b) = 2 * 1.
Lemma last_nth {X} (l : list X) d n : length l = S n -> last l d = nth n l d.
Proof. revert n. induction l as [|x l IH]; intros n Hl; [simpl in Hl; lia|]. destruct l as [|z l]; [simpl in Hl; replace n with 0 by lia; reflexivity|].
  destruct n as [|n]; [simpl in Hl; lia|]. change (last (x :: z :: l) d) with (last (z :: l) d). change (nth (S n) (x :: z :: l) d) with (nth n (z :: l) d). apply IH. simpl in *. lia. Qed.
Lemma pairs_then_lone bl w : length bl = cdiv w 2 ->
  concat (map (fun b => slice 0 2 (dec b)) (firstn (w / 2) bl)) ++ (if w mod 2 =? 1 then slice 0 1 (dec (last bl [])) else [])
  = firstn w (full_row A 2 dec 0 bl).
Proof.
  intros Hl. rewrite <- (full_then_partial A 2 1 1 dec ltac:(lia) ltac:(lia) ltac:(lia) Hdec 0 bl w ltac:(lia) Hl). cbn [Nat.mul]. f_equal.
  pose proof (Nat.div_mod w 2 ltac:(lia)) as E. pose proof (Nat.mod_upper_bound w 2 ltac:(lia)) as Hm.
  destruct (w mod 2 =? 1) eqn:E1.
  - apply Nat.eqb_eq in E1. rewrite E1. cbn [Nat.eqb]. replace (w - w / 2 * 2) with 1 by lia.
    rewrite (last_nth bl [] (w / 2)); [reflexivity|]. rewrite Hl. apply cdiv_unique; lia.
  - apply Nat.eqb_neq in E1. replace (w mod 2) with 0 by lia. reflexivity.
Qed.
Theorem p2x1_row_ok : rowfn_ok A 2 1 dec (p2x1_row A dec).
Proof.
  intros blocks width woff y Hwo Hw Hlen Hy. assert (y = 0) by lia. subst y. unfold p2x1_row.
  destruct (woff =? 1) eqn:E1.
  - apply Nat.eqb_eq in E1. subst woff.
    destruct blocks as [|b bs]; [pose proof (cdiv_pos (1 + width) 2 ltac:(lia) ltac:(lia)); cbn [length] in Hlen; lia|].
    cbn [nth skipn].
    assert (Hbs : length bs = cdiv (width - 1) 2).
    { cbn [length] in Hlen. replace (1 + width) with (width - 1 + 2) in Hlen by lia. rewrite cdiv_add in Hlen by lia. lia. }
    rewrite (pairs_then_lone bs (width - 1) Hbs).
    rewrite <- (first_block_step A 2 1 1 dec ltac:(lia) ltac:(lia) ltac:(lia) Hdec 0 b bs width 1 ltac:(lia) ltac:(lia)).
    f_equal; [f_equal; lia | f_equal; lia].
  - apply Nat.eqb_neq in E1. assert (woff = 0) by lia. subst woff. cbn [app].
    rewrite (pairs_then_lone blocks width Hlen). reflexivity.
Qed.
End P2x1.

(* ---------- placement *)
Fixpoint tiles (segs : list (nat * nat)) (pos total : nat) : Prop :=
  match segs with
  | [] => total = 0
  | (c, n) :: r => c = pos /\ n <= total /\ tiles r (pos + n) (total - n)
  end.
Lemma place_slices {Y} (L : list Y) base segs : forall pos total, tiles segs pos total -> base + pos + total <= length L ->
  place (map (fun cn => (fst cn, slice (base + fst cn) (snd cn) L)) segs) pos = Some (slice (base + pos) total L).
Proof.
  induction segs as [|[c n] r IH]; intros pos total Ht Hb.
  - simpl in Ht. subst total. reflexivity.
  - destruct Ht as (-> & Hn & Ht). cbn [map place fst snd]. rewrite Nat.eqb_refl.
    assert (Hl : length (slice (base + pos) n L) = n) by (rewrite slice_length; lia).
    rewrite Hl, (IH (pos + n) (total - n) Ht) by lia. cbn [option_map]. f_equal.
    rewrite Nat.add_assoc, slice_app_consec. f_equal. lia.
Qed.
Lemma tiles_app s1 s2 : forall pos total n1, tiles s1 pos n1 -> n1 <= total -> tiles s2 (pos + n1) (total - n1) -> tiles (s1 ++ s2) pos total.
Proof.
  induction s1 as [|[c n] r IH]; intros pos total n1 H1 Hle H2.
  - simpl in H1. subst n1. rewrite Nat.add_0_r, Nat.sub_0_r in H2. exact H2.
  - destruct H1 as (-> & Hn & H1). cbn [app tiles]. repeat split; [lia|].
    apply (IH (pos + n) (total - n) (n1 - n) H1); [lia|]. replace (pos + n + (n1 - n)) with (pos + n1) by lia.
    replace (total - n - (n1 - n)) with (total - n1) by lia. exact H2.
Qed.
Lemma slice_seq s n : forall a N, s + n <= N -> slice s n (seq a N) = seq (a + s) n.
Proof.
  induction s as [|s IH]; intros a N H.
  - rewrite Nat.add_0_r. unfold slice. cbn [skipn]. revert a N H. induction n as [|n IHn]; intros a N H; [reflexivity|].
    destruct N as [|N]; [lia|]. cbn [seq firstn]. f_equal. apply IHn. lia.
  - destruct N as [|N]; [lia|]. unfold slice. cbn [seq skipn]. fold (slice s n (seq (S a) N)). rewrite IH by lia. f_equal. lia.
Qed.
Lemma chunk_tiles ow pcs w' : 1 <= pcs -> forall n s, s * pcs <= w' -> n = cdiv (w' - s * pcs) pcs ->
  tiles (map (fun k => (ow + k * pcs, Nat.min (k * pcs + pcs) w' - k * pcs)) (seq s n)) (ow + s * pcs) (w' - s * pcs).
Proof.
  intros Hp. induction n as [|n IH]; intros s Hs Hn.
  - cbn [seq map tiles]. pose proof (cdiv_mul_ge (w' - s * pcs) pcs Hp). lia.
  - assert (HR : 1 <= w' - s * pcs). { destruct (w' - s * pcs) eqn:E; [rewrite cdiv_0 in Hn by lia; lia|lia]. }
    cbn [seq map tiles]. split; [reflexivity|]. split; [lia|].
    destruct (Nat.le_gt_cases (w' - s * pcs) pcs) as [Hle|Hgt].
    + rewrite cdiv_small in Hn by lia. assert (n = 0) by lia. subst n. cbn [seq map tiles]. lia.
    + replace (ow + s * pcs + (Nat.min (s * pcs + pcs) w' - s * pcs)) with (ow + S s * pcs) by lia.
      replace (w' - s * pcs - (Nat.min (s * pcs + pcs) w' - s * pcs)) with (w' - S s * pcs) by lia.
      apply IH; [lia|]. replace (w' - s * pcs) with (w' - S s * pcs + pcs) in Hn by lia. rewrite cdiv_add in Hn by lia. lia.
Qed.

Section Calls.
Variables (A B : Type).
Variables (bw bh bpb : nat) (dec : list Z -> list A) (cv : A -> B).
Hypothesis Hbw : 1 <= bw.
Hypothesis Hbh : 1 <= bh.
Hypothesis Hbpb : 1 <= bpb.
Hypothesis Hdec : forall b, length (dec b) = bw * bh.
Variable f : rowfn A.
Hypothesis Hf : rowfn_ok A bw bh dec f.
Notation full_row := (full_row A bw dec).
Notation blocks_of := (blocks_of bpb).

Lemma blocks_of_length l : length (blocks_of l) = length l / bpb.
Proof. unfold RectPath.blocks_of. rewrite map_length, seq_length. reflexivity. Qed.
Lemma blocks_of_slice l s n : (s + n) * bpb <= length l -> blocks_of (slice (s * bpb) (n * bpb) l) = slice s n (blocks_of l).
Proof.
  intros H. unfold RectPath.blocks_of.
  assert (Hl : length (slice (s * bpb) (n * bpb) l) = n * bpb) by (rewrite slice_length; nia).
  rewrite Hl, Nat.div_mul by lia. rewrite slice_map, slice_seq.
  2:{ apply Nat.div_le_lower_bound; [lia|]. nia. }
  cbn [Nat.add].
  assert (Hg : forall m, seq m n = map (Nat.add m) (seq 0 n)).
  { clear. intros m. revert m. induction n as [|n IH]; intros m; [reflexivity|]. cbn [seq map]. rewrite Nat.add_0_r. f_equal.
    rewrite (IH (S m)), <- seq_shift, map_map. apply map_ext. intros a. lia. }
  rewrite (Hg s), map_map. apply map_ext_in. intros k Hk. apply in_seq in Hk.
  rewrite slice_of_slice. f_equal; nia.
Qed.

Definition call_ok (nblocks woff : nat) (c : call) : Prop :=
  c_woff c < bw /\ 1 <= c_width c /\ c_bcnt c = cdiv (c_woff c + c_width c) bw /\ c_boff c + c_bcnt c <= nblocks
  /\ c_boff c * bw + c_woff c = woff + c_col c.

Lemma call_row_spec enc nblocks woff y c : y < bh -> length enc = nblocks * bpb -> call_ok nblocks woff c ->
  call_row A B bpb cv f enc y c = slice (woff + c_col c) (c_width c) (map cv (full_row y (blocks_of enc))).
Proof.
  intros Hy Hl (Hwo & Hw & Hcnt & Hend & Hpos). unfold call_row.
  rewrite blocks_of_slice by nia.
  rewrite Hf; [| assumption | assumption | | assumption].
  2:{ rewrite slice_length, blocks_of_length, Hl, Nat.div_mul by lia. lia. }
  rewrite (full_row_slice A bw bh bpb dec Hbw Hbh Hbpb Hdec) by assumption.
  rewrite slice_of_slice, slice_map. f_equal. rewrite Hpos. f_equal.
  pose proof (cdiv_mul_ge (c_woff c + c_width c) bw Hbw). rewrite <- Hcnt in *. lia.
Qed.

Lemma pb_calls_ok conv bufpx nblocks w woff : woff < bw -> 1 <= w -> nblocks = cdiv (woff + w) bw -> (conv = true -> bw <= bufpx) ->
  Forall (call_ok nblocks woff) (pb_calls bw conv bufpx nblocks w woff)
  /\ tiles (map (fun c => (c_col c, c_width c)) (pb_calls bw conv bufpx nblocks w woff)) 0 w.
Proof.
  intros Hwo Hw Hnb Hbuf0. unfold pb_calls. destruct conv; cbn [negb].
  2:{ split; [constructor; [|constructor]; unfold call_ok; cbn; repeat split; lia | cbn; lia]. }
  pose proof (Hbuf0 eq_refl) as Hbuf. clear Hbuf0.
  pose proof (cdiv_pos (woff + w) bw Hbw ltac:(lia)) as Hnb1.
  pose proof (cdiv_mul_ge (woff + w) bw Hbw) as Hnbge. rewrite <- Hnb in *.
  set (pcs := bufpx - bufpx mod bw).
  assert (Hpcs : pcs = bufpx / bw * bw).
  { unfold pcs. pose proof (Nat.div_mod bufpx bw ltac:(lia)). lia. }
  assert (Hm1 : 1 <= bufpx / bw). { apply Nat.div_le_lower_bound; lia. }
  assert (Hpcs1 : bw <= pcs) by nia.
  set (ow := if woff =? 0 then 0 else Nat.min (bw - woff) w).
  set (skipb := if woff =? 0 then 0 else 1).
  set (w' := w - ow).
  assert (Hchunks : forall k, k < cdiv w' pcs ->
            call_ok nblocks woff (mkCall (skipb + k * pcs / bw) (cdiv (Nat.min (k * pcs + pcs) w' - k * pcs) bw)
                                         (Nat.min (k * pcs + pcs) w' - k * pcs) 0 (ow + k * pcs))).
  { intros k Hk. assert (Hcs : k * pcs < w').
    { destruct (Nat.eq_dec w' 0) as [E|E]; [rewrite E, cdiv_0 in Hk by lia; lia|].
      pose proof (cdiv_mul_lt w' pcs ltac:(lia) ltac:(lia)). nia. }
    assert (Hdiv : k * pcs / bw = k * (bufpx / bw)).
    { rewrite Hpcs, Nat.mul_assoc. apply Nat.div_mul. lia. }
    unfold call_ok. cbn [c_woff c_width c_bcnt c_boff c_col]. rewrite Hdiv.
    set (sz := Nat.min (k * pcs + pcs) w' - k * pcs). assert (1 <= sz) by lia.
    pose proof (cdiv_mul_lt sz bw Hbw ltac:(lia)) as Hlt.
    assert (Hkp : k * (bufpx / bw) * bw = k * pcs) by (rewrite Hpcs; lia).
    assert (How : w' <> 0 -> woff <> 0 -> ow = bw - woff).
    { unfold w', ow. destruct (woff =? 0) eqn:E0; [apply Nat.eqb_eq in E0; lia|]. lia. }
    assert (Hsk : skipb * bw = woff + ow).
    { unfold skipb. destruct (woff =? 0) eqn:E0.
      - apply Nat.eqb_eq in E0. unfold ow. rewrite E0. cbn. lia.
      - apply Nat.eqb_neq in E0. rewrite (How ltac:(lia) E0). lia. }
    repeat split; try lia.
    - assert (Hend : skipb * bw + k * pcs + sz <= woff + w). { unfold sz, w' in *. lia. }
      cbn [Nat.add]. pose proof (cdiv_pos sz bw Hbw ltac:(lia)) as Hq1.
      assert (Ha : (skipb + k * (bufpx / bw)) * bw = skipb * bw + k * pcs) by (rewrite Nat.mul_add_distr_r, Hkp; reflexivity).
      revert Hlt Hq1 Ha Hend Hnbge. generalize (cdiv sz bw) as q. generalize (skipb + k * (bufpx / bw)) as a.
      generalize (skipb * bw + k * pcs) as S0. clear - Hbw. intros S0 a q Hlt Hq1 Ha Hend Hnbge.
      destruct q as [|q]; [lia|]. cbn [Nat.sub] in Hlt. rewrite Nat.sub_0_r in Hlt.
      assert ((a + q) * bw < nblocks * bw) by nia.
      assert (a + q < nblocks) by (apply (Nat.mul_lt_mono_pos_r bw); lia). lia. }
  split.
  - apply Forall_app. split.
    + destruct (woff =? 0) eqn:E0; [constructor|]. apply Nat.eqb_neq in E0. constructor; [|constructor].
      unfold call_ok. cbn [c_woff c_width c_bcnt c_boff c_col]. repeat split; try lia. rewrite cdiv_small; lia.
    + apply Forall_forall. intros c Hc. apply in_map_iff in Hc. destruct Hc as (k & <- & Hk). apply in_seq in Hk.
      apply Hchunks. lia.
  - rewrite map_app, map_map. cbn [c_col c_width].
    apply (tiles_app _ _ 0 w ow).
    + unfold ow. destruct (woff =? 0) eqn:E0; cbn; lia.
    + unfold ow. destruct (woff =? 0); lia.
    + pose proof (chunk_tiles ow pcs w' ltac:(lia) (cdiv w' pcs) 0 ltac:(lia)) as Ht.
      cbn [Nat.mul] in Ht. rewrite Nat.sub_0_r, Nat.add_0_r in Ht. cbn [Nat.add]. unfold w' in *. apply Ht. reflexivity.
Qed.

(* one output row of one block line: whatever the chunking, the calls tile the row and write the crop of the
   decoded block row *)
Theorem process_blocks_row conv bufpx enc nblocks w woff y : y < bh -> woff < bw -> 1 <= w -> nblocks = cdiv (woff + w) bw ->
  length enc = nblocks * bpb -> (conv = true -> bw <= bufpx) ->
  place_exact (map (fun c => (c_col c, call_row A B bpb cv f enc y c)) (pb_calls bw conv bufpx nblocks w woff)) w
  = Some (slice woff w (map cv (full_row y (blocks_of enc)))).
Proof.
  intros Hy Hwo Hw Hnb Hl Hbuf. destruct (pb_calls_ok conv bufpx nblocks w woff Hwo Hw Hnb Hbuf) as [Hok Ht].
  set (L := map cv (full_row y (blocks_of enc))).
  assert (HL : length L = nblocks * bw).
  { unfold L. rewrite map_length, (full_row_length A bw bh bpb dec Hbw Hbh Hbpb Hdec) by assumption.
    rewrite blocks_of_length, Hl, Nat.div_mul by lia. reflexivity. }
  assert (Hmap : map (fun c => (c_col c, call_row A B bpb cv f enc y c)) (pb_calls bw conv bufpx nblocks w woff)
               = map (fun cn => (fst cn, slice (woff + fst cn) (snd cn) L)) (map (fun c => (c_col c, c_width c)) (pb_calls bw conv bufpx nblocks w woff))).
  { rewrite map_map. apply map_ext_in. intros c Hc. cbn [fst snd]. f_equal.
    apply (call_row_spec enc nblocks woff y c Hy Hl). rewrite Forall_forall in Hok. apply Hok. assumption. }
  unfold place_exact. rewrite Hmap.
  pose proof (cdiv_mul_ge (woff + w) bw Hbw) as Hge. rewrite <- Hnb in Hge.
  rewrite (place_slices L woff _ 0 w Ht) by lia. rewrite Nat.add_0_r, slice_length, HL.
  replace (Nat.min w (nblocks * bw - woff)) with w by lia. rewrite Nat.eqb_refl. reflexivity.
Qed.

Lemma sequence_map_some {X Y} (g : X -> Y) (F : X -> option Y) l : (forall x, In x l -> F x = Some (g x)) -> sequence (map F l) = Some (map g l).
Proof.
  induction l as [|x l IH]; intros H; [reflexivity|]. cbn [map sequence]. rewrite (H x (or_introl eq_refl)).
  rewrite IH by (intros z Hz; apply H; right; assumption). reflexivity.
Qed.

Variables (bufbytes bbpp : nat) (conv : bool).
Hypothesis Hbuf : conv = true -> 1 <= bbpp /\ bw * bh * bbpp <= bufbytes.

Lemma line_rows_spec enc nblocks w woff ln : l_rs ln < l_re ln -> l_re ln <= bh -> woff < bw -> 1 <= w -> nblocks = cdiv (woff + w) bw ->
  length enc = nblocks * bpb ->
  line_rows A B bw bpb cv f conv bufbytes bbpp enc nblocks w woff ln
  = Some (map (fun y => slice woff w (map cv (full_row y (blocks_of enc)))) (seq (l_rs ln) (l_re ln - l_rs ln))).
Proof.
  intros Hrs Hre Hwo Hw Hnb Hl. unfold line_rows. apply sequence_map_some. intros y Hy. apply in_seq in Hy.
  apply process_blocks_row; try assumption; try lia.
  intros Hc. destruct (Hbuf Hc) as [Hb1 Hb2]. apply Nat.div_le_lower_bound; [nia|].
  assert (l_re ln - l_rs ln <= bh) by lia. nia.
Qed.

(* ---- a whole surface / rectangle *)
Variables (W H : nat) (data : list Z).
Hypothesis HW : 1 <= W.
Hypothesis Hdata : length data = cdiv W bw * bpb * cdiv H bh.
Notation bpl := (cdiv W bw * bpb).
Notation spec_row := (spec_row A B bw bh bpb dec cv W data).
Notation spec_image := (spec_image A B bw bh bpb dec cv W H data).

Lemma cdiv_mono a b : a <= b -> cdiv a bw <= cdiv b bw.
Proof. intros. unfold cdiv. apply Nat.div_le_mono; lia. Qed.

Definition line_ok (ox oy w : nat) (bl : nat) (ln : line) : Prop :=
  l_rs ln < l_re ln /\ l_re ln <= bh /\ bl * bh + l_rs ln = oy + l_prow ln /\ bl * bh + l_re ln <= H.

Lemma block_line_length bl : bl < cdiv H bh -> length (slice (bl * bpl) bpl data) = bpl.
Proof. intros Hb. rewrite slice_length, Hdata. nia. Qed.

Lemma line_group ox oy w bl ln : ox + w <= W -> 1 <= w -> line_ok ox oy w bl ln ->
  line_rows A B bw bpb cv f conv bufbytes bbpp
    (slice (ox / bw * bpb) ((cdiv (ox + w) bw - ox / bw) * bpb) (slice (bl * bpl) bpl data)) (cdiv (ox + w) bw - ox / bw) w (ox mod bw) ln
  = Some (slice (oy + l_prow ln) (l_re ln - l_rs ln) (map (slice ox w) spec_image)).
Proof.
  intros Hox Hw (Hrs & Hre & Hpos & Hend).
  pose proof (Nat.div_mod ox bw ltac:(lia)) as Eox. pose proof (Nat.mod_upper_bound ox bw ltac:(lia)) as Hmod.
  assert (Hbl : bl < cdiv H bh).
  { pose proof (cdiv_mul_ge H bh Hbh). assert (~ cdiv H bh <= bl) by nia. lia. }
  assert (Hbre : cdiv (ox + w) bw <= cdiv W bw) by (apply cdiv_mono; lia).
  assert (Hsum : cdiv (ox + w) bw = cdiv (ox mod bw + w) bw + ox / bw).
  { rewrite Eox at 1. unfold cdiv. replace (bw * (ox / bw) + ox mod bw + w + bw - 1) with (ox mod bw + w + bw - 1 + ox / bw * bw) by lia.
    apply Nat.div_add. lia. }
  assert (Hnb : cdiv (ox + w) bw - ox / bw = cdiv (ox mod bw + w) bw) by lia.
  assert (Hbrs : ox / bw <= cdiv (ox + w) bw) by lia.
  rewrite line_rows_spec; try assumption; try lia.
  2:{ rewrite slice_length, block_line_length by assumption. nia. }
  f_equal. unfold RectPath.spec_image. rewrite slice_map, slice_map, slice_seq by lia. cbn [Nat.add].
  rewrite <- Hpos. rewrite map_map.
  assert (Hg : forall m n, seq m n = map (Nat.add m) (seq 0 n)).
  { clear. intros m n. revert m. induction n as [|n IH]; intros m; [reflexivity|]. cbn [seq map]. rewrite Nat.add_0_r. f_equal.
    rewrite (IH (S m)), <- seq_shift, map_map. apply map_ext. intros a. lia. }
  rewrite (Hg (l_rs ln)), (Hg (bl * bh + l_rs ln)), !map_map. apply map_ext_in. intros j Hj. apply in_seq in Hj.
  unfold RectPath.spec_row.
  replace ((bl * bh + l_rs ln + j) mod bh) with (l_rs ln + j) by (apply Nat.mod_unique with (q := bl); lia).
  replace ((bl * bh + l_rs ln + j) / bh) with bl by (apply Nat.div_unique with (r := l_rs ln + j); lia).
  rewrite blocks_of_slice by (rewrite block_line_length by assumption; nia).
  rewrite (full_row_slice A bw bh bpb dec Hbw Hbh Hbpb Hdec) by lia.
  rewrite <- slice_map, <- firstn_map. set (L := map cv (full_row _ _)). change (firstn W L) with (slice 0 W L).
  rewrite !slice_of_slice. cbn [Nat.add].
  f_equal; [lia|]. pose proof (cdiv_mul_ge (ox mod bw + w) bw Hbw). rewrite <- Hnb in *. lia.
Qed.

Lemma spec_image_length : length spec_image = H.
Proof. unfold RectPath.spec_image. rewrite map_length, seq_length. reflexivity. Qed.

Lemma assemble_spec ox oy w h first_line lines : ox + w <= W -> 1 <= w -> oy + h <= H ->
  (forall i ln, nth_error lines i = Some ln -> line_ok ox oy w (first_line + i) ln) ->
  tiles (map (fun ln => (l_prow ln, l_re ln - l_rs ln)) lines) 0 h ->
  assemble A B bw bpb cv first_line bpl (ox / bw) (cdiv (ox + w) bw) w (ox mod bw) h f conv bufbytes bbpp lines data
  = Some (crop_of ox oy w h spec_image).
Proof.
  intros Hox Hw Hoy Hok Ht. unfold assemble.
  set (L := map (slice ox w) spec_image).
  assert (Hseq : forall a, (forall i ln, nth_error lines i = Some ln -> line_ok ox oy w (first_line + a + i) ln) ->
     sequence (map (fun '(i, ln) =>
        option_map (fun rows => (l_prow ln, rows))
          (line_rows A B bw bpb cv f conv bufbytes bbpp
             (slice (ox / bw * bpb) ((cdiv (ox + w) bw - ox / bw) * bpb) (slice ((first_line + i) * bpl) bpl data))
             (cdiv (ox + w) bw - ox / bw) w (ox mod bw) ln)) (combine (seq a (length lines)) lines))
     = Some (map (fun cn => (fst cn, slice (oy + fst cn) (snd cn) L)) (map (fun ln => (l_prow ln, l_re ln - l_rs ln)) lines))).
  { clear Hok Ht. induction lines as [|ln lines' IH]; intros a Hok; [reflexivity|].
    cbn [length seq combine map sequence fst snd].
    rewrite (line_group ox oy w (first_line + a) ln Hox Hw).
    2:{ specialize (Hok 0 ln eq_refl). rewrite Nat.add_0_r in Hok. exact Hok. }
    cbn [option_map]. rewrite (IH (S a)).
    2:{ intros i l0 Hi. specialize (Hok (S i) l0 Hi). replace (first_line + S a + i) with (first_line + a + S i) by lia. exact Hok. }
    reflexivity. }
  rewrite (Hseq 0) by (intros i ln Hi; rewrite Nat.add_0_r; apply Hok; assumption).
  unfold place_exact. rewrite (place_slices L oy _ 0 h Ht) by (unfold L; rewrite map_length, spec_image_length; lia).
  rewrite Nat.add_0_r, slice_length. unfold L at 1. rewrite map_length, spec_image_length.
  replace (Nat.min h (H - oy)) with h by lia. rewrite Nat.eqb_refl. unfold crop_of, L. rewrite slice_map. reflexivity.
Qed.

(* ---- the block lines of the rectangle path *)
Lemma rect_lines_go_ok oy h : forall n bly prow,
  bly * bh <= oy + prow -> oy + prow < (bly + 1) * bh -> oy - bly * bh = oy + prow - bly * bh -> prow < h -> n = cdiv (h + oy) bh - bly ->
  (forall i ln, nth_error (rect_lines_go bh n bly prow oy h) i = Some ln ->
     l_rs ln < l_re ln /\ l_re ln <= bh /\ (bly + i) * bh + l_rs ln = oy + l_prow ln /\ (bly + i) * bh + l_re ln <= oy + h)
  /\ tiles (map (fun ln => (l_prow ln, l_re ln - l_rs ln)) (rect_lines_go bh n bly prow oy h)) prow (h - prow).
Proof.
  induction n as [|n IH]; intros bly prow Hlo Hhi Hrs Hp Hn.
  - exfalso. pose proof (cdiv_mul_ge (h + oy) bh Hbh). assert (cdiv (h + oy) bh <= bly) by lia. nia.
  - cbn [rect_lines_go].
    set (rs := oy - bly * bh) in *. set (re := Nat.min (oy + h - bly * bh) bh).
    assert (Hrsre : rs < re) by (unfold re; lia).
    destruct (Nat.le_gt_cases (oy + h) ((bly + 1) * bh)) as [Hlast|Hmore].
    + (* last block line *)
      assert (Hn0 : n = 0).
      { assert (cdiv (h + oy) bh = bly + 1); [|lia]. apply cdiv_unique; [lia| |lia].
        replace (bly + 1 - 1) with bly by lia. lia. }
      subst n. cbn [rect_lines_go map tiles]. split.
      * intros i ln Hi. destruct i as [|i]; [|destruct i; discriminate]. injection Hi as <-. cbn [l_rs l_re l_prow].
        rewrite Nat.add_0_r. unfold re. repeat split; lia.
      * cbn [l_rs l_re l_prow]. unfold re. repeat split; lia.
    + assert (Hre : re = bh) by (unfold re; lia).
      destruct (IH (S bly) (prow + (re - rs))) as [Hall Ht]; try lia.
      split.
      * intros i ln Hi. destruct i as [|i].
        -- injection Hi as <-. cbn [l_rs l_re l_prow]. rewrite Nat.add_0_r. repeat split; lia.
        -- cbn [nth_error] in Hi. specialize (Hall i ln Hi). replace (bly + S i) with (S bly + i) by lia. exact Hall.
      * cbn [map tiles l_rs l_re l_prow]. repeat split; [lia|].
        replace (h - prow - (re - rs)) with (h - (prow + (re - rs))) by lia. exact Ht.
Qed.

Theorem rect_image_is_crop ox oy w h : ox + w <= W -> oy + h <= H -> 1 <= w -> 1 <= h ->
  rect_image A B bw bh bpb cv f conv bufbytes bbpp W H ox oy w h data = Some (crop_of ox oy w h spec_image).
Proof.
  intros Hox Hoy Hw Hh. unfold rect_image.
  pose proof (Nat.div_mod oy bh ltac:(lia)) as Eoy. pose proof (Nat.mod_upper_bound oy bh ltac:(lia)) as Hmod.
  destruct (rect_lines_go_ok oy h (cdiv (h + oy) bh - oy / bh) (oy / bh) 0) as [Hall Ht]; try lia.
  apply assemble_spec; try assumption.
  - intros i ln Hi. destruct (Hall i ln Hi) as (H1 & H2 & H3 & H4). unfold line_ok. repeat split; try assumption. lia.
  - rewrite Nat.sub_0_r in Ht. exact Ht.
Qed.

(* ---- the block lines of the full path *)
Theorem full_image_is_spec : 1 <= H -> full_image A B bw bh bpb cv f conv bufbytes bbpp W H data = Some spec_image.
Proof.
  intros HH. unfold full_image.
  pose proof (assemble_spec 0 0 W H 0 (full_lines bh H)) as Hasm.
  rewrite Nat.div_0_l, Nat.mod_0_l in Hasm by lia. cbn [Nat.add] in Hasm.
  assert (Hcrop : crop_of 0 0 W H spec_image = spec_image).
  { unfold crop_of. rewrite slice_all by (rewrite spec_image_length; lia). unfold RectPath.spec_image. rewrite map_map.
    apply map_ext. intros y. apply slice_all. unfold RectPath.spec_row. rewrite map_length, firstn_length. lia. }
  rewrite <- Hcrop. apply Hasm; try lia.
  - intros i ln Hi. unfold full_lines in Hi. rewrite nth_error_map in Hi.
    destruct (nth_error (seq 0 (cdiv H bh)) i) as [k|] eqn:Ek; [|discriminate]. injection Hi as <-.
    assert (Hk : k = i /\ i < cdiv H bh).
    { pose proof (nth_error_nth _ _ 0 Ek) as Hnth. assert (i < length (seq 0 (cdiv H bh))) by (apply nth_error_Some; congruence).
      rewrite seq_length in *. rewrite seq_nth in Hnth by assumption. lia. }
    destruct Hk as [-> Hi]. unfold line_ok. cbn [l_rs l_re l_prow].
    pose proof (cdiv_mul_lt H bh Hbh HH). assert (i * bh < H) by nia. repeat split; lia.
  - unfold full_lines. rewrite map_map. cbn [l_rs l_re l_prow].
    assert (Hgen : forall n s, s * bh <= H -> n = cdiv (H - s * bh) bh ->
              tiles (map (fun x => (x * bh, Nat.min bh (H - x * bh) - 0)) (seq s n)) (s * bh) (H - s * bh)).
    { induction n as [|n IH]; intros s Hs Hn.
      - cbn [seq map tiles]. pose proof (cdiv_mul_ge (H - s * bh) bh Hbh). lia.
      - assert (HR : 1 <= H - s * bh). { destruct (H - s * bh) eqn:E; [rewrite cdiv_0 in Hn by lia; lia|lia]. }
        cbn [seq map tiles]. split; [reflexivity|]. split; [lia|].
        destruct (Nat.le_gt_cases (H - s * bh) bh) as [Hle|Hgt].
        + rewrite cdiv_small in Hn by lia. assert (n = 0) by lia. subst n. cbn [seq map tiles]. lia.
        + replace (s * bh + (Nat.min bh (H - s * bh) - 0)) with (S s * bh) by lia.
          replace (H - s * bh - (Nat.min bh (H - s * bh) - 0)) with (H - S s * bh) by lia.
          apply IH; [lia|]. replace (H - s * bh) with (H - S s * bh + bh) in Hn by lia. rewrite cdiv_add in Hn by lia. lia. }
    specialize (Hgen (cdiv H bh) 0 ltac:(lia)). cbn [Nat.mul] in Hgen. rewrite Nat.sub_0_r in Hgen. apply Hgen. reflexivity.
Qed.
End Calls.

(* ---------- the specification image, pixel by pixel: pixel (x, y) is entry (y mod bh) * bw + x mod bw of the decoded
   block (x / bw, y / bh) - the definition used by Crop.block_image *)
Lemma nth_concat_uniform {X Y} (g : X -> list Y) k (l : list X) i d dx : (forall x, length (g x) = k) -> 1 <= k -> i < length l * k ->
  nth i (concat (map g l)) d = nth (i mod k) (g (nth (i / k) l dx)) d.
Proof.
  intros Hg Hk. revert i. induction l as [|x l IH]; intros i Hi; [simpl in Hi; lia|].
  cbn [map concat]. destruct (Nat.lt_ge_cases i k) as [Hlt|Hge].
  - rewrite app_nth1 by (rewrite Hg; assumption). rewrite Nat.mod_small, Nat.div_small by assumption. reflexivity.
  - rewrite app_nth2 by (rewrite Hg; assumption). rewrite Hg. rewrite IH by (cbn [length] in Hi; lia).
    pose proof (Nat.div_mod (i - k) k ltac:(lia)) as E. pose proof (Nat.mod_upper_bound (i - k) k ltac:(lia)) as Hm.
    replace (i mod k) with ((i - k) mod k) by (apply Nat.mod_unique with (q := S ((i - k) / k)); lia).
    replace (i / k) with (S ((i - k) / k)) by (apply Nat.div_unique with (r := (i - k) mod k); lia).
    reflexivity.
Qed.

Lemma nth_map_in {X Y} (g : X -> Y) l i d dx : i < length l -> nth i (map g l) d = g (nth i l dx).
Proof. intros. rewrite (nth_indep _ d (g dx)) by (rewrite map_length; assumption). apply map_nth. Qed.

Section Pixel.
Variables (A B : Type).
Variables (bw bh bpb : nat) (dec : list Z -> list A) (cv : A -> B).
Hypothesis Hbw : 1 <= bw.
Hypothesis Hbh : 1 <= bh.
Hypothesis Hbpb : 1 <= bpb.
Hypothesis Hdec : forall b, length (dec b) = bw * bh.
Theorem spec_image_pixel W H data x y d : length data = cdiv W bw * bpb * cdiv H bh -> x < W -> y < H ->
  nth x (nth y (spec_image A B bw bh bpb dec cv W H data) []) (cv d)
  = cv (nth ((y mod bh) * bw + x mod bw) (dec (slice (((y / bh) * cdiv W bw + x / bw) * bpb) bpb data)) d).
Proof.
  intros Hdata Hx Hy. unfold spec_image.
  rewrite (nth_map_in _ _ y [] 0) by (rewrite seq_length; assumption). rewrite seq_nth by assumption. cbn [Nat.add]. unfold spec_row. rewrite map_nth. f_equal.
  rewrite nth_firstn' by assumption.
  pose proof (Nat.mod_upper_bound y bh ltac:(lia)) as Hym. pose proof (Nat.div_mod y bh ltac:(lia)) as Ey.
  pose proof (cdiv_mul_ge W bw Hbw) as HWge. pose proof (cdiv_mul_ge H bh Hbh) as HHge.
  assert (Hbl : y / bh < cdiv H bh). { assert (~ cdiv H bh <= y / bh) by nia. lia. }
  assert (Hll : length (slice (y / bh * (cdiv W bw * bpb)) (cdiv W bw * bpb) data) = cdiv W bw * bpb) by (rewrite slice_length, Hdata; nia).
  assert (Hxb : x / bw < cdiv W bw). { pose proof (Nat.div_mod x bw ltac:(lia)). pose proof (Nat.mod_upper_bound x bw ltac:(lia)). assert (~ cdiv W bw <= x / bw) by nia. lia. }
  unfold full_row. rewrite (nth_concat_uniform _ bw _ x d []).
  2:{ intros b. rewrite slice_length, Hdec. nia. }
  2:{ assumption. }
  2:{ unfold blocks_of. rewrite map_length, seq_length, Hll, Nat.div_mul by lia. lia. }
  rewrite nth_slice by (apply Nat.mod_upper_bound; lia). f_equal. f_equal.
  unfold blocks_of. rewrite Hll, Nat.div_mul by lia.
  rewrite (nth_map_in _ _ (x / bw) [] 0) by (rewrite seq_length; assumption). rewrite seq_nth by assumption. cbn [Nat.add]. rewrite slice_of_slice. f_equal; nia.
Qed.
End Pixel.
