(* C04: half floats.  For all 65536 codes: the F32 output is the exact value (sign, infinities and NaN kept),
   the 8-bit output is clamp01(value) * 255 rounded to nearest (negative, NaN -> 0; +inf -> 255), and so is the
   16-bit output EXCEPT on the four codes 0x3801..0x3804 (finding F11: the f32 product (m + 1024) * 2^(e-25) * 65535
   is rounded before 0.5 is added). *)
From Coq Require Import ZArith List Bool Lia.
From DDSV Require Import model.Float model.Convert spec.SpecNum proofs.ConvertProofsA.
Import ListNotations.
Local Open Scope Z_scope.
Definition f11_codes : list Z := [14337; 14338; 14339; 14340].
Lemma t_fp16 : forallb (fun x => small_ok 10 true fp16_n8 255 x && small_exact 10 true x &&
  (small_ok 10 true fp16_n16 65535 x || existsb (Z.eqb x) f11_codes)) (zrange 65536) = true.
Proof. vm_compute. reflexivity. Qed.
Theorem fp16_ok x : 0 <= x < 65536 ->
  small_ok 10 true fp16_n8 255 x = true /\ small_exact 10 true x = true /\ (~ In x f11_codes -> small_ok 10 true fp16_n16 65535 x = true).
Proof.
  intros Hx. pose proof (zsweep _ _ t_fp16 x Hx) as H. cbv beta in H. apply andb_prop in H. destruct H as [H C]. apply andb_prop in H. destruct H as [A B].
  split; [exact A|]. split; [exact B|]. intros Hn. apply orb_prop in C. destruct C as [C|C]; [exact C|].
  exfalso. apply Hn. apply existsb_exists in C. destruct C as [y [Hy Ey]]. apply Z.eqb_eq in Ey. subst y. exact Hy.
Qed.
(* the finding itself: on these four codes the 16-bit output is off by one from the nearest value *)
Theorem fp16_n16_refuted : forall x, In x f11_codes -> small_ok 10 true fp16_n16 65535 x = false.
Proof. intros x H. cbn [In f11_codes] in H. destruct H as [<-|[<-|[<-|[<-|[]]]]]; vm_compute; reflexivity. Qed.
Example fp16_n16_witness : fp16_n16 14337 = 32800 /\ nearest 32799 (1025 * 65535) 2048.
Proof. split; [vm_compute; reflexivity|unfold nearest; lia]. Qed.
