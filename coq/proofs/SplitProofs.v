(* C14: fragments partition the image; a row-group-local encoder commutes with the split *)
From DDSV Require Import base.Machine model.Split.

Section Frag.
  Variables (w h sh fp : N) (ld : bool) (sup req : bool * bool) (fh : N).
  Hypothesis Hw : 1 <= w < U32.
  Hypothesis Hh : 1 <= h < U32.
  Hypothesis Hsh : sh <= 255.
  Hypothesis Hfh : fragment_height w h sh ld sup req fp = Some fh.

  Lemma fh_facts : 1 <= sh /\ 1 <= fh < U32 /\ fh mod sh = 0 /\ N.max fp 1 < w * h /\
                   (fh = sh \/ fh * w <= N.max fp 1).
  Proof.
    unfold fragment_height in Hfh.
    destruct (N.eqb_spec w 0); [lia|]. destruct (N.eqb_spec h 0); [lia|]. cbn [orb] in Hfh.
    destruct (N.eqb_spec sh 0) as [|Hs]; [discriminate|].
    destruct (negb ld && dither_intersects req sup); [discriminate|].
    destruct (N.leb_spec (w * h) (N.max fp 1)) as [|Hbig]; [discriminate|].
    set (F := N.max fp 1) in *.
    destruct (N.leb_spec U32 (F / w / sh * sh)) as [|Hsmall]; [discriminate|].
    injection Hfh as Hf.
    pose proof (N.div_mod (F / w) sh ltac:(lia)) as E1. pose proof (N.mod_lt (F / w) sh ltac:(lia)).
    pose proof (N.div_mod F w ltac:(lia)) as E2. pose proof (N.mod_lt F w ltac:(lia)).
    set (a := F / w) in *. set (q := a / sh) in *. set (r1 := a mod sh) in *. set (r2 := F mod w) in *.
    destruct (N.eqb_spec (q * sh) 0) as [Hz|Hz].
    - subst fh. split; [lia|]. split; [unfold U32 in *; lia|]. split; [apply N.mod_same; lia|]. split; [lia|]. left. reflexivity.
    - subst fh. split; [lia|]. split; [lia|]. split; [apply N.mod_mul; lia|]. split; [lia|]. right. nia.
  Qed.

  Definition len : N := split_len h (Some fh).

  Lemma len_facts : 1 <= len /\ (len - 1) * fh < h <= len * fh.
  Proof.
    destruct fh_facts as [_ [Hf _]]. unfold len, split_len.
    pose proof (div_ceil_spec h fh ltac:(lia)) as [A B].
    destruct (N.eqb_spec h 0); [lia|].
    assert (1 <= div_ceil h fh). { unfold div_ceil. apply N.div_le_lower_bound; lia. }
    lia.
  Qed.

  (* every fragment index yields a non-empty row range without overflow; ranges are consecutive,
     start at 0 and end at h; all but the last have exactly the full fragment height *)
  Theorem fragments_partition : forall i, i < len ->
    exists s e, fragment_rows h (Some fh) i = Some (s, e) /\
      s = i * fh /\ s < e /\ e = N.min ((i + 1) * fh) h /\
      (i + 1 < len -> e - s = fh /\ (e - s) mod sh = 0) /\
      (i + 1 = len -> e = h).
  Proof.
    intros i Hi. destruct fh_facts as [Hs [Hf [Hmod _]]]. destruct len_facts as [Hl [Hlo Hhi]].
    assert (Hstart : i * fh < h) by nia.
    unfold fragment_rows.
    destruct (N.leb_spec U32 (i * fh)); [lia|].
    replace (i * fh <? h) with true by (symmetry; apply N.ltb_lt; exact Hstart). cbn [negb].
    eexists _, _. split; [reflexivity|]. split; [reflexivity|].
    assert (He : N.min (N.min (i * fh + fh) (U32 - 1)) h = N.min ((i + 1) * fh) h).
    { destruct (N.min_spec (i * fh + fh) (U32 - 1)) as [[A ->]|[A ->]]; [f_equal; lia|].
      rewrite !N.min_r by lia. reflexivity. }
    rewrite He. split; [destruct (N.min_spec ((i + 1) * fh) h) as [[? ->]|[? ->]]; nia|].
    split; [reflexivity|]. split.
    - intros Hn. assert ((i + 1) * fh <= (len - 1) * fh) by (apply N.mul_le_mono_r; lia).
      rewrite N.min_l by lia. split; [lia|]. replace ((i + 1) * fh - i * fh) with fh by lia. exact Hmod.
    - intros Hn. rewrite Hn. apply N.min_r. lia.
  Qed.
End Frag.

(* ---- a row-group-local encoder commutes with splitting at group boundaries *)
Section Local.
  Context {R B : Type}.
  Variable g : nat.                       (* rows per group (the split height) *)
  Variable enc_group : list R -> list B.  (* encoding of one group of at most g rows (last group may be short) *)
  Hypothesis Hg : (1 <= g)%nat.

  Fixpoint chunks (fuel : nat) (rows : list R) : list (list R) :=
    match fuel with
    | O => []
    | S f => match rows with [] => [] | _ => firstn g rows :: chunks f (skipn g rows) end
    end.
  Definition enc (rows : list R) : list B := flat_map enc_group (chunks (length rows) rows).

  Lemma chunks_fuel2 : forall f1 f2 rows, (length rows <= f1)%nat -> (length rows <= f2)%nat -> chunks f1 rows = chunks f2 rows.
  Proof.
    induction f1 as [|f1 IH]; intros f2 rows H1 H2.
    - destruct rows; [destruct f2; reflexivity|cbn in H1; lia].
    - destruct rows as [|r rows]; [destruct f2; reflexivity|].
      destruct f2 as [|f2]; [cbn in H2; lia|]. cbn [chunks]. f_equal.
      apply IH; rewrite skipn_length; cbn [length] in *; lia.
  Qed.
  Lemma chunks_fuel : forall fuel rows, (length rows <= fuel)%nat -> chunks fuel rows = chunks (length rows) rows.
  Proof. intros fuel rows H. apply chunks_fuel2; [exact H|lia]. Qed.

  Lemma chunks_app : forall k r1 r2, length r1 = (k * g)%nat ->
    chunks (length (r1 ++ r2)) (r1 ++ r2) = chunks (length r1) r1 ++ chunks (length r2) r2.
  Proof.
    induction k as [|k IH]; intros r1 r2 Hl.
    - destruct r1; [reflexivity|cbn in Hl; lia].
    - assert (Hge : (g <= length r1)%nat) by (rewrite Hl; cbn; lia).
      destruct r1 as [|a r1']; [cbn in Hge; lia|].
      cbn [app length chunks].
      change (a :: r1' ++ r2) with ((a :: r1') ++ r2).
      rewrite firstn_app, skipn_app. replace (g - length (a :: r1'))%nat with 0%nat by lia.
      cbn [firstn skipn]. rewrite app_nil_r. cbn [app]. f_equal.
      rewrite (chunks_fuel (length (r1' ++ r2))) by (rewrite !app_length, skipn_length; cbn [length]; lia).
      rewrite (chunks_fuel (length r1') (skipn g (a :: r1'))) by (rewrite skipn_length; cbn [length]; lia).
      apply IH. rewrite skipn_length, Hl. cbn. lia.
  Qed.

  Theorem group_local_concat : forall k r1 r2, length r1 = (k * g)%nat -> enc (r1 ++ r2) = enc r1 ++ enc r2.
  Proof. intros k r1 r2 Hl. unfold enc. rewrite (chunks_app k r1 r2 Hl). apply flat_map_app. Qed.
End Local.

Lemma skipn_skipn' {A} : forall a b (l : list A), skipn a (skipn b l) = skipn (b + a) l.
Proof.
  intros a b. revert a. induction b as [|b IH]; intros a l; [reflexivity|].
  destruct l as [|x l]; [cbn; destruct a; reflexivity|]. cbn [skipn Nat.add]. apply IH.
Qed.

Section ChunkFacts.
  Context {R : Type}.
  Variable f : nat.
  (* the i-th fragment is the slice [i*f, min((i+1)*f, n)) *)
  Lemma chunks_nth : forall fuel (rows : list R) i, (1 <= f)%nat -> (length rows <= fuel)%nat -> (i * f < length rows)%nat ->
    nth_error (chunks f fuel rows) i = Some (firstn f (skipn (i * f) rows)).
  Proof.
    induction fuel as [|fuel IH]; intros rows i H1 Hl Hi.
    - lia.
    - destruct rows as [|r rows]; [cbn in Hi; lia|]. cbn [chunks].
      destruct i as [|i]; [reflexivity|]. cbn [nth_error].
      rewrite IH; [|exact H1|rewrite skipn_length; cbn [length] in *; lia|rewrite skipn_length; cbn [length] in *; nia].
      rewrite skipn_skipn'. replace (f + i * f)%nat with (S i * f)%nat by lia. reflexivity.
  Qed.
  Lemma chunks_length : forall fuel (rows : list R), (1 <= f)%nat -> (length rows <= fuel)%nat ->
    length (chunks f fuel rows) = Nat.div (length rows + f - 1) f.
  Proof.
    induction fuel as [|fuel IH]; intros rows H1 Hl.
    - destruct rows; [|cbn in Hl; lia]. cbn. symmetry. apply Nat.div_small. lia.
    - destruct rows as [|r rows]; [cbn; symmetry; apply Nat.div_small; lia|].
      cbn [chunks length]. rewrite IH; [|exact H1|rewrite skipn_length; cbn [length] in *; lia].
      rewrite skipn_length. cbn [length].
      destruct (Nat.le_gt_cases (S (length rows)) f) as [Hs|Hs].
      + replace (S (length rows) - f)%nat with 0%nat by lia. replace (0 + f - 1)%nat with (f - 1)%nat by lia.
        rewrite Nat.div_small by lia.
        assert (S (length rows) + f - 1 = 1 * f + (S (length rows) - 1))%nat as -> by lia.
        rewrite Nat.div_add_l by lia. rewrite Nat.div_small by lia. reflexivity.
      + assert (S (length rows) + f - 1 = 1 * f + (S (length rows) - f + f - 1))%nat as -> by lia.
        rewrite Nat.div_add_l by lia. lia.
  Qed.
End ChunkFacts.

(* ---- parallel = sequential for a row-group-local encoder *)
Section Parallel.
  Context {R B : Type}.
  Variables (g f : nat) (enc_group : list R -> list B).
  Hypothesis Hg : (1 <= g)%nat.
  Hypothesis Hf : exists k, (1 <= k)%nat /\ f = (k * g)%nat.     (* the fragment height is a positive multiple of the group height *)

  Let encode := enc g enc_group.

  (* cutting the rows into fragments of f rows and encoding each one equals encoding all rows *)
  Lemma enc_fragments : forall fuel (rows : list R), (length rows <= fuel)%nat ->
    flat_map encode (chunks f fuel rows) = encode rows.
  Proof.
    destruct Hf as [k [Hk ->]].
    induction fuel as [|fuel IH]; intros rows Hl.
    - destruct rows; [reflexivity|cbn in Hl; lia].
    - destruct rows as [|r rows]; [reflexivity|].
      cbn [chunks flat_map].
      rewrite IH by (rewrite skipn_length; cbn [length] in *; nia).
      destruct (Nat.le_gt_cases (length (r :: rows)) (k * g)) as [Hs|Hs].
      + rewrite firstn_all2 by exact Hs. rewrite skipn_all2 by exact Hs. unfold encode, enc. cbn. rewrite app_nil_r. reflexivity.
      + unfold encode. rewrite <- (group_local_concat g enc_group Hg k).
        * rewrite firstn_skipn. reflexivity.
        * rewrite firstn_length. lia.
  Qed.

End Parallel.

(* encode_parallel of the model (index-ordered collection of the fragments of C14's geometry) equals the
   sequential encoding of all rows, for every encoder that is local to groups of sh rows *)
Theorem parallel_eq_sequential {R B : Type} (enc_group : list R -> list B) (rows : list R)
        (w h sh fp : N) (ld : bool) (sup req : bool * bool) (fh : N) :
  1 <= w < U32 -> 1 <= h < U32 -> sh <= 255 -> N.of_nat (length rows) = h ->
  fragment_height w h sh ld sup req fp = Some fh ->
  let encode := enc (N.to_nat sh) enc_group in
  encode_parallel (fun r => encode (firstn (N.to_nat (snd r - fst r)) (skipn (N.to_nat (fst r)) rows))) h (Some fh)
  = Some (encode rows).
Proof.
  intros Hw Hh Hsh Hlen Hfh encode.
  destruct (fh_facts w h sh fp ld sup req fh Hw Hh Hsh Hfh) as [Hs [Hf [Hmod _]]].
  destruct (len_facts w h sh fp ld sup req fh Hw Hh Hsh Hfh) as [Hl [Hlo Hhi]].
  set (L := len h fh) in *.
  assert (Hk : exists k, (1 <= k)%nat /\ N.to_nat fh = (k * N.to_nat sh)%nat).
  { exists (N.to_nat (fh / sh)). pose proof (N.div_mod fh sh ltac:(lia)) as E. rewrite Hmod in E.
    split; [|nia]. assert (1 <= fh / sh) by nia. lia. }
  subst encode.
  rewrite <- (enc_fragments (N.to_nat sh) (N.to_nat fh) enc_group ltac:(lia) Hk (length rows) rows (le_n _)).
  set (encode := enc (N.to_nat sh) enc_group).
  (* both sides enumerate the same slices *)
  unfold encode_parallel. fold L. change (split_len h (Some fh)) with L.
  assert (Hgen : forall n s, N.of_nat n + s = L ->
     fold_right (fun i acc => match fragment_rows h (Some fh) i, acc with
                              | Some r, Some l => Some (encode (firstn (N.to_nat (snd r - fst r)) (skipn (N.to_nat (fst r)) rows)) ++ l)
                              | _, _ => None end) (Some []) (nseq n s)
     = Some (flat_map encode (skipn (N.to_nat s) (chunks (N.to_nat fh) (length rows) rows)))).
  { induction n as [|n IH]; intros s Hn; cbn [nseq fold_right].
    - rewrite skipn_all2; [reflexivity|].
      rewrite chunks_length by lia. 
      assert (Nat.div (length rows + N.to_nat fh - 1) (N.to_nat fh) = N.to_nat L); [|lia].
      unfold L, len, split_len, div_ceil. rewrite <- Hlen.
      replace (length rows + N.to_nat fh - 1)%nat with (N.to_nat (N.of_nat (length rows) + fh - 1)) by lia.
      rewrite <- N2Nat.inj_div. reflexivity.
    - rewrite IH by lia.
      destruct (fragments_partition w h sh fp ld sup req fh Hw Hh Hsh Hfh s ltac:(fold L; lia)) as [st [en [Hr [Hst [Hlt [Hen _]]]]]].
      rewrite Hr. cbn [fst snd]. f_equal.
      assert (Hnth : nth_error (chunks (N.to_nat fh) (length rows) rows) (N.to_nat s) = Some (firstn (N.to_nat fh) (skipn (N.to_nat s * N.to_nat fh) rows))).
      { apply chunks_nth; [lia|lia|]. nia. }
      destruct (nth_error_split _ _ Hnth) as [l1 [l2 [E Hl1]]].
      rewrite E. rewrite !skipn_app. rewrite !Hl1.
      replace (N.to_nat s - N.to_nat s)%nat with 0%nat by lia. replace (N.to_nat (s + 1) - N.to_nat s)%nat with 1%nat by lia.
      rewrite (skipn_all2 (n := N.to_nat s) l1) by lia. rewrite (skipn_all2 (n := N.to_nat (s + 1)) l1) by lia. cbn [skipn app flat_map]. f_equal.
      (* the slice the implementation takes equals the chunk *)
      f_equal. subst st en. replace (N.to_nat (s * fh)) with (N.to_nat s * N.to_nat fh)%nat by lia.
      set (tl := skipn (N.to_nat s * N.to_nat fh) rows).
      assert (Htl : length tl = (length rows - N.to_nat s * N.to_nat fh)%nat) by (unfold tl; apply skipn_length).
      destruct (N.min_spec ((s + 1) * fh) h) as [[A ->]|[A ->]].
      + replace (N.to_nat ((s + 1) * fh - s * fh)) with (N.to_nat fh) by lia. reflexivity.
      + rewrite (firstn_all2 (n := N.to_nat fh)) by lia. rewrite firstn_all2 by lia. reflexivity. }
  rewrite (Hgen (N.to_nat L) 0 ltac:(lia)). cbn [N.to_nat skipn]. reflexivity.
Qed.
