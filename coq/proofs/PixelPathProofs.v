(* C05: the uncompressed code paths of src/decode/read_write.rs (model/PixelPath.v) compute the crop of the full
   decode, for every encoded pixel size, pixel decoder, channel conversion, conversion-buffer size, surface,
   rectangle and data; the reader ends exactly at the end of the surface. *)
From Coq Require Import ZArith List Bool Lia Arith.
From DDSV Require Import model.Crop model.RectPath model.PixelPath proofs.CropProofs proofs.RectPathProofs.
Import ListNotations.

Lemma blocks_of_slice' bpb l s n : 1 <= bpb -> (s + n) * bpb <= length l ->
  blocks_of bpb (slice (s * bpb) (n * bpb) l) = slice s n (blocks_of bpb l).
Proof. intros Hb H. apply (blocks_of_slice unit 1 1 bpb (fun _ => [tt])); auto. Qed.

Lemma blocks_of_nth bpb l k d : 1 <= bpb -> k < length l / bpb -> nth k (blocks_of bpb l) d = slice (k * bpb) bpb l.
Proof.
  intros Hb Hk. unfold blocks_of. rewrite (nth_map_in _ _ k d 0) by (rewrite seq_length; assumption).
  rewrite seq_nth by assumption. reflexivity.
Qed.

Section Proofs.
Variables (A B : Type).
Variables (enc : nat) (decpx : list Z -> A) (cv : A -> B).
Hypothesis Henc : 1 <= enc.

(* ---- process_pixels: whatever the chunking, the row is the conversion of its decoded pixels *)
Theorem pp_row_spec conv bufpx rowbytes pixels : 1 <= pixels -> length rowbytes = pixels * enc -> (conv = true -> 1 <= bufpx) ->
  pp_row A B decpx cv conv bufpx rowbytes pixels = Some (map cv (map decpx (blocks_of enc rowbytes))).
Proof.
  intros Hp Hl Hbuf. unfold pp_row. replace (length rowbytes / pixels) with enc by (rewrite Hl, Nat.mul_comm, Nat.div_mul by lia; reflexivity).
  set (L := map cv (map decpx (blocks_of enc rowbytes))).
  assert (HL : length L = pixels) by (unfold L; rewrite !map_length, blocks_of_length, Hl, Nat.div_mul by lia; reflexivity).
  assert (Ht : tiles (pp_calls conv bufpx pixels) 0 pixels).
  { unfold pp_calls. destruct conv; cbn [negb].
    - pose proof (chunk_tiles 0 bufpx pixels (Hbuf eq_refl) (cdiv pixels bufpx) 0 ltac:(lia)) as H0.
      cbn [Nat.mul Nat.add] in H0. rewrite Nat.sub_0_r in H0. apply H0. reflexivity.
    - cbn. lia. }
  assert (Hin : forall sn, In sn (pp_calls conv bufpx pixels) -> fst sn + snd sn <= pixels).
  { unfold pp_calls. destruct conv; cbn [negb]; intros sn Hs.
    - apply in_map_iff in Hs. destruct Hs as (k & <- & Hk). apply in_seq in Hk. cbn [fst snd].
      assert (k * bufpx < pixels); [|lia].
      pose proof (Hbuf eq_refl). destruct (Nat.eq_dec pixels 0); [lia|]. pose proof (cdiv_mul_lt pixels bufpx ltac:(lia) ltac:(lia)). nia.
    - destruct Hs as [<-|[]]. cbn. lia. }
  assert (Hmap : map (fun sn => (fst sn, map cv (px_fn A decpx enc (slice (fst sn * enc) (snd sn * enc) rowbytes)))) (pp_calls conv bufpx pixels)
               = map (fun cn => (fst cn, slice (0 + fst cn) (snd cn) L)) (pp_calls conv bufpx pixels)).
  { apply map_ext_in. intros sn Hs. f_equal. unfold px_fn. rewrite blocks_of_slice' by (try assumption; specialize (Hin sn Hs); nia).
    cbn [Nat.add]. unfold L. rewrite !slice_map. reflexivity. }
  unfold place_exact. rewrite Hmap, (place_slices L 0 _ 0 pixels Ht) by lia. cbn [Nat.add].
  rewrite slice_length, HL, Nat.sub_0_r, Nat.min_id, Nat.eqb_refl. rewrite slice_all by lia. reflexivity.
Qed.

(* ---- the reads of the rectangle path *)
Lemma pixel_reads_go_spec data rowlen gap : forall n first pos,
  pixel_reads_go n first pos rowlen gap data
  = (map (fun k => slice ((if first then pos else pos + gap) + k * (rowlen + gap)) rowlen data) (seq 0 n),
     match n with O => pos | S _ => (if first then pos else pos + gap) + n * (rowlen + gap) - gap end).
Proof.
  induction n as [|n IH]; intros first pos; [reflexivity|].
  cbn [pixel_reads_go]. rewrite IH. cbn [fst snd seq map]. f_equal.
  - f_equal; [f_equal; lia|]. rewrite <- seq_shift, map_map. apply map_ext. intros k. f_equal. lia.
  - destruct n; lia.
Qed.

Variables (W H : nat) (data : list Z).
Hypothesis Hdata : length data = W * H * enc.
Notation pix_image := (pix_image A B enc decpx cv W H data).

Lemma row_fits y ox w : y < H -> ox + w <= W -> (y * W + ox + w) * enc <= W * H * enc.
Proof. intros Hy Hox. apply Nat.mul_le_mono_r. nia. Qed.

Lemma pix_row_spec y ox w : y < H -> ox + w <= W ->
  map cv (map decpx (blocks_of enc (slice ((y * W + ox) * enc) (w * enc) data)))
  = slice ox w (map (fun x => cv (decpx (slice ((y * W + x) * enc) enc data))) (seq 0 W)).
Proof.
  intros Hy Hox. rewrite slice_map, slice_seq by lia. cbn [Nat.add]. rewrite map_map.
  unfold blocks_of. rewrite slice_length, Hdata.
  pose proof (row_fits y ox w Hy Hox) as Hfit.
  replace (Nat.min (w * enc) (W * H * enc - (y * W + ox) * enc)) with (w * enc) by lia.
  rewrite Nat.div_mul by lia. rewrite map_map.
  assert (Hg : forall m n, seq m n = map (Nat.add m) (seq 0 n)).
  { clear. intros m n. revert m. induction n as [|n IH]; intros m; [reflexivity|]. cbn [seq map]. rewrite Nat.add_0_r. f_equal.
    rewrite (IH (S m)), <- seq_shift, map_map. apply map_ext. intros a. lia. }
  rewrite (Hg ox w), map_map. apply map_ext_in. intros k Hk. apply in_seq in Hk. f_equal. f_equal.
  rewrite slice_of_slice. f_equal; nia.
Qed.

Theorem pixel_rect_is_crop conv bufpx ox oy w h : ox + w <= W -> oy + h <= H -> 1 <= w -> 1 <= h -> (conv = true -> 1 <= bufpx) ->
  pixel_rect_image A B enc decpx cv conv bufpx W H ox oy w h data = Some (crop_of ox oy w h pix_image)
  /\ snd (pixel_rect_reads enc W H ox oy w h data) = length data.
Proof.
  intros Hox Hoy Hw Hh Hbuf. unfold pixel_rect_image, pixel_rect_reads. rewrite pixel_reads_go_spec. cbn [fst snd]. split.
  - rewrite map_map.
    rewrite (sequence_map_some (fun k => slice ox w (map (fun x => cv (decpx (slice (((oy + k) * W + x) * enc) enc data))) (seq 0 W)))).
    + f_equal. unfold crop_of, PixelPath.pix_image. rewrite slice_map, slice_seq by lia. cbn [Nat.add]. rewrite !map_map.
      assert (Hg : forall m n, seq m n = map (Nat.add m) (seq 0 n)).
      { clear. intros m n. revert m. induction n as [|n IH]; intros m; [reflexivity|]. cbn [seq map]. rewrite Nat.add_0_r. f_equal.
        rewrite (IH (S m)), <- seq_shift, map_map. apply map_ext. intros a. lia. }
      rewrite (Hg oy h), map_map. reflexivity.
    + intros k Hk. apply in_seq in Hk.
      replace (W * enc * oy + ox * enc + k * (w * enc + (ox * enc + (W - ox - w) * enc))) with (((oy + k) * W + ox) * enc) by nia.
      rewrite pp_row_spec; try assumption.
      * f_equal. apply pix_row_spec; lia.
      * rewrite slice_length, Hdata. pose proof (row_fits (oy + k) ox w ltac:(lia) Hox). lia.
  - destruct h as [|h']; [lia|]. rewrite Hdata.
    set (a := ox * enc). set (b := (W - ox - w) * enc). set (r := w * enc).
    assert (HR : W * enc = a + r + b) by (unfold a, b, r; nia).
    set (t := H - oy - S h'). assert (HH : H = oy + S h' + t) by lia.
    replace (W * H * enc) with ((oy + S h' + t) * (W * enc)) by (rewrite <- HH; ring). clearbody a b r t. rewrite HR. nia.
Qed.

Theorem pixel_full_is_spec conv bufpx : 1 <= W -> (conv = true -> 1 <= bufpx) ->
  pixel_full_image A B enc decpx cv conv bufpx W H data = Some pix_image.
Proof.
  intros HW Hbuf. unfold pixel_full_image, PixelPath.pix_image. apply sequence_map_some. intros y Hy. apply in_seq in Hy.
  rewrite pp_row_spec; try assumption.
  - f_equal. replace (y * (W * enc)) with ((y * W + 0) * enc) by lia. rewrite (pix_row_spec y 0 W) by lia.
    apply slice_all. rewrite map_length, seq_length. lia.
  - rewrite slice_length, Hdata. pose proof (row_fits y 0 W ltac:(lia) ltac:(lia)). lia.
Qed.
End Proofs.
