(* C17: progress only moves forward; cancellation is honoured. *)
From Coq Require Import QArith Qpower Permutation Sorting.Sorted Lqa.
From DDSV Require Import base.Machine model.Progress.

(* ---- parallel reports: prefix sums of ANY completion order are increasing and stay below the total *)
Lemma psums_bounds l : forall acc d, In d (psums acc l) -> (acc <= d <= acc + fold_right N.add 0 l)%N.
Proof.
  induction l as [|x l IH]; intros acc d H; cbn [psums fold_right] in *; [contradiction|].
  destruct H as [<-|H]; [lia|]. specialize (IH _ _ H). lia.
Qed.
Lemma psums_increasing l : (forall x, In x l -> 1 <= x)%N -> forall acc,
  StronglySorted N.lt (acc :: psums acc l).
Proof.
  induction l as [|x l IH]; intros Hpos acc; cbn [psums]; [repeat constructor|].
  constructor.
  - apply IH. intros y Hy. apply Hpos. right. exact Hy.
  - apply Forall_forall. intros d Hd. assert (1 <= x)%N by (apply Hpos; left; reflexivity).
    destruct Hd as [<-|Hd]; [lia|]. apply psums_bounds in Hd. lia.
Qed.
Lemma sum_perm l l' : Permutation l l' -> fold_right N.add 0%N l = fold_right N.add 0%N l'.
Proof. induction 1; cbn [fold_right]; lia. Qed.
Lemma psums_last l : forall acc d, l <> [] -> last (psums acc l) d = (acc + fold_right N.add 0 l)%N.
Proof.
  induction l as [|x l IH]; intros acc d Hne; [congruence|]. cbn [psums fold_right].
  destruct l as [|y l]; [cbn; lia|].
  change (last ((acc + x)%N :: psums (acc + x) (y :: l)) d) with (last (psums (acc + x) (y :: l)) d).
  rewrite IH by discriminate. cbn [fold_right]. lia.
Qed.

(* for every order in which the fragments finish: every reported counter value lies in [1, h], the values
   strictly increase, and the last one is h - so every worker report is below 100% = (h + 1) / (h + 1) *)
Theorem parallel_reports_any_order heights order h :
  (forall x, In x heights -> 1 <= x)%N -> fold_right N.add 0%N heights = h -> Permutation order heights ->
  StronglySorted N.lt (0%N :: psums 0 order) /\
  (forall d, In d (psums 0 order) -> (1 <= d <= h)%N) /\
  (order <> [] -> last (psums 0 order) 0%N = h).
Proof.
  intros Hpos Hsum Hperm.
  assert (Hpos' : forall x, In x order -> (1 <= x)%N) by (intros x Hx; apply Hpos; eapply Permutation_in; eassumption).
  assert (Hsum' : fold_right N.add 0%N order = h) by (rewrite (sum_perm _ _ Hperm); exact Hsum).
  split; [apply psums_increasing; exact Hpos'|]. split.
  - intros d Hd. pose proof (psums_bounds _ _ _ Hd) as B. rewrite Hsum' in B.
    pose proof (psums_increasing order Hpos' 0%N) as S. inversion S as [|? ? _ F]; subst.
    rewrite Forall_forall in F. specialize (F d Hd). lia.
  - intros Hne. rewrite psums_last by exact Hne. lia.
Qed.

(* the reported fractions: strictly between 0 and 1 *)
Theorem parallel_report_values h order q : (forall d, In d (psums 0 order) -> (1 <= d <= h)%N) ->
  In q (parallel_reports h order) -> (0 < q /\ q < 1)%Q.
Proof.
  intros Hb Hin. unfold parallel_reports in Hin. apply in_map_iff in Hin. destruct Hin as [d [<- Hd]].
  specialize (Hb d Hd). unfold Qlt. cbn [Qnum Qden]. rewrite Nat2Pos.inj_succ by lia.
  destruct h as [|ph]; [lia|]. cbn [N.to_nat]. rewrite Pos2Nat.id. rewrite Pos2Z.inj_succ. split; lia.
Qed.

(* ---- ranges *)
Local Open Scope Q_scope.
Lemma project_in r p : 0 <= r_len r -> 0 <= p <= 1 -> r_start r <= project r p <= r_start r + r_len r.
Proof. intros Hl Hp. unfold project. split; nra. Qed.
Lemma project_mono r p p' : 0 <= r_len r -> p <= p' -> project r p <= project r p'.
Proof. intros Hl Hp. unfold project. nra. Qed.

Lemma pow25_pos n : 0 < (2 # 5) ^ Z.of_nat n.
Proof. induction n as [|n IH]; [reflexivity|]. rewrite Nat2Z.inj_succ. unfold Z.succ. rewrite Qpower_plus by discriminate. change ((2 # 5) ^ 1) with (2 # 5). nra. Qed.
Lemma pow25_step n : (2 # 5) ^ Z.of_nat (S n) == (2 # 5) ^ Z.of_nat n * (2 # 5).
Proof. rewrite Nat2Z.inj_succ. unfold Z.succ. rewrite Qpower_plus by discriminate. reflexivity. Qed.

(* the level ranges are nested inside [0,1), non-empty and tile it from 0 upwards: the end of level l is the
   start of level l + 1 (by definition of from_to) *)
Theorem level_ranges_tile l :
  0 <= level_start l /\ level_start l < level_start (S l) /\ level_start (S l) < 1 /\
  r_start (level_range l) == level_start l /\ r_start (level_range l) + r_len (level_range l) == level_start (S l) /\
  0 < r_len (level_range l).
Proof.
  unfold level_range, from_to, level_start. cbn [r_start r_len].
  pose proof (pow25_pos l) as P. pose proof (pow25_pos (S l)) as P'. pose proof (pow25_step l) as St.
  assert (Hle : (2 # 5) ^ Z.of_nat l <= 1).
  { clear. induction l as [|l IH]; [discriminate|]. rewrite pow25_step. pose proof (pow25_pos l). nra. }
  repeat split; try nra.
Qed.
Theorem level_start_0 : level_start 0 == 0.
Proof. reflexivity. Qed.

(* reports of a later level are never below reports of an earlier level *)
Theorem level_reports_monotone l p p' : 0 <= p <= 1 -> 0 <= p' <= 1 ->
  project (level_range l) p <= project (level_range (S l)) p'.
Proof.
  intros Hp Hp'. destruct (level_ranges_tile l) as [_ [_ [_ [S1 [E1 L1]]]]]. destruct (level_ranges_tile (S l)) as [_ [_ [_ [S2 [_ L2]]]]].
  pose proof (project_in (level_range l) p ltac:(nra) Hp) as [_ A]. pose proof (project_in (level_range (S l)) p' ltac:(nra) Hp') as [B _]. nra.
Qed.

(* ---- cancellation protocol *)
Local Close Scope Q_scope.
Lemma run_trace_token t : forall cancel nrep written, In Check t ->
  fst (run_trace t true cancel nrep written) = Cancelled.
Proof.
  induction t as [|e t IH]; intros cancel nrep written Hin; [contradiction|].
  destruct e as [|p|]; cbn [run_trace]; [reflexivity| |].
  - cbn [orb]. apply IH. destruct Hin as [H|H]; [discriminate|exact H].
  - apply IH. destruct Hin as [H|H]; [discriminate|exact H].
Qed.
Lemma nreports_app a b : length (reports_of (a ++ b)) = (length (reports_of a) + length (reports_of b))%nat.
Proof. unfold reports_of. rewrite flat_map_app, app_length. reflexivity. Qed.

(* cancellation requested at report k: if a Check follows that report in the trace, the call is cancelled *)
Theorem cancel_honoured pre p post : In Check post ->
  forall token nrep written, 
  fst (run_trace (pre ++ Report p :: post) token (Some (nrep + length (reports_of pre))%nat) nrep written) = Cancelled.
Proof.
  intros Hin. induction pre as [|e pre IH]; intros token nrep written.
  - cbn [app run_trace reports_of flat_map length]. rewrite Nat.add_0_r, Nat.eqb_refl, orb_true_r. apply run_trace_token. exact Hin.
  - destruct e as [|q|]; cbn [app run_trace].
    + destruct token; [reflexivity|]. change (reports_of (Check :: pre)) with (reports_of pre). apply IH.
    + change (reports_of (Report q :: pre)) with (q :: reports_of pre). cbn [length].
      replace (nrep + S (length (reports_of pre)))%nat with (S nrep + length (reports_of pre))%nat by lia. apply IH.
    + change (reports_of (Write :: pre)) with (reports_of pre). apply IH.
Qed.
(* the Encoder's call ends with `checked_report(1.0)` = [Check; Report 1]: every earlier report is followed by a Check *)
Corollary encoder_cancel_at_any_report body k : (k < length (reports_of body))%nat ->
  fst (run_trace (body ++ [Check; Report 1]) false (Some k) 0 0) = Cancelled.
Proof.
  intros Hk.
  assert (Hsplit : exists pre p post, body = pre ++ Report p :: post /\ length (reports_of pre) = k).
  { revert k Hk. induction body as [|e body IH]; intros k Hk; [cbn in Hk; lia|].
    destruct e as [|q|].
    - change (reports_of (Check :: body)) with (reports_of body) in Hk.
      destruct (IH k Hk) as [pre [p [post [-> Hl]]]]. exists (Check :: pre), p, post. split; [reflexivity|exact Hl].
    - change (reports_of (Report q :: body)) with (q :: reports_of body) in Hk. cbn [length] in Hk.
      destruct k as [|k]; [exists [], q, body; split; reflexivity|].
      destruct (IH k ltac:(lia)) as [pre [p [post [-> Hl]]]]. exists (Report q :: pre), p, post. split; [reflexivity|].
      change (reports_of (Report q :: pre)) with (q :: reports_of pre). cbn [length]. lia.
    - change (reports_of (Write :: body)) with (reports_of body) in Hk.
      destruct (IH k Hk) as [pre [p [post [-> Hl]]]]. exists (Write :: pre), p, post. split; [reflexivity|exact Hl]. }
  destruct Hsplit as [pre [p [post [-> Hl]]]]. rewrite <- app_assoc. cbn [app].
  rewrite <- Hl. change (length (reports_of pre)) with (0 + length (reports_of pre))%nat.
  apply (cancel_honoured pre p (post ++ [Check; Report 1])). apply in_or_app. right. left. reflexivity.
Qed.
(* a call that starts with a Check (encode's entry check) and is already cancelled writes nothing *)
Theorem precancelled_writes_nothing t : run_trace (Check :: t) true None 0 0 = (Cancelled, 0%nat).
Proof. reflexivity. Qed.
