(* C08: the texture/array/cube iterator and the Decoder operations refine a cursor over the
   flattened surface list. *)
From DDSV Require Import base.Machine model.Layout model.DecoderSM spec.SpecLayout proofs.LayoutProofs.

(* ------------------------------------------------------------ facts about one mip chain *)
Lemma spec_mips_length p w h : forall n level off, length (spec_mips p w h level n off) = n.
Proof. induction n as [|n IH]; intros; cbn [spec_mips length]; [reflexivity|]. rewrite IH. reflexivity. Qed.

Lemma sum_lens_split p w h : forall n level k, (k <= n)%nat ->
  sum_lens p w h level n = sum_lens p w h level k + sum_lens p w h (level + N.of_nat k) (n - k).
Proof.
  induction n as [|n IH]; intros level k Hk.
  - replace k with 0%nat by lia. cbn. reflexivity.
  - destruct k as [|k].
    + cbn [sum_lens]. rewrite N.add_0_r. cbn [Nat.sub]. reflexivity.
    + cbn [sum_lens Nat.sub]. rewrite (IH (level + 1) k) by lia.
      replace (level + 1 + N.of_nat k) with (level + N.of_nat (S k)) by lia. lia.
Qed.
Lemma sum_lens_le p w h n level k : (k <= n)%nat -> sum_lens p w h level k <= sum_lens p w h level n.
Proof. intros Hk. rewrite (sum_lens_split p w h n level k Hk). lia. Qed.

Lemma spec_mips_nth p w h : forall n level off k, (k < n)%nat ->
  nth_error (spec_mips p w h level n off) k =
  Some (mkSurf (mip_dim w (level + N.of_nat k)) (mip_dim h (level + N.of_nat k)) (off + sum_lens p w h level k)
               (spec_len p (mip_dim w (level + N.of_nat k)) (mip_dim h (level + N.of_nat k)))).
Proof.
  induction n as [|n IH]; intros level off k Hk; [lia|].
  destruct k as [|k]; cbn [spec_mips nth_error sum_lens].
  - rewrite !N.add_0_r. reflexivity.
  - rewrite IH by lia. replace (level + 1 + N.of_nat k) with (level + N.of_nat (S k)) by lia.
    rewrite N.add_assoc. reflexivity.
Qed.

Lemma sum64_spec_mips p w h : forall n level off base,
  base + sum_lens p w h level n < U64 ->
  sum64 (map s_len (spec_mips p w h level n off)) base = Some (base + sum_lens p w h level n).
Proof.
  induction n as [|n IH]; intros level off base Hfit; cbn [spec_mips map sum64 sum_lens] in *.
  - f_equal. lia.
  - unfold unchecked_add64, checked_add64. cbn [s_len].
    replace (base + spec_len p (mip_dim w level) (mip_dim h level) <? U64) with true by (symmetry; apply N.ltb_lt; lia).
    cbn [obind]. rewrite IH by lia. f_equal. lia.
Qed.
Lemma firstn_spec_mips p w h : forall n level off k, (k <= n)%nat ->
  firstn k (spec_mips p w h level n off) = spec_mips p w h level k off.
Proof.
  induction n as [|n IH]; intros level off k Hk.
  - replace k with 0%nat by lia. reflexivity.
  - destruct k as [|k]; cbn [spec_mips firstn]; [reflexivity|]. rewrite IH by lia. reflexivity.
Qed.
Lemma skipn_spec_mips p w h : forall n level off k, (k <= n)%nat ->
  skipn k (spec_mips p w h level n off) =
  spec_mips p w h (level + N.of_nat k) (n - k) (off + sum_lens p w h level k).
Proof.
  induction n as [|n IH]; intros level off k Hk.
  - replace k with 0%nat by lia. cbn. reflexivity.
  - destruct k as [|k]; cbn [spec_mips skipn sum_lens Nat.sub].
    + rewrite !N.add_0_r. reflexivity.
    + rewrite IH by lia. replace (level + 1 + N.of_nat k) with (level + N.of_nat (S k)) by lia.
      rewrite N.add_assoc. reflexivity.
Qed.

(* ------------------------------------------------------------ texture iterator *)
Section TexIter.
  Variables (p : pixel_info) (w h mips len : N).
  Let L := sum_lens p w h 0 (N.to_nat mips).
  Let first := mkTex w h mips p 0 (to_short_len L).
  Hypothesis Hp : wf_pixel_info p.
  Hypothesis Hm : 1 <= mips <= 255.
  Hypothesis HL : L < U64.
  Hypothesis HT : L * len < U64.

  Definition part (level : N) : N := sum_lens p w h 0 (N.to_nat level).

  Lemma part_le level : level <= mips -> part level <= L.
  Proof. intros Hl. apply sum_lens_le. lia. Qed.
  Lemma part_full : part mips = L.
  Proof. reflexivity. Qed.
  Lemma part_0 : part 0 = 0.
  Proof. reflexivity. Qed.

  Lemma first_mips : tex_iter_mips first = Some (spec_mips p w h 0 (N.to_nat mips) 0).
  Proof.
    pose proof (tex_iter_mips_inv w h mips p 0 Hp) as T. cbn zeta in T.
    rewrite N.mul_0_l in T. apply T. fold L. lia.
  Qed.
  Lemma first_len : tex_data_len first = Some L.
  Proof. apply tex_data_len_inv. exact HL. Qed.

  Definition info_at (level : N) : sinfo :=
    mkSI (mip_dim w level) (mip_dim h level) (spec_len p (mip_dim w level) (mip_dim h level)) level.

  Lemma cur_in idx level : idx < len -> level < mips ->
    iter_current (ITex first len idx level) = Some (Some (info_at level)).
  Proof.
    intros Hi Hl. cbn [iter_current]. apply N.ltb_lt in Hi. rewrite Hi.
    unfold tex_get. rewrite first_mips. cbn [obind].
    rewrite spec_mips_nth by lia. rewrite N.add_0_l, N2Nat.id. reflexivity.
  Qed.
  Lemma cur_end idx level : len <= idx -> iter_current (ITex first len idx level) = Some None.
  Proof. intros Hi. cbn [iter_current]. destruct (N.ltb_spec idx len); [lia|reflexivity]. Qed.

  (* abstract cursor: index into the flattened list *)
  Definition abs (idx level : N) : N := idx * mips + level.
  Definition inv (idx level : N) : Prop := idx <= len /\ level < mips /\ (idx = len -> level = 0).

  Lemma adv_in idx level : idx < len -> level < mips ->
    exists idx' level', iter_advance (ITex first len idx level) = Some (ITex first len idx' level') /\
      inv idx' level' /\ abs idx' level' = abs idx level + 1.
  Proof.
    intros Hi Hl. cbn [iter_advance]. apply N.ltb_lt in Hi. rewrite Hi. apply N.ltb_lt in Hi.
    replace (level + 1 <? U8) with true by (symmetry; apply N.ltb_lt; unfold U8; lia).
    cbn [t_mips first]. destruct (N.ltb_spec (level + 1) mips) as [Hn|Hn].
    - exists idx, (level + 1). split; [reflexivity|]. unfold inv, abs. split; [|lia]. lia.
    - exists (idx + 1), 0. split; [reflexivity|]. unfold inv, abs. split; [lia|].
      assert (level + 1 = mips) by lia. nia.
  Qed.
  Lemma adv_end idx level : len <= idx -> iter_advance (ITex first len idx level) = Some (ITex first len idx level).
  Proof. intros Hi. cbn [iter_advance]. destruct (N.ltb_spec idx len); [lia|reflexivity]. Qed.

  Lemma rew idx level : inv idx level ->
    exists idx' level', iter_rewind (ITex first len idx level) = Some (ITex first len idx' level') /\
      inv idx' level' /\ abs idx' level' = abs idx level - 1.
  Proof.
    intros [Hi [Hl He]]. cbn [iter_rewind]. destruct (N.ltb_spec 0 level) as [Hz|Hz].
    - exists idx, (level - 1). split; [reflexivity|]. unfold inv, abs. split; [|lia]. lia.
    - destruct (N.ltb_spec 0 idx) as [Hy|Hy].
      + cbn [t_mips first]. replace (0 <? mips) with true by (symmetry; apply N.ltb_lt; lia).
        exists (idx - 1), (mips - 1). split; [reflexivity|]. unfold inv, abs. split; [lia|]. nia.
      + exists idx, level. split; [reflexivity|]. unfold inv, abs. split; [lia|]. lia.
  Qed.

  Definition offset_of (idx level : N) : N := L * idx + part level.

  Lemma offset_le idx level : inv idx level -> offset_of idx level <= L * len.
  Proof.
    intros [Hi [Hl He]]. unfold offset_of. destruct (N.eq_dec idx len) as [->|Hne].
    - rewrite (He eq_refl). unfold part. cbn. lia.
    - pose proof (part_le level ltac:(lia)). assert (L * idx + L <= L * len) by nia. lia.
  Qed.

  Lemma elapsed idx level : inv idx level ->
    iter_elapsed (ITex first len idx level) = Some (offset_of idx level).
  Proof.
    intros Hinv. pose proof (offset_le idx level Hinv) as Hle. destruct Hinv as [Hi [Hl He]].
    cbn [iter_elapsed]. rewrite first_len. cbn [obind].
    unfold unchecked_mul64, checked_mul64.
    assert (L * idx <= L * len) by (apply N.mul_le_mono_l; lia).
    replace (L * idx <? U64) with true by (symmetry; apply N.ltb_lt; lia). cbn [obind].
    rewrite first_mips. cbn [obind]. rewrite spec_mips_length.
    replace (N.of_nat (N.to_nat mips) <? level) with false by (symmetry; apply N.ltb_ge; lia).
    rewrite firstn_spec_mips by lia. rewrite sum64_spec_mips; [reflexivity|].
    unfold offset_of, part in Hle. lia.
  Qed.

  Lemma skip_in idx level : idx < len -> 0 < level < mips ->
    iter_skip_mipmaps (ITex first len idx level) = SkipOk (ITex first len (idx + 1) 0) (L - part level).
  Proof.
    intros Hi Hl. cbn [iter_skip_mipmaps]. apply N.ltb_lt in Hi. rewrite Hi.
    replace (level =? 0) with false by (symmetry; apply N.eqb_neq; lia). cbn [negb andb].
    rewrite first_mips. rewrite skipn_spec_mips by lia.
    pose proof (sum_lens_split p w h (N.to_nat mips) 0 (N.to_nat level) ltac:(lia)) as S. fold L in S.
    rewrite sum64_spec_mips.
    - rewrite N.add_0_l. f_equal. unfold part. lia.
    - lia.
  Qed.
  Lemma skip_noop idx level : (len <= idx \/ level = 0) ->
    iter_skip_mipmaps (ITex first len idx level) = SkipOk (ITex first len idx level) 0.
  Proof.
    intros H. cbn [iter_skip_mipmaps].
    destruct (N.ltb_spec idx len); destruct (N.eqb_spec level 0); cbn [negb andb]; try reflexivity; lia.
  Qed.

  (* ---------------------------------------------------------- decoder over a texture layout *)
  Variable Lay : layout.
  Hypothesis HLay : iter_new Lay = ITex first len 0 0.

  (* ---- the specification: a cursor i over the flattened surface list of len*mips surfaces *)
  Definition total : N := len * mips.
  Inductive cres := COk | CErr (e : dec_err).
  Definition c_consume (i : N) (bad : bool) (e : dec_err) : cres * N :=
    if total <=? i then (CErr ENoMoreSurfaces, i) else if bad then (CErr e, i) else (COk, i + 1).
  Definition c_skip_mips (i : N) : N :=
    if (i <? total) && negb (i mod mips =? 0) then (i / mips + 1) * mips else i.
  Definition c_offset (i : N) : N := offset_of (i / mips) (i mod mips).

  Definition rel (d : decoder) (i : N) : Prop :=
    d_layout d = Lay /\ exists idx level, d_it d = ITex first len idx level /\ inv idx level /\
      d_pos d = offset_of idx level /\ abs idx level = i.

  Lemma abs_divmod idx level : level < mips -> abs idx level / mips = idx /\ abs idx level mod mips = level.
  Proof.
    intros Hl. unfold abs. split.
    - rewrite N.div_add_l by lia. rewrite N.div_small by lia. lia.
    - rewrite N.add_comm, N.mod_add by lia. apply N.mod_small. exact Hl.
  Qed.
  Lemma abs_lt idx level : inv idx level -> (abs idx level < total <-> idx < len).
  Proof.
    intros [Hi [Hl He]]. unfold abs, total. split; intros H.
    - destruct (N.eq_dec idx len) as [->|]; [nia|lia].
    - assert (idx * mips + mips <= len * mips) by nia. lia.
  Qed.
  Lemma rel_le d i : rel d i -> i <= total.
  Proof.
    intros [_ [idx [level [_ [Hinv [_ Ha]]]]]]. subst i. destruct Hinv as [Hi [Hl He]].
    destruct (N.eq_dec idx len) as [E|E].
    - rewrite (He E). subst. unfold abs, total. lia.
    - assert (abs idx level < total) by (apply abs_lt; [repeat split; assumption|lia]). lia.
  Qed.

  Lemma rel_init : rel (dec_init Lay) 0.
  Proof.
    unfold rel, dec_init. cbn [d_layout d_it d_pos]. split; [reflexivity|].
    exists 0, 0. rewrite HLay. split; [reflexivity|]. split; [unfold inv; lia|].
    unfold offset_of, part, abs. cbn. lia.
  Qed.

  (* what the decoder reports at cursor i *)
  Lemma rel_observe d i : rel d i ->
    d_pos d = c_offset i /\
    iter_current (d_it d) = Some (if i <? total then Some (info_at (i mod mips)) else None).
  Proof.
    intros [_ [idx [level [Hit [Hinv [Hpos Ha]]]]]]. pose proof Hinv as [Hi [Hl He]].
    destruct (abs_divmod idx level Hl) as [Hdv Hmo]. rewrite Ha in Hdv, Hmo.
    unfold c_offset. rewrite Hdv, Hmo. split; [exact Hpos|]. rewrite Hit.
    pose proof (abs_lt idx level Hinv) as Hlt. rewrite Ha in Hlt.
    destruct (N.ltb_spec i total) as [H|H].
    - apply cur_in; [apply Hlt; exact H|exact Hl].
    - apply cur_end. destruct (N.lt_ge_cases idx len) as [H'|H']; [|exact H']. apply Hlt in H'. lia.
  Qed.

  Lemma offset_step idx level : idx < len -> level < mips ->
    forall idx' level', abs idx' level' = abs idx level + 1 -> inv idx' level' ->
    offset_of idx' level' = offset_of idx level + spec_len p (mip_dim w level) (mip_dim h level).
  Proof.
    intros Hi Hl idx' level' Ha [Hi' [Hl' He']]. unfold abs, offset_of in *.
    assert (C : (idx' = idx /\ level' = level + 1) \/ (idx' = idx + 1 /\ level' = 0 /\ level + 1 = mips)).
    { destruct (N.lt_ge_cases (level + 1) mips) as [Hn|Hn].
      - left. apply (N.div_mod_unique mips idx' idx level' (level + 1)); lia.
      - right. assert (level + 1 = mips) by lia.
        destruct (N.div_mod_unique mips idx' (idx + 1) level' 0) as [A B]; lia. }
    destruct C as [[-> ->]|[-> [-> Hfull]]].
    - unfold part. replace (N.to_nat (level + 1)) with (S (N.to_nat level)) by lia.
      rewrite (sum_lens_split p w h (S (N.to_nat level)) 0 (N.to_nat level)) by lia.
      replace (S (N.to_nat level) - N.to_nat level)%nat with 1%nat by lia.
      cbn [sum_lens]. rewrite N.add_0_l, N2Nat.id. lia.
    - unfold part at 1. cbn [N.to_nat sum_lens]. 
      assert (part level + spec_len p (mip_dim w level) (mip_dim h level) = L).
      { unfold L. rewrite (sum_lens_split p w h (N.to_nat mips) 0 (N.to_nat level)) by lia.
        replace (N.to_nat mips - N.to_nat level)%nat with 1%nat by lia.
        cbn [sum_lens]. rewrite N.add_0_l, N2Nat.id. unfold part. lia. }
      lia.
  Qed.

  (* a successful read / rect read / skip moves the cursor by one and the reader by the surface length *)
  Lemma consume_step d i : rel d i -> i < total ->
    exists it', iter_advance (d_it d) = Some it' /\
      rel (mkDec (d_layout d) it' (d_pos d + si_len (info_at (i mod mips)))) (i + 1).
  Proof.
    intros [Hlay [idx [level [Hit [Hinv [Hpos Ha]]]]]] Hlt. pose proof Hinv as [Hi' [Hl He]].
    assert (Hi : idx < len) by (apply (abs_lt idx level Hinv); rewrite Ha; exact Hlt).
    destruct (abs_divmod idx level Hl) as [_ Hmo]. rewrite Ha in Hmo. rewrite Hmo.
    destruct (adv_in idx level Hi Hl) as [idx' [level' [Hadv [Hinv' Habs]]]].
    rewrite Hit. exists (ITex first len idx' level'). split; [exact Hadv|].
    unfold rel. cbn [d_layout d_it d_pos]. split; [exact Hlay|].
    exists idx', level'. split; [reflexivity|]. split; [exact Hinv'|]. split; [|lia].
    rewrite Hpos. cbn [si_len info_at]. symmetry. apply (offset_step idx level Hi Hl idx' level' Habs Hinv').
  Qed.

  Lemma c_offset_le d i : rel d i -> d_pos d <= L * len.
  Proof. intros [_ [idx [level [_ [Hinv [Hpos _]]]]]]. rewrite Hpos. apply offset_le. exact Hinv. Qed.

  (* outcome of one decoder operation against the spec cursor: same verdict, same next cursor;
     an I/O refusal (a seek amount above i64::MAX) is the only other possibility and needs a data
     section larger than i64::MAX bytes *)
  Definition agrees (r : dres) (d : decoder) (c : cres * N) : Prop :=
    match r with
    | DOk d' => fst c = COk /\ rel d' (snd c)
    | DErr EIo _ => I64MAX < L * len
    | DErr e d' => fst c = CErr e /\ d' = d
    | DPanic => False
    end.

  Lemma read_ok d i ws : rel d i -> agrees (read_current d ws) d (c_consume i ws EUnexpectedSurfaceSize).
  Proof.
    intros Hrel. destruct (rel_observe d i Hrel) as [_ Hcur]. unfold read_current, c_consume. rewrite Hcur.
    destruct (N.ltb_spec i total) as [Hi|Hi]; destruct (N.leb_spec total i) as [Hj|Hj]; try lia.
    - destruct ws; [cbn; auto|].
      destruct (consume_step d i Hrel Hi) as [it' [Ha Hd]]. rewrite Ha. cbn. split; [reflexivity|exact Hd].
    - cbn. auto.
  Qed.
  Lemma rect_ok d i oob : rel d i -> agrees (rect_current d oob) d (c_consume i oob ERectOutOfBounds).
  Proof.
    intros Hrel. destruct (rel_observe d i Hrel) as [_ Hcur]. unfold rect_current, c_consume. rewrite Hcur.
    destruct (N.ltb_spec i total) as [Hi|Hi]; destruct (N.leb_spec total i) as [Hj|Hj]; try lia.
    - destruct oob; [cbn; auto|].
      destruct (consume_step d i Hrel Hi) as [it' [Ha Hd]]. rewrite Ha. cbn. split; [reflexivity|exact Hd].
    - cbn. auto.
  Qed.
  Lemma skip_ok d i : rel d i -> agrees (skip_surface d) d (c_consume i false EIo).
  Proof.
    intros Hrel. destruct (rel_observe d i Hrel) as [_ Hcur]. unfold skip_surface, c_consume. rewrite Hcur.
    destruct (N.ltb_spec i total) as [Hi|Hi]; destruct (N.leb_spec total i) as [Hj|Hj]; try lia.
    - destruct (consume_step d i Hrel Hi) as [it' [Ha Hd]]. unfold io_skip.
      destruct (N.eqb_spec (si_len (info_at (i mod mips))) 0) as [Hz|Hz].
      + rewrite Ha. rewrite Hz, N.add_0_r in Hd. cbn. split; [reflexivity|exact Hd].
      + pose proof (c_offset_le _ _ Hd) as Hb. cbn [d_pos] in Hb.
        destruct (N.ltb_spec I64MAX (si_len (info_at (i mod mips)))); [cbn; lia|].
        destruct (N.ltb_spec (d_pos d + si_len (info_at (i mod mips))) U64); [|cbn; lia].
        rewrite Ha. cbn. split; [reflexivity|exact Hd].
    - cbn. auto.
  Qed.

  Lemma skip_mips_ok d i : rel d i -> agrees (skip_mipmaps d) d (COk, c_skip_mips i).
  Proof.
    intros Hrel. pose proof Hrel as [Hlay [idx [level [Hit [Hinv [Hpos Ha]]]]]].
    unfold skip_mipmaps, c_skip_mips. rewrite Hit. pose proof Hinv as [Hi [Hl He]].
    destruct (abs_divmod idx level Hl) as [Hdv Hmo]. rewrite Ha in Hdv, Hmo. rewrite Hdv, Hmo.
    pose proof (abs_lt idx level Hinv) as Hlt. rewrite Ha in Hlt.
    destruct (N.lt_ge_cases idx len) as [Hlt'|Hge]; [destruct (N.eq_dec level 0) as [Hz|Hz]|].
    - rewrite skip_noop by (right; exact Hz). cbn [io_skip N.eqb].
      replace (level =? 0) with true by (symmetry; apply N.eqb_eq; exact Hz).
      rewrite andb_false_r. cbn. split; [reflexivity|].
      unfold rel. cbn [d_layout d_it d_pos]. split; [exact Hlay|]. exists idx, level. repeat split; try assumption.
    - rewrite skip_in by lia. unfold io_skip.
      replace (i <? total) with true by (symmetry; apply N.ltb_lt; apply Hlt; exact Hlt').
      replace (level =? 0) with false by (symmetry; apply N.eqb_neq; exact Hz). cbn [andb negb].
      pose proof (part_le level ltac:(lia)) as Hpl.
      assert (Hnew : rel (mkDec (d_layout d) (ITex first len (idx + 1) 0) (d_pos d + (L - part level))) ((idx + 1) * mips)).
      { unfold rel. cbn [d_layout d_it d_pos]. split; [exact Hlay|]. exists (idx + 1), 0.
        split; [reflexivity|]. split; [unfold inv; lia|]. split; [|unfold abs; lia]. rewrite Hpos. unfold offset_of.
        rewrite part_0, N.mul_add_distr_l, N.mul_1_r. lia. }
      destruct (N.eqb_spec (L - part level) 0) as [Hz0|Hz0];
        [|pose proof (c_offset_le _ _ Hnew) as Hb; cbn [d_pos] in Hb;
          destruct (N.ltb_spec I64MAX (L - part level)); [cbn; lia|]; destruct (N.ltb_spec (d_pos d + (L - part level)) U64); [|cbn; lia]].
      + cbn. split; [reflexivity|]. rewrite Hz0, N.add_0_r in Hnew. exact Hnew.
      + cbn. split; [reflexivity|]. exact Hnew.
    - rewrite skip_noop by (left; exact Hge). cbn [io_skip N.eqb].
      replace (i <? total) with false by (symmetry; apply N.ltb_ge; destruct (N.lt_ge_cases i total) as [H'|H']; [apply Hlt in H'; lia|exact H']).
      cbn. split; [reflexivity|].
      unfold rel. cbn [d_layout d_it d_pos]. split; [exact Hlay|]. exists idx, level. repeat split; try assumption.
  Qed.

  Lemma inv_lt idx level idx' level' : inv idx level -> inv idx' level' -> abs idx' level' < abs idx level -> idx' < len.
  Proof.
    intros [Hi [Hl He]] [Hi' [Hl' He']] Ha. unfold abs in Ha.
    destruct (N.eq_dec idx' len) as [E|E]; [|lia].
    rewrite (He' E) in Ha. subst idx'. nia.
  Qed.

  Lemma rewind_prev_ok d i : rel d i ->
    match rewind_prev d with DOk d' => rel d' (i - 1) | DErr EIo _ => I64MAX < L * len | _ => False end.
  Proof.
    intros [Hlay [idx [level [Hit [Hinv [Hpos Hi]]]]]]. unfold rewind_prev. rewrite Hit.
    rewrite (elapsed idx level Hinv).
    destruct (rew idx level Hinv) as [idx' [level' [Hr [Hinv' Habs]]]]. rewrite Hr.
    rewrite (elapsed idx' level' Hinv').
    assert (Hle : offset_of idx' level' <= offset_of idx level).
    { destruct (N.eq_dec (abs idx level) 0) as [Hz|Hz].
      - unfold abs in *. assert (idx = 0 /\ level = 0) as [-> ->] by nia.
        assert (idx' = 0 /\ level' = 0) as [-> ->] by nia. lia.
      - assert (Hlt : idx' < len) by (apply (inv_lt idx level idx' level' Hinv Hinv'); lia).
        pose proof (offset_step idx' level' Hlt ltac:(apply Hinv') idx level ltac:(lia) Hinv) as S.
        lia. }
    replace (offset_of idx level <? offset_of idx' level') with false by (symmetry; apply N.ltb_ge; exact Hle).
    unfold seek_back.
    pose proof (offset_le idx level Hinv) as Hb.
    destruct (N.ltb_spec I64MAX (offset_of idx level - offset_of idx' level')) as [Hbig|Hbig]; [lia|].
    rewrite Hpos.
    replace (offset_of idx level - offset_of idx' level' <=? offset_of idx level) with true by (symmetry; apply N.leb_le; lia).
    unfold rel. cbn [d_layout d_it d_pos]. split; [exact Hlay|]. exists idx', level'.
    split; [reflexivity|]. split; [exact Hinv'|]. split; [lia|]. lia.
  Qed.

  Lemma rewind_start_ok d i : rel d i ->
    match rewind_start d with DOk d' => d' = dec_init Lay | DErr EIo d' => d' = d /\ I64MAX < L * len | _ => False end.
  Proof.
    intros [Hlay [idx [level [Hit [Hinv [Hpos _]]]]]]. unfold rewind_start. rewrite Hit.
    rewrite (elapsed idx level Hinv). unfold seek_back.
    pose proof (offset_le idx level Hinv) as Hb.
    destruct (N.ltb_spec I64MAX (offset_of idx level)) as [Hbig|Hbig]; [split; [reflexivity|lia]|].
    rewrite Hpos. rewrite N.leb_refl. rewrite N.sub_diag. rewrite Hlay. reflexivity.
  Qed.

  (* ---- cube-map reads *)
  Hypothesis HLayA : forall a, Lay = LArray a -> a_w a = w /\ a_h a = h.

  Fixpoint c_cube (faces : list (N * N * N)) (i : N) (acc : list (N * N * N)) : cres * N * list (N * N * N) :=
    match faces with
    | [] => (COk, i, acc)
    | (_, x, y) :: rest =>
        if total <=? i then (CErr ENoMoreSurfaces, i, acc) else
        let lv := i mod mips in
        if negb ((mip_dim w lv =? w) && (mip_dim h lv =? h)) then (CErr EUnexpectedSurfaceSize, i, acc) else
        c_cube rest (c_skip_mips (i + 1)) (acc ++ [(x, y, i / mips)])
    end.
  Definition c_read_cube (i : N) (ws : bool) : cres * N * list (N * N * N) :=
    match layout_cube_faces Lay with
    | None => (CErr ENotACubeMap, i, [])
    | Some faces =>
        if ws || negb ((w * 4 <? U32) && (h * 3 <? U32)) then (CErr EUnexpectedSurfaceSize, i, [])
        else c_cube (filter (fun f => has_bits faces (fst (fst f))) face_table) i []
    end.

  Definition agrees3 (rc : dres * list (N * N * N)) (c : cres * N * list (N * N * N)) : Prop :=
    match fst rc with
    | DOk d' => fst (fst c) = COk /\ rel d' (snd (fst c)) /\ snd rc = snd c
    | DErr EIo _ => I64MAX < L * len
    | DErr e d' => fst (fst c) = CErr e /\ rel d' (snd (fst c)) /\ snd rc = snd c
    | DPanic => False
    end.

  Lemma cube_loop_ok faces : forall d i acc, rel d i -> agrees3 (cube_loop faces w h d acc) (c_cube faces i acc).
  Proof.
    induction faces as [|[[fb x] y] rest IH]; intros d i acc Hrel.
    - cbn. auto.
    - cbn [cube_loop c_cube]. destruct (rel_observe d i Hrel) as [_ Hcur]. rewrite Hcur.
      destruct (N.ltb_spec i total) as [Hi|Hi]; destruct (N.leb_spec total i) as [Hj|Hj]; try lia.
      2:{ cbn. auto. }
      cbn [si_w si_h info_at].
      destruct (negb ((mip_dim w (i mod mips) =? w) && (mip_dim h (i mod mips) =? h))); [cbn; auto|].
      assert (Helem : match d_it d with ITex _ _ idx _ => idx | _ => 0 end = i / mips).
      { destruct Hrel as [_ [idx [level [Hit [Hinv [_ Ha]]]]]]. rewrite Hit.
        destruct (abs_divmod idx level ltac:(apply Hinv)) as [Hdv _]. rewrite Ha in Hdv. symmetry. exact Hdv. }
      rewrite Helem.
      pose proof (read_ok d i false Hrel) as Hr. unfold c_consume in Hr.
      destruct (N.leb_spec total i); [lia|]. cbn [fst snd] in Hr.
      destruct (read_current d false) as [d1|e d1|]; [| |exact Hr].
      + cbn in Hr. destruct Hr as [_ Hrel1].
        pose proof (skip_mips_ok d1 (i + 1) Hrel1) as Hs.
        destruct (skip_mipmaps d1) as [d2|e d2|]; [| |exact Hs].
        * cbn in Hs. destruct Hs as [_ Hrel2]. apply IH. exact Hrel2.
        * destruct e; cbn in Hs; try (destruct Hs as [Hs _]; discriminate Hs). cbn. exact Hs.
      + destruct e; cbn in Hr; try (destruct Hr as [Hr _]; discriminate Hr). cbn. exact Hr.
  Qed.

  Lemma read_cube_ok d i ws : rel d i -> agrees3 (read_cube_map d ws) (c_read_cube i ws).
  Proof.
    intros Hrel. pose proof Hrel as [Hlay _]. unfold read_cube_map, c_read_cube. rewrite Hlay.
    destruct (layout_cube_faces Lay) as [faces|] eqn:Hf.
    - destruct Lay as [t|v|a] eqn:HL'; try discriminate Hf.
      destruct (HLayA a eq_refl) as [-> ->].
      destruct (ws || negb ((w * 4 <? U32) && (h * 3 <? U32))).
      + cbn. auto.
      + apply cube_loop_ok. exact Hrel.
    - cbn. auto.
  Qed.

  (* ---- one step and whole runs *)
  Definition c_step (i : N) (op : dec_op) : cres * N * list (N * N * N) :=
    match op with
    | OpRead ws => (c_consume i ws EUnexpectedSurfaceSize, [])
    | OpRect oob => (c_consume i oob ERectOutOfBounds, [])
    | OpSkip => (c_consume i false EIo, [])
    | OpSkipMips => ((COk, c_skip_mips i), [])
    | OpRewindPrev => ((COk, i - 1), [])
    | OpRewindStart => ((COk, 0), [])
    | OpCube ws => c_read_cube i ws
    end.
  Definition is_cube (op : dec_op) : bool := match op with OpCube _ => true | _ => false end.

  Lemma dec_err_eq (a b : dec_err) : {a = b} + {a <> b}.
  Proof. decide equality. Qed.

  Lemma c_consume_err i bad e e' : fst (c_consume i bad e) = CErr e' -> snd (c_consume i bad e) = i.
  Proof. unfold c_consume. destruct (total <=? i); [reflexivity|]. destruct bad; [reflexivity|discriminate]. Qed.

  Lemma lift r d i c : rel d i -> agrees r d c -> (forall e, fst c = CErr e -> snd c = i) ->
    agrees3 (r, []) (c, []) /\ (forall e d', r = DErr e d' -> e <> EIo -> d' = d /\ snd c = i).
  Proof.
    intros Hrel Ha Hc. unfold agrees3. cbn [fst snd]. destruct r as [d1|e d1|]; cbn in Ha.
    - split; [tauto|discriminate].
    - assert (G : e <> EIo -> fst c = CErr e /\ d1 = d) by (intros; destruct e; try congruence; exact Ha).
      destruct (dec_err_eq e EIo) as [->|Hne].
      + split; [exact Ha|]. intros e0 d0 E Hne. injection E as E1 E2. congruence.
      + destruct (G Hne) as [G1 G2]. subst d1. pose proof (Hc _ G1) as Hi. split.
        * destruct e; try congruence; (split; [exact G1|split; [rewrite Hi; exact Hrel|reflexivity]]).
        * intros e0 d0 E _. injection E as E1 E2. split; [symmetry; exact E2|exact Hi].
    - contradiction.
  Qed.

  Lemma step_ok d i op : rel d i -> agrees3 (dec_step d op) (c_step i op) /\
    (is_cube op = false -> forall e d', fst (dec_step d op) = DErr e d' -> e <> EIo -> d' = d /\ snd (fst (c_step i op)) = i).
  Proof.
    intros Hrel. destruct op as [ws|oob| | | | |ws]; cbn [dec_step c_step is_cube fst snd].
    - destruct (lift _ d i _ Hrel (read_ok d i ws Hrel) (c_consume_err i ws _)) as [A B]. split; [exact A|intros _; exact B].
    - destruct (lift _ d i _ Hrel (rect_ok d i oob Hrel) (c_consume_err i oob _)) as [A B]. split; [exact A|intros _; exact B].
    - destruct (lift _ d i _ Hrel (skip_ok d i Hrel) (c_consume_err i false _)) as [A B]. split; [exact A|intros _; exact B].
    - destruct (lift _ d i (COk, c_skip_mips i) Hrel (skip_mips_ok d i Hrel) ltac:(cbn; discriminate)) as [A B]. split; [exact A|intros _; exact B].
    - pose proof (rewind_prev_ok d i Hrel) as H. unfold agrees3. cbn [fst snd]. split.
      + destruct (rewind_prev d) as [d1|e d1|]; [auto| |exact H]. destruct e; try contradiction. exact H.
      + intros _ e d' E Hne. rewrite E in H. destruct e; contradiction.
    - pose proof (rewind_start_ok d i Hrel) as H. unfold agrees3. cbn [fst snd]. split.
      + destruct (rewind_start d) as [d1|e d1|]; [subst d1; split; [reflexivity|split; [apply rel_init|reflexivity]]| |exact H].
        destruct e; try contradiction. apply H.
      + intros _ e d' E Hne. rewrite E in H. destruct e; contradiction.
    - split; [apply read_cube_ok; exact Hrel|discriminate].
  Qed.

  (* runs: the decoder and the cursor proceed in lock step; the comparison ends at an I/O refusal,
     which requires a data section above i64::MAX bytes *)
  Fixpoint sim_run (d : decoder) (i : N) (ops : list dec_op) : Prop :=
    match ops with
    | [] => True
    | op :: rest =>
        let rc := dec_step d op in
        let c := c_step i op in
        match fst rc with
        | DOk d' => fst (fst c) = COk /\ snd rc = snd c /\ rel d' (snd (fst c)) /\ sim_run d' (snd (fst c)) rest
        | DErr EIo _ => I64MAX < L * len
        | DErr e d' => fst (fst c) = CErr e /\ snd rc = snd c /\ rel d' (snd (fst c)) /\
                       (is_cube op = false -> d' = d /\ snd (fst c) = i) /\ sim_run d' (snd (fst c)) rest
        | DPanic => False
        end
    end.

  Lemma sim_run_holds ops : forall d i, rel d i -> sim_run d i ops.
  Proof.
    induction ops as [|op rest IH]; intros d i Hrel; cbn [sim_run]; [exact I|].
    destruct (step_ok d i op Hrel) as [H1 H2]. unfold agrees3 in H1.
    destruct (fst (dec_step d op)) as [d1|e d1|] eqn:E; [| |exact H1].
    - destruct H1 as [A [B C]]. split; [exact A|]. split; [exact C|]. split; [exact B|]. apply IH. exact B.
    - destruct (dec_err_eq e EIo) as [->|Hne]; [exact H1|].
      assert (G : fst (fst (c_step i op)) = CErr e /\ rel d1 (snd (fst (c_step i op))) /\ snd (dec_step d op) = snd (c_step i op))
        by (destruct e; try congruence; exact H1).
      destruct G as [A [B C]].
      assert (G' : fst (fst (c_step i op)) = CErr e /\ snd (dec_step d op) = snd (c_step i op) /\ rel d1 (snd (fst (c_step i op))) /\
                   (is_cube op = false -> d1 = d /\ snd (fst (c_step i op)) = i) /\ sim_run d1 (snd (fst (c_step i op))) rest).
      { split; [exact A|]. split; [exact C|]. split; [exact B|]. split; [|apply IH; exact B].
        intros Hc. apply (H2 Hc e d1 eq_refl Hne). }
      destruct e; try congruence; exact G'.
  Qed.
End TexIter.

(* ------------------------------------------------------------ the cursor is an index into the flattened list *)
Lemma nth_error_flat_map_const {A B} (f : A -> list B) (m : nat) :
  forall l, (forall a, In a l -> length (f a) = m) ->
  forall k j, (j < m)%nat ->
  nth_error (flat_map f l) (k * m + j) = match nth_error l k with Some a => nth_error (f a) j | None => None end.
Proof.
  induction l as [|a l IH]; intros Hlen k j Hj.
  - cbn [flat_map]. destruct k; [destruct (0 * m + j)%nat|destruct (S k * m + j)%nat]; reflexivity.
  - cbn [flat_map]. destruct k as [|k].
    + cbn [Nat.mul Nat.add nth_error]. apply nth_error_app1. rewrite (Hlen a (or_introl eq_refl)). exact Hj.
    + cbn [nth_error]. rewrite nth_error_app2 by (rewrite (Hlen a (or_introl eq_refl)); lia).
      rewrite (Hlen a (or_introl eq_refl)). replace (S k * m + j - m)%nat with (k * m + j)%nat by lia.
      apply IH; [|exact Hj]. intros a' Ha'. apply Hlen. right. exact Ha'.
Qed.

Theorem cursor_points_into_flatten p w h m n i : 1 <= m -> i < n * m ->
  nth_error (spec_array p w h m n) (N.to_nat i) =
  Some (mkSurf (mip_dim w (i mod m)) (mip_dim h (i mod m)) (c_offset p w h m i)
               (spec_len p (mip_dim w (i mod m)) (mip_dim h (i mod m)))).
Proof.
  intros Hm Hi. unfold spec_array.
  pose proof (N.div_mod i m ltac:(lia)) as E. pose proof (N.mod_lt i m ltac:(lia)) as Hlt.
  assert (Hq : i / m < n) by (apply N.div_lt_upper_bound; lia).
  replace (N.to_nat i) with (N.to_nat (i / m) * N.to_nat m + N.to_nat (i mod m))%nat by lia.
  rewrite (nth_error_flat_map_const _ (N.to_nat m)).
  - rewrite nseq_nth_error by lia. rewrite spec_mips_nth by lia.
    rewrite !N.add_0_l, !N2Nat.id. unfold c_offset, offset_of, part. f_equal. f_equal. lia.
  - intros a _. apply spec_mips_length.
  - lia.
Qed.

(* ------------------------------------------------------------ C08 for textures, arrays, cube maps *)
Definition shape_mips_ok (sh : shape) : Prop :=
  match sh with ShTexture _ _ m | ShArray _ _ _ m _ | ShVolume _ _ _ m => 1 <= m <= 255 end.

Theorem decoder_refines_cursor_tex sh p ops : wf_pixel_info p -> fits sh p -> shape_mips_ok sh ->
  match sh with
  | ShTexture w h m => sim_run p w h m 1 (layout_of_shape sh p) (dec_init (layout_of_shape sh p)) 0 ops
  | ShArray k w h m n => sim_run p w h m n (layout_of_shape sh p) (dec_init (layout_of_shape sh p)) 0 ops
  | ShVolume _ _ _ _ => True
  end.
Proof.
  intros Hp [He Ht] Hm. destruct sh as [w h m|k w h m n|w h d m]; [| |exact I];
    cbn [elem_total exact_total shape_mips_ok layout_of_shape] in *.
  - apply sim_run_holds; try assumption; try lia; try reflexivity;
      try (intros a Ha; discriminate Ha); apply rel_init; try assumption; try lia; reflexivity.
  - apply sim_run_holds; try assumption; try lia; try reflexivity;
      try (intros a Ha; injection Ha as <-; split; reflexivity); apply rel_init; try assumption; try lia; reflexivity.
Qed.

Lemma c_offset_total p w h m n : 1 <= m -> c_offset p w h m (n * m) = sum_lens p w h 0 (N.to_nat m) * n.
Proof.
  intros Hm. unfold c_offset, offset_of, part. rewrite N.div_mul by lia. rewrite N.mod_mul by lia. cbn. lia.
Qed.

Lemma spec_dims2_mips h w hh m : spec_dims2 h = LOk (w, hh, m) -> m = lh_mips h /\ m <= 255.
Proof.
  unfold spec_dims2. destruct (lh_w h =? 0); [discriminate|]. destruct (lh_h h =? 0); [discriminate|].
  destruct (N.ltb_spec 255 (lh_mips h)); [discriminate|]. intros E. injection E as _ _ <-. split; [reflexivity|assumption].
Qed.
Lemma spec_dims3_mips h w hh d m : spec_dims3 h = LOk (w, hh, d, m) -> m = lh_mips h /\ m <= 255.
Proof.
  unfold spec_dims3. destruct (lh_w h =? 0); [discriminate|]. destruct (lh_h h =? 0); [discriminate|].
  destruct (lh_depth h) as [d'|]; [|discriminate]. destruct (d' =? 0); [discriminate|].
  destruct (N.ltb_spec 255 (lh_mips h)); [discriminate|]. intros E. injection E as _ _ _ <-. split; [reflexivity|assumption].
Qed.
Lemma spec_shape_mips h sh : 1 <= lh_mips h -> spec_shape h = LOk sh -> shape_mips_ok sh.
Proof.
  intros H1. unfold spec_shape.
  destruct (lh_dx10 h); [destruct (lh_cube10 h); destruct (lh_dim h)|
    destruct (has_bits (lh_caps2 h) CAPS2_CUBE_MAP); [destruct (has_bits (lh_caps2 h) CAPS2_VOLUME)|destruct (has_bits (lh_caps2 h) CAPS2_VOLUME)]];
  try discriminate;
  try (destruct (spec_dims2 h) as [[[w hh] m]|e] eqn:E2; [destruct (spec_dims2_mips h w hh m E2) as [-> ?]|discriminate]);
  try (destruct (spec_dims3 h) as [[[[w hh] d] m]|e] eqn:E3; [destruct (spec_dims3_mips h w hh d m E3) as [-> ?]|discriminate]);
  try (destruct (lh_array h * 6 <? U32); [|discriminate]);
  try (destruct (lh_array h =? 1));
  intros E; injection E as <-; cbn [shape_mips_ok]; lia.
Qed.

Theorem decoder_refines_cursor_hdr h p L ops :
  wf_pixel_info p -> 1 <= lh_mips h -> from_header_with h p = LOk L ->
  match L with
  | LTexture t => sim_run (t_p t) (t_w t) (t_h t) (t_mips t) 1 L (dec_init L) 0 ops
  | LArray a => sim_run (a_p a) (a_w a) (a_h a) (a_mips a) (a_len a) L (dec_init L) 0 ops
  | LVolume _ => True
  end.
Proof.
  intros Hp H1 H. destruct (from_header_ok_inv h p L H) as [sh [Hs [Hf [-> Hpos]]]].
  pose proof (spec_shape_mips h sh H1 Hs) as Hm.
  pose proof (decoder_refines_cursor_tex sh p ops Hp Hf Hm) as T.
  destruct sh; cbn [layout_of_shape t_p t_w t_h t_mips a_p a_w a_h a_mips a_len] in *; exact T.
Qed.
